(* Proofs_C38.v — lemmas and proofs for C38. *)
From Coq Require Import List NArith ZArith Bool Lia.
Import ListNotations.
From Verif Require Import Base.Val C38.Model_C38 C38.Spec_C38.
Local Open Scope N_scope.

(* ------------------------------------------------------------------ splitlines / rstrip *)
Lemma concat_splitlines t : concat (splitlines t) = t.
Proof.
  induction t as [|c t IH]; cbn [splitlines]; [reflexivity|].
  destruct (ends_line c t).
  - cbn. now rewrite IH.
  - destruct (splitlines t) as [|l r] eqn:E; cbn in *.
    + now rewrite <- IH.
    + now rewrite <- IH.
Qed.

Lemma rstrip_crlf_prefix s : rstrip_crlf s ++ skipn (length (rstrip_crlf s)) s = s.
Proof.
  induction s as [|c s IH]; [reflexivity|].
  cbn [rstrip_crlf]. destruct (all_crlf (c :: s)); cbn; [reflexivity|].
  now rewrite IH.
Qed.

Section Parse.
Variable aof : str -> option str.

Lemma parse_line_raw_eol n line e :
  parse_line aof n line = Ok e -> raw e ++ eol e = line /\ lineno e = n.
Proof.
  unfold parse_line. destruct (split_comment (rstrip_crlf line)) as [[pre sep] cmt].
  destruct (tokens pre) as [|t ks].
  - intros [= <-]; cbn. split; [apply rstrip_crlf_prefix|reflexivity].
  - destruct (aof t); [|discriminate]. intros [= <-]; cbn.
    split; [apply rstrip_crlf_prefix|reflexivity].
Qed.

Lemma parse_lines_render n ls es :
  parse_lines aof n ls = Ok es -> render es = concat ls.
Proof.
  revert n es; induction ls as [|l r IH]; intros n es; cbn [parse_lines].
  - intros [= <-]; reflexivity.
  - destruct (parse_line aof n l) as [e|] eqn:E; [|discriminate].
    destruct (parse_lines aof (n + 1) r) as [es'|] eqn:E'; [|discriminate].
    intros [= <-]. unfold render in *; cbn.
    apply parse_line_raw_eol in E as [-> _]. now rewrite (IH _ _ E').
Qed.

Theorem render_parse_id_proof t es : parse aof t = Ok es -> render es = t.
Proof.
  unfold parse; intros H. rewrite (parse_lines_render _ _ _ H). apply concat_splitlines.
Qed.
End Parse.

(* ------------------------------------------------------------------ character facts *)
Lemma isspace_not_hash c : isspace c = true -> (c =? HASH) = false.
Proof.
  intros H. destruct (c =? HASH) eqn:E; [|reflexivity].
  apply N.eqb_eq in E; subst c. vm_compute in H. discriminate.
Qed.
Lemma crlf_is_lb c : is_crlf c = true -> is_lb c = true.
Proof.
  unfold is_crlf. intros H. apply orb_true_iff in H as [H|H]; apply N.eqb_eq in H; subst; reflexivity.
Qed.
Lemma lb_isspace c : is_lb c = true -> isspace c = true.
Proof.
  unfold is_lb, isspace. intros H.
  repeat (apply orb_true_iff in H as [H|H]);
    repeat match goal with
           | H : (_ && _) = true |- _ => apply andb_true_iff in H as [? ?]
           | H : (_ <=? _) = true |- _ => apply N.leb_le in H
           | H : (_ =? _) = true |- _ => apply N.eqb_eq in H; subst
           end; try reflexivity.
  - assert (E : (9 <=? c) = true) by (apply N.leb_le; lia). rewrite E.
    assert (E' : (c <=? 13) = true) by (apply N.leb_le; lia). rewrite E'. reflexivity.
  - assert (E : (28 <=? c) = true) by (apply N.leb_le; lia).
    assert (E' : (c <=? 32) = true) by (apply N.leb_le; lia). rewrite E, E'.
    cbn. now rewrite orb_true_r.
Qed.
Lemma crlf_isspace c : is_crlf c = true -> isspace c = true.
Proof. intro H. apply lb_isspace, crlf_is_lb, H. Qed.
Lemma isspace_SP : isspace SP = true. Proof. reflexivity. Qed.

Lemma forallb_app' {A} (p : A -> bool) a b : forallb p (a ++ b) = forallb p a && forallb p b.
Proof. induction a; cbn; [reflexivity|]. now rewrite IHa, andb_assoc. Qed.

(* ------------------------------------------------------------------ tokens *)
Definition all_nws (s : str) : bool := forallb notspace s.

Lemma tokens_ws_cons c s : isspace c = true -> tokens (c :: s) = tokens s.
Proof. intros H; cbn. now rewrite H. Qed.
Lemma tokens_ws_app w s : all_ws w = true -> tokens (w ++ s) = tokens s.
Proof.
  induction w as [|c w IH]; cbn [app]; [reflexivity|]. intros H.
  cbn in H. apply andb_true_iff in H as [Hc Hw]. rewrite tokens_ws_cons by assumption. auto.
Qed.
Lemma tokens_all_ws w : all_ws w = true -> tokens w = [].
Proof. intros H. rewrite <- (app_nil_r w). rewrite tokens_ws_app by assumption. reflexivity. Qed.

Lemma tokens_cons2 a b s :
  tokens (a :: b :: s) =
  if isspace a then tokens (b :: s)
  else if isspace b then [a] :: tokens (b :: s)
       else match tokens (b :: s) with t :: r => (a :: t) :: r | [] => [[a]] end.
Proof. reflexivity. Qed.

Lemma tokens_tok_ws t c s :
  t <> [] -> all_nws t = true -> isspace c = true -> tokens (t ++ c :: s) = t :: tokens s.
Proof.
  induction t as [|a t IH]; [congruence|]. intros _ H Hc.
  cbn in H. apply andb_true_iff in H as [Ha Ht]. unfold notspace in Ha. apply negb_true_iff in Ha.
  destruct t as [|b t].
  - cbn. now rewrite Ha, Hc.
  - assert (Hb : isspace b = false).
    { cbn in Ht. apply andb_true_iff in Ht as [Hb _]. now apply negb_true_iff in Hb. }
    change ((a :: b :: t) ++ c :: s) with (a :: b :: (t ++ c :: s)).
    rewrite tokens_cons2, Ha, Hb.
    change (b :: t ++ c :: s) with ((b :: t) ++ c :: s). rewrite IH; [reflexivity|discriminate|assumption|assumption].
Qed.
Lemma tokens_tok t : t <> [] -> all_nws t = true -> tokens t = [t].
Proof.
  induction t as [|a t IH]; [congruence|]. intros _ H.
  cbn in H. apply andb_true_iff in H as [Ha Ht]. unfold notspace in Ha. apply negb_true_iff in Ha.
  destruct t as [|b t].
  - cbn. now rewrite Ha.
  - assert (Hb : isspace b = false).
    { cbn in Ht. apply andb_true_iff in Ht as [Hb _]. now apply negb_true_iff in Hb. }
    rewrite tokens_cons2, Ha, Hb. rewrite IH; [reflexivity|discriminate|assumption].
Qed.
Lemma tokens_app_ws s w : all_ws w = true -> tokens (s ++ w) = tokens s.
Proof.
  intros Hw. induction s as [|c s IH]; cbn [app].
  - now apply tokens_all_ws.
  - cbn [tokens]. destruct (isspace c); [assumption|].
    destruct s as [|d s]; cbn [app].
    + destruct w as [|d w]; [reflexivity|].
      cbn in Hw. apply andb_true_iff in Hw as [Hd Hw']. rewrite Hd.
      rewrite tokens_ws_cons by assumption. now rewrite tokens_all_ws.
    + cbn [app] in IH. rewrite IH. reflexivity.
Qed.

(* span *)
Lemma span_spec p s a b : span p s = (a, b) ->
  s = a ++ b /\ forallb p a = true /\ (match b with [] => True | c :: _ => p c = false end).
Proof.
  revert a b; induction s as [|c s IH]; intros a b; cbn.
  - intros [= <- <-]; auto.
  - destruct (p c) eqn:E.
    + destruct (span p s) as [a' b'] eqn:E'. intros [= <- <-].
      destruct (IH _ _ eq_refl) as (-> & H1 & H2). cbn. rewrite E. auto.
    + intros [= <- <-]. cbn. rewrite E. auto.
Qed.

(* the first token and what follows it *)
Lemma tokens_decomp s w0 r0 t0 r1 :
  span isspace s = (w0, r0) -> span notspace r0 = (t0, r1) ->
  s = w0 ++ t0 ++ r1 /\ all_ws w0 = true /\ all_nws t0 = true /\
  (match r1 with [] => True | c :: _ => isspace c = true end) /\
  tokens s = (if null t0 then [] else t0 :: tokens r1) /\ (t0 = [] -> r1 = []).
Proof.
  intros H0 H1. apply span_spec in H0 as (-> & Hw0 & Hr0). apply span_spec in H1 as (-> & Ht0 & Hr1).
  repeat split; auto.
  - destruct r1; [trivial|]. unfold notspace in Hr1. now apply negb_false_iff in Hr1.
  - rewrite tokens_ws_app by assumption. destruct t0 as [|a t0].
    + cbn. destruct r1 as [|c r1]; [reflexivity|]. exfalso.
      cbn in Hr0. unfold notspace in Hr1. apply negb_false_iff in Hr1. congruence.
    + cbn [null]. destruct r1 as [|c r1].
      * rewrite app_nil_r. apply tokens_tok; [discriminate|assumption].
      * unfold notspace in Hr1. apply negb_false_iff in Hr1.
        rewrite tokens_tok_ws by (try discriminate; assumption).
        now rewrite tokens_ws_cons.
  - intros ->. destruct r1 as [|c r1]; [reflexivity|]. exfalso.
    cbn in Hr0. unfold notspace in Hr1. apply negb_false_iff in Hr1. congruence.
Qed.

(* rstrip_ws / trail_ws *)
Lemma rstrip_trail s : s = rstrip_ws s ++ trail_ws s.
Proof.
  induction s as [|c s IH]; [reflexivity|]. cbn [rstrip_ws trail_ws].
  destruct (all_ws (c :: s)); [reflexivity|]. cbn. now rewrite <- IH.
Qed.
Lemma trail_ws_all_ws s : all_ws (trail_ws s) = true.
Proof.
  induction s as [|c s IH]; [reflexivity|]. cbn [trail_ws].
  destruct (all_ws (c :: s)) eqn:E; assumption.
Qed.
Lemma trail_ws_app_ws a w : all_ws w = true -> trail_ws (a ++ w) = trail_ws a ++ w.
Proof.
  intros Hw. induction a as [|c a IH]; cbn [app].
  - destruct w as [|d w]; [reflexivity|]. cbn [trail_ws]. now rewrite Hw.
  - cbn [trail_ws]. unfold all_ws in *. cbn [forallb]. rewrite forallb_app', Hw, andb_true_r.
    destruct (isspace c && forallb isspace a); [reflexivity|assumption].
Qed.
Lemma trail_ws_app_nws a b : all_ws b = false -> trail_ws (a ++ b) = trail_ws b.
Proof.
  intros Hb. induction a as [|c a IH]; cbn [app]; [reflexivity|].
  cbn [trail_ws]. unfold all_ws in *. cbn [forallb]. rewrite forallb_app', Hb, andb_false_r, andb_false_r.
  assumption.
Qed.
Lemma rstrip_ws_nil s : rstrip_ws s = [] -> all_ws s = true.
Proof. destruct s as [|c s]; [reflexivity|]. cbn [rstrip_ws]. destruct (all_ws (c :: s)); [reflexivity|discriminate]. Qed.
Lemma tokens_rstrip s : tokens (rstrip_ws s) = tokens s.
Proof. rewrite (rstrip_trail s) at 2. now rewrite tokens_app_ws by apply trail_ws_all_ws. Qed.

Lemma last_ws_cons c x : x <> [] -> last_ws (c :: x) = last_ws x.
Proof.
  intros Hx. unfold last_ws. cbn [rev]. destruct (rev x) as [|d r] eqn:E.
  - exfalso. apply Hx. apply (f_equal (@rev N)) in E. now rewrite rev_involutive in E.
  - reflexivity.
Qed.
Lemma last_ws_rstrip s : last_ws (rstrip_ws s) = false.
Proof.
  induction s as [|c s IH]; [reflexivity|]. cbn [rstrip_ws].
  destruct (all_ws (c :: s)) eqn:E; [reflexivity|].
  destruct (rstrip_ws s) as [|d r] eqn:E'.
  - apply rstrip_ws_nil in E'. cbn in E. unfold all_ws in E'. rewrite E', andb_true_r in E.
    unfold last_ws; cbn. assumption.
  - rewrite last_ws_cons by discriminate. assumption.
Qed.
Lemma last_ws_app a b : b <> [] -> last_ws (a ++ b) = last_ws b.
Proof.
  intros Hb. induction a as [|c a IH]; [reflexivity|]. cbn [app].
  rewrite last_ws_cons; [assumption|]. destruct a; cbn; [assumption|discriminate].
Qed.

Lemma tokens_nonempty d s : isspace d = false -> tokens (d :: s) <> [].
Proof.
  intros Hd. destruct s as [|e s]; [cbn; rewrite Hd; discriminate|].
  rewrite tokens_cons2, Hd. destruct (isspace e); [discriminate|].
  destruct (tokens (e :: s)); discriminate.
Qed.
Lemma tokens_nil_all_ws s : tokens s = [] -> all_ws s = true.
Proof.
  induction s as [|c s IH]; [reflexivity|]. intros H. cbn [all_ws forallb].
  destruct (isspace c) eqn:E.
  - rewrite tokens_ws_cons in H by assumption. cbn. now apply IH.
  - exfalso. now apply (tokens_nonempty c s E).
Qed.

(* tokens distribute over ++ when the two parts are separated by whitespace *)
Lemma tokens_app_sep a b :
  last_ws a = true \/ hd_ws b = true \/ b = [] -> tokens (a ++ b) = tokens a ++ tokens b.
Proof.
  induction a as [|c a IH]; intros H; [reflexivity|].
  destruct a as [|d a].
  - cbn [app]. destruct (isspace c) eqn:Ec.
    + now rewrite !tokens_ws_cons by assumption.
    + destruct H as [H|[H|H]].
      * unfold last_ws in H; cbn in H. congruence.
      * destruct b as [|e b]; [discriminate|]. cbn in H.
        rewrite tokens_cons2, Ec, H. cbn. now rewrite Ec.
      * subst b. now rewrite app_nil_r.
  - assert (H' : last_ws (d :: a) = true \/ hd_ws b = true \/ b = []).
    { destruct H as [H|H]; [left|right; assumption]. now rewrite last_ws_cons in H by discriminate. }
    specialize (IH H'). change ((c :: d :: a) ++ b) with (c :: d :: (a ++ b)).
    rewrite !tokens_cons2. change (d :: a ++ b) with ((d :: a) ++ b). rewrite IH.
    destruct (isspace c); [reflexivity|]. destruct (isspace d) eqn:Ed; [reflexivity|].
    destruct (tokens (d :: a)) as [|t r] eqn:Et; [|reflexivity].
    exfalso. now apply (tokens_nonempty d a Ed).
Qed.

(* ------------------------------------------------------------------ the comment regex *)
(* no '#' at a position where a comment may start; pw = the previous character is whitespace
   (or we are at the start of the string) *)
Fixpoint nohash_after (pw : bool) (x : str) : bool :=
  match x with
  | [] => true
  | c :: x' => negb (pw && (c =? HASH)) && nohash_after (isspace c) x'
  end.
Fixpoint ends_ws (pw : bool) (x : str) : bool :=
  match x with [] => pw | c :: x' => ends_ws (isspace c) x' end.

Lemma nohash_app pw x y :
  nohash_after pw (x ++ y) = nohash_after pw x && nohash_after (ends_ws pw x) y.
Proof.
  revert pw; induction x as [|c x IH]; intros pw; cbn; [reflexivity|].
  now rewrite IH, andb_assoc.
Qed.
Lemma nohash_mono b x : nohash_after true x = true -> nohash_after b x = true.
Proof. destruct x as [|c x]; [reflexivity|]. destruct b; cbn; [auto|]. intros H. apply andb_true_iff in H as [_ H]. exact H. Qed.
Lemma nohash_app_true b x y :
  nohash_after b x = true -> nohash_after true y = true -> nohash_after b (x ++ y) = true.
Proof. intros Hx Hy. rewrite nohash_app, Hx. cbn. now apply nohash_mono. Qed.
Lemma nohash_all_ws b w : all_ws w = true -> nohash_after b w = true.
Proof.
  revert b; induction w as [|c w IH]; intros b H; [reflexivity|].
  cbn in H. apply andb_true_iff in H as [Hc Hw]. cbn. rewrite (isspace_not_hash c Hc), andb_false_r. cbn. auto.
Qed.
Lemma nohash_nws k : all_nws k = true -> nohash_after false k = true.
Proof.
  induction k as [|c k IH]; [reflexivity|]. intros H. cbn in H. apply andb_true_iff in H as [Hc Hk].
  unfold notspace in Hc. apply negb_true_iff in Hc. cbn. rewrite Hc. auto.
Qed.
Lemma wf_tok_parts k : wf_tok k ->
  k <> [] /\ all_nws k = true /\ hd_is HASH k = false.
Proof.
  unfold wf_tok, wf_tokb. intros H. apply andb_true_iff in H as [H H3]. apply andb_true_iff in H as [H1 H2].
  repeat split; auto.
  - destruct k; [discriminate|discriminate].
  - now apply negb_true_iff in H3.
Qed.
Lemma nohash_tok k : wf_tok k -> nohash_after true k = true.
Proof.
  intros H. apply wf_tok_parts in H as (Hn & Hw & Hh). destruct k as [|c k]; [reflexivity|].
  cbn in Hh. cbn. rewrite Hh. cbn. cbn in Hw. apply andb_true_iff in Hw as [Hc Hk].
  unfold notspace in Hc. apply negb_true_iff in Hc. rewrite Hc. now apply nohash_nws.
Qed.
Lemma nohash_join ks : Forall wf_tok ks -> nohash_after true (join [SP] ks) = true.
Proof.
  induction 1 as [|k ks Hk Hks IH]; [reflexivity|].
  destruct ks as [|k2 ks]; [now apply nohash_tok|].
  change (join [SP] (k :: k2 :: ks)) with (k ++ [SP] ++ join [SP] (k2 :: ks)).
  apply nohash_app_true; [now apply nohash_tok|]. apply nohash_app_true; [reflexivity|exact IH].
Qed.
Lemma tokens_join ks : Forall wf_tok ks -> tokens (join [SP] ks) = ks.
Proof.
  induction 1 as [|k ks Hk Hks IH]; [reflexivity|].
  apply wf_tok_parts in Hk as (Hn & Hw & _).
  destruct ks as [|k2 ks]; [now apply tokens_tok|].
  change (join [SP] (k :: k2 :: ks)) with (k ++ SP :: join [SP] (k2 :: ks)).
  rewrite tokens_tok_ws by (auto using isspace_SP). now rewrite IH.
Qed.

Lemma split_ws_hash_none x : split_ws_hash x = None -> nohash_after false x = true.
Proof.
  induction x as [|c x IH]; [reflexivity|]. cbn [split_ws_hash].
  destruct (isspace c && hd_is HASH x) eqn:E; [discriminate|].
  destruct (split_ws_hash x) as [[[p w] r]|] eqn:E'; [discriminate|]. intros _.
  specialize (IH eq_refl). cbn. destruct (isspace c) eqn:Ec; [|exact IH].
  cbn in E. destruct x as [|d x]; [reflexivity|]. cbn in E. cbn. rewrite E. cbn. exact IH.
Qed.
Lemma split_ws_hash_some x p w r : split_ws_hash x = Some (p, w, r) ->
  x = p ++ w :: r /\ isspace w = true /\ hd_is HASH r = true /\ nohash_after false p = true.
Proof.
  revert p; induction x as [|c x IH]; intros p; [discriminate|]. cbn [split_ws_hash].
  destruct (isspace c && hd_is HASH x) eqn:E.
  - intros [= <- <- <-]. apply andb_true_iff in E as [E1 E2]. auto.
  - destruct (split_ws_hash x) as [[[p' w'] r']|] eqn:E'; [|discriminate].
    intros [= <- <- <-]. destruct (IH _ eq_refl) as (-> & Hw & Hr & Hp). repeat split; auto.
    cbn. destruct (isspace c) eqn:Ec; [|exact Hp]. cbn in E.
    destruct p' as [|d p']; [reflexivity|]. cbn in E. cbn. rewrite E. exact Hp.
Qed.

Lemma split_comment_spec s pre sep cmt : split_comment s = (pre, sep, cmt) ->
  s = pre ++ sep ++ cmt /\ nohash_after true pre = true /\
  ((sep = [] /\ cmt = []) \/
   (hd_is HASH cmt = true /\ ((sep = [] /\ pre = []) \/ exists w, sep = [w] /\ isspace w = true))).
Proof.
  unfold split_comment. destruct (hd_is HASH s) eqn:Eh.
  - intros [= <- <- <-]. split; [reflexivity|]. split; [reflexivity|]. right. split; [exact Eh|]. left. auto.
  - destruct (split_ws_hash s) as [[[p w] r]|] eqn:E.
    + intros [= <- <- <-]. apply split_ws_hash_some in E as (-> & Hw & Hr & Hp).
      split; [reflexivity|]. split.
      * destruct p as [|c p]; [reflexivity|]. cbn in Eh. cbn. rewrite Eh. exact Hp.
      * right. split; [exact Hr|]. right. exists w. auto.
    + intros [= <- <- <-]. rewrite app_nil_r. split; [reflexivity|]. split; [|left; auto].
      apply split_ws_hash_none in E. destruct s as [|c s]; [reflexivity|].
      cbn in Eh. cbn. rewrite Eh. exact E.
Qed.

Lemma nohash_true_hd x : nohash_after true x = true -> hd_is HASH x = false.
Proof. destruct x as [|c x]; [reflexivity|]. cbn. intros H. apply andb_true_iff in H as [H _]. now apply negb_true_iff in H. Qed.
Lemma nohash_false_none x : nohash_after false x = true -> split_ws_hash x = None.
Proof.
  induction x as [|c x IH]; [reflexivity|]. cbn. intros H.
  assert (E : isspace c && hd_is HASH x = false).
  { destruct (isspace c); [|reflexivity]. cbn. now apply nohash_true_hd. }
  rewrite E. rewrite IH; [reflexivity|]. destruct (isspace c); [now apply nohash_mono|exact H].
Qed.
Lemma split_comment_none x : nohash_after true x = true -> split_comment x = (x, [], []).
Proof.
  intros H. unfold split_comment. rewrite (nohash_true_hd _ H).
  rewrite nohash_false_none; [reflexivity|now apply nohash_mono].
Qed.
Lemma split_ws_hash_app x w cmt :
  nohash_after false x = true -> isspace w = true -> hd_is HASH cmt = true ->
  split_ws_hash (x ++ w :: cmt) = Some (x, w, cmt).
Proof.
  intros Hx Hw Hc. induction x as [|c x IH]; cbn [app split_ws_hash].
  - now rewrite Hw, Hc.
  - cbn in Hx.
    assert (E : isspace c && hd_is HASH (x ++ w :: cmt) = false).
    { destruct (isspace c); [|reflexivity]. cbn. destruct x as [|d x]; cbn.
      - now apply isspace_not_hash.
      - cbn in Hx. apply andb_true_iff in Hx as [Hx _]. now apply negb_true_iff in Hx. }
    rewrite E. rewrite IH; [reflexivity|]. destruct (isspace c); [now apply nohash_mono|exact Hx].
Qed.
Lemma split_comment_app x w cmt :
  nohash_after true x = true -> isspace w = true -> hd_is HASH cmt = true ->
  split_comment (x ++ w :: cmt) = (x, [w], cmt).
Proof.
  intros Hx Hw Hc. unfold split_comment.
  assert (E : hd_is HASH (x ++ w :: cmt) = false).
  { destruct x as [|c x]; cbn; [now apply isspace_not_hash|]. cbn in Hx.
    apply andb_true_iff in Hx as [Hx _]. now apply negb_true_iff in Hx. }
  rewrite E. rewrite split_ws_hash_app; auto using nohash_mono.
Qed.

(* ------------------------------------------------------------------ \r \n at the end of a line *)
Definition nocrlf (s : str) : bool := forallb (fun c => negb (is_crlf c)) s.
Definition nolb (s : str) : bool := forallb (fun c => negb (is_lb c)) s.

Lemma rstrip_crlf_all e : all_crlf e = true -> rstrip_crlf e = [].
Proof. destruct e as [|c e]; [reflexivity|]. cbn [rstrip_crlf]. now intros ->. Qed.
Lemma rstrip_crlf_app r e : nocrlf r = true -> all_crlf e = true -> rstrip_crlf (r ++ e) = r.
Proof.
  intros Hr He. induction r as [|c r IH]; cbn [app]; [now apply rstrip_crlf_all|].
  cbn in Hr. apply andb_true_iff in Hr as [Hc Hr]. apply negb_true_iff in Hc.
  cbn [rstrip_crlf all_crlf forallb]. rewrite Hc. cbn. now rewrite IH.
Qed.
Lemma skipn_app_exact {A} (r e : list A) : skipn (length r) (r ++ e) = e.
Proof. induction r; cbn; auto. Qed.
Lemma nolb_nocrlf s : nolb s = true -> nocrlf s = true.
Proof.
  unfold nolb, nocrlf. induction s as [|c s IH]; [reflexivity|]. cbn. intros H.
  apply andb_true_iff in H as [Hc Hs]. rewrite IH by assumption. rewrite andb_true_r.
  destruct (is_crlf c) eqn:E; [|reflexivity]. apply crlf_is_lb in E. rewrite E in Hc. discriminate.
Qed.
Lemma nws_nocrlf s : all_nws s = true -> nocrlf s = true.
Proof.
  unfold all_nws, nocrlf. induction s as [|c s IH]; [reflexivity|]. cbn. intros H.
  apply andb_true_iff in H as [Hc Hs]. rewrite IH by assumption. rewrite andb_true_r.
  destruct (is_crlf c) eqn:E; [|reflexivity]. apply crlf_isspace in E. unfold notspace in Hc. rewrite E in Hc. discriminate.
Qed.

(* shape of the lines str.splitlines produces *)
Definition line_shape (l : str) : Prop :=
  exists b term, l = b ++ term /\ nolb b = true /\
                 (term = [] \/ (exists c, term = [c] /\ is_lb c = true) \/ term = [CR; LF]).

Lemma splitlines_shape t : Forall line_shape (splitlines t).
Proof.
  induction t as [|c t IH]; cbn [splitlines]; [constructor|].
  destruct (ends_line c t) eqn:E.
  - constructor; [|exact IH]. exists [], [c]. repeat split. right; left. exists c. split; [reflexivity|].
    unfold ends_line in E. now apply andb_true_iff in E as [E _].
  - destruct (is_lb c) eqn:Elb.
    + (* the \r of \r\n *)
      unfold ends_line in E. rewrite Elb in E. cbn in E. apply negb_false_iff in E.
      apply andb_true_iff in E as [E1 E2]. apply N.eqb_eq in E1; subst c.
      destruct t as [|d t]; [discriminate|]. cbn in E2. apply N.eqb_eq in E2; subst d.
      cbn [splitlines] in *. change (ends_line LF t) with true in *. cbn iota in *.
      inversion IH as [|? ? _ IH']; subst. constructor; [|exact IH'].
      exists [], [CR; LF]. repeat split. right; right; reflexivity.
    + destruct (splitlines t) as [|l r].
      * constructor; [|constructor]. exists [c], []. repeat split; [|now left]. cbn. now rewrite Elb.
      * inversion IH as [|? ? (b & term & -> & Hb & Ht) IH']; subst. constructor; [|exact IH'].
        exists (c :: b), term. repeat split; [|exact Ht]. cbn. now rewrite Elb.
Qed.

Lemma line_shape_raw_eol l : line_shape l ->
  exists r e, l = r ++ e /\ nocrlf r = true /\ all_crlf e = true.
Proof.
  intros (b & term & -> & Hb & [->|[(c & -> & Hc)| ->]]).
  - exists b, []. rewrite app_nil_r. auto using nolb_nocrlf.
  - destruct (is_crlf c) eqn:E.
    + exists b, [c]. repeat split; [now apply nolb_nocrlf|]. cbn. now rewrite E.
    + exists (b ++ [c]), []. rewrite app_nil_r. repeat split.
      unfold nocrlf. rewrite forallb_app'. cbn. rewrite E. cbn.
      rewrite andb_true_r. now apply nolb_nocrlf.
  - exists b, [CR; LF]. auto using nolb_nocrlf.
Qed.

(* ------------------------------------------------------------------ with_keywords *)
Lemma trail_ws_tok t : all_nws t = true -> trail_ws t = [].
Proof.
  induction t as [|a t IH]; [reflexivity|]. intros H. cbn in H. apply andb_true_iff in H as [Ha Ht].
  unfold notspace in Ha. apply negb_true_iff in Ha. cbn [trail_ws all_ws forallb]. rewrite Ha. cbn. auto.
Qed.
Lemma rstrip_ws_id t : trail_ws t = [] -> rstrip_ws t = t.
Proof. intros H. rewrite (rstrip_trail t) at 2. now rewrite H, app_nil_r. Qed.
Lemma last_ws_tok t : all_nws t = true -> last_ws t = false.
Proof. intros H. rewrite <- (rstrip_ws_id t) by now apply trail_ws_tok. apply last_ws_rstrip. Qed.
Lemma last_ws_all_ws w : w <> [] -> all_ws w = true -> last_ws w = true.
Proof.
  induction w as [|c w IH]; [congruence|]. intros _ H. cbn in H. apply andb_true_iff in H as [Hc Hw].
  destruct w as [|d w]; [unfold last_ws; cbn; exact Hc|].
  rewrite last_ws_cons by discriminate. apply IH; [discriminate|exact Hw].
Qed.
Lemma all_ws_tokens w : all_ws w = true -> tokens w = [].
Proof. apply tokens_all_ws. Qed.
Lemma hd_ws_rstrip s : hd_ws s = false -> hd_ws (rstrip_ws s) = false.
Proof. destruct s as [|c s]; [reflexivity|]. cbn [rstrip_ws]. destruct (all_ws (c :: s)); [reflexivity|]. auto. Qed.

Lemma wk_decomp body t ks0 w0 r0 t0 r1 w1 r2 :
  tokens body = t :: ks0 ->
  span isspace body = (w0, r0) -> span notspace r0 = (t0, r1) -> span isspace r1 = (w1, r2) ->
  t0 = t /\ t <> [] /\ all_nws t = true /\ all_ws w0 = true /\
  match ks0 with
  | [] => body = (w0 ++ t) ++ trail_ws body
  | _ => body = (w0 ++ t ++ w1) ++ rstrip_ws r2 ++ trail_ws body /\ all_ws w1 = true /\ w1 <> [] /\
         tokens (rstrip_ws r2) = ks0 /\ tightb (rstrip_ws r2) = true
  end.
Proof.
  intros Htok H0 H1 H2.
  destruct (tokens_decomp _ _ _ _ _ H0 H1) as (Hb & Hw0 & Ht0 & Hr1 & Htk & Hnil).
  rewrite Htok in Htk. destruct t0 as [|a t0]; [discriminate|]. change (null (a :: t0)) with false in Htk. cbv iota in Htk.
  injection Htk as -> Hks. split; [reflexivity|]. split; [discriminate|]. split; [exact Ht0|]. split; [exact Hw0|].
  apply span_spec in H2 as (Hr1e & Hw1 & Hr2).
  destruct ks0 as [|k ks0].
  - symmetry in Hks. apply tokens_nil_all_ws in Hks.
    rewrite Hb at 2. rewrite app_assoc. rewrite trail_ws_app_ws by exact Hks.
    rewrite trail_ws_app_nws.
    + rewrite trail_ws_tok by exact Ht0. rewrite Hb at 1. now rewrite app_assoc.
    + cbn in Ht0. apply andb_true_iff in Ht0 as [Ha _]. unfold notspace in Ha. apply negb_true_iff in Ha.
      cbn. now rewrite Ha.
  - assert (Hr2ws : all_ws r2 = false).
    { destruct (all_ws r2) eqn:E; [|reflexivity]. exfalso.
      rewrite Hr1e, tokens_ws_app, (tokens_all_ws r2 E) in Hks by exact Hw1. discriminate. }
    assert (Htb : trail_ws body = trail_ws r2).
    { rewrite Hb, Hr1e. rewrite !app_assoc. now apply trail_ws_app_nws. }
    split.
    + rewrite Htb, <- (rstrip_trail r2). rewrite Hb at 1. rewrite Hr1e. now rewrite <- !app_assoc.
    + split; [exact Hw1|]. split.
      * intros ->. cbn in Hr1e. subst r2. destruct r1 as [|c r1]; [discriminate|]. cbn in Hr2. congruence.
      * split.
        -- rewrite tokens_rstrip. rewrite Hr1e, tokens_ws_app in Hks by exact Hw1. now symmetry.
        -- unfold tightb. rewrite last_ws_rstrip. rewrite hd_ws_rstrip; [reflexivity|].
           destruct r2 as [|c r2]; [reflexivity|exact Hr2].
Qed.

Lemma with_keywords_region e ks pre sep cmt t p :
  split_comment (raw e) = (pre, sep, cmt) -> tokens pre = t :: keywords e ->
  pkg e = Some p -> comment e = cmt ->
  exists pfx mid wsS,
    kw_region e pfx mid (wsS ++ cmt) /\
    with_keywords e ks = rewritten e pfx (wsS ++ cmt) ks /\
    pre ++ sep = pfx ++ mid ++ wsS /\ wsS = trail_ws (pre ++ sep) /\
    tokens pfx = [t] /\
    (keywords e = [] -> last_ws pfx = false) /\ (keywords e <> [] -> last_ws pfx = true).
Proof.
  intros Hsc Htok Hpkg Hcmt.
  destruct (split_comment_spec _ _ _ _ Hsc) as (Hraw & Hpre & Hsep).
  assert (Hsepws : all_ws sep = true).
  { destruct Hsep as [[-> _]|[_ [[-> _]|(w & -> & Hw)]]]; cbn; auto. now rewrite Hw. }
  assert (Htb : tokens (pre ++ sep) = t :: keywords e) by now rewrite tokens_app_ws.
  unfold with_keywords. rewrite Hpkg, Hsc.
  destruct (span isspace (pre ++ sep)) as [w0 r0] eqn:E0.
  destruct (span notspace r0) as [t0 r1] eqn:E1.
  destruct (span isspace r1) as [w1 r2] eqn:E2.
  destruct (wk_decomp _ _ _ _ _ _ _ _ _ Htb E0 E1 E2) as (-> & Htn & Htw & Hw0 & Hd).
  rewrite Htb. pose proof (trail_ws_all_ws (pre ++ sep)) as Htws.
  assert (Hpt : tokens (w0 ++ t) = [t]) by (rewrite tokens_ws_app by exact Hw0; now apply tokens_tok).
  destruct (keywords e) as [|k ks0] eqn:Ek.
  - exists (w0 ++ t), [], (trail_ws (pre ++ sep)).
    split; [|split; [|split; [|split; [|split; [|split]]]]]; auto.
    + constructor.
      * rewrite Hraw, app_assoc, Hd at 1. cbn [app]. now rewrite <- !app_assoc.
      * eauto.
      * intros _. rewrite last_ws_app by exact Htn. now apply last_ws_tok.
      * now rewrite Ek.
      * reflexivity.
      * rewrite Hcmt. eauto.
    + unfold rewritten. rewrite Ek, Hpkg. unfold glue. cbn [null andb].
      f_equal. destruct ks; cbn [null negb]; now rewrite <- !app_assoc.
    + intros _. rewrite last_ws_app by exact Htn. now apply last_ws_tok.
  - destruct Hd as (Hb & Hw1 & Hw1n & Hmid & Htight).
    exists (w0 ++ t ++ w1), (rstrip_ws r2), (trail_ws (pre ++ sep)).
    split; [|split; [|split; [|split; [|split; [|split]]]]]; auto.
    + constructor.
      * rewrite Hraw, app_assoc, Hb at 1. now rewrite <- !app_assoc.
      * exists t. rewrite app_assoc, tokens_app_ws by exact Hw1. exact Hpt.
      * rewrite Ek. discriminate.
      * now rewrite Ek.
      * exact Htight.
      * rewrite Hcmt. eauto.
    + unfold rewritten. rewrite Ek, Hpkg. unfold glue. cbn [null andb app].
Show. Abort.
