(* Pack_C37.v — compact transport of strings in the generated case tables.
   A string c1 c2 ... cn (code points < 2^21) travels as the single number whose binary digits
   are 1 c1 c2 ... cn, 21 bits per code point (the leading 1 keeps leading zeros and the empty
   string).  Not used by any theorem; only by the case tables the harness writes. *)
From Coq Require Import List NArith.
Import ListNotations.
From Verif Require Import Base.Val.

(* the k low bits of p and what is left above them *)
Fixpoint low_bits (k : nat) (p : positive) : N * N :=
  match k with
  | O => (0%N, Npos p)
  | S k' => match p with
            | xH => (1%N, 0%N)
            | xO p' => let (v, r) := low_bits k' p' in (N.double v, r)
            | xI p' => let (v, r) := low_bits k' p' in (N.succ_double v, r)
            end
  end.
Fixpoint unpack (fuel : nat) (n : N) (acc : str) : str :=
  match fuel with
  | O => acc
  | S f => match n with
           | 0%N => acc
           | Npos xH => acc
           | Npos p => let (v, r) := low_bits 21 p in unpack f r (v :: acc)
           end
  end.
Definition U (n : N) : str := unpack (N.to_nat (N.size n)) n [].

Example U_empty : U 1 = []. Proof. reflexivity. Qed.
Example U_id : U ((1 * 2097152 + 105) * 2097152 + 100) = [105; 100]%N. Proof. reflexivity. Qed.
Example U_nul : U (2097152 * 2097152 + 65) = [0; 65]%N. Proof. reflexivity. Qed.
