(* Faults_C27.v — a system call of the store FAILS (OSError) instead of the machine stopping:
   _setitem's own error handling runs.  Readers still see the previous or the new complete entry
   and the listing stays free of partial entries. *)
From Coq Require Import List NArith ZArith Bool Arith Lia.
From Coq Require String.
Import String.StringSyntax.
Import ListNotations.
From Verif Require Import Base.Val C18.Fs C18.FsLemmas C27.Model_C27 C27.Spec_C27 C27.Lemmas_C27 C27.Roundtrip_C27 C27.Proofs_C27.
Local Open Scope N_scope.

(* what every state reachable during/after a store satisfies, relative to the state before:
   paths other than target and staging file are untouched (or directories created where nothing
   was), and the target holds its old node or a complete file with the new text *)
Definition framed (s sk : fs) (tmp target : path) (data : str) : Prop :=
  (forall q, q <> target -> q <> tmp ->
     lookup sk q = lookup s q \/ (lookup s q = None /\ is_dir_opt (lookup sk q))) /\
  (lookup sk target = lookup s target \/
   exists m u g t i, lookup sk target = Some (File data m u g t i)).

Lemma perm_fun_file o d m u g t i : exists m' u' g' t', perm_fun o (File d m u g t i) = File d m' u' g' t' i.
Proof. destruct o; cbn; eauto. Qed.

Lemma fold_perm_file perms : forall d m u g t i,
  exists m' u' g' t', fold_left (fun n o => perm_fun o n) perms (File d m u g t i) = File d m' u' g' t' i.
Proof.
  induction perms as [|o perms IH]; intros d m u g t i; cbn [fold_left]; [eauto|].
  destruct (perm_fun_file o d m u g t i) as (m' & u' & g' & t' & ->). apply IH.
Qed.
Lemma staged_node_file mode chunks perms i :
  exists m u g t, staged_node mode chunks perms i = File (concat chunks) m u g t i.
Proof. unfold staged_node. apply fold_perm_file. Qed.

Lemma store_ops_default s loc pid gid cpv chunks :
  store_ops s loc pid gid cpv chunks = store_ops_with s loc pid cpv chunks (perm_ops (tmp_path loc pid cpv) gid).
Proof. reflexivity. Qed.

(* every crash prefix of the call list, for ANY permission calls between close and rename *)
Theorem store_gen_framed : forall s loc pid cpv chunks perms k,
  cpv <> [] -> Forall (perm_on (tmp_path loc pid cpv)) perms ->
  framed s (run (firstn k (store_ops_with s loc pid cpv chunks perms)) s)
         (tmp_path loc pid cpv) (target_path loc cpv) (concat chunks).
Proof.
  intros s loc pid cpv chunks perms k Hne Hperms.
  set (tmp := tmp_path loc pid cpv) in *. set (target := target_path loc cpv).
  set (rep := replace_ops tmp target MODE_TMP chunks perms).
  set (pre := if isdir s (parent tmp) then [] else mkdir_ops s (parent tmp)).
  assert (Eops : store_ops_with s loc pid cpv chunks perms = pre ++ rep).
  { subst pre rep. unfold store_ops_with. fold tmp target. destruct (isdir s (parent tmp)); reflexivity. }
  assert (Hpre : Forall is_mkdir pre /\ forall p, In p (mkdir_paths pre) -> (length p < length loc + length cpv)%nat).
  { subst pre. destruct (isdir s (parent tmp)).
    - split; [constructor|intros p []].
    - destruct (mkdir_ops_spec s (parent tmp)) as [H1 H2]. split; [exact H1|].
      intros p Hp. apply H2 in Hp. subst tmp. rewrite parent_tmp in Hp.
      pose proof (len_parent loc cpv Hne). lia. }
  destruct Hpre as [Hmk Hlen].
  assert (Htgt_out : ~ In target (mkdir_paths pre))
    by (intro H; apply Hlen in H; subst target; unfold target_path in H; rewrite app_length in H; lia).
  assert (Hne2 : tmp <> target) by (apply tmp_ne_target; exact Hne).
  rewrite Eops, firstn_app, run_app.
  set (a := firstn k pre).
  assert (Ha : Forall is_mkdir a) by (apply firstn_is_mkdir; exact Hmk).
  assert (Hain : forall p, In p (mkdir_paths a) -> In p (mkdir_paths pre)) by (intro p; apply firstn_mkdir_paths).
  assert (Hmid : forall q, lookup (run a s) q = lookup s q \/ (lookup s q = None /\ is_dir_opt (lookup (run a s) q))).
  { intro q. destruct (mkdirs_run a Ha s q) as [E|[E1 [_ E3]]]; [now left|right; now split]. }
  assert (Hmid_tgt : lookup (run a s) target = lookup s target)
    by (apply mkdirs_run_frame; [exact Ha|intro H; apply Htgt_out, Hain, H]).
  destruct (run_opt a s) as [s1|] eqn:Ero.
  - pose proof (run_opt_run _ _ _ Ero) as Es1. rewrite Es1 in Hmid, Hmid_tgt.
    destruct (atomic_replace s1 tmp target MODE_TMP chunks perms (k - length pre) Hne2 Hperms) as [Hfr Hp].
    fold rep in Hfr, Hp. split.
    + intros q Hq1 Hq2. rewrite (Hfr q Hq1 Hq2). apply Hmid.
    + destruct Hp as [Hp|[s2 [Hs2 [Hp _]]]]; [left; congruence|].
      right. rewrite Hp, (staged_complete _ _ _ _ _ _ Hperms Hs2).
      destruct (staged_node_file MODE_TMP chunks perms (fresh_ino s1)) as (m & u & g & t & ->). eauto 8.
  - split; [intros q _ _; apply Hmid|left; exact Hmid_tgt].
Qed.

(* removing the staging file afterwards keeps the frame *)
Lemma framed_unlink s sk tmp target d :
  tmp <> target -> framed s sk tmp target d -> framed s (run [Unlink tmp] sk) tmp target d.
Proof.
  intros Hne [Hfr Htg]. cbn [run]. destruct (apply_op sk (Unlink tmp)) as [s'|] eqn:E; [|split; assumption].
  assert (Hq : forall q, q <> tmp -> lookup s' q = lookup sk q).
  { intros q Hq. eapply apply_op_frame; [exact E|]. cbn. intros [H|[]]. congruence. }
  split.
  - intros q Hq1 Hq2. rewrite (Hq q Hq2). apply Hfr; assumption.
  - rewrite (Hq target) by congruence. exact Htg.
Qed.

Lemma run_snoc a o s : run (a ++ [o]) s = match run_opt a s with Some s1 => run [o] s1 | None => run a s end.
Proof. apply run_app. Qed.

Lemma firstn_full {A} (l : list A) : firstn (length l) l = l.
Proof. apply firstn_all. Qed.

(* THE FRAME after a failing system call *)
Theorem eio_framed_proof : forall s loc pid gid cpv chunks k,
  cpv <> [] ->
  framed s (run (eio_ops s loc pid gid cpv chunks k) s)
         (tmp_path loc pid cpv) (target_path loc cpv) (concat chunks).
Proof.
  intros s loc pid gid cpv chunks k Hne.
  pose proof (tmp_ne_target loc pid cpv Hne) as Hne2.
  assert (Hprefix : forall j, framed s (run (firstn j (store_ops s loc pid gid cpv chunks)) s)
                                (tmp_path loc pid cpv) (target_path loc cpv) (concat chunks)).
  { intro j. rewrite store_ops_default. apply store_gen_framed; [exact Hne|apply perm_ops_ok]. }
  assert (Hfull : forall perms, Forall (perm_on (tmp_path loc pid cpv)) perms ->
            framed s (run (store_ops_with s loc pid cpv chunks perms) s)
                   (tmp_path loc pid cpv) (target_path loc cpv) (concat chunks)).
  { intros perms Hp. rewrite <- (firstn_full (store_ops_with s loc pid cpv chunks perms)).
    apply store_gen_framed; assumption. }
  unfold eio_ops. destruct (nth_error (store_ops s loc pid gid cpv chunks) k) as [o|]; [|apply Hprefix].
  destruct o; try apply Hprefix.
  - (* rename fails: the staging file is removed *)
    rewrite run_snoc. destruct (run_opt (firstn k (store_ops s loc pid gid cpv chunks)) s) as [s1|] eqn:E.
    + apply framed_unlink; [exact Hne2|]. rewrite <- (run_opt_run _ _ _ E). apply Hprefix.
    + apply Hprefix.
  - (* chmod fails *) apply Hfull. repeat constructor.
  - (* chown fails *) apply Hfull. constructor.
Qed.

(* ------------------------------------------------------------------ readers of a framed state *)
Lemma framed_read lay s sk loc pid cpv d :
  framed s sk (tmp_path loc pid cpv) (target_path loc cpv) d ->
  read_entry lay sk loc cpv = read_entry lay s loc cpv \/ read_entry lay sk loc cpv = parse lay d.
Proof.
  intros [_ [H|(m & u & g & t & i & H)]]; unfold read_entry; rewrite H; [now left|now right].
Qed.

Lemma framed_others lay s sk loc pid cpv d cpv' :
  framed s sk (tmp_path loc pid cpv) (target_path loc cpv) d ->
  cpv' <> cpv -> target_path loc cpv' <> tmp_path loc pid cpv -> lookup s (target_path loc cpv') <> None ->
  read_entry lay sk loc cpv' = read_entry lay s loc cpv'.
Proof.
  intros [Hfr _] Hd Ht Hb.
  destruct (Hfr (target_path loc cpv')) as [E|[E _]]; [intro E; apply Hd, (target_inj loc), E|exact Ht| |contradiction].
  unfold read_entry. rewrite E. reflexivity.
Qed.

Lemma framed_listing lay s sk loc pid cpv d :
  framed s sk (tmp_path loc pid cpv) (target_path loc cpv) d ->
  listing_ok lay s sk loc cpv (parse lay d).
Proof.
  intros [Hfr Htg] key Hin. apply keys_gen_spec in Hin as [p [n [E [L ->]]]].
  destruct (path_eq_dec p (tmp_path loc pid cpv)) as [->|Hnt]; [rewrite tmp_not_listable in L; discriminate|].
  destruct (path_eq_dec p (target_path loc cpv)) as [->|Hng].
  - destruct Htg as [Ho|(m & u & g & t & i & Hi)].
    + left. apply keys_gen_spec. exists (target_path loc cpv), n. rewrite <- Ho. auto.
    + right. unfold target_path. rewrite skipn_loc. split; [reflexivity|].
      unfold read_entry. fold (target_path loc cpv). rewrite Hi. reflexivity.
  - destruct (Hfr p Hng Hnt) as [Eq|[_ [m [u [g [t Ed]]]]]].
    + left. apply keys_gen_spec. exists p, n. rewrite <- Eq. auto.
    + rewrite Ed in E. injection E as <-. unfold listable in L. cbn in L. rewrite andb_false_r in L. discriminate.
Qed.

Lemma framed_keeps s sk loc pid cpv d key :
  framed s sk (tmp_path loc pid cpv) (target_path loc cpv) d ->
  In key (keys s loc) -> In key (keys sk loc).
Proof.
  intros [Hfr Htg] Hin. apply keys_gen_spec in Hin as [p [n [E [L ->]]]].
  destruct (path_eq_dec p (tmp_path loc pid cpv)) as [->|Hnt]; [rewrite tmp_not_listable in L; discriminate|].
  apply keys_gen_spec.
  destruct (path_eq_dec p (target_path loc cpv)) as [->|Hng].
  - destruct Htg as [Ho|(m & u & g & t & i & Hi)].
    + exists (target_path loc cpv), n. rewrite Ho. auto.
    + exists (target_path loc cpv), (File d m u g t i). split; [exact Hi|]. split; [|reflexivity].
      transitivity (listable true loc (target_path loc cpv) n); [|exact L].
      apply listable_node. unfold listable in L. destruct (is_dir_node n); [|reflexivity].
      cbn in L. rewrite andb_false_r in L. discriminate L.
  - destruct (Hfr p Hng Hnt) as [Eq|[En _]]; [|congruence].
    exists p, n. rewrite Eq. auto.
Qed.

(* ------------------------------------------------------------------ the fault theorems *)
Theorem store_fault_atomic_proof : forall lay s loc pid gid cpv chunks k,
  cpv <> [] ->
  let sk := run (eio_ops s loc pid gid cpv chunks k) s in
  read_entry lay sk loc cpv = read_entry lay s loc cpv \/
  read_entry lay sk loc cpv = parse lay (concat chunks).
Proof. intros. eapply framed_read. apply eio_framed_proof. assumption. Qed.

Theorem store_fault_others_proof : forall lay s loc pid gid cpv chunks k cpv',
  cpv <> [] -> cpv' <> cpv -> target_path loc cpv' <> tmp_path loc pid cpv ->
  lookup s (target_path loc cpv') <> None ->
  read_entry lay (run (eio_ops s loc pid gid cpv chunks k) s) loc cpv' = read_entry lay s loc cpv'.
Proof. intros. eapply framed_others; eauto. apply eio_framed_proof. assumption. Qed.

Theorem fault_listing_proof : forall lay s loc pid gid cpv chunks k,
  cpv <> [] ->
  let sk := run (eio_ops s loc pid gid cpv chunks k) s in
  listing_ok lay s sk loc cpv (parse lay (concat chunks)) /\
  forall key, In key (keys s loc) -> In key (keys sk loc).
Proof.
  intros lay s loc pid gid cpv chunks k Hne sk. pose proof (eio_framed_proof s loc pid gid cpv chunks k Hne) as F.
  split; [eapply framed_listing; exact F|intros key; eapply framed_keeps; exact F].
Qed.

(* non-vacuity: the rename of a REPLACING store fails; the previous entry is still there, the
   staging file is gone, and the listing is what it was *)
Example ex_fault_rename :
  let k := (length ex_ops_buffered - 1)%nat in
  let sk := run (eio_ops ex_fs LOC 4242 250 ex_cpv (chunks_at_close ex_content) k) ex_fs in
  nth_error ex_ops_buffered k = Some (Rename (tmp_path LOC 4242 ex_cpv) (target_path LOC ex_cpv)) /\
  read_entry Flat sk LOC ex_cpv = read_entry Flat ex_fs LOC ex_cpv /\
  lookup sk (tmp_path LOC 4242 ex_cpv) = None /\ keys sk LOC = keys ex_fs LOC.
Proof. repeat split; vm_compute; reflexivity. Qed.
