import sys, shutil
from harness.common import Check
import harness.c25 as m
chk = Check("C25","quick")
chk.build=lambda *a,**k: True
chk.check_assumptions=lambda *a,**k: True
chk.lint=lambda *a,**k: True
m.main(chk)
print(chk.scratch)
