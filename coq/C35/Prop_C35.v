(* Prop_C35.v — the property theorems of C35 (statements only; proofs in Proofs_C35.v). *)
From Coq Require Import List NArith Bool.
Import ListNotations.
From Verif Require Import Base.Val C41.Lts gen.Tables_protocol C35.Model_C35 C35.Spec_C35 C35.Proofs_C35.

(* table obligation, re-proved against the literals of today's sources: every command literal python
   writes is dispatched by the daemon to the intended arm, every reply literal python expects for a
   command is one the daemon's arm for it writes, every request/notice literal the daemon writes is
   one python handles as such *)
Theorem literals_agree : tables_agree = true.
Proof. exact literals_agree_proof. Qed.
Print Assumptions literals_agree.

Theorem no_deadlock : forall c, reach c -> ~ deadlocked c.
Proof. exact no_deadlock_proof. Qed.
Print Assumptions no_deadlock.

(* FIFO matching for any number of outstanding expects, in every session not (yet) disturbed by a
   die/signal notice, an unlisted command or an error on the python side *)
Theorem replies_matched : forall c, reach c -> disturbed c \/ matched c.
Proof. exact replies_matched_proof. Qed.
Print Assumptions replies_matched.

Theorem expect_reads_own_reply :
  forall c i w kok kbad r g rest,
    reach c -> ~ disturbed c -> py c = PRead1 (i, w) kok kbad -> d2p c = (r, g) :: rest ->
    answers (i, w) (r, g).
Proof. exact expect_reads_own_reply_proof. Qed.
Print Assumptions expect_reads_own_reply.

Theorem unknown_is_error_daemon :
  forall s c f s' out,
    sreact s c f = Some (s', out) -> listed s (see c) = false -> error_reaction s' out = true.
Proof. exact unknown_is_error_daemon_proof. Qed.
Print Assumptions unknown_is_error_daemon.

Theorem unknown_is_error_python :
  forall c h kt r ch c',
    py c = PHand h kt -> isnotice r = false -> handled h r = false ->
    stepf c (LR r ch) = Some c' -> py c' = PExec Err.
Proof. exact handler_read_unknown_proof. Qed.
Print Assumptions unknown_is_error_python.

Theorem notice_ends_session :
  forall c r ch c', isnotice r = true -> stepf c (LR r ch) = Some c' -> py_over (py c') = true.
Proof. exact notice_ends_session_proof. Qed.
Print Assumptions notice_ends_session.

Theorem accepted_trace_is_behaviour :
  forall sandbox os, accepts_obs sandbox os = true ->
    exists ls c, run conf label stepf (conf0 sandbox) ls = Some c
                 /\ obs_list_eqb (project ls) os = true /\ reach c.
Proof. exact accepted_trace_is_behaviour_proof. Qed.
Print Assumptions accepted_trace_is_behaviour.
