(* Proofs_C42.v — lemmas and proofs; the property theorems are re-exported in Prop_C42.v. *)
From Coq Require Import List NArith ZArith Bool Arith Lia Sorting.Sorted Sorting.Permutation.
Import ListNotations.
From Verif Require Import Base.Val C42.Model_C42 C42.Spec_C42.

(* ------------------------------------------------------------------ strings as keys *)
Lemma str_eqb_true a b : str_eqb a b = true -> a = b.
Proof. apply str_eqb_eq. Qed.
Lemma str_eqb_false a b : str_eqb a b = false -> a <> b.
Proof. intros H E. subst. rewrite str_eqb_refl in H. discriminate. Qed.
Lemma str_eqb_neq a b : a <> b -> str_eqb a b = false.
Proof. intro H. destruct (str_eqb a b) eqn:E; [|reflexivity]. apply str_eqb_true in E. contradiction. Qed.

Ltac str_cases a b :=
  let E := fresh "E" in
  destruct (str_eqb a b) eqn:E; [apply str_eqb_true in E | pose proof (str_eqb_false _ _ E)].

(* ------------------------------------------------------------------ mods (association list) *)
Lemma lookup_app k m k0 v :
  lookup k (m ++ [(k0, v)]) =
  match lookup k m with Some x => Some x | None => if str_eqb k k0 then Some v else None end.
Proof.
  induction m as [|[k1 v1] m IH]; cbn.
  - reflexivity.
  - destruct (str_eqb k k1); [reflexivity | exact IH].
Qed.

Lemma lookup_set_tail k k0 t m :
  lookup k (set_tail k0 t m) =
  if str_eqb k k0 then match lookup k0 m with Some (h, _) => Some (h, t) | None => None end
  else lookup k m.
Proof.
  induction m as [|[k1 [h1 t1]] m IH]; cbn.
  - destruct (str_eqb k k0); reflexivity.
  - str_cases k0 k1.
    + subst k1. cbn. str_cases k k0.
      * subst. reflexivity.
      * reflexivity.
    + cbn. str_cases k k1.
      * subst k1. rewrite (str_eqb_neq k k0) by congruence. reflexivity.
      * exact IH.
Qed.

(* ------------------------------------------------------------------ the heap *)
Lemma length_upd h j x : length (upd h j x) = length h.
Proof. revert j; induction h as [|d h IH]; intros [|j]; cbn; auto. Qed.

Lemma nth_error_upd_eq h j x d :
  nth_error h j = Some d -> nth_error (upd h j x) j = Some (d ++ x).
Proof.
  revert j; induction h as [|d0 h IH]; intros [|j]; cbn; intro H; try discriminate.
  - injection H as ->. reflexivity.
  - apply IH. exact H.
Qed.

Lemma nth_error_upd_neq h j x i : i <> j -> nth_error (upd h j x) i = nth_error h i.
Proof.
  revert j i; induction h as [|d0 h IH]; intros [|j] [|i] H; cbn; try reflexivity.
  - contradiction.
  - apply IH. congruence.
Qed.

Lemma upd_two h j a b : upd h j [a; b] = upd (upd h j [a]) j [b].
Proof.
  revert j; induction h as [|d h IH]; intros [|j]; cbn; try reflexivity.
  - rewrite <- app_assoc. reflexivity.
  - rewrite IH. reflexivity.
Qed.

Lemma flat_map_cmds (f : nat -> list cmd) cs :
  flat_map (fun it => match it with ICmd c => [c] | IRef j => f j end) (map ICmd cs) = cs.
Proof. induction cs as [|c cs IH]; cbn; [reflexivity | rewrite IH; reflexivity]. Qed.

Lemma open_not_ref cs cs' j : map ICmd cs = map ICmd cs' ++ [IRef j] -> False.
Proof.
  intro H. assert (I : In (IRef j) (map ICmd cs)).
  { rewrite H. apply in_or_app. right. left. reflexivity. }
  apply in_map_iff in I as [c [Hc _]]. discriminate.
Qed.

(* The chain of chunks hanging off a deque: [Walk h i out e] — starting at deque i, the commands
   met are [out] and the chain ends in the deque e, which holds no reference (it is "open"). *)
Inductive Walk (h : heap) : nat -> list cmd -> nat -> Prop :=
| W_open i cs : nth_error h i = Some (map ICmd cs) -> Walk h i cs i
| W_ref i cs j out e :
    nth_error h i = Some (map ICmd cs ++ [IRef j]) -> i < j -> Walk h j out e ->
    Walk h i (cs ++ out) e.

Lemma Walk_le h i out e : Walk h i out e -> i <= e.
Proof. induction 1; lia. Qed.

Lemma Walk_lt h i out e : Walk h i out e -> i < length h.
Proof. destruct 1 as [i cs H | i cs j out e H _ _]; apply nth_error_Some; congruence. Qed.

(* references point to younger deques, so fuel [length h - i] suffices for flattening *)
Lemma Walk_flat h i out e :
  Walk h i out e -> forall n, length h - i <= n -> flat n h i = out.
Proof.
  induction 1 as [i cs H | i cs j out e H Hij W IH]; intros n Hn.
  - assert (L : i < length h) by (apply nth_error_Some; congruence).
    destruct n as [|n]; [lia|]. cbn [flat].
    rewrite (nth_error_nth _ _ _ H). apply flat_map_cmds.
  - assert (L : i < length h) by (apply nth_error_Some; congruence).
    destruct n as [|n]; [lia|]. cbn [flat].
    rewrite (nth_error_nth _ _ _ H). rewrite flat_map_app, flat_map_cmds. cbn.
    rewrite app_nil_r. rewrite (IH n) by lia. reflexivity.
Qed.

Lemma Walk_app h x i out e : Walk h i out e -> Walk (h ++ x) i out e.
Proof.
  induction 1 as [i cs H | i cs j out e H Hij W IH].
  - apply W_open. rewrite nth_error_app1; [exact H | apply nth_error_Some; congruence].
  - eapply W_ref; [|exact Hij|exact IH].
    rewrite nth_error_app1; [exact H | apply nth_error_Some; congruence].
Qed.

(* extending an open deque that is not the end of the chain changes nothing *)
Lemma Walk_upd_other h i out e :
  Walk h i out e -> forall j cs x, nth_error h j = Some (map ICmd cs) -> e <> j ->
  Walk (upd h j x) i out e.
Proof.
  induction 1 as [i cs0 H | i cs0 j0 out e H Hij W IH]; intros j cs x Hj Ne.
  - apply W_open. rewrite nth_error_upd_neq by exact Ne. exact H.
  - eapply W_ref; [|exact Hij|eapply IH; eassumption].
    rewrite nth_error_upd_neq; [exact H|].
    intro E. subst j. rewrite H in Hj. injection Hj as Hj. symmetry in Hj.
    exact (open_not_ref _ _ _ Hj).
Qed.

(* appending a command to the end of the chain *)
Lemma Walk_upd_cmd h i out e c :
  Walk h i out e -> Walk (upd h e [ICmd c]) i (out ++ [c]) e.
Proof.
  induction 1 as [i cs H | i cs j out e H Hij W IH].
  - apply W_open. rewrite (nth_error_upd_eq _ _ _ _ H), map_app. reflexivity.
  - rewrite <- app_assoc. eapply W_ref; [|exact Hij|exact IH].
    rewrite nth_error_upd_neq; [exact H|]. apply Walk_le in W. lia.
Qed.

(* appending a reference to a fresh empty deque to the end of the chain *)
Lemma Walk_upd_ref h i out e d :
  Walk h i out e -> e < d -> nth_error h d = Some [] -> Walk (upd h e [IRef d]) i out d.
Proof.
  induction 1 as [i cs H | i cs j out e H Hij W IH]; intros Hd Hn.
  - rewrite <- (app_nil_r cs). eapply W_ref.
    + apply nth_error_upd_eq. exact H.
    + exact Hd.
    + apply (W_open _ d []). rewrite nth_error_upd_neq by lia. exact Hn.
  - eapply W_ref; [|exact Hij|apply IH; assumption].
    rewrite nth_error_upd_neq; [exact H|]. apply Walk_le in W. lia.
Qed.

(* ------------------------------------------------------------------ the invariant *)
(* [sp k] is the state of the sequential reference for the package that started as k *)
Record Inv (s : st) (sp : str -> list cmd * str) : Prop := {
  inv_tail : forall k hd tl, lookup k (mods s) = Some (hd, tl) ->
             exists cs, nth_error (hp s) tl = Some (map ICmd cs);
  inv_inj : forall x y hx hy t, lookup x (mods s) = Some (hx, t) -> lookup y (mods s) = Some (hy, t) -> x = y;
  inv_pk : forall k hd tl, lookup k (mods s) = Some (hd, tl) ->
           exists hd' tl', lookup (snd (sp k)) (mods s) = Some (hd', tl')
                           /\ Walk (hp s) hd (fst (sp k)) tl';
  inv_none : forall k, lookup k (mods s) = None -> sp k = ([], k);
  inv_moved : forall x, In x (moved s) -> forall k, snd (sp k) <> x
}.

Lemma Inv_ext s sp sp' : (forall k, sp k = sp' k) -> Inv s sp -> Inv s sp'.
Proof.
  intros E [A B C D F]. split; intros.
  - eapply A; eassumption.
  - eapply B; eassumption.
  - rewrite <- E. eapply C; eassumption.
  - rewrite <- E. apply D; assumption.
  - rewrite <- E. apply F; assumption.
Qed.

Lemma Inv_init : Inv init (fun k => ([], k)).
Proof. split; cbn; intros; try discriminate; try reflexivity; contradiction. Qed.

Lemma touch_lookup x s : exists hd tl, lookup x (mods (touch x s)) = Some (hd, tl).
Proof.
  unfold touch. destruct (lookup x (mods s)) as [[hd tl]|] eqn:E.
  - exists hd, tl. exact E.
  - cbn. rewrite lookup_app, E, str_eqb_refl. eauto.
Qed.

Lemma touch_keeps x y s hd tl :
  lookup y (mods s) = Some (hd, tl) -> lookup y (mods (touch x s)) = Some (hd, tl).
Proof.
  intro H. unfold touch. destruct (lookup x (mods s)); [exact H|]. cbn. rewrite lookup_app, H. reflexivity.
Qed.

Lemma touch_moved x s : moved (touch x s) = moved s.
Proof. unfold touch. destruct (lookup x (mods s)); reflexivity. Qed.

Lemma Inv_touch x s sp : Inv s sp -> Inv (touch x s) sp.
Proof.
  intros I. unfold touch. destruct (lookup x (mods s)) as [p|] eqn:Ex; [exact I|].
  destruct I as [A B C D F].
  assert (Old : forall k hd tl, lookup k (mods s) = Some (hd, tl) -> tl < length (hp s)).
  { intros k hd tl H. destruct (A _ _ _ H) as [cs Hc]. apply nth_error_Some. congruence. }
  split; cbn [hp mods moved]; intros.
  - rewrite lookup_app in H. destruct (lookup k (mods s)) as [[h t]|] eqn:Ek.
    + injection H as -> ->. destruct (A _ _ _ Ek) as [cs Hc]. exists cs.
      rewrite nth_error_app1; [exact Hc | apply nth_error_Some; congruence].
    + destruct (str_eqb k x); [|discriminate]. injection H as <- <-. exists [].
      rewrite nth_error_app2 by lia. rewrite Nat.sub_diag. reflexivity.
  - rewrite lookup_app in H, H0.
    destruct (lookup x0 (mods s)) as [[h1 t1]|] eqn:E1; destruct (lookup y (mods s)) as [[h2 t2]|] eqn:E2.
    + injection H as -> ->. injection H0 as -> ->. eapply B; eassumption.
    + injection H as -> ->. destruct (str_eqb y x); [|discriminate]. injection H0 as _ H0.
      apply Old in E1. lia.
    + injection H0 as -> ->. destruct (str_eqb x0 x); [|discriminate]. injection H as _ H.
      apply Old in E2. lia.
    + str_cases x0 x; [|discriminate]. str_cases y x; [|discriminate]. congruence.
  - rewrite lookup_app in H. destruct (lookup k (mods s)) as [[h t]|] eqn:Ek.
    + injection H as -> ->. destruct (C _ _ _ Ek) as [hd' [tl' [L W]]]. exists hd', tl'. split.
      * rewrite lookup_app, L. reflexivity.
      * apply Walk_app. exact W.
    + str_cases k x; [|discriminate]. subst k. injection H as <- <-.
      rewrite (D _ Ek). cbn. exists (length (hp s)), (length (hp s)). split.
      * rewrite lookup_app, Ek, str_eqb_refl. reflexivity.
      * apply (W_open _ _ []). rewrite nth_error_app2 by lia. rewrite Nat.sub_diag. reflexivity.
  - rewrite lookup_app in H. destruct (lookup k (mods s)) eqn:Ek; [discriminate|]. apply D. exact Ek.
  - eapply F; eassumption.
Qed.

Lemma mem_str_In k l : mem_str k l = true <-> In k l.
Proof.
  unfold mem_str. rewrite existsb_exists. split.
  - intros [y [Hy E]]. apply str_eqb_true in E. subst. exact Hy.
  - intro H. exists k. split; [exact H | apply str_eqb_refl].
Qed.

Lemma remove_str_In k x l : In x (remove_str k l) <-> In x l /\ x <> k.
Proof.
  unfold remove_str. rewrite filter_In. split; intros [H1 H2]; split; try exact H1.
  - apply negb_true_iff, str_eqb_false in H2. congruence.
  - apply negb_true_iff, str_eqb_neq. congruence.
Qed.

Definition sp_step (sp : str -> list cmd * str) (o : op) : str -> list cmd * str :=
  fun k => seq_step (sp k) o.

(* a line whose source was moved away (and not repopulated since) concerns no package *)
Lemma blocked_no_effect s sp src :
  Inv s sp -> In src (moved s) -> forall k, str_eqb src (snd (sp k)) = false.
Proof. intros I H k. apply str_eqb_neq. intro E. exact (inv_moved _ _ I _ H k (eq_sym E)). Qed.

Lemma Inv_step_slot s sp src c :
  Inv s sp -> Inv (step s (OSlot src c)) (sp_step sp (OSlot src c)).
Proof.
  intro I0. cbn [step]. destruct (mem_str src (moved s)) eqn:Em.
  - apply mem_str_In in Em. eapply Inv_ext; [|exact I0].
    intro k. unfold sp_step, seq_step. destruct (sp k) as [out cur] eqn:Ek.
    pose proof (blocked_no_effect _ _ _ I0 Em k) as B. rewrite Ek in B. cbn in B. rewrite B. reflexivity.
  - pose proof (Inv_touch src _ _ I0) as I. destruct (touch_lookup src s) as [hs [ts Ls]].
    set (s1 := touch src s) in *. unfold tail_of. rewrite Ls.
    destruct I as [A B C D F].
    destruct (A _ _ _ Ls) as [css Hts].
    split; cbn [hp mods moved]; intros.
    + destruct (Nat.eq_dec tl ts) as [->|Ne].
      * exists (css ++ [c]). rewrite (nth_error_upd_eq _ _ _ _ Hts), map_app. reflexivity.
      * rewrite nth_error_upd_neq by exact Ne. eapply A; eassumption.
    + eapply B; eassumption.
    + destruct (C _ _ _ H) as [hd' [tl' [L W]]]. unfold sp_step, seq_step.
      destruct (sp k) as [out cur] eqn:Ek. cbn [fst snd] in *.
      str_cases src cur.
      * subst cur. rewrite Ls in L. injection L as <- <-. cbn [fst snd].
        exists hs, ts. split; [exact Ls|]. apply Walk_upd_cmd. exact W.
      * cbn [fst snd]. exists hd', tl'. split; [exact L|].
        eapply Walk_upd_other; [exact W | exact Hts |].
        intro E'. subst tl'. apply H0. eapply B; eassumption.
    + unfold sp_step. rewrite (D _ H). cbn. str_cases src k.
      * subst k. rewrite Ls in H. discriminate.
      * reflexivity.
    + unfold sp_step, seq_step. destruct (sp k) as [out cur] eqn:Ek.
      pose proof (F _ H k) as Fk. rewrite Ek in Fk. cbn in Fk.
      destruct (str_eqb src cur); cbn; exact Fk.
Qed.

Lemma nth_error_two (h : heap) n :
  n = length h ->
  nth_error (h ++ [[]; []]) n = Some [] /\ nth_error (h ++ [[]; []]) (S n) = Some [].
Proof.
  intros ->. split.
  - rewrite nth_error_app2 by lia. rewrite Nat.sub_diag. reflexivity.
  - rewrite nth_error_app2 by lia. replace (S (length h) - length h) with 1 by lia. reflexivity.
Qed.

Lemma Inv_step_move s sp src trg c :
  Inv s sp -> Inv (step s (OMove src trg c)) (sp_step sp (OMove src trg c)).
Proof.
  intro I0. cbn [step]. destruct (mem_str src (moved s)) eqn:Em.
  - apply mem_str_In in Em. eapply Inv_ext; [|exact I0].
    intro k. unfold sp_step, seq_step. destruct (sp k) as [out cur] eqn:Ek.
    pose proof (blocked_no_effect _ _ _ I0 Em k) as B. rewrite Ek in B. cbn in B. rewrite B. reflexivity.
  - pose proof (Inv_touch trg _ _ (Inv_touch src _ _ I0)) as I.
    destruct (touch_lookup src s) as [hs [ts Ls]].
    apply (touch_keeps trg) in Ls.
    destruct (touch_lookup trg (touch src s)) as [ht [tt Lt]].
    assert (Mv : moved (touch trg (touch src s)) = moved s) by (rewrite !touch_moved; reflexivity).
    set (s2 := touch trg (touch src s)) in *.
    rewrite Mv. clearbody s2. clear I0.
    set (n := length (hp s2)).
    destruct I as [A B C D F].
    assert (Old : forall k hd tl, lookup k (mods s2) = Some (hd, tl) -> tl < n).
    { intros k hd tl H. destruct (A _ _ _ H) as [cs Hc]. apply nth_error_Some. congruence. }
    pose proof (Old _ _ _ Ls) as Lts. pose proof (Old _ _ _ Lt) as Ltt.
    destruct (A _ _ _ Ls) as [css Hts].
    destruct (nth_error_two (hp s2) n eq_refl) as [Hn Hd].
    set (h3 := hp s2 ++ [[]; []]) in *.
    assert (H3 : forall i, i < n -> nth_error h3 i = nth_error (hp s2) i).
    { intros i Hi. unfold h3. apply nth_error_app1. exact Hi. }
    unfold tail_of at 1. rewrite Ls.
    set (h4 := upd h3 ts [ICmd c; IRef (S n)]).
    set (m3 := set_tail src n (mods s2)).
    assert (L3 : forall k, lookup k m3 = if str_eqb k src then Some (hs, n) else lookup k (mods s2)).
    { intro k. unfold m3. rewrite lookup_set_tail, Ls. reflexivity. }
    (* the tail of trg at the time its deque receives the reference *)
    assert (T : exists ht' tt', lookup trg m3 = Some (ht', tt')
              /\ (exists t0, lookup trg (mods s2) = Some (ht', t0))
              /\ tt' <> ts /\ tt' < S n
              /\ (exists cs', nth_error h4 tt' = Some (map ICmd cs'))
              /\ (trg <> src -> tt' = tt)
              /\ (forall k h t, k <> trg -> k <> src -> lookup k (mods s2) = Some (h, t) -> t <> tt')).
    { rewrite L3. str_cases trg src.
      - subst trg. exists hs, n. split; [reflexivity|]. split; [eauto|].
        split; [lia|]. split; [lia|]. split.
        + exists []. unfold h4. rewrite nth_error_upd_neq by lia. exact Hn.
        + split; [congruence|]. intros k h t _ _ Hk. apply Old in Hk. lia.
      - exists ht, tt. split; [exact Lt|]. split; [eauto|].
        assert (Ntt : tt <> ts) by (intro E'; subst tt; apply H; eapply B; eassumption).
        split; [exact Ntt|]. split; [lia|]. split.
        + destruct (A _ _ _ Lt) as [cst Hct]. exists cst. unfold h4.
          rewrite nth_error_upd_neq by exact Ntt. rewrite H3 by exact Ltt. exact Hct.
        + split; [reflexivity|]. intros k h t Nk _ Hk E'. subst t. apply Nk. eapply B; eassumption. }
    destruct T as [ht' [tt' [Lt3 [[t0 Lt0] [Ntts [Ltt' [[cs' Htt'] [Ptt Pother]]]]]]]].
    unfold tail_of. rewrite Lt3.
    set (h5 := upd h4 tt' [IRef (S n)]).
    set (m4 := set_tail trg (S n) m3).
    assert (L4 : forall k, lookup k m4 = if str_eqb k trg then Some (ht', S n) else lookup k m3).
    { intro k. unfold m4. rewrite lookup_set_tail, Lt3. reflexivity. }
    (* every entry of the new mods, classified *)
    assert (Cl : forall k hd tl, lookup k m4 = Some (hd, tl) ->
              (k = trg /\ tl = S n /\ hd = ht')
              \/ (k <> trg /\ k = src /\ tl = n /\ hd = hs)
              \/ (k <> trg /\ k <> src /\ lookup k (mods s2) = Some (hd, tl) /\ tl < n)).
    { intros k hd tl H. rewrite L4 in H. str_cases k trg.
      - injection H as <- <-. left. auto.
      - rewrite L3 in H. str_cases k src.
        + injection H as <- <-. right. left. auto.
        + right. right. repeat split; try assumption. eapply Old; eassumption. }
    assert (Hd4 : nth_error h4 (S n) = Some []).
    { unfold h4. rewrite nth_error_upd_neq by lia. exact Hd. }
    assert (Hts3 : nth_error h3 ts = Some (map ICmd css)) by (rewrite H3 by exact Lts; exact Hts).
    split; cbn [hp mods moved]; fold h3 h4 m3 h5 m4.
    + (* tails are open *)
      intros k hd tl H. destruct (Cl _ _ _ H) as [[-> [-> _]] | [[Nk [-> [-> _]]] | [Nk [Nk' [Hk Hl]]]]].
      * exists []. unfold h5. rewrite nth_error_upd_neq by lia. exact Hd4.
      * exists []. unfold h5, h4. rewrite Ptt in * by congruence.
        rewrite !nth_error_upd_neq by lia. exact Hn.
      * destruct (A _ _ _ Hk) as [cs Hc]. exists cs. unfold h5, h4.
        rewrite nth_error_upd_neq by (eapply Pother; eassumption).
        rewrite nth_error_upd_neq by (intro E'; subst tl; apply Nk'; eapply B; eassumption).
        rewrite H3 by exact Hl. exact Hc.
    + (* tails are distinct *)
      intros x y hx hy t Hx Hy.
      destruct (Cl _ _ _ Hx) as [[-> [-> _]] | [[Nx [-> [-> _]]] | [Nx [Nx' [Kx Lx]]]]];
      destruct (Cl _ _ _ Hy) as [[-> [Ey _]] | [[Ny [-> [Ey _]]] | [Ny [Ny' [Ky Ly]]]]];
        try reflexivity; try lia.
      eapply B; eassumption.
    + (* every package: flatten = sequential reference, chain ends in the tail of its current name *)
      intros k hd tl H.
      assert (Hk : exists tl0, lookup k (mods s2) = Some (hd, tl0)).
      { destruct (Cl _ _ _ H) as [[-> [_ ->]] | [[_ [-> [_ ->]]] | [_ [_ [Hk _]]]]]; eauto. }
      destruct Hk as [tl0 Hk].
      destruct (C _ _ _ Hk) as [hd' [tl' [L W]]]. unfold sp_step, seq_step.
      destruct (sp k) as [out cur] eqn:Ek. cbn [fst snd] in *.
      apply (Walk_app _ [[]; []]) in W. fold h3 in W.
      str_cases src cur.
      * subst cur. rewrite Ls in L. injection L as <- <-. cbn [fst snd].
        exists ht', (S n). split; [rewrite L4, str_eqb_refl; reflexivity|].
        unfold h5. eapply Walk_upd_other; [| exact Htt' | lia].
        unfold h4. rewrite upd_two. apply Walk_upd_ref; [apply Walk_upd_cmd; exact W | lia |].
        rewrite nth_error_upd_neq by lia. exact Hd.
      * cbn [fst snd].
        assert (Ntl : tl' <> ts) by (intro E'; subst tl'; apply H0; eapply B; eassumption).
        assert (W4 : Walk h4 hd out tl') by (unfold h4; eapply Walk_upd_other; eassumption).
        str_cases cur trg.
        -- subst cur. assert (Nts : trg <> src) by congruence.
           rewrite Lt in L. injection L as <- <-.
           exists ht', (S n). split; [rewrite L4, str_eqb_refl; reflexivity|].
           unfold h5. rewrite (Ptt Nts). apply Walk_upd_ref; [exact W4 | lia | exact Hd4].
        -- exists hd', tl'. split.
           ++ rewrite L4, (str_eqb_neq _ _ H1), L3, (str_eqb_neq cur src) by congruence. exact L.
           ++ unfold h5. eapply Walk_upd_other; [exact W4 | exact Htt' |].
              eapply Pother; [exact H1 | congruence | exact L].
    + (* untouched names *)
      intros k H. rewrite L4 in H. str_cases k trg; [discriminate|].
      rewrite L3 in H. str_cases k src; [discriminate|].
      unfold sp_step. rewrite (D _ H). cbn. rewrite (str_eqb_neq src k) by congruence. reflexivity.
    + (* moved names carry no package *)
      intros x Hx k. apply remove_str_In in Hx as [Hx Nx]. unfold sp_step, seq_step.
      destruct (sp k) as [out cur] eqn:Ek. str_cases src cur; cbn [snd].
      * congruence.
      * destruct Hx as [<- | Hx]; [congruence|]. rewrite <- Mv in Hx. pose proof (F _ Hx k) as Fk. rewrite Ek in Fk. exact Fk.
Qed.

Lemma Inv_step s sp o : Inv s sp -> Inv (step s o) (sp_step sp o).
Proof.
  destruct o as [src trg c | src c |].
  - apply Inv_step_move.
  - apply Inv_step_slot.
  - intro I. cbn [step]. eapply Inv_ext; [|exact I]. intro k. unfold sp_step, seq_step.
    destruct (sp k); reflexivity.
Qed.

Lemma Inv_run ops : forall s sp, Inv s sp ->
  Inv (fold_left step ops s) (fun k => fold_left seq_step ops (sp k)).
Proof.
  induction ops as [|o ops IH]; intros s sp I; cbn [fold_left].
  - exact I.
  - apply (IH _ (sp_step sp o)). apply Inv_step. exact I.
Qed.

(* the theorem: for ALL op lists (chains, cycles, reuse of names, redundant lines) the flattened
   deque of a name is the sequential reading *)
Theorem updates_is_chain_ops ops k : result (run ops) k = chain_spec k ops.
Proof.
  pose proof (Inv_run ops _ _ Inv_init) as I. fold (run ops) in I.
  unfold result, chain_spec, chain_state.
  destruct (lookup k (mods (run ops))) as [[hd tl]|] eqn:E.
  - destruct (inv_pk _ _ I _ _ _ E) as [hd' [tl' [_ W]]].
    apply (Walk_flat _ _ _ _ W). lia.
  - rewrite (inv_none _ _ I _ E). reflexivity.
Qed.

(* ------------------------------------------------------------------ clauses of the statement *)
(* malformed lines are skipped *)
Lemma skip_ignored_proof k ops1 ops2 :
  chain_spec k (ops1 ++ OSkip :: ops2) = chain_spec k (ops1 ++ ops2).
Proof.
  unfold chain_spec, chain_state. rewrite !fold_left_app. cbn [fold_left].
  destruct (fold_left seq_step ops1 ([], k)) as [o c]. reflexivity.
Qed.

Theorem malformed_skipped_proof ops1 ops2 k :
  result (run (ops1 ++ OSkip :: ops2)) k = result (run (ops1 ++ ops2)) k.
Proof. rewrite !updates_is_chain_ops. apply skip_ignored_proof. Qed.

(* a name in the `moved` table is carried by no package ... *)
Theorem moved_means_unused_proof ops x :
  In x (moved (run ops)) -> forall k, current_name k ops <> x.
Proof.
  intros H k. pose proof (Inv_run ops _ _ Inv_init) as I. fold (run ops) in I.
  exact (inv_moved _ _ I _ H k).
Qed.

Definition op_src (o : op) : option str :=
  match o with OMove s _ _ => Some s | OSlot s _ => Some s | OSkip => None end.

(* ... and a line about such a name ("redundant") changes no package's commands *)
Theorem redundant_ignored_proof ops o rest src k :
  op_src o = Some src -> In src (moved (run ops)) ->
  result (run (ops ++ o :: rest)) k = result (run (ops ++ rest)) k.
Proof.
  intros Ho Hm. unfold run. rewrite !fold_left_app. cbn [fold_left].
  fold (run ops). apply mem_str_In in Hm.
  destruct o as [s t c | s c |]; cbn in Ho; try discriminate; injection Ho as ->;
    cbn [step]; rewrite Hm; reflexivity.
Qed.

(* commands recorded for a name after it became a move target are included: the sequential
   reference continues under the new name *)
Lemma chain_spec_app k ops1 ops2 :
  chain_spec k (ops1 ++ ops2) =
  chain_spec k ops1 ++ chain_spec (current_name k ops1) ops2.
Proof.
  unfold chain_spec, current_name, chain_state. rewrite fold_left_app.
  destruct (fold_left seq_step ops1 ([], k)) as [out cur]. cbn [fst snd].
  revert out cur. induction ops2 as [|o ops2 IH]; intros out cur; cbn [fold_left].
  - rewrite app_nil_r. reflexivity.
  - destruct o as [s t c | s c |]; cbn [seq_step].
    + destruct (str_eqb s cur).
      * rewrite IH. rewrite (IH [c]). rewrite <- app_assoc. reflexivity.
      * apply IH.
    + destruct (str_eqb s cur).
      * rewrite IH. rewrite (IH [c]). rewrite <- app_assoc. reflexivity.
      * apply IH.
    + apply IH.
Qed.

Theorem target_history_included_proof ops1 ops2 k :
  result (run (ops1 ++ ops2)) k =
  result (run ops1) k ++ result (run ops2) (current_name k ops1).
Proof. rewrite !updates_is_chain_ops. apply chain_spec_app. Qed.

(* ------------------------------------------------------------------ file order *)
Lemma str_leb_total a b : str_leb a b = false -> str_leb b a = true.
Proof.
  revert b; induction a as [|x a IH]; intros [|y b]; cbn; intro H; try discriminate; try reflexivity.
  destruct (N.ltb x y) eqn:L; [discriminate|].
  destruct (N.eqb x y) eqn:E.
  - apply N.eqb_eq in E. subst y. rewrite N.ltb_irrefl, N.eqb_refl. apply IH. exact H.
  - apply N.ltb_ge in L. apply N.eqb_neq in E.
    assert (Lt : (y <? x)%N = true) by (apply N.ltb_lt; lia). rewrite Lt. reflexivity.
Qed.

Lemma str_leb_trans a b c : str_leb a b = true -> str_leb b c = true -> str_leb a c = true.
Proof.
  revert b c; induction a as [|x a IH]; intros [|y b] [|z c]; cbn; intros H1 H2;
    try discriminate; try reflexivity.
  destruct (N.ltb x y) eqn:L1; destruct (N.ltb y z) eqn:L2.
  - apply N.ltb_lt in L1, L2. assert (Lt : (x <? z)%N = true) by (apply N.ltb_lt; lia). rewrite Lt. reflexivity.
  - destruct (N.eqb y z) eqn:E2; [|discriminate]. apply N.eqb_eq in E2. subst z. rewrite L1. reflexivity.
  - destruct (N.eqb x y) eqn:E1; [|discriminate]. apply N.eqb_eq in E1. subst y. rewrite L2. reflexivity.
  - destruct (N.eqb x y) eqn:E1; [|discriminate]. destruct (N.eqb y z) eqn:E2; [|discriminate].
    apply N.eqb_eq in E1, E2. subst y z. rewrite L1, N.eqb_refl. eapply IH; eassumption.
Qed.

Lemma str_leb_antisym a b : str_leb a b = true -> str_leb b a = true -> a = b.
Proof.
  revert b; induction a as [|x a IH]; intros [|y b]; cbn; intros H1 H2; try discriminate; try reflexivity.
  destruct (N.ltb x y) eqn:L1.
  - apply N.ltb_lt in L1. assert (L2 : (y <? x)%N = false) by (apply N.ltb_ge; lia). rewrite L2 in H2.
    destruct (N.eqb y x) eqn:E; [apply N.eqb_eq in E; lia | discriminate].
  - destruct (N.eqb x y) eqn:E; [|discriminate]. apply N.eqb_eq in E. subst y.
    rewrite N.ltb_irrefl, N.eqb_refl in H2. f_equal. apply IH; assumption.
Qed.

Lemma insert_perm k x l : Permutation (insert_by k x l) ((k, x) :: l).
Proof.
  induction l as [|[k' x'] l IH]; cbn.
  - apply Permutation_refl.
  - destruct (str_leb k k').
    + apply Permutation_refl.
    + eapply Permutation_trans; [apply perm_skip; exact IH | apply perm_swap].
Qed.

Lemma insert_sorted k x l : StronglySorted key_le l -> StronglySorted key_le (insert_by k x l).
Proof.
  induction 1 as [|[k' x'] l S IH F]; cbn.
  - constructor; constructor.
  - destruct (str_leb k k') eqn:L.
    + constructor; [constructor; assumption|]. constructor; [exact L|].
      eapply Forall_impl; [|exact F]. intros [k2 x2] H. unfold key_le in *. cbn in *.
      eapply str_leb_trans; eassumption.
    + constructor; [exact IH|].
      eapply Permutation_Forall; [apply Permutation_sym, insert_perm|].
      constructor; [|exact F]. unfold key_le. cbn. apply str_leb_total. exact L.
Qed.

Theorem file_order_proof eapi8 files : is_file_order eapi8 files (scan eapi8 files).
Proof.
  split.
  - induction files as [|[name lines] files IH]; cbn.
    + apply Permutation_refl.
    + destruct (file_key eapi8 name) as [k|]; cbn.
      * eapply Permutation_trans; [apply insert_perm | apply perm_skip; exact IH].
      * exact IH.
  - induction files as [|[name lines] files IH]; cbn.
    + constructor.
    + destruct (file_key eapi8 name) as [k|]; [apply insert_sorted; exact IH | exact IH].
Qed.

(* the order does not depend on how the directory happens to list the files *)
Lemma sorted_perm_unique (l1 l2 : list (str * list str)) :
  StronglySorted key_le l1 -> StronglySorted key_le l2 -> Permutation l1 l2 ->
  (forall a b, In a l1 -> In b l1 -> fst a = fst b -> a = b) -> l1 = l2.
Proof.
  intros S1; revert l2. induction S1 as [|a l1 S1 IH F1]; intros l2 S2 P U.
  - apply Permutation_nil in P. subst. reflexivity.
  - destruct S2 as [|b l2 S2 F2]; [apply Permutation_sym, Permutation_nil in P; discriminate|].
    assert (E : a = b).
    { assert (Ia : In a (b :: l2)) by (eapply Permutation_in; [exact P | left; reflexivity]).
      assert (Ib : In b (a :: l1)) by (eapply Permutation_in; [apply Permutation_sym; exact P | left; reflexivity]).
      destruct Ia as [<- | Ia]; [reflexivity|]. destruct Ib as [<- | Ib]; [reflexivity|].
      rewrite Forall_forall in F1, F2. apply F1 in Ib. apply F2 in Ia. unfold key_le in *.
      apply U; [left; reflexivity | | apply str_leb_antisym; assumption].
      eapply Permutation_in; [apply Permutation_sym; exact P | left; reflexivity]. }
    subst b. f_equal. apply IH; [exact S2 | eapply Permutation_cons_inv; exact P |].
    intros x y Hx Hy. apply U; right; assumption.
Qed.

Lemma keyed_perm eapi8 f1 f2 : Permutation f1 f2 -> Permutation (keyed eapi8 f1) (keyed eapi8 f2).
Proof.
  unfold keyed. induction 1; cbn.
  - apply Permutation_refl.
  - apply Permutation_app_head. assumption.
  - rewrite !app_assoc. apply Permutation_app_tail. apply Permutation_app_comm.
  - eapply Permutation_trans; eassumption.
Qed.

Theorem file_order_independent_proof eapi8 files files' :
  Permutation files files' ->
  (forall a b, In a (keyed eapi8 files) -> In b (keyed eapi8 files) -> fst a = fst b -> a = b) ->
  scan eapi8 files = scan eapi8 files'.
Proof.
  intros P U. destruct (file_order_proof eapi8 files) as [P1 S1].
  destruct (file_order_proof eapi8 files') as [P2 S2].
  apply sorted_perm_unique; try assumption.
  - eapply Permutation_trans; [exact P1|]. eapply Permutation_trans; [|apply Permutation_sym; exact P2].
    apply keyed_perm. exact P.
  - intros a b Ha Hb. apply U; eapply Permutation_in; try exact P1; assumption.
Qed.

(* ------------------------------------------------------------------ the property, end to end *)
Theorem updates_is_chain_proof eapi8 files k :
  exists ordered, is_file_order eapi8 files ordered /\
    read_updates eapi8 files k = chain_spec k (map parse_line (concat (map snd ordered))).
Proof.
  exists (scan eapi8 files). split; [apply file_order_proof|].
  unfold read_updates, all_lines. apply updates_is_chain_ops.
Qed.

(* ------------------------------------------------------------------ non-vacuity *)
Local Notation s := s2l.
Local Open Scope bs_scope.
(* quarter files listed out of order; a chain a/p -> a/q -> a/r over three files with a slotmove of
   the intermediate name, a redundant repeat, a malformed line and an incorrectly named file *)
Example ex_chain :
  read_updates false
    [ (s "1Q-2020", [s "slotmove a/q 0 1"; s "move a/p a/q"; s "move a/q"; s "move a/q a/r"]);
      (s "frobnicate", [s "move a/p b/s"]);
      (s "4Q-2019", [s "move a/p a/q"]);
      (s "2Q-2020", [s "slotmove =a/r-1 1 2"]) ] (s "a/p")
  = [CMove (s "a/p") (s "a/q"); CSlot (s "a/q:0") (s "1"); CMove (s "a/q") (s "a/r");
     CSlot (s "=a/r-1:1") (s "2")].
Proof. vm_compute. reflexivity. Qed.

(* a cycle a/p -> a/q -> a/p: the name a/p carries the package again, its later commands count *)
Example ex_cycle :
  map (fun k => length (read_updates false
    [ (s "1Q-2020", [s "move a/p a/q"; s "move a/q a/p"; s "slotmove a/p 0 1"; s "move a/p a/r"]) ] (s k)))
    ["a/p"; "a/q"; "a/r"]
  = [4; 3; 0]%nat.
Proof. vm_compute. reflexivity. Qed.

(* a name that was moved away is reused as a target: the two packages keep separate histories *)
Example ex_reuse :
  map (fun k => read_updates false
    [ (s "1Q-2020", [s "move a/q a/r"; s "move a/p a/q"; s "slotmove a/q 0 1"; s "slotmove a/r 0 2"]) ] (s k))
    ["a/p"; "a/q"]
  = [ [CMove (s "a/p") (s "a/q"); CSlot (s "a/q:0") (s "1")];
      [CMove (s "a/q") (s "a/r"); CSlot (s "a/r:0") (s "2")] ].
Proof. vm_compute. reflexivity. Qed.

Example ex_moved_nonempty :
  moved (run (map parse_line [s "move a/p a/q"; s "move a/q a/p"])) = [s "a/q"].
Proof. vm_compute. reflexivity. Qed.

Example ex_malformed :
  map parse_line [s ""; s "move a/p"; s "move =a/p-1 a/q"; s "slotmove a/p:0 0 1"; s "move ap a/q";
                  s "frob a/p a/q"; s "slotmove a/p 0 -x"]
  = [OSkip; OSkip; OSkip; OSkip; OSkip; OSkip; OSkip].
Proof. vm_compute. reflexivity. Qed.
