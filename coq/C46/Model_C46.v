(* Model_C46.v — executable model of `pclean dist` (src/pkgcore/scripts/pclean.py):
   the option glue (_setup_shared_opts, parse_time, parse_size, _setup_file_opts,
   _setup_restrictions), the set algebra of _dist_validate_args and the runner _remove.
   No proofs here.

   Abstractions (tied by the correspondence run only):
   * a distfile name is an id (N); the harness numbers the distinct names in sorted order,
     so "sorted by name" is "sorted by id";
   * a package pattern (exclusion pattern or cleaning target) is an id; which packages a
     pattern matches is data of the package ([p_pats]);
   * which distdir files the name regexes derived from the matched packages select is the
     predicate [selected] (a parameter of every function; [run] instantiates it with the
     list recorded in the input).

   The model describes the behaviour WITH the repair fixes/C46-exclude-exists.patch
   ([scan_fixed]); the behaviour before the repair is [scan_old] and is kept so that the
   defect stays a checked statement (Proofs_C46.old_exists_clause_refuted). *)
From Coq Require Import List NArith ZArith Bool.
Import ListNotations.
From Verif Require Import Base.Val.

Definition file := N.
Definition pat := N.

Definition memN (x : N) (l : list N) : bool := existsb (N.eqb x) l.
Definition is_nil {A} (l : list A) : bool := match l with [] => true | _ => false end.

(* ------------------------------------------------------------------ command line *)
Inductive tok :=
| TInst | TExists | TFetch | TPretend           (* -I  -E  -f  -p *)
| TExcl (ps : list pat)                         (* -x p1,p2,…  (csv action: empty items dropped) *)
| TMod (s : str)                                (* -m STR *)
| TSize (s : str)                               (* -s STR *)
| TTarget (p : pat).                            (* positional *)

Record opts := {
  o_inst : bool; o_exists : bool; o_fetch : bool; o_pretend : bool;
  o_excl : list pat;            (* the csv action stores: the last -x wins *)
  o_targets : list pat;
  o_mod : option Z;             (* seconds before "now" *)
  o_size : option Z }.

Definition is_digit (c : N) : bool := (48 <=? c)%N && (c <=? 57)%N.

(* (\d+) greedy, then the rest *)
Fixpoint digits (s : str) (acc : Z) (any : bool) : option (Z * str) :=
  match s with
  | c :: r => if is_digit c then digits r (acc * 10 + Z.of_N (c - 48)) true
              else if any then Some (acc, s) else None
  | [] => if any then Some (acc, []) else None
  end.

(* `$` also matches before one final newline *)
Definition strip_nl (s : str) : str :=
  match rev s with 10%N :: r => rev r | _ => s end.

Fixpoint lookup (u : str) (tbl : list (str * Z)) : option Z :=
  match tbl with
  | [] => None
  | (k, v) :: t => if str_eqb k u then Some v else lookup u t
  end.

Definition time_units : list (str * Z) :=
  [([115]%N, 1%Z);                      (* s *)
   ([109;105;110]%N, 60%Z);             (* min *)
   ([104]%N, 3600%Z);                   (* h *)
   ([100]%N, 86400%Z);                  (* d *)
   ([119]%N, 604800%Z);                 (* w *)
   ([109]%N, 2592000%Z);                (* m = 30 d *)
   ([121]%N, 31536000%Z)].              (* y = 365 d *)
Definition size_units : list (str * Z) :=
  [([66]%N, 1%Z); ([75]%N, 1024%Z); ([77]%N, 1048576%Z); ([71]%N, 1073741824%Z)].

(* parse_time / parse_size: ^(\d+)(unit)$ -> value * unit *)
Definition parse_qty (tbl : list (str * Z)) (s : str) : option Z :=
  match digits s 0 false with
  | Some (v, rest) =>
      match lookup (strip_nl rest) tbl with
      | Some u => Some (v * u)%Z
      | None => None
      end
  | None => None
  end.

Definition opts0 : opts :=
  {| o_inst := false; o_exists := false; o_fetch := false; o_pretend := false;
     o_excl := []; o_targets := []; o_mod := None; o_size := None |}.

(* pattern id 0 is the one syntactically invalid pattern the generator uses ("=cat/pkg") *)
Definition bad_pat (p : pat) : bool := N.eqb p 0.

Fixpoint parse_toks (ts : list tok) (o : opts) : option opts :=
  match ts with
  | [] => Some o
  | t :: r =>
      match t with
      | TInst => parse_toks r {| o_inst := true; o_exists := o_exists o; o_fetch := o_fetch o; o_pretend := o_pretend o;
                                o_excl := o_excl o; o_targets := o_targets o; o_mod := o_mod o; o_size := o_size o |}
      | TExists => parse_toks r {| o_inst := o_inst o; o_exists := true; o_fetch := o_fetch o; o_pretend := o_pretend o;
                                o_excl := o_excl o; o_targets := o_targets o; o_mod := o_mod o; o_size := o_size o |}
      | TFetch => parse_toks r {| o_inst := o_inst o; o_exists := o_exists o; o_fetch := true; o_pretend := o_pretend o;
                                o_excl := o_excl o; o_targets := o_targets o; o_mod := o_mod o; o_size := o_size o |}
      | TPretend => parse_toks r {| o_inst := o_inst o; o_exists := o_exists o; o_fetch := o_fetch o; o_pretend := true;
                                o_excl := o_excl o; o_targets := o_targets o; o_mod := o_mod o; o_size := o_size o |}
      | TExcl ps => parse_toks r {| o_inst := o_inst o; o_exists := o_exists o; o_fetch := o_fetch o; o_pretend := o_pretend o;
                                o_excl := ps; o_targets := o_targets o; o_mod := o_mod o; o_size := o_size o |}
      | TTarget p => parse_toks r {| o_inst := o_inst o; o_exists := o_exists o; o_fetch := o_fetch o; o_pretend := o_pretend o;
                                o_excl := o_excl o; o_targets := o_targets o ++ [p]; o_mod := o_mod o; o_size := o_size o |}
      | TMod s =>
          match parse_qty time_units s with
          | Some z => parse_toks r {| o_inst := o_inst o; o_exists := o_exists o; o_fetch := o_fetch o; o_pretend := o_pretend o;
                                o_excl := o_excl o; o_targets := o_targets o; o_mod := Some z; o_size := o_size o |}
          | None => None                      (* ArgumentTypeError -> usage error *)
          end
      | TSize s =>
          match parse_qty size_units s with
          | Some z => parse_toks r {| o_inst := o_inst o; o_exists := o_exists o; o_fetch := o_fetch o; o_pretend := o_pretend o;
                                o_excl := o_excl o; o_targets := o_targets o; o_mod := o_mod o; o_size := Some z |}
          | None => None
          end
      end
  end.

(* the whole parse: option values first (argparse; a bad -m/-s value is a usage error), then
   the delayed validations in priority order: _setup_shared_opts converts the effective
   exclusion list (an unparsable pattern escapes as a TypeError: convert_to_restrict builds
   argparse.ArgumentError with one argument), then _setup_restrictions parses the targets
   (an unparsable target is a usage error). *)
Inductive parsed := POk (o : opts) | PUsage | PCrash.
Definition parse_argv (ts : list tok) : parsed :=
  match parse_toks ts opts0 with
  | Some o => if existsb bad_pat (o_excl o) then PCrash
              else if existsb bad_pat (o_targets o) then PUsage else POk o
  | None => PUsage
  end.

(* ------------------------------------------------------------------ the world *)
Record pkg := { p_files : list file;      (* flattened raw distfiles (all USE branches) *)
                p_fetch : bool;           (* "fetch" in RESTRICT *)
                p_pats : list pat }.      (* the patterns that match this package *)
Record finfo := { f_id : file; f_age : Z (* now - mtime, seconds *); f_size : Z }.
Record world := { w_all : list finfo;           (* the regular files of DISTDIR *)
                  w_repo : list pkg;            (* packages of the source repositories *)
                  w_inst : list (list file) }.  (* distfiles of each installed package *)

Definition matches (ps : list pat) (p : pkg) : bool := existsb (fun x => memN x (p_pats p)) ps.

(* namespace.restrict: [Not (Or excludes)] ++ [Or targets]; truthy iff non-empty *)
Definition has_restrict (o : opts) : bool := negb (is_nil (o_excl o)) || negb (is_nil (o_targets o)).
Definition restrict_match (o : opts) (p : pkg) : bool :=
  (is_nil (o_excl o) || negb (matches (o_excl o) p))
  && (is_nil (o_targets o) || matches (o_targets o) p).

Definition files_of (ps : list pkg) : list file := flat_map p_files ps.

(* when is the whole repository scanned for exists_dist / restricted_dist *)
Definition scan_fixed (o : opts) : bool := o_fetch o || o_exists o.
Definition scan_old (o : opts) : bool := o_fetch o || (o_exists o && negb (has_restrict o)).

Section Algebra.
  Variable scan : opts -> bool.
  Variable selected : file -> bool.

  Definition installed_dist (o : opts) (w : world) : list file :=
    if o_inst o then concat (w_inst w) else [].
  Definition exists_dist (o : opts) (w : world) : list file :=
    (if scan o then files_of (w_repo w) else [])
    ++ (if has_restrict o && o_exists o then files_of (filter (restrict_match o) (w_repo w)) else []).
  Definition restricted_dist (o : opts) (w : world) : list file :=
    if scan o then files_of (filter p_fetch (w_repo w)) else [].
  Definition excludes_dist (o : opts) (w : world) : list file :=
    if is_nil (o_excl o) then [] else files_of (filter (matches (o_excl o)) (w_repo w)).
  Definition saving (o : opts) (w : world) : list file :=
    installed_dist o w ++ exists_dist o w ++ excludes_dist o w ++ restricted_dist o w.

  Definition all_ids (w : world) : list file := map f_id (w_all w).

  Definition target_files (o : opts) (w : world) : list file :=
    if has_restrict o then
      match filter (restrict_match o) (w_repo w) with
      | [] => []                                   (* target_dist empty: nothing selected *)
      | _ :: _ => filter selected (all_ids w)
      end
    else all_ids w.

  (* Filters.run over the -m / -s lambdas *)
  Definition passes (o : opts) (f : finfo) : bool :=
    match o_mod o with Some t => (t <? f_age f)%Z | None => true end
    && match o_size o with Some s => (f_size f <? s)%Z | None => true end.

  Fixpoint insert (f : finfo) (l : list finfo) : list finfo :=
    match l with
    | [] => [f]
    | g :: r => if (f_id f <=? f_id g)%N then f :: l else g :: insert f r
    end.
  Definition sort_files (l : list finfo) : list finfo := fold_right insert [] l.

  (* namespace.remove, in order *)
  Definition removed (o : opts) (w : world) : list finfo :=
    filter (passes o)
      (filter (fun f => memN (f_id f) (target_files o w) && negb (memN (f_id f) (saving o w)))
              (sort_files (w_all w))).
End Algebra.

(* ------------------------------------------------------------------ the runner *)
Record input := { i_argv : list tok; i_world : world; i_sel : list file; i_tty : bool }.

(* what _remove leaves in DISTDIR (sorted ids) and what it prints (ids, in order) *)
Definition outcome (scan : opts -> bool) (i : input) : option (list file * list file) :=
  match parse_argv (i_argv i) with
  | POk o =>
      let w := i_world i in
      let rm := map f_id (removed scan (fun f => memN f (i_sel i)) o w) in
      let everything := map f_id (sort_files (w_all w)) in
      if i_tty i && negb (o_pretend o)
      then Some (filter (fun f => negb (memN f rm)) everything, [])
      else Some (everything, rm)
  | _ => None                              (* nothing is removed, nothing printed *)
  end.

Definition enc_ids (l : list N) : val := VL (map (fun x => VZ (Z.of_N x)) l).
Definition usage_error : val := VErr [117;115;97;103;101]%N.             (* "usage" *)
Definition crash_error : val := VErr [84;121;112;101;69;114;114;111;114]%N.  (* "TypeError" *)

(* recorded result: [status; files left (sorted); printed removal list (in order)];
   on a usage error / crash nothing is removed and nothing is printed *)
Definition everything (i : input) : list file := map f_id (sort_files (w_all (i_world i))).
Definition run (i : input) : val :=
  match outcome scan_fixed i with
  | Some (kept, printed) => VL [VNone; enc_ids kept; enc_ids printed]
  | None => VL [match parse_argv (i_argv i) with PCrash => crash_error | _ => usage_error end;
                enc_ids (everything i); enc_ids []]
  end.

(* compact constructors for the generated cases files (positional, scopes bound by type) *)
Definition mkf (i : N) (a s : Z) : finfo := {| f_id := i; f_age := a; f_size := s |}.
Definition mkp (fs : list N) (fe : bool) (ps : list N) : pkg := {| p_files := fs; p_fetch := fe; p_pats := ps |}.
Definition mki (argv : list tok) (a : list finfo) (r : list pkg) (inst : list (list N))
               (sel : list N) (tty : bool) : input :=
  {| i_argv := argv; i_world := {| w_all := a; w_repo := r; w_inst := inst |}; i_sel := sel; i_tty := tty |}.
Definition res (st : val) (kept printed : list N) : val := VL [st; enc_ids kept; enc_ids printed].

(* stream "qty": parse_time / parse_size alone; fst = false: time, true: size *)
Definition run_qty (i : bool * str) : val :=
  match parse_qty (if fst i then size_units else time_units) (snd i) with
  | Some z => VZ z
  | None => usage_error
  end.
