(* Proofs_C07.v — lemmas and proofs for C07 (see Prop_C07.v for the statements). *)
From Coq Require Import List NArith ZArith Bool Lia.
Import ListNotations.
From Verif Require Import Base.Val gen.Tables_C01 gen.Tables_C07 C01.Model_C01 C06.Restr C07.Model_C07 C07.Spec_C07.

Definition cfg_fixed : cfg := {| udc_keyed := true |}.
Definition cfg_pinned : cfg := {| udc_keyed := false |}.

(* ================================================================== the model's key tuples are the source's *)
(* The equality / hash functions of Model_C07 hard-wire which attributes are compared.  These examples tie
   them to the tuples regenerated from today's source (gen/Tables_C07.v): an edited __attr_comparison__
   or hashed tuple breaks the build. *)
Definition S (l : list N) : str := l.
Example tbl_exact_ok : tbl_StrExactMatch =
  [S [101;120;97;99;116]; S [99;97;115;101;95;115;101;110;115;105;116;105;118;101]; S [110;101;103;97;116;101]]%N.
Proof. reflexivity. Qed.
Example tbl_glob_ok : tbl_StrGlobMatch =
  [S [103;108;111;98]; S [112;114;101;102;105;120]; S [110;101;103;97;116;101]; S [102;108;97;103;115]]%N.
Proof. reflexivity. Qed.
Example tbl_regex_ok : tbl_StrRegex =
  [S [114;101;103;101;120]; S [110;101;103;97;116;101]; S [102;108;97;103;115]; S [105;115;109;97;116;99;104]]%N.
Proof. reflexivity. Qed.
Example tbl_cont_ok : tbl_ContainmentMatch = [S [118;97;108;115]; S [97;108;108]; S [110;101;103;97;116;101]]%N.
Proof. reflexivity. Qed.
Example tbl_pr_ok : tbl_PackageRestriction =
  [S [95;95;99;108;97;115;115;95;95]; S [110;101;103;97;116;101]; S [95;97;116;116;114;95;115;112;108;105;116];
   S [114;101;115;116;114;105;99;116;105;111;110]]%N.
Proof. reflexivity. Qed.
Example tbl_cond_ok : tbl_Conditional =
  [S [95;95;99;108;97;115;115;95;95]; S [110;101;103;97;116;101]; S [97;116;116;114];
   S [114;101;115;116;114;105;99;116;105;111;110]; S [112;97;121;108;111;97;100]]%N.
Proof. reflexivity. Qed.
Example tbl_bool_ok : tbl_boolean_base =
  [S [95;95;99;108;97;115;115;95;95]; S [110;101;103;97;116;101]; S [116;121;112;101];
   S [114;101;115;116;114;105;99;116;105;111;110;115]]%N.
Proof. reflexivity. Qed.
Example tbl_atom_ok : tbl_atom =
  [S [99;112;118;115;116;114]; S [111;112]; S [98;108;111;99;107;115]; S [110;101;103;97;116;101;95;118;101;114;115];
   S [117;115;101]; S [115;108;111;116]; S [115;117;98;115;108;111;116];
   S [115;108;111;116;95;111;112;101;114;97;116;111;114]; S [114;101;112;111;95;105;100]]%N.
Proof. reflexivity. Qed.
(* repaired _VersionMatch.__hash__: hash((self.droprev, self.ver, self.rev, self._convert_ops(self))) *)
Example tbl_hash_vm_ok : tbl_hash_VersionMatch =
  [S [100;114;111;112;114;101;118]; S [118;101;114]; S [114;101;118];
   S [95;99;111;110;118;101;114;116;95;111;112;115;40;41]]%N.
Proof. reflexivity. Qed.
Example tbl_hash_pr_ok : tbl_hash_PackageRestriction =
  [S [110;101;103;97;116;101]; S [97;116;116;114;115]; S [114;101;115;116;114;105;99;116;105;111;110]]%N.
Proof. reflexivity. Qed.
Example tbl_hash_cond_ok : tbl_hash_Conditional =
  [S [97;116;116;114]; S [110;101;103;97;116;101]; S [114;101;115;116;114;105;99;116;105;111;110];
   S [112;97;121;108;111;97;100]]%N.
Proof. reflexivity. Qed.

(* ================================================================== boolean equalities *)
Lemma lstr_eqb_eq a b : lstr_eqb a b = true -> a = b.
Proof.
  revert b; induction a as [|x a IH]; intros [|y b] H; cbn in H; try discriminate; [reflexivity|].
  apply andb_true_iff in H as [H1 H2]. apply str_eqb_eq in H1. f_equal; auto.
Qed.
Lemma llstr_eqb_eq a b : llstr_eqb a b = true -> a = b.
Proof.
  revert b; induction a as [|x a IH]; intros [|y b] H; cbn in H; try discriminate; [reflexivity|].
  apply andb_true_iff in H as [H1 H2]. apply lstr_eqb_eq in H1. f_equal; auto.
Qed.
Lemma list_Z_eqb_eq a b : list_Z_eqb a b = true -> a = b.
Proof.
  revert b; induction a as [|x a IH]; intros [|y b] H; cbn in H; try discriminate; [reflexivity|].
  apply andb_true_iff in H as [H1 H2]. apply Z.eqb_eq in H1. f_equal; auto.
Qed.
Lemma optN_eqb_eq a b : optN_eqb a b = true -> a = b.
Proof. destruct a, b; cbn; intro H; try discriminate; [apply N.eqb_eq in H; congruence|reflexivity]. Qed.
Lemma optstr_eqb_eq a b : optstr_eqb a b = true -> a = b.
Proof. destruct a, b; cbn; intro H; try discriminate; [apply str_eqb_eq in H; congruence|reflexivity]. Qed.
Lemma optlstr_eqb_eq a b : opt_eqb lstr_eqb a b = true -> a = b.
Proof. destruct a, b; cbn; intro H; try discriminate; [apply lstr_eqb_eq in H; congruence|reflexivity]. Qed.
Lemma kind_eqb_eq a b : kind_eqb a b = true -> a = b.
Proof. destruct a, b; cbn; intro; congruence. Qed.
Lemma beqb_eq a b : Bool.eqb a b = true -> a = b.
Proof. apply eqb_prop. Qed.

(* ================================================================== sets of strings *)
Lemma smem_In x l : smem x l = true <-> In x l.
Proof.
  unfold smem. rewrite existsb_exists. split.
  - intros [y [Hy E]]. apply str_eqb_eq in E. subst; assumption.
  - intro H. exists x. split; [assumption|apply str_eqb_refl].
Qed.
Lemma subset_incl a b : subset a b = true <-> incl a b.
Proof.
  unfold subset. rewrite forallb_forall. unfold incl.
  split; intros H x Hx; [apply smem_In|apply smem_In]; auto.
Qed.
Definition seq (a b : list str) : Prop := forall x, In x a <-> In x b.
Lemma set_eqb_seq a b : set_eqb a b = true -> seq a b.
Proof.
  unfold set_eqb. intro H. apply andb_true_iff in H as [H1 H2].
  apply subset_incl in H1. apply subset_incl in H2. intro x; split; auto.
Qed.
Lemma subsets_seq a b : subset a b = true -> subset b a = true -> seq a b.
Proof. intros H1 H2. apply set_eqb_seq. unfold set_eqb. rewrite H1, H2. reflexivity. Qed.
Lemma bool_ext (p q : bool) : (p = true <-> q = true) -> p = q.
Proof. destruct p, q; intuition. Qed.
Lemma subset_seq_l a a' l : seq a a' -> subset a l = subset a' l.
Proof.
  intro E. apply bool_ext. rewrite !subset_incl. unfold incl.
  split; intros H x Hx; apply H; apply E; assumption.
Qed.
Lemma existsb_seq (P : str -> bool) a a' : seq a a' -> existsb P a = existsb P a'.
Proof.
  intro E. apply bool_ext. rewrite !existsb_exists.
  split; intros [x [Hx HP]]; exists x; (split; [apply E; assumption|assumption]).
Qed.
Lemma inter_In x a l : In x (inter a l) <-> In x a /\ In x l.
Proof. unfold inter. rewrite filter_In. rewrite smem_In. tauto. Qed.
Lemma inter_seq a a' l : seq a a' -> seq (inter a l) (inter a' l).
Proof. intros E x. rewrite !inter_In. rewrite (E x). tauto. Qed.
Lemma nonempty_seq a a' : seq a a' -> nonempty a = nonempty a'.
Proof.
  intro E. destruct a as [|x a], a' as [|y a']; cbn; try reflexivity.
  - exfalso. apply (proj2 (E y)). left; reflexivity.
  - exfalso. apply (proj1 (E x)). left; reflexivity.
Qed.

Lemma cont_match_seq v v' all neg s : seq v v' -> cont_match v all neg s = cont_match v' all neg s.
Proof.
  intro E. unfold cont_match. destruct s as [[x|l]|l|p]; try reflexivity.
  - rewrite (existsb_seq _ v v' E). reflexivity.
  - rewrite (subset_seq_l v v' l E), (existsb_seq _ v v' E). reflexivity.
  - rewrite (subset_seq_l v v' _ E), (existsb_seq _ v v' E). reflexivity.
Qed.
Lemma udc_match_seq f v v' neg s : seq v v' -> udc_match f v neg s = udc_match f v' neg s.
Proof.
  intro E. unfold udc_match.
  destruct s as [a|l|p]; try reflexivity.
  destruct l as [|[x|iuse] l]; try reflexivity.
  destruct l as [|[x|use] l]; try reflexivity.
  destruct l; try reflexivity.
  rewrite (subset_seq_l v v' iuse E), (subset_seq_l v v' use E).
  rewrite (nonempty_seq _ _ (inter_seq v v' iuse E)).
  rewrite (subset_seq_l _ _ use (inter_seq v v' iuse E)). reflexivity.
Qed.

(* ================================================================== ver_cmp is three valued (all strings) *)
Definition tri (z : Z) : Prop := z = (-1)%Z \/ z = 0%Z \/ z = 1%Z.
Lemma tri_sgn c : tri (sgn c).
Proof. destruct c; unfold tri; cbn; auto. Qed.
Lemma tri_0 : tri 0%Z. Proof. unfold tri; auto. Qed.
Lemma tri_str_cmp a b : tri (str_cmp a b).
Proof.
  revert b; induction a as [|x a IH]; intros [|y b]; cbn [str_cmp]; unfold tri; auto.
  destruct (N.compare x y); auto. apply IH.
Qed.
Lemma tri_comp_cmp f a b : tri (comp_cmp f a b).
Proof.
  unfold comp_cmp. destruct (str_eqb a b); [apply tri_0|].
  destruct (f || _); [apply tri_sgn|apply tri_str_cmp].
Qed.
Lemma tri_comps_cmp f l1 l2 : tri (comps_cmp f l1 l2).
Proof.
  revert f l2; induction l1 as [|a t1 IH]; intros f [|b t2]; cbn [comps_cmp]; try apply tri_0.
  destruct (Z.eqb (comp_cmp f a b) 0); [apply IH|apply tri_comp_cmp].
Qed.
Lemma tri_num_cmp f p1 p2 : tri (num_cmp f p1 p2).
Proof.
  unfold num_cmp. destruct (str_eqb p1 p2); [apply tri_0|].
  destruct (pull_letter (split_on 46 p1)) as [c1 l1]. destruct (pull_letter (split_on 46 p2)) as [c2 l2].
  destruct (negb (Z.eqb (comps_cmp f c1 c2) 0)); [apply tri_comps_cmp|].
  destruct (negb (Z.eqb (cmp_len (length c1) (length c2)) 0)); [apply tri_sgn|].
  destruct (Z.eqb l1 l2); [apply tri_0|apply tri_sgn].
Qed.
Lemma tri_suf_loop l1 l2 c : suf_loop l1 l2 = Some c -> tri c.
Proof.
  revert l2 c; induction l1 as [|s1 t1 IH]; intros [|s2 t2] c; cbn [suf_loop].
  - discriminate.
  - destruct (parse_suffix s2) as [n d].
    destruct (negb (Z.eqb (suffix_val n) 0)); intros [= <-]; apply tri_sgn.
  - destruct (parse_suffix s1) as [n d].
    destruct (negb (Z.eqb (suffix_val n) 0)); intros [= <-]; apply tri_sgn.
  - destruct (str_eqb s1 s2); [apply IH|].
    destruct (parse_suffix s1) as [n1 d1]. destruct (parse_suffix s2) as [n2 d2].
    destruct (negb (Z.eqb (cmpZ (suffix_val n1) (suffix_val n2)) 0)).
    + intros [= <-]; apply tri_sgn.
    + destruct (negb (Z.eqb (cmpN (suffix_num d1) (suffix_num d2)) 0)).
      * intros [= <-]; apply tri_sgn.
      * apply IH.
Qed.
Lemma tri_ver_cmp v1 r1 v2 r2 : tri (ver_cmp v1 r1 v2 r2).
Proof.
  unfold ver_cmp, ver_cmp_gen, rev_cmp.
  destruct (str_eqb v1 v2); [apply tri_sgn|].
  destruct (negb (Z.eqb (num_cmp true (hd [] (split_on 95 v1)) (hd [] (split_on 95 v2))) 0));
    [apply tri_num_cmp|].
  destruct (suf_loop _ _) eqn:E; [apply (tri_suf_loop _ _ _ E)|apply tri_sgn].
Qed.

(* a negated _VersionMatch accepts exactly the complementary comparison results *)
Lemma memZ_convert c neg vals : tri c -> xorb (memZ c vals) neg = memZ c (convert_ops neg vals).
Proof.
  intros T. unfold convert_ops. destruct neg; [|apply xorb_false_r].
  unfold complement_ops.
  destruct T as [ -> | [ -> | -> ] ]; cbn;
    destruct (memZ (-1) vals), (memZ 0 vals), (memZ 1 vals); reflexivity.
Qed.
Lemma ver_match_ops d v r neg vals p :
  ver_match d v r neg vals p =
  match pver p with
  | None => false
  | Some pv => let '(r1, r2) := if d then (None, None) else (r, prev p) in
               memZ (ver_cmp pv r2 v r1) (convert_ops neg vals)
  end.
Proof.
  unfold ver_match. destruct (pver p); [|reflexivity].
  destruct d; apply memZ_convert; apply tri_ver_cmp.
Qed.
Lemma ver_eq_match d1 v1 r1 n1 l1 d2 v2 r2 n2 l2 p :
  ver_eq d1 v1 r1 n1 l1 d2 v2 r2 n2 l2 = true -> ver_match d1 v1 r1 n1 l1 p = ver_match d2 v2 r2 n2 l2 p.
Proof.
  unfold ver_eq. intro H.
  apply andb_true_iff in H as [H H4]. apply andb_true_iff in H as [H H3]. apply andb_true_iff in H as [H1 H2].
  apply beqb_eq in H1. apply str_eqb_eq in H2. apply optN_eqb_eq in H3. apply list_Z_eqb_eq in H4.
  subst. rewrite !ver_match_ops. rewrite H4. reflexivity.
Qed.

(* ================================================================== induction over restriction trees *)
Section RInd.
  Variable P : restr -> Prop.
  Hypothesis HExact : forall e c n h, P (RExact e c n h).
  Hypothesis HGlob : forall g p n i h, P (RGlob g p n i h).
  Hypothesis HRegex : forall g n i m h, P (RRegex g n i m h).
  Hypothesis HCont : forall v a n, P (RCont v a n).
  Hypothesis HUdc : forall f v n, P (RUdc f v n).
  Hypothesis HVer : forall d v r n l, P (RVer d v r n l).
  Hypothesis HAlways : forall o b, P (RAlways o b).
  Hypothesis HNegate : forall o r, P r -> P (RNegate o r).
  Hypothesis HNode : forall k t n cs, Forall P cs -> P (RNode k t n cs).
  Hypothesis HAttr : forall k n a r, P r -> P (RAttr k n a r).
  Hypothesis HMulti : forall k n a r, P r -> P (RMulti k n a r).
  Hypothesis HCond : forall n a r p, P r -> Forall P p -> P (RCond n a r p).
  Hypothesis HAtom : forall a, P (RAtom a).
  Hypothesis HDepSet : forall cs, Forall P cs -> P (RDepSet cs).

  Fixpoint restr_rect' (r : restr) : P r :=
    let fix go (l : list restr) : Forall P l :=
      match l with
      | [] => Forall_nil P
      | c :: l' => Forall_cons c (restr_rect' c) (go l')
      end in
    match r with
    | RExact e c n h => HExact e c n h
    | RGlob g p n i h => HGlob g p n i h
    | RRegex g n i m h => HRegex g n i m h
    | RCont v a n => HCont v a n
    | RUdc f v n => HUdc f v n
    | RVer d v r' n l => HVer d v r' n l
    | RAlways o b => HAlways o b
    | RNegate o r' => HNegate o r' (restr_rect' r')
    | RNode k t n cs => HNode k t n cs (go cs)
    | RAttr k n a r' => HAttr k n a r' (restr_rect' r')
    | RMulti k n a r' => HMulti k n a r' (restr_rect' r')
    | RCond n a r' p => HCond n a r' p (restr_rect' r') (go p)
    | RAtom a => HAtom a
    | RDepSet cs => HDepSet cs (go cs)
    end.
End RInd.

(* ================================================================== equal => same matches *)
Lemma parsed_alike_sub (f : restr -> list atomrec) a b la lb :
  (forall x y, In x la -> In y lb -> atom_parsed_alike x y) ->
  incl (atoms_of a) la -> incl (atoms_of b) lb -> parsed_alike a b.
Proof. intros H Ha Hb x y Hx Hy. apply H; [apply Ha|apply Hb]; assumption. Qed.

Lemma incl_flat_map {A B} (f : A -> list B) x l : In x l -> incl (f x) (flat_map f l).
Proof. intros H y Hy. apply in_flat_map. exists x; auto. Qed.

Lemma atom_eq_restrictions x y :
  atom_parsed_alike x y -> atom_eq x y = true -> atom_restrictions x = atom_restrictions y.
Proof.
  intros PA H. unfold atom_eq in H.
  repeat (apply andb_true_iff in H as [H ?]).
  apply str_eqb_eq in H.
  repeat match goal with
         | E : str_eqb _ _ = true |- _ => apply str_eqb_eq in E
         | E : Bool.eqb _ _ = true |- _ => apply beqb_eq in E
         | E : optstr_eqb _ _ = true |- _ => apply optstr_eqb_eq in E
         | E : opt_eqb lstr_eqb _ _ = true |- _ => apply optlstr_eqb_eq in E
         end.
  destruct (PA H ltac:(assumption)) as (E1 & E2 & E3 & E4 & E5).
  unfold atom_restrictions. rewrite H0, E2, E1, E3, H7, E4, E5, H5, H3, H2, H4. reflexivity.
Qed.

Arguments set_eqb : simpl never.
Arguments ver_eq : simpl never.
Arguments atom_eq : simpl never.
Arguments atom_hk : simpl never.

Section SameMatch.
  Variable c : cfg.
  Variable rx : rx_t.
  Let M := rmatch rx.

  Definition match_goal (a : restr) : Prop :=
    forall b, parsed_alike a b -> known c false a b = false -> r_eq c a b = true ->
              forall s, M a s = M b s.

  Lemma all2_map_match cs1 : Forall match_goal cs1 -> forall cs2,
    (forall x y, In x cs1 -> In y cs2 -> parsed_alike x y) ->
    any2 (fun x y => known c false x y) cs1 cs2 = false ->
    list_all2 (fun x y => cmpr c false x y) cs1 cs2 = true ->
    forall s, map (fun r => M r s) cs1 = map (fun r => M r s) cs2.
  Proof.
    induction 1 as [|x cs1 Hx _ IH]; intros [|y cs2] PA K E s; cbn in *; try discriminate; [reflexivity|].
    apply orb_false_iff in K as [K1 K2]. apply andb_true_iff in E as [E1 E2].
    f_equal.
    - apply Hx; auto.
    - apply IH; auto.
  Qed.

  Ltac conj_split E := repeat (apply andb_true_iff in E as [E ?]).
  Ltac to_eqs :=
    repeat match goal with
           | X : str_eqb _ _ = true |- _ => apply str_eqb_eq in X
           | X : Bool.eqb _ _ = true |- _ => apply beqb_eq in X
           | X : lstr_eqb _ _ = true |- _ => apply lstr_eqb_eq in X
           | X : llstr_eqb _ _ = true |- _ => apply llstr_eqb_eq in X
           | X : kind_eqb _ _ = true |- _ => apply kind_eqb_eq in X
           end.

  Lemma eq_same_match_all : forall a, match_goal a.
  Proof.
    intro a.
    induction a as [e1 c1 n1 h1|g1 p1 n1 i1 h1|g1 n1 i1 m1 h1|v1 a1 n1|f1 v1 n1|d1 v1 r1 n1 l1|o1 b1|o1 r1 IH
                   |k1 t1 n1 cs1 IH|k1 n1 at1 r1 IH|k1 n1 at1 r1 IH|n1 at1 r1 p1 IH IHp|x1|cs1 IH]
      using restr_rect';
      intros bb PA K E s;
      destruct bb as [e2 c2 n2 h2|g2 p2 n2 i2 h2|g2 n2 i2 m2 h2|v2 a2 n2|f2 v2 n2|d2 v2 r2 n2 l2|o2 b2|o2 r2
                     |k2 t2 n2 cs2|k2 n2 at2 r2|k2 n2 at2 r2|n2 at2 r2 p2|x2|cs2];
      cbn in E; try discriminate; unfold M, rmatch; cbn [rmatch_core].
    - (* exact *) conj_split E. to_eqs. subst. reflexivity.
    - (* glob *) conj_split E. to_eqs. subst. reflexivity.
    - (* regex *) conj_split E. to_eqs. subst. reflexivity.
    - (* cont / cont *)
      conj_split E. to_eqs. subst. apply cont_match_seq. apply subsets_seq; assumption.
    - (* cont / udc : only while if_missing is not keyed, a known class *)
      cbn in K. conj_split E. rewrite K in E. discriminate.
    - (* udc / cont *)
      cbn in K. conj_split E. rewrite K in E. discriminate.
    - (* udc / udc *)
      cbn in K. apply negb_false_iff in K. conj_split E. rewrite K in *. cbn in *. to_eqs. subst.
      apply udc_match_seq. apply subsets_seq; assumption.
    - (* ver *)
      destruct s; try reflexivity. apply ver_eq_match; assumption.
    - (* always *) conj_split E. to_eqs. assumption.
    - (* negate *) conj_split E. f_equal. apply IH; auto.
    - (* node *)
      conj_split E. to_eqs. subst. f_equal. apply all2_map_match; auto.
      intros x y Hx Hy. eapply parsed_alike_sub; [exact atoms_of|exact PA| |];
        cbn; apply incl_flat_map; assumption.
    - (* attr *)
      conj_split E. cbn in E. apply N.eqb_eq in E. to_eqs. subst.
      destruct s as [?|?|p]; try reflexivity.
      destruct (N.eqb k2 1).
      + apply IH; auto.
      + destruct (pull (pattrs p) at2); [|reflexivity]. f_equal. apply IH; auto.
    - (* multi *)
      conj_split E. to_eqs. subst.
      destruct s as [?|?|p]; try reflexivity.
      destruct (pull_all (pattrs p) at2); [|reflexivity]. f_equal. apply IH; auto.
    - (* cond *)
      conj_split E. to_eqs. subst.
      cbn in K. apply orb_false_iff in K as [K1 K2].
      destruct s as [?|?|p]; try reflexivity.
      destruct (pull (pattrs p) at2); [|reflexivity]. f_equal. apply IH; auto.
      eapply parsed_alike_sub; [exact atoms_of|exact PA| |]; cbn; apply incl_appl; apply incl_refl.
    - (* atom *)
      unfold atom_match. rewrite (atom_eq_restrictions x1 x2); [reflexivity| |assumption].
      apply PA; cbn; auto.
    - (* depset: match is refused for both *) reflexivity.
  Qed.
End SameMatch.

Lemma eq_implies_same_match_proof : forall c a b,
  parsed_alike a b -> known c false a b = false -> r_eq c a b = true -> same_matches a b.
Proof. intros c a b PA K E rx s. apply (eq_same_match_all c rx a b PA K E s). Qed.

(* ================================================================== equal => same hash key *)
Lemma forallb_existsb_mono {A B} (f g : A -> B -> bool) l1 l2 :
  (forall x y, f x y = true -> g x y = true) ->
  forallb (fun x => existsb (fun y => f x y) l2) l1 = true ->
  forallb (fun x => existsb (fun y => g x y) l2) l1 = true.
Proof.
  intros Hfg. rewrite !forallb_forall. intros H x Hx. specialize (H x Hx).
  apply existsb_exists in H as [y [Hy Hf]]. apply existsb_exists. exists y; auto.
Qed.

Section SameHash.
  Variable c : cfg.

  Definition hash_goal (a : restr) : Prop :=
    forall b, known c true a b = false -> r_eq c a b = true -> hk_eq c a b = true.

  Lemma all2_hash cs1 : Forall hash_goal cs1 -> forall cs2,
    any2 (fun x y => known c true x y) cs1 cs2 = false ->
    list_all2 (fun x y => cmpr c false x y) cs1 cs2 = true ->
    list_all2 (fun x y => cmpr c true x y) cs1 cs2 = true.
  Proof.
    induction 1 as [|x cs1 Hx _ IH]; intros [|y cs2] K E; cbn in *; try discriminate; [reflexivity|].
    apply orb_false_iff in K as [K1 K2]. apply andb_true_iff in E as [E1 E2].
    apply andb_true_iff; split; [apply Hx; auto|apply IH; auto].
  Qed.

  Ltac conj_split E := repeat (apply andb_true_iff in E as [E ?]).
  Ltac conj_goal := repeat (apply andb_true_iff; split); try assumption; try reflexivity.

  Lemma eq_same_hash_all : forall a, hash_goal a.
  Proof.
    intro a.
    induction a as [e1 c1 n1 h1|g1 p1 n1 i1 h1|g1 n1 i1 m1 h1|v1 a1 n1|f1 v1 n1|d1 v1 r1 n1 l1|o1 b1|o1 r1 IH
                   |k1 t1 n1 cs1 IH|k1 n1 at1 r1 IH|k1 n1 at1 r1 IH|n1 at1 r1 p1 IH IHp|x1|cs1 IH]
      using restr_rect';
      intros bb K E;
      destruct bb as [e2 c2 n2 h2|g2 p2 n2 i2 h2|g2 n2 i2 m2 h2|v2 a2 n2|f2 v2 n2|d2 v2 r2 n2 l2|o2 b2|o2 r2
                     |k2 t2 n2 cs2|k2 n2 at2 r2|k2 n2 at2 r2|n2 at2 r2 p2|x2|cs2];
      unfold r_eq in E; unfold hk_eq; cbn [cmpr] in *; try discriminate; try exact E.
    - (* exact *) rewrite orb_true_l. rewrite orb_false_l in E. conj_split E. conj_goal.
    - (* glob *) rewrite orb_true_l. rewrite orb_false_l in E. conj_split E. conj_goal.
    - (* regex *) rewrite orb_true_l. rewrite orb_false_l in E. conj_split E. conj_goal.
    - (* negate *) cbn in K. apply andb_true_iff in E as [E1 E2]. apply andb_true_iff; split; [assumption|].
      apply IH; assumption.
    - (* node *) cbn in K. apply andb_true_iff in E as [E1 E2]. apply andb_true_iff; split; [assumption|].
      apply all2_hash; assumption.
    - (* attr *) cbn in K. rewrite orb_true_l. rewrite orb_false_l in E. conj_split E. conj_goal.
      apply IH; assumption.
    - (* multi *) cbn in K. rewrite orb_true_l. rewrite orb_false_l in E. conj_split E. conj_goal.
      apply IH; assumption.
    - (* cond *) cbn in K. apply orb_false_iff in K as [K1 K2].
      apply andb_true_iff in E as [E E4]. conj_split E. conj_goal.
      + apply IH; assumption.
      + apply all2_hash; assumption.
    - (* atom: the hash key is the original text *)
      cbn in K. apply negb_false_iff in K. exact K.
    - (* depset: membership in the compared sets already requires equal hashes *)
      apply andb_true_iff in E as [E1 E2]. apply andb_true_iff; split.
      + revert E1. apply forallb_existsb_mono. intros x y H. apply andb_true_iff in H as [H _]. exact H.
      + revert E2. apply (forallb_existsb_mono (fun y x => cmpr c true x y && cmpr c false x y)
                                               (fun y x => cmpr c true x y)).
        intros y x H. apply andb_true_iff in H as [H _]. exact H.
  Qed.
End SameHash.

Lemma eq_implies_same_hash_key_proof : forall c a b,
  known c true a b = false -> r_eq c a b = true -> hk_eq c a b = true.
Proof. intros c a b K E. apply (eq_same_hash_all c a b K E). Qed.

Lemma eq_interchangeable_partial_proof : forall c a b,
  parsed_alike a b -> known c true a b = false -> known c false a b = false ->
  r_eq c a b = true -> interchangeable c a b.
Proof.
  intros c a b PA K1 K2 E. split.
  - apply eq_implies_same_hash_key_proof; assumption.
  - eapply eq_implies_same_match_proof; eassumption.
Qed.

(* once if_missing is part of the identity the match-relevant known class is empty *)
Lemma any2_false_Forall (f : restr -> restr -> bool) l1 :
  Forall (fun x => forall y, f x y = false) l1 -> forall l2, any2 f l1 l2 = false.
Proof.
  induction 1 as [|x l1 Hx _ IH]; intros [|y l2]; cbn; try reflexivity.
  rewrite Hx, IH. reflexivity.
Qed.
Lemma known_match_empty_when_keyed_proof : forall c, udc_keyed c = true -> forall a b, known c false a b = false.
Proof.
  intros c Hc a.
  induction a as [e1 c1 n1 h1|g1 p1 n1 i1 h1|g1 n1 i1 m1 h1|v1 a1 n1|f1 v1 n1|d1 v1 r1 n1 l1|o1 b1|o1 r1 IH
                 |k1 t1 n1 cs1 IH|k1 n1 at1 r1 IH|k1 n1 at1 r1 IH|n1 at1 r1 p1 IH IHp|x1|cs1 IH]
    using restr_rect'; intros [ | | | | | | | | | | | | |cs2]; cbn [known]; try reflexivity;
    try (rewrite Hc; reflexivity); try apply IH.
  - apply any2_false_Forall. exact IH.
  - rewrite IH. apply any2_false_Forall. exact IHp.
  - (* depset *)
    induction IH as [|x cs1 Hx _ IH']; cbn; [reflexivity|].
    rewrite IH', orb_false_r.
    clear - Hx. induction cs2 as [|y l IHl]; cbn; [reflexivity|]. rewrite Hx, IHl. reflexivity.
Qed.

(* ================================================================== restriction-keyed caches *)
Lemma cache_sound_partial_proof : forall c (V : Type) (compute : restr -> V) m k v,
  respects_matching V compute -> filled_by V compute m ->
  (forall k' v', In (k', v') m -> parsed_alike k' k /\ known c false k' k = false) ->
  lookup c V k m = Some v -> v = compute k.
Proof.
  intros c V compute m k v RM. induction m as [|[k' v'] m IH]; intros F W L; cbn in L; [discriminate|].
  destruct (r_eq c k' k) eqn:E.
  - injection L as <-. rewrite (F k' v' (or_introl eq_refl)).
    apply RM. destruct (W k' v' (or_introl eq_refl)) as [PA K].
    eapply eq_implies_same_match_proof; eassumption.
  - apply IH; auto.
    + intros k0 v0 H. apply F. right; assumption.
    + intros k0 v0 H. apply (W k0 v0). right; assumption.
Qed.

(* ================================================================== refutations (faithful, pinned behaviour) *)
Definition sx : str := [120%N].
Definition sy : str := [121%N].
Definition empty_pair : subj := SMulti [ASet []; ASet []].

(* if_missing is not part of _UseDepDefaultContainment's identity on a tree without C04's repair *)
Lemma full_statement_refuted_udc_proof : ~ C07_full_statement cfg_pinned.
Proof.
  intro H. destruct (H (RUdc true [sx] false) (RUdc false [sx] false) eq_refl) as [_ M].
  specialize (M rx_lit empty_pair). vm_compute in M. discriminate.
Qed.

(* atoms hash their original text: !a/b == !!a/b, a/b[x,y] == a/b[y,x] with different hash keys *)
Definition mk_atom (text : str) (strong : bool) (use : option (list str)) : atomrec :=
  {| a_text := text; a_cpvstr := [97;47;98]%N; a_op := []; a_blocks := strong || true; a_strong := strong;
     a_negate_vers := false; a_use := use; a_slot := None; a_subslot := None; a_slotop := None; a_repo := None;
     a_cat := [97%N]; a_pkg := [98%N]; a_fullver := None; a_ver := None; a_rev := None |}.
Definition atom_weak := mk_atom [33;97;47;98]%N false None.             (* !a/b *)
Definition atom_strong := mk_atom [33;33;97;47;98]%N true None.         (* !!a/b *)
Lemma full_statement_refuted_atom_text_proof : forall c, ~ C07_full_statement c.
Proof.
  intros c H. destruct (H (RAtom atom_weak) (RAtom atom_strong) eq_refl) as [K _].
  vm_compute in K. discriminate.
Qed.

(* the pinned _VersionMatch: a negated ~ equals the plain ~ and matches the complement;
   a negated < equals >= with another hash key *)
Definition pk1 : pk := {| pattrs := []; pver := Some [49%N]; prev := None |}.
Lemma versionmatch_orig_refuted_proof :
  (ver_eq_orig true [49%N] None false [0%Z] true [49%N] None true [0%Z] = true
   /\ ver_match true [49%N] None false [0%Z] pk1 <> ver_match true [49%N] None true [0%Z] pk1)
  /\ (ver_eq_orig false [49%N] None true [(-1)%Z] false [49%N] None false [0%Z; 1%Z] = true
      /\ ver_hk_orig false [49%N] None true [(-1)%Z] false [49%N] None false [0%Z; 1%Z] = false).
Proof. vm_compute. repeat split; discriminate. Qed.

(* the pinned DepSet.__hash__ hashes the ordered tuple although __eq__ compares sets *)
Definition at1 := RAtom (mk_atom [97;47;98]%N false None).
Definition at2 := RAtom (mk_atom [33;33;97;47;98]%N true None).
Lemma depset_orig_refuted_proof : forall c,
  r_eq c (RDepSet [at1; at2]) (RDepSet [at2; at1]) = true
  /\ depset_hk_orig c [at1; at2] [at2; at1] = false
  /\ r_eq c (RDepSet [at1; at1]) (RDepSet [at1]) = true
  /\ depset_hk_orig c [at1; at1] [at1] = false.
Proof. intros [[|]]; vm_compute; repeat split. Qed.

(* ================================================================== non-vacuity *)
(* equal pairs built by different constructor calls, outside the known classes *)
Example ex_equal_pairs :
  let c := cfg_fixed in
  let p1 := (mk_exact [65;98]%N false false true, mk_exact [97;66]%N false false true) in          (* "Ab" / "aB", case-insensitive *)
  let p2 := (RCont [sx; sy] false false, RCont [sy; sx; sy] false false) in
  let p3 := (RVer false [49;46;48]%N None true [(-1)%Z], RVer false [49;46;48]%N None false [0%Z; 1%Z]) in   (* not < 1.0 / >= 1.0 *)
  let p4 := (RNode KOr 2 false [mk_categorydep [97%N] true false; RAttr 0 true [s_use] (fst p2)],
             RNode KOr 2 false [RAttr 4 false [s_category] (mk_exact [97%N] true true false);
                                RAttr 0 true [s_use] (snd p2)]) in
  let p5 := (RUdc true [sx; sy] true, RUdc true [sy; sx] true) in
  forallb (fun p => r_eq c (fst p) (snd p) && negb (known c true (fst p) (snd p))
                    && negb (known c false (fst p) (snd p))) [p1; p2; p3; p4; p5] = true
  /\ fst p2 <> snd p2 /\ fst p3 <> snd p3 /\ fst p4 <> snd p4.
Proof. vm_compute. repeat split; discriminate. Qed.

(* ... and look-alikes that are NOT equal (so the hypothesis r_eq is not trivially true either) *)
Example ex_unequal_lookalikes :
  let c := cfg_fixed in
  r_eq c (RVer true [49%N] None false [0%Z]) (RVer true [49%N] None true [0%Z]) = false          (* ~1 / not ~1 *)
  /\ r_eq c (RUdc true [sx] false) (RUdc false [sx] false) = false                                   (* x(+) / x(-) *)
  /\ r_eq c (mk_categorydep [97%N] true false) (RAttr 0 true [s_category] (mk_exact [97%N] true false false)) = false
  /\ r_eq c (RExact [97%N] true false true) (RExact [97%N] true false false) = false.                 (* hashed / not yet hashed *)
Proof. vm_compute. repeat split. Qed.

(* the cache corollary is about a non-empty situation: a hit through an equal, differently built key *)
Example ex_cache_hit :
  lookup cfg_fixed nat (RCont [sy; sx; sy] false false) [(RCont [sx; sy] false false, 7%nat)] = Some 7%nat.
Proof. reflexivity. Qed.
