(* Proofs_C26.v — lemmas and proofs; the property theorems are re-exported in Prop_C26.v. *)
From Coq Require Import List NArith ZArith Bool Lia.
Import ListNotations.
From Verif Require Import Base.Val gen.Tables_xpak C26.Model_C26 C26.Spec_C26 C26.Utf8_C26.
Local Open Scope N_scope.

(* ------------------------------------------------------------------ lists and lengths *)
Lemma len_app {A} (a b : list A) : len (a ++ b) = len a + len b.
Proof. unfold len. rewrite app_length. lia. Qed.
Lemma len_nil {A} : len (@nil A) = 0.
Proof. reflexivity. Qed.
Lemma to_nat_len {A} (a : list A) : N.to_nat (len a) = length a.
Proof. unfold len. lia. Qed.

Lemma firstn_app_exact {A} (a b : list A) : firstn (length a) (a ++ b) = a.
Proof. induction a; cbn; [destruct b; reflexivity | f_equal; assumption]. Qed.
Lemma skipn_app_exact {A} (a b : list A) : skipn (length a) (a ++ b) = b.
Proof. induction a; cbn; [reflexivity | assumption]. Qed.

Lemma read_at_app (a b c : bytes) : read_at (a ++ b ++ c) (len a) (len b) = b.
Proof. unfold read_at. rewrite !to_nat_len, skipn_app_exact, firstn_app_exact. reflexivity. Qed.
Lemma read_at_app_end (a b : bytes) : read_at (a ++ b) (len a) (len b) = b.
Proof. rewrite <- (app_nil_r b) at 1. rewrite read_at_app. reflexivity. Qed.

Lemma str_eqb_false a b : str_eqb a b = false <-> a <> b.
Proof.
  split; intro H.
  - intro E. apply str_eqb_eq in E. congruence.
  - destruct (str_eqb a b) eqn:E; [apply str_eqb_eq in E; contradiction | reflexivity].
Qed.

(* ------------------------------------------------------------------ be32 *)
Lemma be32_length_proof n : length (be32 n) = 4%nat.
Proof. reflexivity. Qed.
Lemma len_be32 n : len (be32 n) = 4.
Proof. reflexivity. Qed.

Lemma be32_bytes_proof n : Forall (fun b => b < 256) (be32 n).
Proof. unfold be32. repeat constructor; apply N.mod_lt; lia. Qed.

Lemma unbe32_be32_proof n : n < 4294967296 -> unbe32 (be32 n) = n.
Proof.
  intro H. unfold be32, unbe32.
  replace (n / 65536) with (n / 256 / 256) by (rewrite N.div_div by lia; reflexivity).
  replace (n / 16777216) with (n / 256 / 256 / 256) by (rewrite !N.div_div by lia; reflexivity).
  assert (n / 256 / 256 / 256 < 256).
  { rewrite !N.div_div by lia. apply N.div_lt_upper_bound; lia. }
  rewrite (N.mod_small (n / 256 / 256 / 256)) by assumption.
  pose proof (N.div_mod' n 256). pose proof (N.div_mod' (n / 256) 256).
  pose proof (N.div_mod' (n / 256 / 256) 256).
  lia.
Qed.

(* the shift/mask reading of the same four bytes *)
Lemma be32_shift_proof n :
  be32 n = [N.land (N.shiftr n 24) 255; N.land (N.shiftr n 16) 255; N.land (N.shiftr n 8) 255; N.land n 255].
Proof.
  unfold be32. rewrite !N.shiftr_div_pow2.
  change 255 with (N.ones 8). rewrite !N.land_ones. reflexivity.
Qed.

(* big-endian value of any four bytes: be32 is also onto *)
Lemma be32_unbe32_proof a b c d :
  a < 256 -> b < 256 -> c < 256 -> d < 256 -> be32 (unbe32 [a; b; c; d]) = [a; b; c; d].
Proof.
  intros Ha Hb Hc Hd. unfold be32, unbe32.
  assert (E0 : (((a * 256 + b) * 256 + c) * 256 + d) mod 256 = d).
  { rewrite N.add_comm, N.mod_add by lia. apply N.mod_small; assumption. }
  assert (D0 : (((a * 256 + b) * 256 + c) * 256 + d) / 256 = (a * 256 + b) * 256 + c).
  { rewrite N.add_comm, N.div_add by lia. rewrite N.div_small by assumption. reflexivity. }
  assert (E1 : ((a * 256 + b) * 256 + c) mod 256 = c).
  { rewrite N.add_comm, N.mod_add by lia. apply N.mod_small; assumption. }
  assert (D1 : ((a * 256 + b) * 256 + c) / 256 = a * 256 + b).
  { rewrite N.add_comm, N.div_add by lia. rewrite N.div_small by assumption. reflexivity. }
  assert (E2 : (a * 256 + b) mod 256 = b).
  { rewrite N.add_comm, N.mod_add by lia. apply N.mod_small; assumption. }
  assert (D2 : (a * 256 + b) / 256 = a).
  { rewrite N.add_comm, N.div_add by lia. rewrite N.div_small by assumption. reflexivity. }
  change 65536 with (256 * 256). change 16777216 with (256 * 256 * 256).
  rewrite <- !N.div_div by lia.
  rewrite D0, D1, D2, E0, E1, E2. rewrite N.mod_small by assumption. reflexivity.
Qed.

Lemma firstn4_be32 n (r : bytes) : firstn 4 (be32 n ++ r) = be32 n.
Proof. reflexivity. Qed.
Lemma skipn4_be32 n (r : bytes) : skipn 4 (be32 n ++ r) = r.
Proof. reflexivity. Qed.
Lemma skipn8_be32 a b (r : bytes) : skipn 8 (be32 a ++ be32 b ++ r) = r.
Proof. reflexivity. Qed.
Global Opaque be32.

(* ------------------------------------------------------------------ struct: pack / unpack *)
Lemma fit_exact n b : len b = n -> fit n b = b.
Proof.
  intro H. unfold fit. subst n. rewrite to_nat_len, Nat.sub_diag. cbn [repeat].
  rewrite app_nil_r. apply firstn_all.
Qed.


Lemma unpack_pack_proof : forall fmt args b,
  pack fmt args = Some b -> args_exact fmt args -> unpack fmt b = Some args.
Proof.
  induction fmt as [|[n|] f IH]; intros args b Hp Hx.
  - destruct args; [|discriminate]. cbn in Hp. injection Hp as <-. reflexivity.
  - destruct args as [|[s|v] a]; try discriminate. cbn [pack] in Hp.
    destruct (pack f a) as [r|] eqn:Er; [|discriminate]. injection Hp as <-.
    destruct Hx as [Hl Hx]. rewrite (fit_exact _ _ Hl).
    cbn [unpack]. rewrite len_app.
    replace (len s + len r <? n) with false by (symmetry; apply N.ltb_ge; lia).
    subst n. rewrite to_nat_len, skipn_app_exact, firstn_app_exact.
    rewrite (IH a r Er Hx). reflexivity.
  - destruct args as [|[s|v] a]; try discriminate. cbn [pack] in Hp.
    destruct (v <? 4294967296) eqn:Ev; [|discriminate].
    destruct (pack f a) as [r|] eqn:Er; [|discriminate]. injection Hp as <-.
    cbn [unpack]. rewrite len_app, len_be32.
    replace (4 + len r <? 4) with false by (symmetry; apply N.ltb_ge; lia).
    rewrite skipn4_be32, firstn4_be32, (IH a r Er Hx).
    rewrite unbe32_be32_proof by (apply N.ltb_lt; assumption). reflexivity.
Qed.

Lemma pack_len : forall fmt args b, pack fmt args = Some b -> len b = fmt_size fmt.
Proof.
  induction fmt as [|[n|] f IH]; intros args b Hp.
  - destruct args; [|discriminate]. injection Hp as <-. reflexivity.
  - destruct args as [|[s|v] a]; try discriminate. cbn [pack] in Hp.
    destruct (pack f a) as [r|] eqn:Er; [|discriminate]. injection Hp as <-.
    rewrite len_app. cbn [fmt_size fold_right]. fold (fmt_size f). rewrite (IH a r Er).
    f_equal. unfold fit, len. rewrite firstn_length, app_length, repeat_length. lia.
  - destruct args as [|[s|v] a]; try discriminate. cbn [pack] in Hp.
    destruct (v <? 4294967296); [|discriminate].
    destruct (pack f a) as [r|] eqn:Er; [|discriminate]. injection Hp as <-.
    rewrite len_app, len_be32. cbn [fmt_size fold_right]. fold (fmt_size f). rewrite (IH a r Er). reflexivity.
Qed.

(* ------------------------------------------------------------------ the table is the documented format *)
Lemma tables_are_documented_proof :
  header_pre_magic = lit_XPAKPACK /\ trailer_pre_magic = lit_XPAKSTOP /\ trailer_post_magic = lit_STOP
  /\ header_fmt = [Some 8; None; None] /\ trailer_fmt = [Some 8; None; Some 4]
  /\ key_rewrites = [([114;101;112;111], [82;69;80;79])]      (* {"repo": "REPO"} *)
  /\ environment = lit_environment.
Proof. repeat split; reflexivity. Qed.

Definition W32 : N := 4294967296.

Lemma entry_pack (k : bytes) pos (v : bytes) e :
  pack [None; Some (len k); None; None] [AL (len k); AS k; AL pos; AL (len v)] = Some e ->
  e = be32 (len k) ++ k ++ be32 pos ++ be32 (len v) /\ len k < W32 /\ pos < W32 /\ len v < W32.
Proof.
  cbn [pack]. unfold W32.
  destruct (len k <? 4294967296) eqn:E1; [|discriminate].
  destruct (pos <? 4294967296) eqn:E2; [|discriminate].
  destruct (len v <? 4294967296) eqn:E3; [|discriminate].
  rewrite fit_exact by reflexivity. intro H. injection H as <-.
  apply N.ltb_lt in E1, E2, E3. rewrite app_nil_r. repeat split; assumption.
Qed.

Lemma entry_pack_ok (k : bytes) pos (v : bytes) :
  len k < W32 -> pos < W32 -> len v < W32 ->
  pack [None; Some (len k); None; None] [AL (len k); AS k; AL pos; AL (len v)]
  = Some (be32 (len k) ++ k ++ be32 pos ++ be32 (len v)).
Proof.
  unfold W32. intros H1 H2 H3. cbn [pack].
  apply N.ltb_lt in H1, H2, H3. rewrite H1, H2, H3.
  rewrite fit_exact by reflexivity. rewrite app_nil_r. reflexivity.
Qed.

Lemma enc_entries_fmt : forall kvs pos idx,
  enc_entries kvs pos = Some idx -> idx = fmt_index kvs pos.
Proof.
  induction kvs as [|[k v] r IH]; intros pos idx H.
  - injection H as <-. reflexivity.
  - cbn [enc_entries] in H.
    destruct (pack _ _) as [e|] eqn:Ee; [|discriminate].
    destruct (enc_entries r (pos + len v)) as [i|] eqn:Ei; [|discriminate].
    injection H as <-. apply entry_pack in Ee as [-> _]. rewrite (IH _ _ Ei).
    cbn [fmt_index]. rewrite <- !app_assoc. reflexivity.
Qed.

Lemma enc_entries_ok : forall kvs pos,
  len (fmt_index kvs pos) < W32 -> pos + len (fmt_data kvs) < W32 ->
  enc_entries kvs pos = Some (fmt_index kvs pos).
Proof.
  induction kvs as [|[k v] r IH]; intros pos Hi Hd.
  - reflexivity.
  - cbn [fmt_index fmt_data map concat snd] in *. fold (fmt_data r) in *.
    rewrite !len_app in *. rewrite !len_be32 in *.
    cbn [enc_entries]. rewrite entry_pack_ok by lia.
    rewrite IH by lia. rewrite <- !app_assoc. reflexivity.
Qed.

Lemma header_pack i d h :
  pack header_fmt [AS header_pre_magic; AL i; AL d] = Some h ->
  h = lit_XPAKPACK ++ be32 i ++ be32 d /\ i < W32 /\ d < W32.
Proof.
  unfold header_fmt, W32. cbn [pack].
  destruct (i <? 4294967296) eqn:E1; [|discriminate].
  destruct (d <? 4294967296) eqn:E2; [|discriminate].
  rewrite fit_exact by reflexivity. intro H. injection H as <-.
  apply N.ltb_lt in E1, E2. rewrite app_nil_r. repeat split; assumption.
Qed.

Lemma trailer_pack s t :
  pack trailer_fmt [AS trailer_pre_magic; AL s; AS trailer_post_magic] = Some t ->
  t = lit_XPAKSTOP ++ be32 s ++ lit_STOP /\ s < W32.
Proof.
  unfold trailer_fmt, W32. cbn [pack].
  destruct (s <? 4294967296) eqn:E1; [|discriminate].
  rewrite !fit_exact by reflexivity. intro H. injection H as <-.
  apply N.ltb_lt in E1. try rewrite app_nil_r. split; [reflexivity | assumption].
Qed.

(* the model's segment is the documented format, and it exists exactly when the lengths fit *)
Lemma encode_is_format_proof kvs e : encode kvs = Some e -> e = xpak_format kvs /\ fits kvs.
Proof.
  unfold encode. destruct (enc_entries kvs 0) as [idx|] eqn:Ei; [|discriminate].
  destruct (pack header_fmt _) as [h|] eqn:Eh; [|discriminate].
  destruct (pack trailer_fmt _) as [t|] eqn:Et; [|discriminate].
  intro H. injection H as <-.
  apply enc_entries_fmt in Ei. subst idx.
  apply header_pack in Eh as (-> & _ & _). apply trailer_pack in Et as (-> & Hs).
  unfold xpak_format, fits, enc_data, fmt_data in *.
  change (fmt_size trailer_fmt) with 16 in *.
  split.
  - rewrite <- !app_assoc. do 6 f_equal. rewrite <- N.add_assoc. reflexivity.
  - unfold W32 in Hs. lia.
Qed.

Lemma fits_encode_proof kvs : fits kvs -> encode kvs = Some (xpak_format kvs).
Proof.
  unfold fits. intro H. unfold encode.
  rewrite enc_entries_ok by (unfold W32; lia).
  unfold header_fmt, trailer_fmt. cbn [pack].
  change (fmt_size [Some 8; None; Some 4]) with 16.
  fold (fmt_data kvs).
  replace (len (fmt_index kvs 0) <? 4294967296) with true by (symmetry; apply N.ltb_lt; lia).
  replace (len (enc_data kvs) <? 4294967296) with true by (symmetry; apply N.ltb_lt; unfold enc_data, fmt_data in *; lia).
  replace (len (fmt_index kvs 0) + len (enc_data kvs) + 16 + 8 <? 4294967296) with true
    by (symmetry; apply N.ltb_lt; unfold enc_data, fmt_data in *; lia).
  rewrite !fit_exact by reflexivity.
  unfold xpak_format, enc_data, fmt_data. rewrite !app_nil_r, <- !app_assoc.
  do 6 f_equal. rewrite <- N.add_assoc. reflexivity.
Qed.

(* ------------------------------------------------------------------ reading a written segment *)
Lemma check_magic_segment pre h idx dat t il dl :
  pack header_fmt [AS header_pre_magic; AL il; AL dl] = Some h ->
  pack trailer_fmt [AS trailer_pre_magic; AL (len idx + len dat + fmt_size trailer_fmt + 8);
                    AS trailer_post_magic] = Some t ->
  check_magic (pre ++ h ++ idx ++ dat ++ t) = Ok (len pre, il, dl).
Proof.
  intros Hh Ht.
  pose proof (pack_len _ _ _ Hh) as Lh. pose proof (pack_len _ _ _ Ht) as Lt.
  change (fmt_size header_fmt) with 16 in *. change (fmt_size trailer_fmt) with 16 in *.
  assert (Uh := unpack_pack_proof _ _ _ Hh). assert (Ut := unpack_pack_proof _ _ _ Ht).
  unfold check_magic.
  assert (Lf : len (pre ++ h ++ idx ++ dat ++ t) = len pre + 16 + len idx + len dat + 16).
  { rewrite !len_app. lia. }
  rewrite Lf.
  replace (len pre + 16 + len idx + len dat + 16 <? 16) with false by (symmetry; apply N.ltb_ge; lia).
  change (fmt_size trailer_fmt) with 16. change (fmt_size header_fmt) with 16.
  replace (pre ++ h ++ idx ++ dat ++ t) with ((pre ++ h ++ idx ++ dat) ++ t) at 1
    by (rewrite <- !app_assoc; reflexivity).
  replace (len pre + 16 + len idx + len dat + 16 - 16) with (len (pre ++ h ++ idx ++ dat))
    by (rewrite !len_app; lia).
  replace (read_at ((pre ++ h ++ idx ++ dat) ++ t) (len (pre ++ h ++ idx ++ dat)) 16) with t
    by (rewrite <- Lt; symmetry; apply read_at_app_end).
  rewrite Ut by (cbn; repeat split; reflexivity).
  rewrite !str_eqb_refl. cbn [andb].
  replace (len pre + 16 + len idx + len dat + 16 <? len idx + len dat + 16 + 8 + 8) with false
    by (symmetry; apply N.ltb_ge; lia).
  replace (len pre + 16 + len idx + len dat + 16 - (len idx + len dat + 16 + 8 + 8)) with (len pre) by lia.
  replace (read_at (pre ++ h ++ idx ++ dat ++ t) (len pre) 16) with h
    by (rewrite <- Lh; symmetry; apply read_at_app).
  rewrite Uh by (cbn; repeat split; reflexivity).
  rewrite str_eqb_refl. reflexivity.
Qed.

Fixpoint index_dict (kvs : list kv) (pos ds : N) (acc : dict) : dict :=
  match kvs with
  | [] => acc
  | (k, v) :: r => index_dict r (pos + len v) ds (od_set acc (rw k) (ds + pos, len v, is_text (rw k)))
  end.


Lemma ascii_forallb k : ascii k -> forallb (fun b => b <? 128) k = true.
Proof.
  intro H. apply forallb_forall. intros x Hx. apply N.ltb_lt.
  unfold ascii in H. rewrite Forall_forall in H. apply H. exact Hx.
Qed.

Lemma walk_step f (k : bytes) pos (v : bytes) rest ilen ds acc :
  len k < W32 -> pos < W32 -> len v < W32 -> ascii k -> ilen <> 0%Z ->
  walk (S f) (be32 (len k) ++ k ++ be32 pos ++ be32 (len v) ++ rest) ilen ds acc
  = walk f rest (ilen - Z.of_N (len k + 12)) ds (od_set acc (rw k) (ds + pos, len v, is_text (rw k))).
Proof.
  unfold W32. intros Hk Hp Hv Ha Hi. cbn [walk].
  apply Z.eqb_neq in Hi. rewrite Hi.
  rewrite len_app, len_be32.
  replace (4 + len (k ++ be32 pos ++ be32 (len v) ++ rest) <? 4) with false by (symmetry; apply N.ltb_ge; lia).
  rewrite firstn4_be32, skipn4_be32, unbe32_be32_proof by assumption.
  rewrite len_app.
  replace (len k + len (be32 pos ++ be32 (len v) ++ rest) <? len k) with false by (symmetry; apply N.ltb_ge; lia).
  rewrite to_nat_len, firstn_app_exact, skipn_app_exact.
  rewrite (ascii_forallb k Ha). cbn [negb].
  rewrite !len_app, !len_be32.
  replace (4 + (4 + len rest) <? 8) with false by (symmetry; apply N.ltb_ge; lia).
  rewrite firstn4_be32, skipn4_be32, firstn4_be32, skipn8_be32.
  rewrite !unbe32_be32_proof by assumption. reflexivity.
Qed.

(* fuel: one unit per index entry is enough, so any fuel >= the number of entries works *)
Lemma walk_index : forall kvs pos idx tail fuel ds acc,
  enc_entries kvs pos = Some idx -> keys_ascii kvs -> (length kvs <= fuel)%nat ->
  walk fuel (idx ++ tail) (Z.of_N (len idx)) ds acc = Ok (index_dict kvs pos ds acc).
Proof.
  induction kvs as [|[k v] r IH]; intros pos idx tail fuel ds acc He Ha Hf.
  - injection He as <-. destruct fuel; reflexivity.
  - cbn [enc_entries] in He.
    destruct (pack _ _) as [e|] eqn:Ee; [|discriminate].
    destruct (enc_entries r (pos + len v)) as [i|] eqn:Ei; [|discriminate].
    injection He as <-. apply entry_pack in Ee as (-> & Hk & Hp & Hv).
    destruct fuel as [|f]; [cbn in Hf; lia|].
    inversion Ha as [|x l Hak Har]; subst.
    rewrite <- !app_assoc.
    rewrite walk_step; try assumption.
    2:{ rewrite !len_app, !len_be32. lia. }
    cbn [index_dict].
    replace (Z.of_N (len (be32 (len k) ++ k ++ be32 pos ++ be32 (len v) ++ i)) - Z.of_N (len k + 12))%Z
      with (Z.of_N (len i)) by (rewrite !len_app, !len_be32; lia).
    apply IH; [assumption | assumption | cbn in Hf; lia].
Qed.

Lemma enc_entries_count : forall kvs pos idx,
  enc_entries kvs pos = Some idx -> (length kvs <= length idx)%nat.
Proof.
  intros kvs pos idx H. apply enc_entries_fmt in H. subst idx. revert pos.
  induction kvs as [|[k v] r IH]; intro pos; cbn [fmt_index length]; [lia|].
  rewrite !app_length. specialize (IH (pos + len v)).
  assert (length (be32 (len k)) = 4%nat) by (apply Nat2N.inj; apply len_be32). lia.
Qed.

(* what keys_dict computes on  pre ++ <segment of kvs>  *)
Lemma parse_segment_proof pre kvs e :
  encode kvs = Some e -> keys_ascii kvs ->
  parse (pre ++ e) = Ok (len pre, index_dict kvs 0 (len pre + 16 + len (fmt_index kvs 0)) []).
Proof.
  unfold encode. destruct (enc_entries kvs 0) as [idx|] eqn:Ei; [|discriminate].
  destruct (pack header_fmt _) as [h|] eqn:Eh; [|discriminate].
  destruct (pack trailer_fmt _) as [t|] eqn:Et; [|discriminate].
  intros H Ha. injection H as <-.
  unfold parse. rewrite (check_magic_segment pre h idx (enc_data kvs) t _ _ Eh Et).
  pose proof (pack_len _ _ _ Eh) as Lh. change (fmt_size header_fmt) with 16 in *.
  replace (N.to_nat (len pre + 16)) with (length (pre ++ h)) by (rewrite app_length; unfold len in *; lia).
  replace (pre ++ h ++ idx ++ enc_data kvs ++ t) with ((pre ++ h) ++ idx ++ enc_data kvs ++ t)
    by (rewrite <- !app_assoc; reflexivity).
  rewrite skipn_app_exact.
  rewrite (walk_index kvs 0 idx _ _ _ [] Ei Ha).
  - rewrite (enc_entries_fmt _ _ _ Ei). reflexivity.
  - pose proof (enc_entries_count _ _ _ Ei). rewrite app_length. lia.
Qed.

(* ------------------------------------------------------------------ items() of a written segment *)
Fixpoint index_list (kvs : list kv) (pos ds : N) : dict :=
  match kvs with
  | [] => []
  | (k, v) :: r => (rw k, (ds + pos, len v, is_text (rw k))) :: index_list r (pos + len v) ds
  end.

Lemma od_set_fresh : forall d k v, ~ In k (map fst d) -> od_set d k v = d ++ [(k, v)].
Proof.
  induction d as [|[k' v'] r IH]; intros k v H; [reflexivity|].
  cbn [od_set]. cbn [map fst In] in H.
  destruct (str_eqb k' k) eqn:E.
  - apply str_eqb_eq in E. exfalso. apply H. left. exact E.
  - cbn [app]. f_equal. apply IH. intro X. apply H. right. exact X.
Qed.

Lemma index_dict_nodup : forall kvs pos ds acc,
  NoDup (map fst acc ++ map rw (map fst kvs)) ->
  index_dict kvs pos ds acc = acc ++ index_list kvs pos ds.
Proof.
  induction kvs as [|[k v] r IH]; intros pos ds acc H.
  - cbn. rewrite app_nil_r. reflexivity.
  - cbn [index_dict index_list]. cbn [map fst] in H.
    assert (Hk : ~ In (rw k) (map fst acc)).
    { apply NoDup_remove_2 in H. intro X. apply H. apply in_or_app. left. exact X. }
    rewrite (od_set_fresh _ _ _ Hk).
    rewrite IH.
    + rewrite <- app_assoc. reflexivity.
    + rewrite map_app. cbn [map fst]. rewrite <- app_assoc. cbn [app].
      exact H.
Qed.


Lemma len_zero_nil {A} (l : list A) : len l = 0 -> l = [].
Proof. destruct l; [reflexivity | unfold len; cbn; lia]. Qed.

Lemma get_data_segment (A D0 v R : bytes) txt :
  get_data (A ++ D0 ++ v ++ R) (len A + len D0, len v, txt) = finish (txt, v).
Proof.
  unfold get_data, finish. cbn [fst snd].
  destruct (len v =? 0) eqn:E0.
  - apply N.eqb_eq in E0. apply len_zero_nil in E0. subst v. reflexivity.
  - replace (len A + len D0 + len v <=? len (A ++ D0 ++ v ++ R)) with true
      by (symmetry; apply N.leb_le; rewrite !len_app; lia).
    replace (A ++ D0 ++ v ++ R) with ((A ++ D0) ++ v ++ R) by (rewrite <- app_assoc; reflexivity).
    rewrite <- len_app. rewrite read_at_app. reflexivity.
Qed.

Lemma get_all_segment : forall kvs (A D0 T : bytes),
  get_all (A ++ D0 ++ fmt_data kvs ++ T) (index_list kvs (len D0) (len A)) = finish_all (expect_rw kvs).
Proof.
  induction kvs as [|[k v] r IH]; intros A D0 T; [reflexivity|].
  cbn [index_list expect_rw map fst snd get_all finish_all].
  unfold fmt_data. cbn [map snd concat]. fold (fmt_data r).
  rewrite <- (app_assoc v).
  rewrite get_data_segment.
  destruct (finish (is_text (rw k), v)) as [i|e]; [|reflexivity].
  specialize (IH A (D0 ++ v) T). rewrite len_app in IH.
  rewrite <- !app_assoc in IH. rewrite IH. reflexivity.
Qed.

(* MAIN (byte level): reading  pre ++ <segment of kvs>  — complete characterisation, any prefix,
   any values; the reader's alias table applied to the keys *)
Lemma decode_encode_general_proof pre kvs e :
  encode kvs = Some e -> keys_ascii kvs -> NoDup (map rw (map fst kvs)) ->
  decode (pre ++ e)
  = match finish_all (expect_rw kvs) with Ok l => Ok (len pre, l) | Err x => Err x end.
Proof.
  intros He Ha Hn. unfold decode. rewrite (parse_segment_proof pre kvs e He Ha).
  rewrite index_dict_nodup by exact Hn. cbn [app].
  apply encode_is_format_proof in He as [-> _]. unfold xpak_format.
  set (i := fmt_index kvs 0). set (d := fmt_data kvs).
  replace (pre ++ lit_XPAKPACK ++ be32 (len i) ++ be32 (len d) ++ i ++ d
           ++ lit_XPAKSTOP ++ be32 (len i + len d + 24) ++ lit_STOP)
    with ((pre ++ lit_XPAKPACK ++ be32 (len i) ++ be32 (len d) ++ i) ++ [] ++ d
          ++ lit_XPAKSTOP ++ be32 (len i + len d + 24) ++ lit_STOP)
    by (rewrite <- !app_assoc; reflexivity).
  replace (len pre + 16 + len i) with (len (pre ++ lit_XPAKPACK ++ be32 (len i) ++ be32 (len d) ++ i))
    by (rewrite !len_app, !len_be32; change (len lit_XPAKPACK) with 8; lia).
  change 0 with (len (@nil N)) at 1.
  subst d. rewrite get_all_segment. reflexivity.
Qed.

(* ------------------------------------------------------------------ known class: the read alias *)

Lemma aliased_is_repo k : aliased k = true <-> k = [114;101;112;111].    (* "repo" *)
Proof.
  unfold aliased, key_rewrites. cbn [assoc].
  destruct (str_eqb [114;101;112;111] k) eqn:E.
  - apply str_eqb_eq in E. subst. split; reflexivity.
  - apply str_eqb_false in E. split; [discriminate | intro; subst; contradiction].
Qed.

Lemma rw_not_aliased k : aliased k = false -> rw k = k.
Proof. unfold aliased, rw. destruct (assoc k key_rewrites); [discriminate | reflexivity]. Qed.

Lemma known_class_false kvs :
  known_class kvs = false -> map rw (map fst kvs) = map fst kvs /\ expect_rw kvs = expect_b kvs.
Proof.
  unfold known_class, expect_rw, expect_b. induction kvs as [|[k v] r IH]; intro H; [split; reflexivity|].
  cbn [map fst existsb] in H. apply orb_false_iff in H as [Hk Hr].
  destruct (IH Hr) as [I1 I2]. cbn [map fst snd]. rewrite (rw_not_aliased k Hk), I1, I2.
  split; reflexivity.
Qed.


Lemma C26_roundtrip_refuted_proof : ~ C26_roundtrip_full_statement.
Proof.
  intro H.
  specialize (H [7;7] [([114;101;112;111], [120])]).
  assert (E : exists e, encode [([114;101;112;111], [120])] = Some e)
    by (eexists; apply fits_encode_proof; vm_compute; reflexivity).
  destruct E as [e E]. specialize (H e E).
  assert (keys_ascii [([114;101;112;111], [120])]) as Ha by (repeat constructor).
  assert (NoDup (map fst [([114;101;112;111], [120] : bytes)])) as Hn by (repeat constructor; intros []).
  specialize (H Ha Hn).
  rewrite (decode_encode_general_proof _ _ _ E Ha) in H by (repeat constructor; intros []).
  vm_compute in H. discriminate.
Qed.

(* ... and it holds outside the known class (no key is a read alias, i.e. no key "repo") *)
Lemma decode_encode_proof pre kvs e :
  encode kvs = Some e -> keys_ascii kvs -> NoDup (map fst kvs) -> known_class kvs = false ->
  decode (pre ++ e) = match finish_all (expect_b kvs) with Ok l => Ok (len pre, l) | Err x => Err x end.
Proof.
  intros He Ha Hn Hk. destruct (known_class_false kvs Hk) as [E1 E2].
  rewrite <- E2. apply decode_encode_general_proof; [assumption | assumption | rewrite E1; assumption].
Qed.

(* ------------------------------------------------------------------ rewriting *)
Lemma probe_segment pre old eo :
  encode old = Some eo -> keys_ascii old -> probe_start (Some (pre ++ eo)) = Ok (len pre).
Proof. intros He Ha. unfold probe_start. rewrite (parse_segment_proof pre old eo He Ha). reflexivity. Qed.

(* rewriting an existing segment: the bytes before it are kept, the old segment is replaced
   entirely (nothing of it survives, also when the new one is shorter) *)
Lemma rewrite_on_segment_proof pre old eo new en :
  encode old = Some eo -> keys_ascii old -> encode new = Some en ->
  rewrite (Some (pre ++ eo)) new = Ok (pre ++ en).
Proof.
  intros Ho Ha Hn. unfold rewrite. rewrite (probe_segment pre old eo Ho Ha), Hn.
  rewrite to_nat_len, firstn_app_exact. reflexivity.
Qed.

Lemma rewrite_replaces_segment_proof pre old eo new en :
  encode old = Some eo -> keys_ascii old ->
  encode new = Some en -> keys_ascii new -> NoDup (map rw (map fst new)) ->
  exists f, rewrite (Some (pre ++ eo)) new = Ok f
   /\ firstn (length pre) f = pre
   /\ decode f = match finish_all (expect_rw new) with Ok l => Ok (len pre, l) | Err x => Err x end.
Proof.
  intros Ho Hao Hn Han Hd. exists (pre ++ en). split; [|split].
  - apply (rewrite_on_segment_proof pre old eo new en); assumption.
  - apply firstn_app_exact.
  - apply decode_encode_general_proof; assumption.
Qed.

(* any number of rewrites, growing or shrinking: every intermediate file is prefix ++ segment *)

Lemma last_default {A} : forall (l : list A) x a b, last (x :: l) a = last (x :: l) b.
Proof. induction l as [|y l IH]; intros x a b; [reflexivity|]. exact (IH y a b). Qed.

Lemma rewrite_many_proof : forall news pre old eo,
  encode old = Some eo -> keys_ascii old ->
  Forall (fun n => keys_ascii n /\ fits n) news ->
  rewrite_all (pre ++ eo) news = Ok (pre ++ xpak_format (last news old)).
Proof.
  induction news as [|n r IH]; intros pre old eo Ho Ha Hf.
  - cbn. apply encode_is_format_proof in Ho as [-> _]. reflexivity.
  - inversion Hf as [|x l [Hna Hnf] Hr]; subst.
    cbn [rewrite_all].
    unfold bytes in *. rewrite (rewrite_on_segment_proof pre old eo n _ Ho Ha (fits_encode_proof n Hnf)).
    rewrite (IH pre n _ (fits_encode_proof n Hnf) Hna Hr).
    destruct r as [|m r]; [reflexivity|]. change (last (n :: m :: r) old) with (last (m :: r) old). rewrite (last_default r m n old). reflexivity.
Qed.

(* for EVERY file: a successful rewrite keeps a prefix of the old file and appends exactly the
   new segment; the cut is the old segment's start when the file parses, its end otherwise *)
Lemma check_magic_start_le file s i d : check_magic file = Ok (s, i, d) -> s <= len file.
Proof.
  unfold check_magic. destruct (len file <? 16); [discriminate|].
  destruct (unpack trailer_fmt _) as [[|[pre|] [|[|size] [|[post|] [|]]]]|]; try discriminate.
  destruct (str_eqb pre trailer_pre_magic && str_eqb post trailer_post_magic); [|discriminate].
  destruct (len file <? size + 8) eqn:E; [discriminate|].
  destruct (unpack header_fmt _) as [[|[hpre|] [|[|il] [|[|dl] [|]]]]|]; try discriminate.
  destruct (str_eqb hpre header_pre_magic); [|discriminate].
  intro H. injection H as <- _ _. lia.
Qed.

Lemma parse_start_le file s d : parse file = Ok (s, d) -> s <= len file.
Proof.
  unfold parse. destruct (check_magic file) as [[[s' i] dl]|] eqn:E; [|discriminate].
  destruct (walk _ _ _ _ _); [|discriminate]. intro H. injection H as <- _.
  eapply check_magic_start_le. exact E.
Qed.

Lemma rewrite_preserves_prefix_proof file kvs out :
  rewrite (Some file) kvs = Ok out ->
  exists s seg, s <= len file /\ encode kvs = Some seg /\ seg = xpak_format kvs
    /\ out = firstn (N.to_nat s) file ++ seg
    /\ firstn (N.to_nat s) out = firstn (N.to_nat s) file
    /\ ((exists d, parse file = Ok (s, d)) \/
        ((parse file = Err EOS \/ parse file = Err EMalformed) /\ s = len file)).
Proof.
  unfold rewrite, probe_start.
  destruct (parse file) as [[s d]|e] eqn:Ep.
  - destruct (encode kvs) as [seg|] eqn:Ee; [|discriminate]. intro H. injection H as <-.
    exists s, seg. pose proof (parse_start_le _ _ _ Ep) as Hs.
    repeat split; try assumption.
    + apply encode_is_format_proof in Ee. tauto.
    + rewrite firstn_app. rewrite firstn_firstn, Nat.min_id.
      rewrite firstn_length. replace (N.to_nat s - Nat.min (N.to_nat s) (length file))%nat with 0%nat
        by (unfold len in Hs; lia).
      cbn. rewrite app_nil_r. reflexivity.
    + left. exists d. reflexivity.
  - destruct e; try (intro X; discriminate X).
    all: destruct (encode kvs) as [seg|] eqn:Ee; [|discriminate]; intro H; injection H as <-.
    all: exists (len file), seg; rewrite to_nat_len, firstn_all.
    all: split; [lia|]; split; [reflexivity|]; split; [apply encode_is_format_proof in Ee; tauto|].
    all: split; [reflexivity|]; split; [apply firstn_app_exact|].
    all: right; split; [tauto | reflexivity].
Qed.

(* a file that the reader rejects as "no segment" gets the segment appended *)
Lemma rewrite_appends_proof file kvs seg :
  (parse file = Err EOS \/ parse file = Err EMalformed) -> encode kvs = Some seg ->
  rewrite (Some file) kvs = Ok (file ++ seg).
Proof.
  intros Hp He. unfold rewrite, probe_start.
  destruct Hp as [-> | ->]; rewrite He, to_nat_len, firstn_all; reflexivity.
Qed.

(* ------------------------------------------------------------------ the fuel of the index walk always suffices *)
Lemma walk_fuel_suffices : forall fuel rest ilen ds acc,
  (length rest < fuel)%nat -> walk fuel rest ilen ds acc <> Err EFuel.
Proof.
  induction fuel as [|f IH]; intros rest ilen ds acc Hl; [lia|].
  cbn [walk]. destruct (ilen =? 0)%Z; [discriminate|].
  destruct (len rest <? 4) eqn:E4; [discriminate|].
  destruct (negb (forallb _ _)); [discriminate|].
  destruct (len (skipn 4 rest) <? unbe32 (firstn 4 rest)); [discriminate|].
  destruct (len (skipn (N.to_nat (unbe32 (firstn 4 rest))) (skipn 4 rest)) <? 8); [discriminate|].
  apply IH. rewrite !skipn_length. apply N.ltb_ge in E4. unfold len in E4. lia.
Qed.

Lemma parse_never_out_of_fuel_proof file : parse file <> Err EFuel.
Proof.
  unfold parse. destruct (check_magic file) as [[[s i] d]|e] eqn:E.
  - destruct (walk _ _ _ _ _) as [x|e] eqn:W; [discriminate|].
    intro H. injection H as ->. revert W. apply walk_fuel_suffices. lia.
  - unfold check_magic in E. destruct (len file <? 16); [congruence|].
    destruct (unpack trailer_fmt _) as [[|[pre|] [|[|size] [|[post|] [|]]]]|]; try congruence.
    destruct (str_eqb pre trailer_pre_magic && str_eqb post trailer_post_magic); [|congruence].
    destruct (len file <? size + 8); [congruence|].
    destruct (unpack header_fmt _) as [[|[hpre|] [|[|il] [|[|dl] [|]]]]|]; try congruence.
    destruct (str_eqb hpre header_pre_magic); congruence.
Qed.

(* the only results of the reader's index walk on arbitrary bytes *)
Lemma walk_errors : forall fuel rest ilen ds acc e,
  walk fuel rest ilen ds acc = Err e -> e = EFuel \/ e = EStruct \/ e = EUnicodeDec \/ e = EMalformed.
Proof.
  induction fuel as [|f IH]; intros rest ilen ds acc e; cbn [walk].
  - destruct (ilen =? 0)%Z; [discriminate|]. intro H. injection H as <-. tauto.
  - destruct (ilen =? 0)%Z; [discriminate|].
    destruct (len rest <? 4); [intro H; injection H as <-; tauto|].
    destruct (negb (forallb _ _)); [intro H; injection H as <-; tauto|].
    destruct (len (skipn 4 rest) <? unbe32 (firstn 4 rest)); [intro H; injection H as <-; tauto|].
    destruct (len (skipn (N.to_nat (unbe32 (firstn 4 rest))) (skipn 4 rest)) <? 8);
      [intro H; injection H as <-; tauto|].
    apply IH.
Qed.

Lemma check_magic_errors file e : check_magic file = Err e -> e = EOS \/ e = EMalformed.
Proof.
  unfold check_magic. destruct (len file <? 16); [intro H; injection H as <-; tauto|].
  destruct (unpack trailer_fmt _) as [[|[pre|] [|[|size] [|[post|] [|]]]]|];
    try (intro H; injection H as <-; tauto).
  destruct (str_eqb pre trailer_pre_magic && str_eqb post trailer_post_magic);
    [|intro H; injection H as <-; tauto].
  destruct (len file <? size + 8); [intro H; injection H as <-; tauto|].
  destruct (unpack header_fmt _) as [[|[hpre|] [|[|il] [|[|dl] [|]]]]|];
    try (intro H; injection H as <-; tauto).
  destruct (str_eqb hpre header_pre_magic); [discriminate | intro H; injection H as <-; tauto].
Qed.

(* ------------------------------------------------------------------ second known class: the index walk crashes *)

Lemma C26_rewrite_total_refuted_proof : ~ C26_rewrite_total_full_statement.
Proof.
  intro H. destruct (H crafted_tail [] ltac:(vm_compute; reflexivity)) as [s [_ Hs]].
  assert (E : rewrite (Some crafted_tail) [] = Err EStruct) by (vm_compute; reflexivity).
  exact (match eq_trans (eq_sym E) Hs in _ = r return match r with Ok _ => False | Err _ => True end
         with eq_refl => I end).
Qed.

Lemma rewrite_total_partial_proof file kvs :
  fits kvs -> crash_class file = false ->
  exists s, s <= len file /\ rewrite (Some file) kvs = Ok (firstn (N.to_nat s) file ++ xpak_format kvs).
Proof.
  intros Hf Hc. unfold crash_class in Hc. unfold rewrite, probe_start.
  rewrite (fits_encode_proof kvs Hf).
  destruct (parse file) as [[s d]|e] eqn:Ep.
  - exists s. split; [eapply parse_start_le; exact Ep | reflexivity].
  - assert (He : e = EOS \/ e = EMalformed).
    { pose proof (parse_never_out_of_fuel_proof file) as Hfu.
      unfold parse in Ep. destruct (check_magic file) as [[[s i] d]|e'] eqn:Ec.
      - destruct (walk _ _ _ _ _) as [x|e'] eqn:W; [discriminate|]. injection Ep as <-.
        pose proof W as W2. apply walk_errors in W.
        destruct W as [-> | [-> | [-> | ->]]]; try discriminate; try tauto.
        exfalso. apply Hfu. unfold parse. rewrite Ec, W2. reflexivity.
      - injection Ep as <-. eapply check_magic_errors. exact Ec. }
    exists (len file). split; [lia|]. destruct He as [-> | ->]; reflexivity.
Qed.

(* ------------------------------------------------------------------ typed level: str / bytes mappings *)

Lemma py_encode_ascii_key k kb : ascii (key_str k) -> py_encode k = Some kb -> kb = key_str k.
Proof.
  destruct k as [c|b]; cbn [key_str py_encode]; intros Ha H.
  - rewrite (utf8_encode_ascii c Ha) in H. injection H as <-. reflexivity.
  - injection H as <-. reflexivity.
Qed.

Lemma is_text_is_env k : is_text k = negb (is_env k).
Proof. reflexivity. Qed.

Lemma to_bytes_spec : forall data kvs items,
  to_bytes data = Some kvs -> spec_items data = Some items ->
  Forall (fun x => ascii (key_str (fst x))) data ->
  map fst kvs = map (fun x => key_str (fst x)) data /\ finish_all (expect_b kvs) = Ok items.
Proof.
  induction data as [|[k v] r IH]; intros kvs items Ht Hs Ha.
  - injection Ht as <-. injection Hs as <-. split; reflexivity.
  - cbn [to_bytes] in Ht.
    destruct (py_encode v) as [vb|] eqn:Ev; [|discriminate].
    destruct (py_encode k) as [kb|] eqn:Ek; [|discriminate].
    destruct (to_bytes r) as [r'|] eqn:Er; [|discriminate].
    injection Ht as <-.
    cbn [spec_items] in Hs.
    destruct (spec_item (key_str k) v) as [i|] eqn:Ei; [|discriminate].
    destruct (spec_items r) as [t|] eqn:Es; [|discriminate].
    injection Hs as <-.
    inversion Ha as [|x l Hk Hr]; subst. cbn [fst] in Hk.
    destruct (IH r' t eq_refl eq_refl Hr) as [I1 I2].
    apply (py_encode_ascii_key k kb Hk) in Ek. subst kb.
    split; [cbn [map fst]; rewrite I1; reflexivity|].
    unfold expect_b in *. cbn [map fst snd finish_all]. rewrite I2.
    unfold spec_item in Ei. unfold finish. cbn [fst snd].
    destruct (is_env (key_str k)); cbn [negb].
    + rewrite Ev in Ei. injection Ei as <-. reflexivity.
    + destruct v as [c|b]; cbn [py_encode] in Ev.
      * rewrite (utf8_roundtrip_proof c vb Ev). injection Ei as <-. reflexivity.
      * injection Ev as <-. destruct (utf8_decode b); [|discriminate]. injection Ei as <-. reflexivity.
Qed.

Lemma typed_dom_bytes data kvs :
  typed_dom data -> map fst kvs = map (fun x => key_str (fst x)) data ->
  keys_ascii kvs /\ NoDup (map fst kvs) /\ known_class kvs = false.
Proof.
  intros (Ha & Hn & Hk) E. split; [|split].
  - unfold keys_ascii. apply Forall_forall. intros x Hx.
    assert (In (fst x) (map fst kvs)) as Hi by (apply in_map; exact Hx).
    rewrite E in Hi. apply in_map_iff in Hi as [y [Ey Hy]]. rewrite <- Ey.
    rewrite Forall_forall in Ha. apply Ha. exact Hy.
  - rewrite E. exact Hn.
  - unfold known_class, kv, bytes in *. rewrite E.
    apply not_true_is_false. intro X.
    apply existsb_exists in X as [y [Hy Hal]]. apply in_map_iff in Hy as [z [Ez Hz]].
    rewrite Forall_forall in Hk. specialize (Hk z Hz). rewrite Ez in Hk. congruence.
Qed.

(* the statement's first sentence, typed: exactly the same keys, in order, text decoded,
   environment values as bytes — for every prefix *)
Lemma roundtrip_typed_proof pre data kvs e items :
  typed_dom data -> to_bytes data = Some kvs -> encode kvs = Some e -> spec_items data = Some items ->
  decode (pre ++ e) = Ok (len pre, items).
Proof.
  intros Hd Ht He Hs. destruct Hd as (Ha & Hn & Hk).
  destruct (to_bytes_spec data kvs items Ht Hs Ha) as [E F].
  destruct (typed_dom_bytes data kvs (conj Ha (conj Hn Hk)) E) as (Ka & Kn & Kc).
  rewrite (decode_encode_proof pre kvs e He Ka Kn Kc), F. reflexivity.
Qed.

Lemma write_xpak_rewrite file data kvs out :
  to_bytes data = Some kvs -> rewrite (Some file) kvs = Ok out -> write_xpak (Some file) data = Ok out.
Proof.
  intros Ht Hr. unfold write_xpak. rewrite Ht.
  destruct (probe_start (Some file)) eqn:P; [exact Hr|].
  unfold rewrite in Hr. rewrite P in Hr. discriminate.
Qed.

(* end to end, file without a segment: the segment is appended and reads back as written *)
Lemma write_read_append_proof file data kvs items :
  (parse file = Err EOS \/ parse file = Err EMalformed) ->
  typed_dom data -> to_bytes data = Some kvs -> fits kvs -> spec_items data = Some items ->
  write_xpak (Some file) data = Ok (file ++ xpak_format kvs)
  /\ decode (file ++ xpak_format kvs) = Ok (len file, items).
Proof.
  intros Hp Hd Ht Hf Hs. pose proof (fits_encode_proof kvs Hf) as He. split.
  - apply (write_xpak_rewrite file data kvs _ Ht). apply rewrite_appends_proof; assumption.
  - apply (roundtrip_typed_proof file data kvs _ items); assumption.
Qed.

(* end to end, file with a segment: bytes before it unchanged, old segment gone, new one reads back *)
Lemma write_read_replace_proof pre old eo data kvs items :
  encode old = Some eo -> keys_ascii old ->
  typed_dom data -> to_bytes data = Some kvs -> fits kvs -> spec_items data = Some items ->
  write_xpak (Some (pre ++ eo)) data = Ok (pre ++ xpak_format kvs)
  /\ decode (pre ++ xpak_format kvs) = Ok (len pre, items).
Proof.
  intros Ho Ha Hd Ht Hf Hs. pose proof (fits_encode_proof kvs Hf) as He. split.
  - apply (write_xpak_rewrite (pre ++ eo) data kvs _ Ht).
    apply (rewrite_on_segment_proof pre old eo kvs _ Ho Ha He).
  - apply (roundtrip_typed_proof pre data kvs _ items); assumption.
Qed.

(* ------------------------------------------------------------------ a declarative "no segment" condition *)
Lemma ends_with_app (s a : bytes) : ends_with s (a ++ s) = true.
Proof.
  induction a as [|x a IH]; cbn [app].
  - destruct s; cbn [ends_with]; rewrite str_eqb_refl; reflexivity.
  - cbn [ends_with]. rewrite IH. apply orb_true_r.
Qed.

(* a file that does not end with "STOP" has no segment: the reader rejects it as such *)
Lemma no_stop_no_segment_proof file :
  ends_with lit_STOP file = false -> parse file = Err EOS \/ parse file = Err EMalformed.
Proof.
  intro He. unfold parse, check_magic.
  destruct (len file <? 16) eqn:E16; [left; reflexivity|]. right.
  apply N.ltb_ge in E16. change (fmt_size trailer_fmt) with 16.
  unfold read_at. set (n := N.to_nat (len file - 16)).
  assert (Hn : (n + 16 = length file)%nat) by (unfold n, len in *; lia).
  assert (Hl : length (skipn n file) = 16%nat) by (rewrite skipn_length; lia).
  change (N.to_nat 16) with 16%nat.
  rewrite firstn_all2 by lia.
  assert (Hf : file = firstn n file ++ skipn n file) by (symmetry; apply firstn_skipn).
  remember (skipn n file) as T eqn:ET. clear ET.
  do 16 (destruct T as [|? T]; [discriminate|]). destruct T; [|discriminate].
  match goal with |- context [unpack trailer_fmt [?a0;?a1;?a2;?a3;?a4;?a5;?a6;?a7;?a8;?a9;?a10;?a11;?a12;?a13;?a14;?a15]] =>
    assert (U : unpack trailer_fmt [a0;a1;a2;a3;a4;a5;a6;a7;a8;a9;a10;a11;a12;a13;a14;a15]
                = Some [AS [a0;a1;a2;a3;a4;a5;a6;a7]; AL (unbe32 [a8;a9;a10;a11]); AS [a12;a13;a14;a15]])
      by reflexivity; rewrite U; clear U end.
  match goal with |- context [str_eqb ?p trailer_pre_magic && str_eqb ?q trailer_post_magic] =>
    destruct (str_eqb p trailer_pre_magic); [|reflexivity];
    destruct (str_eqb q trailer_post_magic) eqn:Eq; [|reflexivity] end.
  exfalso. apply str_eqb_eq in Eq.
  rewrite Hf in He.
  match type of He with ends_with _ (?a ++ ?l) = false =>
    replace (a ++ l) with ((a ++ firstn 12 l) ++ lit_STOP) in He end.
  - rewrite ends_with_app in He. discriminate.
  - rewrite <- app_assoc. f_equal. cbn [firstn app]. change lit_STOP with trailer_post_magic. rewrite <- Eq. reflexivity.
Qed.

Lemma write_read_no_stop_proof file data kvs items :
  ends_with lit_STOP file = false ->
  typed_dom data -> to_bytes data = Some kvs -> fits kvs -> spec_items data = Some items ->
  write_xpak (Some file) data = Ok (file ++ xpak_format kvs)
  /\ decode (file ++ xpak_format kvs) = Ok (len file, items).
Proof. intro H. apply write_read_append_proof. apply no_stop_no_segment_proof. exact H. Qed.

(* ------------------------------------------------------------------ non-vacuity *)
Definition ex_data : list (pystr * pystr) :=
  [(PS [67;65;84], PS [233; 8364; 128512]);                       (* "CAT" -> "é€😀" *)
   (PS [101;110;118;105;114;111;110;109;101;110;116;46;98;122;50], PB [255; 0; 128]);   (* environment.bz2 *)
   (PB [83;76;79;84], PB [48])].                                  (* b"SLOT" -> b"0" *)
Example ex_roundtrip :
  typed_dom ex_data /\
  exists kvs items, to_bytes ex_data = Some kvs /\ fits kvs /\ spec_items ex_data = Some items
    /\ decode ([1;2;3] ++ xpak_format kvs) = Ok (3, items)
    /\ items = [([67;65;84], IText [233; 8364; 128512]);
                ([101;110;118;105;114;111;110;109;101;110;116;46;98;122;50], IBytes [255; 0; 128]);
                ([83;76;79;84], IText [48])].
Proof.
  split.
  - split; [|split].
    + repeat constructor; cbn; lia.
    + repeat constructor; cbn; intuition discriminate.
    + repeat constructor.
  - eexists. eexists. split; [reflexivity|]. split; [vm_compute; reflexivity|].
    split; [reflexivity|]. split; vm_compute; reflexivity.
Qed.

Example ex_rewrite_shrinks :
  exists big small, fits big /\ fits small /\ keys_ascii big
    /\ (length (xpak_format small) < length (xpak_format big))%nat
    /\ rewrite (Some ([9;9] ++ xpak_format big)) small = Ok ([9;9] ++ xpak_format small).
Proof.
  exists [([65], [1;2;3;4;5;6;7;8]); ([66], [9])], [([67], [])].
  split; [vm_compute; reflexivity|]. split; [vm_compute; reflexivity|].
  split; [repeat constructor; cbn; lia|]. split; vm_compute; [lia | reflexivity].
Qed.
