(* Spec_C33.v — the reference placement, written from PMS §12.3 (install commands) and not from
   ebd_ipc.py: for one helper invocation, what must exist under the image afterwards, what must
   be refused, and where PMS leaves the outcome open.  Destinations are component lists below
   the image root; file names are analysed by splitting on '.' (the model transcribes
   splitext / the regular expressions instead). *)
From Coq Require Import List NArith ZArith Bool Arith.
From Coq Require String Ascii.
Import String.StringSyntax.
Delimit Scope string_scope with string.
Import ListNotations.
From Verif Require Import Base.Val C33.Path gen.Tables_C33 C33.Model_C33.

(* ------------------------------------------------------------------ PMS tables *)
(* EAPI numbers from which a feature exists / a helper is banned (PMS tables 12.x) *)
Definition pms_dodoc_r (e : N) : bool := N.leb 4 e.
Definition pms_doman_lang (e : N) : bool := N.leb 2 e.
Definition pms_doman_i18n_wins (e : N) : bool := N.leb 4 e.
Definition pms_dosym_r (e : N) : bool := N.leb 8 e.
Definition pms_doins_symlinks (e : N) : bool := N.leb 4 e.
Definition pms_domo_ignores_into (e : N) : bool := N.leb 7 e.
Definition pms_banned (h : str) (e : N) : bool :=
  (str_eqb h (lit "dohard") && N.leb 4 e)
  || (str_eqb h (lit "dohtml") && N.leb 7 e)
  || (str_eqb h (lit "dolib") && N.leb 7 e).

(* what PMS prescribes for one path below the image *)
Inductive pnode :=
| PFile (mode : N) (cid : N)       (* regular file with this mode and the content of source cid *)
| PLink (target : str)             (* symbolic link with this content *)
| PDir (mode : option N)           (* directory; Some m when PMS fixes the mode *)
| PHard (src : list str)           (* a hard link to the entry at src *)
| PKeep.                           (* an empty regular file, mode not prescribed *)
Inductive verdict := PReject | PUndef | PExpect (l : list (list str * pnode)).

Definition comps (p : str) : list str := resolve (SL :: p).

(* the mode an `install` option string asks for: the last -m/--mode, else install's default 0755;
   None when the options are outside the spellings this reference interprets *)
Definition opts_mode (s : str) : option N :=
  match install_mode (Some s) with
  | None => Some 493%N
  | Some (Some m) => Some m
  | Some None => None
  end.

(* ------------------------------------------------------------------ file name analysis *)
Definition dot_parts (b : str) : list str := split_on 46 b.
Definition is_section (s : str) : bool :=            (* a one-character section: 0-9 or n *)
  match s with [c] => is_digit c || N.eqb c 110 | _ => false end.
Definition pms_is_lang (l : str) : bool :=
  match l with
  | [a; b] => is_lower a && is_lower b
  | [a; b; u; c; d] => is_lower a && is_lower b && N.eqb u 95 && is_upper c && is_upper d
  | _ => false
  end.
Definition simple_stem (s : str) : bool := negb (is_nil s) && forallb (fun c => negb (is_dot c) && negb (is_sl c)) s.

(* doman: Some (Some (dir comps below /usr/share/man, name)) = PMS placement; Some None = PMS
   requires refusal (no section suffix); None = PMS does not say (compressed pages, long
   section names, names with further dots) *)
Definition pms_doman (e : N) (i18n : option str) (b : str) : option (option (list str * str)) :=
  let man s := lit "man" ++ s in
  match dot_parts b with
  | [_] => Some None                                       (* no suffix at all *)
  | [stem; sec] =>
      if simple_stem stem && is_section sec then
        match (if pms_doman_i18n_wins e then i18n else None) with
        | Some l => if is_nil l then Some (Some ([man sec], b))
                    else if simple_stem l then Some (Some ([l; man sec], b)) else None
        | None => Some (Some ([man sec], b))
        end
      else None
  | [stem; lang; sec] =>
      if simple_stem stem && is_section sec && pms_is_lang lang then
        match (if pms_doman_i18n_wins e then i18n else None) with
        | Some l => if is_nil l then Some (Some ([man sec], b))
                    else if simple_stem l then Some (Some ([l; man sec], b)) else None
        | None => if pms_doman_lang e then Some (Some ([lang; man sec], stem ++ DOT :: sec))
                  else Some (Some ([man sec], b))
        end
      else None
  | _ => None
  end.

(* domo: the basename with its ".*" suffix removed *)
Definition pms_domo_lang (b : str) : option str :=
  match dot_parts b with
  | [stem; _] => if simple_stem stem then Some stem else None
  | _ => None
  end.

(* dohtml: extension = text after the last dot of a name with a simple stem *)
Definition pms_html_ok (o : htmlopts) (b : str) : option bool :=
  let exts := (match h_a o with [] => default_html_exts | l => l end) ++ h_A o in
  match dot_parts b with
  | [stem] => Some (str_mem [] exts || str_mem b (h_f o))       (* no extension *)
  | [stem; ext] => if simple_stem stem then Some (str_mem ext exts || str_mem b (h_f o)) else None
  | _ => None
  end.

(* ------------------------------------------------------------------ the reference placement *)
Definition good_name (b : str) : bool :=
  negb (is_nil b) && negb (str_eqb b dot) && negb (str_eqb b dotdot) && forallb (fun c => negb (is_sl c)) b.

(* a source symlink is installed as a symlink (doins in EAPI 4+, dolib*: PMS; elsewhere only
   assumed when it resolves) *)
Definition file_node (mode : N) (f : fkind) (dangling_ok : bool) : option pnode :=
  match f with
  | FReg cid => Some (PFile mode cid)
  | FLink t true => Some (PLink t)
  | FLink t false => if dangling_ok then Some (PLink t) else None
  end.

(* every entry below a directory argument d, at <dest>/<basename d>/<rel>/<name>: the directory
   itself, sub-directories that are symlinks (kept as links) and the non-directories; None when
   a name is not an ordinary file name or a symlink occurs where PMS does not define doins *)
Fixpoint opt_all {A} (l : list (option A)) : option (list A) :=
  match l with
  | [] => Some []
  | Some x :: r => match opt_all r with Some xs => Some (x :: xs) | None => None end
  | None :: _ => None
  end.
Definition tree_file (symlinks_ok : bool) (dd : list str) (mode : N) (nf : str * fkind) : option (list str * pnode) :=
  if negb (good_name (fst nf)) then None
  else if negb symlinks_ok && match snd nf with FLink _ _ => true | _ => false end then None
  else match file_node mode (snd nf) symlinks_ok with
       | Some n => Some (dd ++ [fst nf], n)
       | None => None
       end.
Definition tree_dlink (symlinks_ok : bool) (dd : list str) (nt : str * str) : option (list str * pnode) :=
  if good_name (fst nt) && symlinks_ok then Some (dd ++ [fst nt], PLink (snd nt)) else None.
Definition tree_one (symlinks_ok : bool) (destb : list str) (dmode : option N) (mode : N) (w : wentry)
  : option (list (list str * pnode)) :=
  if negb (forallb good_name (w_rel w)) then None else
  let dd := destb ++ w_rel w in
  match opt_all (map (tree_dlink symlinks_ok dd) (w_dlinks w)), opt_all (map (tree_file symlinks_ok dd mode) (w_files w)) with
  | Some ls, Some fs => Some ((dd, PDir dmode) :: ls ++ fs)
  | _, _ => None
  end.
Fixpoint tree_walk (symlinks_ok : bool) (destb : list str) (dmode : option N) (mode : N) (walk : list wentry)
  : option (list (list str * pnode)) :=
  match walk with
  | [] => Some []
  | w :: r => match tree_one symlinks_ok destb dmode mode w, tree_walk symlinks_ok destb dmode mode r with
              | Some a, Some b => Some (a ++ b)
              | _, _ => None
              end
  end.
(* the rule on the spelling of a directory argument d (as `cp -r`, and as every package manager
   implements doins -r): trailing slashes are dropped and the last component names the directory
   created below <dest>; when that component is "." (d = "dir/.", "dir/./", "${S}/.", ".") the
   CONTENTS of the directory go directly into <dest>; ".." or an empty name: not defined *)
Definition tree_entries (symlinks_ok : bool) (dest : list str) (dmode : option N) (mode : N) (d : str) (walk : list wentry)
  : option (list (list str * pnode)) :=
  let base := basename (rstrip_sl d) in
  if str_eqb base dot then tree_walk symlinks_ok dest dmode mode walk
  else if good_name base then tree_walk symlinks_ok (dest ++ [base]) dmode mode walk else None.

Definition flat_one (dest : list str) (mode : N) (a : str * skind) : option (list str * pnode) :=
  match snd a with
  | SFile f => if good_name (basename (fst a)) then
                 match file_node mode f false with Some n => Some (dest ++ [basename (fst a)], n) | None => None end
               else None
  | _ => None
  end.
Fixpoint flat_files (dest : list str) (mode : N) (l : list (str * skind)) : option (list (list str * pnode)) :=
  match l with
  | [] => Some []
  | a :: r => match flat_one dest mode a, flat_files dest mode r with
              | Some x, Some xs => Some (x :: xs)
              | _, _ => None
              end
  end.

(* doins -r / dodoc -r: the trees of the directory arguments, then the file arguments *)
Fixpoint dirs_entries (symlinks_ok : bool) (dest : list str) (dmode : option N) (mode : N) (l : list (str * skind))
  : option (list (list str * pnode)) :=
  match l with
  | [] => Some []
  | a :: r =>
      match (match snd a with SDir _ w => tree_entries symlinks_ok dest dmode mode (fst a) w | _ => Some [] end),
            dirs_entries symlinks_ok dest dmode mode r with
      | Some x, Some y => Some (x ++ y)
      | _, _ => None
      end
  end.
Definition recursive_entries (symlinks_ok : bool) (dest : list str) (dmode : option N) (mode : N) (l : list (str * skind))
  : option (list (list str * pnode)) :=
  match dirs_entries symlinks_ok dest dmode mode (dirs_of l), flat_files dest mode (files_of l) with
  | Some ds, Some fl => Some (ds ++ fl)
  | _, _ => None
  end.

Definition any_missing (l : list (str * skind)) : bool :=
  existsb (fun a => match snd a with SMissing => true | _ => false end) l.
Definition any_dir (l : list (str * skind)) : bool :=
  existsb (fun a => match snd a with SDir _ _ => true | _ => false end) l.

Definition opt_verdict (o : option (list (list str * pnode))) : verdict :=
  match o with Some l => PExpect l | None => PUndef end.

(* leading "-r" (PMS: "if the first argument is -r") *)
Definition strip_r (l : list (str * skind)) : bool * list (str * skind) :=
  match l with
  | a :: r => if str_eqb (fst a) (lit "-r") then (true, r) else (false, l)
  | [] => (false, [])
  end.
Definition plain_args (l : list (str * skind)) : bool :=
  forallb (fun a => match fst a with 45 :: _ => false | _ => true end%N) l.

Definition pms_expect (i : inv) : verdict :=
  let h := helper i in
  let e := decimal (eapi i) in
  let v := sh i in
  if pms_banned h e then PReject else
  let simple (dest : str) (mode : option N) : verdict :=
    match mode with
    | None => PUndef
    | Some m =>
        if negb (plain_args (args i)) then PUndef
        else if is_nil (args i) then PUndef
        else if any_missing (args i) then PReject
        else if any_dir (args i) then PUndef
        else opt_verdict (flat_files (comps dest) m (args i))
    end in
  let recursive (dest : str) (mode : option N) (dmode : option N) (dirs_need_r_else_reject : bool) (r_allowed : bool) : verdict :=
    match mode with
    | None => PUndef
    | Some m =>
        let '(r, rest) := strip_r (args i) in
        if negb (plain_args rest) then PUndef
        else if is_nil rest then PUndef
        else if any_missing rest then PReject
        else if negb (any_dir rest) then opt_verdict (flat_files (comps dest) m rest)
        else if r && r_allowed then
          opt_verdict (recursive_entries (pms_doins_symlinks e) (comps dest) dmode m rest)
        else if dirs_need_r_else_reject then PReject else PUndef
    end in
  if str_eqb h (lit "doins") then
    recursive (v_insdesttree v) (opts_mode (v_insoptions v)) (opts_mode (v_diroptions v)) false true
  else if str_eqb h (lit "dodoc") then
    recursive (lit "/usr/share/doc/" ++ v_pf v ++ [SL] ++ v_docdesttree v) (Some 420%N) None true (pms_dodoc_r e)
  else if str_eqb h (lit "doexe") then
    if is_nil (v_exedesttree v) then PUndef else simple (v_exedesttree v) (opts_mode (v_exeoptions v))
  else if str_eqb h (lit "dobin") then simple (v_desttree v ++ lit "/bin") (Some 493%N)
  else if str_eqb h (lit "dosbin") then simple (v_desttree v ++ lit "/sbin") (Some 493%N)
  else if str_eqb h (lit "dolib.so") then simple (v_desttree v ++ [SL] ++ v_libdir v) (Some 493%N)
  else if str_eqb h (lit "dolib.a") then simple (v_desttree v ++ [SL] ++ v_libdir v) (Some 420%N)
  else if str_eqb h (lit "dolib") then simple (v_desttree v ++ [SL] ++ v_libdir v) (opts_mode (v_liboptions v))
  else if str_eqb h (lit "doinfo") then simple (lit "/usr/share/info") (Some 420%N)
  else if str_eqb h (lit "doman") then
    let '(i18n, rest) :=
      match args i with
      | a :: r => if startswith (lit "-i18n=") (fst a) then (Some (skipn 6 (fst a)), r) else (None, args i)
      | [] => (None, [])
      end in
    if negb (plain_args rest) || is_nil rest then PUndef
    else if any_missing rest then PReject
    else
      let ps := map (fun a => match snd a with
                              | SFile f => match pms_doman e i18n (basename (fst a)) with
                                           | Some (Some (d, name)) =>
                                               match file_node 420%N f false with
                                               | Some n => Some (Some (comps (lit "/usr/share/man") ++ d ++ [name], n))
                                               | None => None end
                                           | Some None => Some None
                                           | None => None end
                              | _ => None end) rest in
      if existsb (fun x => match x with Some None => true | _ => false end) ps
         && forallb (fun x => match x with None => false | _ => true end) ps then PReject
      else if existsb (fun x => match x with Some (Some _) => false | _ => true end) ps then PUndef
      else PExpect (concat (map (fun x => match x with Some (Some y) => [y] | _ => [] end) ps))
  else if str_eqb h (lit "domo") then
    let dest := if pms_domo_ignores_into e then lit "/usr/share/locale" else v_desttree v ++ lit "/share/locale" in
    if negb (plain_args (args i)) || is_nil (args i) then PUndef
    else if any_missing (args i) then PReject
    else
      let ps := map (fun a => match snd a, pms_domo_lang (basename (fst a)) with
                              | SFile f, Some l => match file_node 420%N f false with
                                                   | Some n => Some (comps dest ++ [l; lit "LC_MESSAGES"; pn i ++ lit ".mo"], n)
                                                   | None => None end
                              | _, _ => None end) (args i) in
      if existsb (fun x => match x with None => true | _ => false end) ps then PUndef
      else PExpect (concat (map (fun x => match x with Some y => [y] | None => [] end) ps))
  else if str_eqb h (lit "dohtml") then
    let p := parse_argv h (args i) false parsed0 in        (* option syntax: as documented in PMS *)
    let o := p_html p in
    let dest := lit "/usr/share/doc/" ++ v_pf v ++ [SL]
                ++ (match v_docdesttree v with [] => lit "html" | d => d end) ++ [SL] ++ h_p o in
    match p_err p with Some _ => PUndef | None =>
    if is_nil (p_pos p) then PUndef
    else if any_missing (p_pos p) then PReject
    else if any_dir (p_pos p) then
      if h_r o then
        (* every allowed file below the directories that are not excluded *)
        let ds := map (fun a => match snd a with
          | SDir _ w =>
              if negb (good_name (basename (rstrip_sl (fst a)))) then None
              else if str_mem (basename (rstrip_sl (fst a))) (h_x o) then Some []
              else if existsb (fun we => negb (is_nil (w_dlinks we))
                                         || existsb (fun nf => match snd nf with FLink _ _ => true | _ => false end) (w_files we)
                                         || existsb (fun c => str_mem c (h_x o)) (w_rel we)) w then None
              else Some (concat (map (fun we =>
                     concat (map (fun nf => match pms_html_ok o (fst nf), snd nf with
                                            | Some true, FReg cid => [(comps dest ++ [basename (rstrip_sl (fst a))] ++ w_rel we ++ [fst nf],
                                                                       PFile 420%N cid)]
                                            | _, _ => [] end) (w_files we))) w))
          | _ => Some [] end) (dirs_of (p_pos p)) in
        let undecided := existsb (fun a => match snd a with
          | SDir _ w => existsb (fun we => existsb (fun nf => match pms_html_ok o (fst nf) with None => true | _ => false end) (w_files we)) w
          | _ => false end) (dirs_of (p_pos p)) in
        if undecided || existsb (fun x => match x with None => true | _ => false end) ds then PUndef
        else
          let fl := filter (fun a => match pms_html_ok o (basename (fst a)) with Some true => true | _ => false end) (files_of (p_pos p)) in
          if existsb (fun a => match pms_html_ok o (basename (fst a)) with None => true | _ => false end) (files_of (p_pos p)) then PUndef
          else match flat_files (comps dest) 420%N fl with
               | Some l => PExpect (concat (map (fun x => match x with Some y => y | None => [] end) ds) ++ l)
               | None => PUndef end
      else PUndef                                           (* PMS: undefined whether this fails *)
    else
      if existsb (fun a => match pms_html_ok o (basename (fst a)) with None => true | _ => false end) (p_pos p) then PUndef
      else opt_verdict (flat_files (comps dest) 420%N
                          (filter (fun a => match pms_html_ok o (basename (fst a)) with Some true => true | _ => false end) (p_pos p)))
    end
  else if str_eqb h (lit "dodir") || str_eqb h (lit "keepdir") then
    if negb (plain_args (args i)) || is_nil (args i) then PUndef
    else
      let m := opts_mode (v_diroptions v) in
      match m with None => PUndef | Some m =>
      PExpect (concat (map (fun a =>
        let k := comps (fst a) in
        (match k with [] => [] | _ => [(k, PDir (Some m))] end)
        ++ (if str_eqb h (lit "keepdir")
            then [(k ++ [lit ".keep_" ++ cat i ++ lit "_" ++ pn i ++ lit "-" ++ slot i], PKeep)] else [])) (args i)))
      end
  else if str_eqb h (lit "dosym") then
    let '(r, rest) := strip_r (args i) in
    match rest with
    | [] | [_] => PReject                                   (* missing link name *)
    | [src; tgt] =>
        if negb (plain_args rest) then PUndef
        else if endswith_sl (fst tgt) then PReject          (* bug 379899: the link name must be a file name *)
        else match lookup (comps (fst tgt)) (pre i) with
             | Some (NDir _) => PReject
             | _ =>
                 match comps (fst tgt) with
                 | [] => PUndef
                 | k =>
                     if r then
                       if negb (pms_dosym_r e) then PReject
                       else if negb (isabs (fst src)) then PReject
                       else PExpect [(k, PLink (relative_target [] (fst src) (fst tgt)))]
                     else PExpect [(k, PLink (fst src))]
                 end
             end
    | _ => PUndef
    end
  else if str_eqb h (lit "dohard") then
    match args i with
    | [] | [_] => PReject
    | [src; tgt] =>
        if negb (plain_args (args i)) || endswith_sl (fst tgt) then PUndef
        else match lookup (comps (fst src)) (pre i), lookup (comps (fst tgt)) (pre i), comps (fst tgt) with
             | Some (NFile _ _ _), None, _ :: _ => PExpect [(comps (fst tgt), PHard (comps (fst src)))]
             | Some (NFile _ _ _), Some (NFile _ _ _), _ :: _ =>
                 if list_eq_dec str_eq_dec (comps (fst src)) (comps (fst tgt)) then PUndef
                 else PExpect [(comps (fst tgt), PHard (comps (fst src)))]
             | None, _, _ => PReject
             | _, _, _ => PUndef
             end
    | _ => PUndef
    end
  else PUndef.

(* ------------------------------------------------------------------ acceptor on a recorded image (B) *)
Definition dec_str (v : val) : str := match v with VS s => s | _ => [] end.
Definition dec_N (v : val) : N := match v with VZ z => Z.to_N z | _ => 0%N end.
Definition entry_key (v : val) : list str :=
  match v with VL (p :: _) => match dec_str p with [] => [] | s => split_sl s end | _ => [] end.
Fixpoint find_entry (k : list str) (l : list val) : option val :=
  match l with
  | [] => None
  | v :: r => match key_cmp k (entry_key v) with Eq => Some v | _ => find_entry k r end
  end.
Definition entry_is (l : list val) (kn : list str * pnode) : bool :=
  match find_entry (fst kn) l, snd kn with
  | Some (VL [_; VZ 1%Z; m; c; _]), PFile mode cid => N.eqb (dec_N m) mode && N.eqb (dec_N c) cid
  | Some (VL [_; VZ 2%Z; t]), PLink target => str_eqb (dec_str t) target
  | Some (VL [_; VZ 0%Z; m]), PDir mode => match mode with Some md => N.eqb (dec_N m) md | None => true end
  | Some (VL [_; VZ 1%Z; m; c; n]), PHard src =>
      match find_entry src l with
      | Some (VL [_; VZ 1%Z; m2; c2; n2]) =>
          N.eqb (dec_N m) (dec_N m2) && N.eqb (dec_N c) (dec_N c2) && N.leb 2 (dec_N n) && N.eqb (dec_N n) (dec_N n2)
      | _ => false end
  | Some (VL [_; VZ 1%Z; _; c; _]), PKeep => N.eqb (dec_N c) 0
  | _, _ => false
  end.
(* when several sources go to one destination the last one wins *)
Fixpoint last_wins (ex : list (list str * pnode)) : list (list str * pnode) :=
  match ex with
  | [] => []
  | kn :: r => if existsb (fun kn' => match key_cmp (fst kn) (fst kn') with Eq => true | _ => false end) r
               then last_wins r else kn :: last_wins r
  end.
Definition in_pre (pre : image) (v : val) : bool :=
  match lookup (entry_key v) pre with Some _ => true | None => false end.
Definition is_dir_entry (v : val) : bool := match v with VL [_; VZ 0%Z; _] => true | _ => false end.
Definition expected_key (ex : list (list str * pnode)) (v : val) : bool :=
  existsb (fun kn => match key_cmp (fst kn) (entry_key v) with Eq => true | _ => false end) ex.
(* a directory of the result is accounted for when it is an ancestor-or-self of something expected *)
Fixpoint is_prefix (a b : list str) : bool :=
  match a, b with
  | [], _ => true
  | x :: a', y :: b' => str_eqb x y && is_prefix a' b'
  | _, [] => false
  end.
Definition dir_accounted (i : inv) (ex : list (list str * pnode)) (v : val) : bool :=
  existsb (fun kn => is_prefix (entry_key v) (fst kn)) ex
  || is_prefix (entry_key v)
       (comps ((match gates_of (eapi i) with
                | Some g => match wrapper_opts g (helper i) (sh i) with
                            | Some w => match o_dest w with Some d => d | None => [] end
                            | None => [] end
                | None => [] end)
               ++ (if str_eqb (helper i) (lit "dohtml")
                   then SL :: h_p (p_html (parse_argv (helper i) (args i) false parsed0)) else []))).

(* two prescribed entries at one destination: a later regular file replaces an earlier one and a
   directory may be named twice, but a symlink or a kind change at an occupied path (e.g. the
   same symlinked directory reached through "dir/lnk" and through "dir/.") has no prescribed
   outcome — cp -r and every implementation refuse it *)
Definition same_kind_ok (a b : pnode) : bool :=
  match a, b with
  | PDir _, PDir _ => true
  | PFile _ _, PFile _ _ => true
  | _, _ => false
  end.
Fixpoint conflict (ex : list (list str * pnode)) : bool :=
  match ex with
  | [] => false
  | kn :: r => existsb (fun kn' => match key_cmp (fst kn) (fst kn') with
                                   | Eq => negb (same_kind_ok (snd kn) (snd kn')) | _ => false end) r
               || conflict r
  end.

(* true = the recorded outcome is acceptable to PMS *)
Definition spec_helper_ok (i : inv) (r : val) : bool :=
  match (match pms_expect i with PExpect ex => if conflict ex then PUndef else PExpect ex | v => v end), r with
  | PUndef, _ => true
  | PReject, VErr _ => true
  | PReject, _ => false
  | PExpect ex, VL l =>
      forallb (fun kn => is_nil (fst kn) || entry_is l kn) (last_wins ex)
      && forallb (fun v => in_pre (pre i) v
                           || (if is_dir_entry v then dir_accounted i ex v else expected_key ex v)) l
  | PExpect _, _ => false
  end.

(* the relative link of dosym -r, resolved from the directory of the link, is the target *)
Definition spec_dosymr_ok (i : str * str) (r : val) : bool :=
  let '(t, l) := i in
  match r with
  | VL [VS rel; _] =>
      negb (isabs rel)
      && match key_cmp (resolve (join2 (absdir l) rel)) (resolve t) with Eq => true | _ => false end
  | _ => false
  end.

(* ------------------------------------------------------------------ gate tables vs PMS *)
Definition numbered_eapis : list str := [lit "0"; lit "1"; lit "2"; lit "3"; lit "4"; lit "5"; lit "6"; lit "7"; lit "8"].
Definition gates_agree (e : str) : bool :=
  match gates_of e with
  | None => false
  | Some g =>
      let n := decimal e in
      Bool.eqb (g_dodoc_r g) (pms_dodoc_r n) && Bool.eqb (g_doman_detect g) (pms_doman_lang n)
      && Bool.eqb (g_doman_override g) (pms_doman_i18n_wins n) && Bool.eqb (g_dosym_rel g) (pms_dosym_r n)
      && forallb (fun h => Bool.eqb (is_banned h e) (pms_banned h n))
           [lit "doins"; lit "dodoc"; lit "doexe"; lit "dobin"; lit "dosbin"; lit "dolib"; lit "dolib.so"; lit "dolib.a";
            lit "doman"; lit "dohtml"; lit "doinfo"; lit "dodir"; lit "keepdir"; lit "dosym"; lit "dohard"]
  end.
Definition spec_gate_ok (i : str * str) (r : val) : bool :=
  let '(h, e) := i in
  let n := decimal e in
  match r with
  | VL [VB b; VB g1; VB g2; VB g3; VB g4; _] =>
      (str_eqb h (lit "domo") || Bool.eqb b (pms_banned h n))
      && Bool.eqb g1 (pms_dodoc_r n) && Bool.eqb g2 (pms_doman_lang n)
      && Bool.eqb g3 (pms_doman_i18n_wins n) && Bool.eqb g4 (pms_dosym_r n)
  | _ => false
  end.
