#!/bin/sh
# coqchk_all.sh [-P n] — independent re-check (coqchk -o) of every Prop_Cxx closure; axiom summaries to notes/coqchk/Cxx.txt
P=4; if [ "$1" = "-P" ]; then P=$2; shift 2; fi
cd "$(dirname "$0")/../coq"; mkdir -p ../notes/coqchk
ls -d C[0-9][0-9] | xargs -P $P -I{} sh -c 'timeout 3000 coqchk -R . Verif -o Verif.{}.Prop_{} > /tmp/coqchk_{}.log 2>&1; rc=$?; { echo "coqchk -R . Verif -o Verif.{}.Prop_{}  rc=$rc"; sed -n "/CONTEXT SUMMARY/,\$p" /tmp/coqchk_{}.log; } > ../notes/coqchk/{}.txt; echo "{} rc=$rc"; rm -f /tmp/coqchk_{}.log'
