(* Model_C27.v — executable model of pkgcore's per-key file metadata cache
   (src/pkgcore/cache/__init__.py base.__setitem__/__getitem__/deconstruct_eclasses/
   reconstruct_eclasses, src/pkgcore/cache/flat_hash.py database._setitem/_getitem/
   _parse_data/keys and its md5_cache subclass, cache/fs_template.py _ensure_access).
   No proofs here.

   Strings are code points; the content of a cache file is modelled as the list of code
   points the text layer writes (the UTF-8 encoding of the file is not modelled: the harness
   decodes).  The filesystem is C18/Fs.v.

   Deliberate restrictions (the harness's generators stay inside them; they are premises or
   documented in notes/C27.md):
   * [parse_num]/[parse_hex] accept exactly non-empty ASCII digit / hex-digit strings; Python's
     float()/int(,16) additionally accept signs, surrounding blanks, '_', exponents, "0x",
     "nan"/"inf" — never produced by the serialisers.
   * mtimes are non-negative, given in milliseconds (fractional stamps; the harness uses
     multiples of 1/8 s, exact in binary floating point); md5 values are < 2^128.
   * the temporary file of a store is assumed not to pre-exist (own pid).
   * a crash is a prefix of the SYSTEM CALLS of the store; text still sitting in the file
     object's buffer is lost (see chunks_at_close / chunks_per_char).
   * [keys] describes the listing WITH fixes/C27-skip-update-temp.patch applied
     ([keys_gen false] is the behaviour of the pinned tree). *)
From Coq Require Import List NArith ZArith Bool Arith.
From Coq Require Decimal Hexadecimal.
From Coq Require String Ascii.
Import String.StringSyntax.
Delimit Scope string_scope with string.
Import ListNotations.
From Verif Require Import Base.Val C18.Fs.
Local Open Scope N_scope.

Definition lit (s : String.string) : str := map Ascii.N_of_ascii (String.list_ascii_of_string s).
Arguments lit s%string.

(* ------------------------------------------------------------------ characters / strings *)
Definition c_nl : N := 10.
Definition c_cr : N := 13.
Definition c_tab : N := 9.
Definition c_eq : N := 61.
Definition c_sl : N := 47.

(* Python str.isspace() of one code point (what str.strip() removes) *)
Definition is_space (c : N) : bool :=
  ((9 <=? c) && (c <=? 13)) || ((28 <=? c) && (c <=? 32)) || (c =? 133) || (c =? 160)
  || (c =? 5760) || ((8192 <=? c) && (c <=? 8202)) || (c =? 8232) || (c =? 8233)
  || (c =? 8239) || (c =? 8287) || (c =? 12288).

Fixpoint lstrip (s : str) : str :=
  match s with
  | [] => []
  | c :: r => if is_space c then lstrip r else s
  end.
Fixpoint rstrip (s : str) : str :=
  match s with
  | [] => []
  | c :: r => match rstrip r with
              | [] => if is_space c then [] else [c]
              | r' => c :: r'
              end
  end.
Definition strip (s : str) : str := rstrip (lstrip s).

(* iteration over a text-mode file (universal newlines): lines end at \n, \r or \r\n; a
   trailing piece without terminator is a line iff it is non-empty.  The terminators are
   dropped here (the caller strips every line anyway). *)
Fixpoint split_lines_ (skipnl : bool) (s : str) : list str :=
  match s with
  | [] => []
  | c :: r =>
      if c =? c_nl then (if skipnl then split_lines_ false r else [] :: split_lines_ false r)
      else if c =? c_cr then [] :: split_lines_ true r
      else match split_lines_ false r with
           | [] => [[c]]
           | l :: ls => (c :: l) :: ls
           end
  end.
Definition split_lines (s : str) : list str := split_lines_ false s.

(* x.split("=", 1) as a pair; None when there is no "=" (the unpacking raises ValueError) *)
Fixpoint split_eq (s : str) : option (str * str) :=
  match s with
  | [] => None
  | c :: r => if c =? c_eq then Some ([], r)
              else match split_eq r with
                   | Some (k, v) => Some (c :: k, v)
                   | None => None
                   end
  end.

(* s.split(sep) for a one-character separator: never empty *)
Fixpoint split_on (sep : N) (s : str) : list str :=
  match s with
  | [] => [[]]
  | c :: r => if c =? sep then [] :: split_on sep r
              else match split_on sep r with
                   | h :: t => (c :: h) :: t
                   | [] => [[c]]
                   end
  end.
Fixpoint join_on (sep : N) (l : list str) : str :=
  match l with
  | [] => []
  | [x] => x
  | x :: r => x ++ sep :: join_on sep r
  end.

Definition startswith (p s : str) : bool := str_eqb (firstn (length p) s) p.
Definition endswith (p s : str) : bool := startswith (rev p) (rev s).

(* Python's order on str: lexicographic on code points *)
Fixpoint str_ltb (a b : str) : bool :=
  match a, b with
  | [], [] => false
  | [], _ :: _ => true
  | _ :: _, [] => false
  | x :: a', y :: b' => if x <? y then true else if y <? x then false else str_ltb a' b'
  end.

(* ------------------------------------------------------------------ numerals *)
Fixpoint uint_str (u : Decimal.uint) : str :=
  match u with
  | Decimal.Nil => []
  | Decimal.D0 u => 48 :: uint_str u | Decimal.D1 u => 49 :: uint_str u
  | Decimal.D2 u => 50 :: uint_str u | Decimal.D3 u => 51 :: uint_str u
  | Decimal.D4 u => 52 :: uint_str u | Decimal.D5 u => 53 :: uint_str u
  | Decimal.D6 u => 54 :: uint_str u | Decimal.D7 u => 55 :: uint_str u
  | Decimal.D8 u => 56 :: uint_str u | Decimal.D9 u => 57 :: uint_str u
  end.
Definition dec (n : N) : str := uint_str (N.to_uint n).        (* f"{n:.0f}" / str(n), n >= 0 *)

Fixpoint str_uint (s : str) : option Decimal.uint :=
  match s with
  | [] => Some Decimal.Nil
  | c :: r =>
      match str_uint r with
      | None => None
      | Some u =>
          match c with
          | 48 => Some (Decimal.D0 u) | 49 => Some (Decimal.D1 u) | 50 => Some (Decimal.D2 u)
          | 51 => Some (Decimal.D3 u) | 52 => Some (Decimal.D4 u) | 53 => Some (Decimal.D5 u)
          | 54 => Some (Decimal.D6 u) | 55 => Some (Decimal.D7 u) | 56 => Some (Decimal.D8 u)
          | 57 => Some (Decimal.D9 u) | _ => None
          end
      end
  end.
(* math.floor(float(s)) on the accepted domain *)
Definition parse_num (s : str) : option N :=
  match s with
  | [] => None
  | _ => match str_uint s with Some u => Some (N.of_uint u) | None => None end
  end.

Fixpoint hex_str (u : Hexadecimal.uint) : str :=
  match u with
  | Hexadecimal.Nil => []
  | Hexadecimal.D0 u => 48 :: hex_str u | Hexadecimal.D1 u => 49 :: hex_str u
  | Hexadecimal.D2 u => 50 :: hex_str u | Hexadecimal.D3 u => 51 :: hex_str u
  | Hexadecimal.D4 u => 52 :: hex_str u | Hexadecimal.D5 u => 53 :: hex_str u
  | Hexadecimal.D6 u => 54 :: hex_str u | Hexadecimal.D7 u => 55 :: hex_str u
  | Hexadecimal.D8 u => 56 :: hex_str u | Hexadecimal.D9 u => 57 :: hex_str u
  | Hexadecimal.Da u => 97 :: hex_str u | Hexadecimal.Db u => 98 :: hex_str u
  | Hexadecimal.Dc u => 99 :: hex_str u | Hexadecimal.Dd u => 100 :: hex_str u
  | Hexadecimal.De u => 101 :: hex_str u | Hexadecimal.Df u => 102 :: hex_str u
  end.
Definition hex (n : N) : str := hex_str (N.to_hex_uint n).     (* "%x" % n *)
(* Chksummer.long2str: ("%x" % val).rjust(32, "0") *)
Definition hex32 (n : N) : str := let h := hex n in repeat 48 (32 - length h)%nat ++ h.

Fixpoint str_hex (s : str) : option Hexadecimal.uint :=
  match s with
  | [] => Some Hexadecimal.Nil
  | c :: r =>
      match str_hex r with
      | None => None
      | Some u =>
          match c with
          | 48 => Some (Hexadecimal.D0 u) | 49 => Some (Hexadecimal.D1 u)
          | 50 => Some (Hexadecimal.D2 u) | 51 => Some (Hexadecimal.D3 u)
          | 52 => Some (Hexadecimal.D4 u) | 53 => Some (Hexadecimal.D5 u)
          | 54 => Some (Hexadecimal.D6 u) | 55 => Some (Hexadecimal.D7 u)
          | 56 => Some (Hexadecimal.D8 u) | 57 => Some (Hexadecimal.D9 u)
          | 97 | 65 => Some (Hexadecimal.Da u) | 98 | 66 => Some (Hexadecimal.Db u)
          | 99 | 67 => Some (Hexadecimal.Dc u) | 100 | 68 => Some (Hexadecimal.Dd u)
          | 101 | 69 => Some (Hexadecimal.De u) | 102 | 70 => Some (Hexadecimal.Df u)
          | _ => None
          end
      end
  end.
(* int(s, 16) on the accepted domain *)
Definition parse_hex (s : str) : option N :=
  match s with
  | [] => None
  | _ => match str_hex s with Some u => Some (N.of_hex_uint u) | None => None end
  end.

(* ------------------------------------------------------------------ os.path.dirname *)
Fixpoint drop_nonslash (s : str) : str :=
  match s with [] => [] | c :: r => if c =? c_sl then s else drop_nonslash r end.
Fixpoint drop_slash (s : str) : str :=
  match s with [] => [] | c :: r => if c =? c_sl then drop_slash r else s end.
Definition dirname (p : str) : str :=
  let h := drop_nonslash (rev p) in            (* reversed head, up to the last slash *)
  if forallb (N.eqb c_sl) h then rev h else rev (drop_slash h).

(* ------------------------------------------------------------------ python dicts *)
Section Dict.
  Context {V : Type}.
  Fixpoint dget (k : str) (d : list (str * V)) : option V :=
    match d with
    | [] => None
    | (k', v) :: r => if str_eqb k k' then Some v else dget k r
    end.
  (* d[k] = v : replaces in place, else appends (insertion order) *)
  Fixpoint dset (k : str) (v : V) (d : list (str * V)) : list (str * V) :=
    match d with
    | [] => [(k, v)]
    | (k', v') :: r => if str_eqb k k' then (k', v) :: r else (k', v') :: dset k v r
    end.
  Fixpoint insert_sorted (e : str * V) (l : list (str * V)) : list (str * V) :=
    match l with
    | [] => [e]
    | x :: r => if str_ltb (fst x) (fst e) then x :: insert_sorted e r else e :: l
    end.
  (* sorted(d.items()) for a dict (distinct keys) *)
  Definition sort_items (d : list (str * V)) : list (str * V) :=
    fold_right insert_sorted [] d.
End Dict.

(* ------------------------------------------------------------------ entries and layouts *)
Inductive layout := Flat | Md5.

(* what the serialisers read of a chksum object (LazilyHashedPath): eclass files are
   e_dir/e_base; the ebuild's object only contributes mtime / md5 *)
Record edata := { e_path : str; e_stamp : N; e_md5 : N }.
(* e_stamp is the file's mtime in MILLISECONDS (os.stat().st_mtime is a float with a fractional
   part); what the serialisers write is math.floor(data.mtime): whole seconds, truncated *)
Definition e_mtime (d : edata) : N := e_stamp d / 1000.

(* the mapping handed to cache[cpv] = values:  plain string keys, the eclass map under
   "_eclasses_" (None: key absent), the ebuild's chksum object under "_chf_" *)
Record entry := { kvs : list (str * str); ecl : option (list (str * edata)); chf : option edata }.

Definition k_eclasses : str := lit "_eclasses_".
Definition k_inherit : str := lit "INHERIT".
Definition chf_key (lay : layout) : str :=
  match lay with Flat => lit "_mtime_" | Md5 => lit "_md5_" end.

(* pkgcore.ebuild.const.metadata_keys *)
Definition metadata_keys : list str :=
  [lit "BDEPEND"; lit "DEFINED_PHASES"; lit "DEPEND"; lit "DESCRIPTION"; lit "EAPI";
   lit "HOMEPAGE"; lit "IDEPEND"; lit "INHERIT"; lit "INHERITED"; lit "IUSE"; lit "KEYWORDS";
   lit "LICENSE"; lit "PDEPEND"; lit "PROPERTIES"; lit "RDEPEND"; lit "REQUIRED_USE";
   lit "RESTRICT"; lit "SLOT"; lit "SRC_URI"; lit "_eclasses_"].
Definition known (lay : layout) (k : str) : bool :=
  existsb (str_eqb k) metadata_keys || str_eqb k (chf_key lay).

(* the per-eclass serialisers of the layout (eclass_chf_types) *)
Definition eclass_fields (lay : layout) (d : edata) : list str :=
  match lay with
  | Flat => [dirname (e_path d); dec (e_mtime d)]       (* ("eclassdir", "mtime") *)
  | Md5 => [hex32 (e_md5 d)]                            (* ("md5",) *)
  end.
Definition chf_ser (lay : layout) (d : edata) : str :=
  match lay with Flat => dec (e_mtime d) | Md5 => hex32 (e_md5 d) end.

(* base.deconstruct_eclasses *)
Definition deconstruct (lay : layout) (m : list (str * edata)) : str :=
  join_on c_tab (flat_map (fun nd => fst nd :: eclass_fields lay (snd nd)) m).

Definition line (kv : str * str) : str := fst kv ++ c_eq :: snd kv ++ [c_nl].

(* base.__setitem__ + the text flat_hash._setitem writes; None = KeyError("_chf_") *)
Definition to_store (lay : layout) (e : entry) : option (list (str * str)) :=
  match chf e with
  | None => None
  | Some c =>
      let d1 := match ecl e with
                | Some m => dset k_eclasses (deconstruct lay m) (kvs e)
                | None => kvs e
                end in
      Some (dset (chf_key lay) (chf_ser lay c) d1)
  end.
Definition serialize (lay : layout) (e : entry) : option str :=
  match to_store lay e with
  | Some d => Some (flat_map line (sort_items d))
  | None => None
  end.

(* ------------------------------------------------------------------ reading *)
Inductive cv := CS (s : str) | CN (n : N).                       (* a deserialised chf value *)
Inductive pv :=
| PStr (s : str)
| PNum (n : N)
| PEcl (l : list (str * list (str * cv))).                       (* reconstruct_eclasses *)
Inductive perr := KeyErr | Corrupt.
Definition result := (list (str * pv) + perr)%type.

(* _parse_data: the loop over the stripped lines *)
Fixpoint parse_lines (lay : layout) (ls : list str) (d : list (str * str)) : option (list (str * str)) :=
  match ls with
  | [] => Some d
  | l :: r => match split_eq l with
              | None => None
              | Some (k, v) => parse_lines lay r (if known lay k then dset k v d else d)
              end
  end.

Definition chf_deser (lay : layout) (s : str) : option N :=
  match lay with Flat => parse_num s | Md5 => parse_hex s end.

(* one block of eclass_data: the name followed by one item per eclass chf type *)
Definition eclass_block (lay : layout) (items : list str) : option (str * list (str * cv)) :=
  match lay, items with
  | Flat, [n; d; m] => match parse_num m with
                       | Some t => Some (n, [(lit "eclassdir", CS d); (lit "mtime", CN t)])
                       | None => None
                       end
  | Md5, [n; h] => match parse_hex h with
                   | Some x => Some (n, [(lit "md5", CN x)])
                   | None => None
                   end
  | _, _ => None
  end.
Definition tuple_len (lay : layout) : nat := match lay with Flat => 3 | Md5 => 2 end.

Fixpoint blocks (n : nat) (fuel : nat) (l : list str) : list (list str) :=
  match fuel with
  | O => []
  | S f => match l with
           | [] => []
           | _ => firstn n l :: blocks n f (skipn n l)
           end
  end.
Fixpoint all_some {A} (l : list (option A)) : option (list A) :=
  match l with
  | [] => Some []
  | None :: _ => None
  | Some x :: r => match all_some r with Some r' => Some (x :: r') | None => None end
  end.

(* base.reconstruct_eclasses; None = CacheCorruption *)
Definition reconstruct (lay : layout) (s : str) : option (list (str * list (str * cv))) :=
  let parts := split_on c_tab (strip s) in
  match parts with
  | [[]] => Some []
  | _ =>
      if Nat.eqb (Nat.modulo (length parts) (tuple_len lay)) 0
      then all_some (map (eclass_block lay) (blocks (tuple_len lay) (length parts) parts))
      else None
  end.

Definition lift (d : list (str * str)) : list (str * pv) := map (fun kv => (fst kv, PStr (snd kv))) d.

(* flat_hash._getitem (content of the file) followed by base.__getitem__ *)
Definition parse (lay : layout) (content : str) : result :=
  match parse_lines lay (map strip (split_lines content)) [] with
  | None => inr Corrupt                                   (* ValueError -> CacheCorruption *)
  | Some d =>
      match dget (chf_key lay) d with
      | None => inr KeyErr                                (* d[self._chf_key] *)
      | Some raw =>
          match chf_deser lay raw with
          | None => inr Corrupt
          | Some n =>
              let d1 := dset (chf_key lay) (PNum n) (lift d) in
              match dget k_eclasses d with
              | None => inl d1
              | Some es => match reconstruct lay es with
                           | Some l => inl (dset k_eclasses (PEcl l) d1)
                           | None => inr Corrupt
                           end
              end
          end
      end
  end.

(* ------------------------------------------------------------------ the store on the filesystem *)
Definition MODE_TMP : N := 420.     (* 0o644 = open(.., "w") under umask 022 *)
Definition MODE_DIR : N := 509.     (* 0o775, ensure_dirs *)
Definition PERMS : N := 436.        (* 0o664, FsBased._perms *)

(* cpv as path components below the cache location, e.g. ["cat"; "pkg-1"] *)
Definition tmp_name (pid : N) (name : str) : str := lit ".update." ++ dec pid ++ 46 :: name.
Definition tmp_path (loc : path) (pid : N) (cpv : path) : path :=
  loc ++ removelast cpv ++ [tmp_name pid (last cpv [])].
Definition target_path (loc : path) (cpv : path) : path := loc ++ cpv.

(* ensure_dirs(dirname): one mkdir per missing ancestor, top down *)
Fixpoint prefixes_from (base : path) (rest : path) : list path :=
  match rest with
  | [] => []
  | c :: r => (base ++ [c]) :: prefixes_from (base ++ [c]) r
  end.
Definition mkdir_ops (s : fs) (dir : path) : list op :=
  flat_map (fun p => match lookup s p with None => [Mkdir p MODE_DIR] | Some _ => [] end)
           (prefixes_from [] dir).

(* How the text reaches the staging file.  _setitem hands it to a BUFFERED text file object
   (open(fp, "w", 32768)); the bytes reach the file only when the buffer is flushed: whenever it
   fills up and, at the latest, at close().  A flush schedule is a list of chunks whose
   concatenation is the text; every theorem about the store holds for ALL schedules.
   [chunks_at_close]: what really happens for an entry below 32 KiB (one write at close);
   [chunks_per_char]: the finest schedule (what harness/fsx.py produces by making the file
   object unbuffered: one write per character handed to writelines). *)
Definition chunks_at_close (content : str) : list (list N) := [content].
Definition chunks_per_char (content : str) : list (list N) := map (fun c => [c]) content.
Definition perm_ops (tmp : path) (gid : N) : list op := [Chown tmp None (Some gid); Chmod tmp PERMS].

(* flat_hash._setitem: every mutating SYSTEM CALL, in order: mkdirs, creation of the staging
   file, the flushes of the buffered text (all of them no later than close()), and only after
   the close: chown, chmod, rename onto the final name *)
Definition store_ops (s : fs) (loc : path) (pid gid : N) (cpv : path) (chunks : list (list N)) : list op :=
  let tmp := tmp_path loc pid cpv in
  let rep := replace_ops tmp (target_path loc cpv) MODE_TMP chunks (perm_ops tmp gid) in
  if isdir s (parent tmp) then rep else mkdir_ops s (parent tmp) ++ rep.

(* the same call list with an arbitrary list of permission calls between close and rename
   (store_ops = store_ops_with ... (perm_ops tmp gid), by computation) *)
Definition store_ops_with (s : fs) (loc : path) (pid : N) (cpv : path) (chunks : list (list N))
                          (perms : list op) : list op :=
  let tmp := tmp_path loc pid cpv in
  let rep := replace_ops tmp (target_path loc cpv) MODE_TMP chunks perms in
  if isdir s (parent tmp) then rep else mkdir_ops s (parent tmp) ++ rep.

(* A FAULT: the k-th system call of the store raises OSError (EIO, ENOSPC, EXDEV, EACCES ...)
   instead of being performed.  What _setitem's error handling then does to the tree:
     open / mkdir     CacheCorruption, nothing cleaned up
     a flush (write)  the OSError propagates, the staging file stays
     chown            _ensure_access gives up (no chmod either) and returns False; the store goes on
     chmod            likewise, after the chown
     rename           os.remove(staging file), CacheCorruption *)
Definition eio_ops (s : fs) (loc : path) (pid gid : N) (cpv : path) (chunks : list (list N)) (k : nat) : list op :=
  let tmp := tmp_path loc pid cpv in
  let ops := store_ops s loc pid gid cpv chunks in
  match nth_error ops k with
  | Some (Chown _ _ _) => store_ops_with s loc pid cpv chunks []
  | Some (Chmod _ _) => store_ops_with s loc pid cpv chunks [Chown tmp None (Some gid)]
  | Some (Rename _ _) => firstn k ops ++ [Unlink tmp]
  | _ => firstn k ops
  end.
(* what cache[cpv] = values raises then: 0 nothing, 1 CacheCorruption, 2 the raw OSError *)
Definition eio_outcome (s : fs) (loc : path) (pid gid : N) (cpv : path) (chunks : list (list N)) (k : nat) : N :=
  match nth_error (store_ops s loc pid gid cpv chunks) k with
  | Some (Chown _ _ _) | Some (Chmod _ _) | None => 0
  | Some (Append _ _) => 2
  | Some _ => 1
  end.

(* cache[cpv] on a filesystem state *)
Definition read_entry (lay : layout) (s : fs) (loc : path) (cpv : path) : result :=
  match lookup s (target_path loc cpv) with
  | None => inr KeyErr
  | Some (File d _ _ _ _ _) => parse lay d
  | Some _ => inr Corrupt
  end.

(* flat_hash.keys: every non-directory below the location whose path components are all
   listed names.  [skip_update] = fixes/C27-skip-update-temp.patch applied. *)
Definition listed_name (skip_update : bool) (l : str) : bool :=
  negb (endswith (lit ".cpickle") l) && negb (skip_update && startswith (lit ".update.") l).
Definition keys_gen (skip_update : bool) (s : fs) (loc : path) : list str :=
  flat_map (fun p =>
    match lookup s p with
    | Some n =>
        let rel := skipn (length loc) p in
        if is_prefix loc p && negb (is_dir_node n) && negb (match rel with [] => true | _ => false end)
           && forallb (listed_name skip_update) rel
        then [join_on c_sl rel] else []
    | None => []
    end) (map fst s).
Definition keys : fs -> path -> list str := keys_gen true.

Definition sort_strs (l : list str) : list str := map fst (sort_items (map (fun k => (k, tt)) l)).

(* ------------------------------------------------------------------ encoders for the harness *)
Definition vN (n : N) : val := VZ (Z.of_N n).
Definition enc_cv (c : cv) : val := match c with CS s => VS s | CN n => vN n end.
Definition enc_pv (p : pv) : val :=
  match p with
  | PStr s => VS s
  | PNum n => vN n
  | PEcl l => VL (map (fun e => VL [VS (fst e); VL (map (fun c => VL [VS (fst c); enc_cv (snd c)]) (snd e))]) l)
  end.
Definition enc_result (r : result) : val :=
  match r with
  | inl d => VL (map (fun kv => VL [VS (fst kv); enc_pv (snd kv)]) d)
  | inr KeyErr => VErr (lit "KeyError")
  | inr Corrupt => VErr (lit "CacheCorruption")
  end.

Definition mk_e (p : str) (ms h : N) : edata := {| e_path := p; e_stamp := ms; e_md5 := h |}.
Definition mk_entry (k : list (str * str)) (e : option (list (str * edata))) (c : option edata) : entry :=
  {| kvs := k; ecl := e; chf := c |}.

(* stream "ser": the text written by cache[cpv] = values *)
Definition run_ser (i : layout * entry) : val :=
  match serialize (fst i) (snd i) with Some s => VS s | None => VErr (lit "KeyError") end.
(* stream "rt": cache[cpv] = values; cache[cpv] *)
Definition run_rt (i : layout * entry) : val :=
  match serialize (fst i) (snd i) with
  | Some s => enc_result (parse (fst i) s)
  | None => VErr (lit "KeyError")
  end.
(* stream "parse": cache[cpv] on a file with the given content *)
Definition run_parse (i : layout * str) : val := enc_result (parse (fst i) (snd i)).

(* a cache directory described by its entries (cpv components, file content); directories
   are created as needed.  loc is ["c"]. *)
Definition LOC : path := [lit "c"].
Fixpoint add_dirs (s : fs) (ps : list path) : fs :=
  match ps with
  | [] => s
  | p :: r => add_dirs (match lookup s p with None => set_node s p (Dir MODE_DIR 0 0 0) | Some _ => s end) r
  end.
Definition add_file (s : fs) (p : path) (d : str) : fs :=
  let s1 := add_dirs s (prefixes_from [] (removelast p)) in
  set_node s1 p (File d PERMS 0 0 0 (fresh_ino s1)).
Definition mk_fs (with_loc : bool) (files : list (path * str)) : fs :=
  fold_left (fun s f => add_file s (LOC ++ fst f) (snd f))
            files (if with_loc then [(LOC, Dir MODE_DIR 0 0 0)] else []).

Definition enc_op (o : op) : val :=
  let vp (p : path) := VL (map VS p) in
  match o with
  | Mkdir p m => VL [VS (lit "mkdir"); vp p; vN m]
  | Create p m => VL [VS (lit "create"); vp p; vN m]
  | Append p d => VL [VS (lit "write"); vp p; VS d]
  | Chown p _ g => VL [VS (lit "chown"); vp p; match g with Some g => vN g | None => VNone end]
  | Chmod p m => VL [VS (lit "chmod"); vp p; vN m]
  | Rename a b => VL [VS (lit "rename"); vp a; vp b]
  | _ => VErr (lit "op")
  end.

Record crash_case := { cc_lay : layout; cc_loc : bool; cc_files : list (path * str);
                       cc_pid : N; cc_gid : N; cc_cpv : path; cc_entry : entry; cc_k : nat;
                       cc_buffered : bool }.   (* true: real buffering (one flush at close) *)
Definition mk_cc l b f p g c e k bf :=
  {| cc_lay := l; cc_loc := b; cc_files := f; cc_pid := p; cc_gid := g; cc_cpv := c; cc_entry := e;
     cc_k := k; cc_buffered := bf |}.
Definition cc_chunks (c : crash_case) (content : str) : list (list N) :=
  if cc_buffered c then chunks_at_close content else chunks_per_char content.

(* stream "ops": the mutating calls of one store; the run of consecutive writes is reported
   as one item [write; path; all data; number of write calls] to keep the cases file small *)
Fixpoint split_appends (ops : list op) : list op * list op :=
  match ops with
  | Append p d :: r => let (a, b) := split_appends r in (Append p d :: a, b)
  | _ => ([], ops)
  end.
Fixpoint enc_ops (fuel : nat) (ops : list op) : list val :=
  match fuel with
  | O => []
  | S f =>
      match ops with
      | [] => []
      | Append p _ :: _ =>
          let (a, b) := split_appends ops in
          VL [VS (lit "write"); VL (map VS p);
              VS (flat_map (fun o => match o with Append _ d => d | _ => [] end) a);
              VZ (Z.of_nat (length a))] :: enc_ops f b
      | o :: r => enc_op o :: enc_ops f r
      end
  end.
Definition run_ops (c : crash_case) : val :=
  match serialize (cc_lay c) (cc_entry c) with
  | None => VErr (lit "KeyError")
  | Some content =>
      let ops := store_ops (mk_fs (cc_loc c) (cc_files c)) LOC (cc_pid c) (cc_gid c) (cc_cpv c) (cc_chunks c content) in
      VL (enc_ops (S (length ops)) ops)
  end.
(* stream "crash": the first k (successful) calls of the store happen, then the machine
   stops; afterwards cache[cpv], every other entry and the key listing are observed *)
Definition run_crash (c : crash_case) : val :=
  match serialize (cc_lay c) (cc_entry c) with
  | None => VErr (lit "KeyError")
  | Some content =>
      let s0 := mk_fs (cc_loc c) (cc_files c) in
      let sk := run (firstn (cc_k c) (store_ops s0 LOC (cc_pid c) (cc_gid c) (cc_cpv c) (cc_chunks c content))) s0 in
      VL [enc_result (read_entry (cc_lay c) sk LOC (cc_cpv c));
          VL (map (fun f => enc_result (read_entry (cc_lay c) sk LOC (fst f))) (cc_files c));
          VL (map VS (sort_strs (keys sk LOC)))]
  end.
(* stream "fault": the cc_k-th system call of the store fails with EIO; afterwards what the
   store raised, cache[cpv], every other entry and the key listing are observed *)
Definition run_fault (c : crash_case) : val :=
  match serialize (cc_lay c) (cc_entry c) with
  | None => VErr (lit "KeyError")
  | Some content =>
      let s0 := mk_fs (cc_loc c) (cc_files c) in
      let ch := cc_chunks c content in
      let sk := run (eio_ops s0 LOC (cc_pid c) (cc_gid c) (cc_cpv c) ch (cc_k c)) s0 in
      VL [match eio_outcome s0 LOC (cc_pid c) (cc_gid c) (cc_cpv c) ch (cc_k c) with
          | 0 => VNone | 1 => VErr (lit "CacheCorruption") | _ => VErr (lit "OSError") end;
          enc_result (read_entry (cc_lay c) sk LOC (cc_cpv c));
          VL (map (fun f => enc_result (read_entry (cc_lay c) sk LOC (fst f))) (cc_files c));
          VL (map VS (sort_strs (keys sk LOC)))]
  end.

