import os, sys, tempfile, shutil
from pkgcore.ebuild import ebd_ipc
from pkgcore.test.misc import FakePkg
print("ebd_ipc from", ebd_ipc.__file__)
class Obs:
    def __init__(self): self.msgs=[]
    def warn(self,m): self.msgs.append(("warn",m))
    def write(self,m,**kw): self.msgs.append(("write",m))
    def info(self,m): self.msgs.append(("info",m))
    def flush(self): pass
class Op:
    def __init__(self,pkg,ED):
        self.pkg=pkg; self.ED=ED; self.observer=Obs(); self.env={}; self.userpriv=False
class Ebd:
    def __init__(self, lines): self.lines=list(lines); self.out=[]
    def read(self): return self.lines.pop(0)+"\n"
    def write(self,d): self.out.append(d)
top=tempfile.mkdtemp(prefix="c32r_")
src=os.path.join(top,"src"); os.makedirs(src); ED=os.path.join(top,"image")+"/"; os.makedirs(ED)
open(os.path.join(src,"f"),"w").write("hello")
pkg=FakePkg("cat/pn-1.0",eapi="7",slot="0")
def call(cls, nonfatal, opts, args, op=None, inst=None):
    op = op or Op(pkg,ED)
    cmd = inst or cls(op)
    ebd=Ebd(["true" if nonfatal else "false", src, "install", opts, "\0".join(args)+"\0"])
    try:
        cmd(ebd); r=("reply", ebd.out)
    except ebd_ipc.IpcError as e:
        r=(type(e).__name__, e.ret, repr(e.__cause__))
    os.chdir("/")
    return r, cmd
print("1 fallback ok cmd (-S forces fallback):", call(ebd_ipc.Doins, True, "--dest=/usr --insoptions='-m0644 -S'", ["f"])[0], os.path.exists(ED+"usr/f"))
print("2 fallback failing cmd (bad owner):", call(ebd_ipc.Doins, True, "--dest=/usr2 --insoptions='-m0644 -S -o nosuchuser_x'", ["f"])[0], os.path.exists(ED+"usr2/f"))
print("3 dirs fallback ok:", call(ebd_ipc.Dodir, True, "--diroptions='-m0755 -v'", ["/a/b"])[0], os.path.isdir(ED+"a/b"))
print("4 dirs fallback fail:", call(ebd_ipc.Dodir, True, "--diroptions='-m0755 -o nosuchuser_x'", ["/a/c"])[0], os.path.isdir(ED+"a/c"))
print("4b fatal fallback fail:", call(ebd_ipc.Dodir, False, "--diroptions='-m0755 -o nosuchuser_x'", ["/a/c"])[0])
# coroutine death
os.symlink("/nonexistent_zzz", os.path.join(src,"dang"))
r,inst=call(ebd_ipc.Doins, True, "--dest=/usr3", ["dang"])
print("5 nonfatal doins dangling:", r)
r,_=call(ebd_ipc.Doins, True, "--dest=/usr3", ["f"], inst=inst)
print("6 same instance, good file:", r, os.path.exists(ED+"usr3/f"))
# multi-line messages from other places
print("7 nonexistent:", call(ebd_ipc.Doins, True, "", ["nope\nxx"])[0])
print("8 no args:", call(ebd_ipc.Doins, True, "", [])[0])
print("9 unknown opt:", call(ebd_ipc.Doins, True, "--bogus=1", ["f"])[0])
print("10 fatal nonexistent:", call(ebd_ipc.Doins, False, "", ["nope"])[0])
shutil.rmtree(top)
