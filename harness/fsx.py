"""harness/fsx.py — os-level interposition: record the mutating filesystem calls of a code
block, re-run it with a crash or an EIO at call k, snapshot / clone scratch trees.

Owner: C18 (used by C19 and the other crash-consistency properties).  No source change in
/repo is needed: the functions of the `os` module and `builtins.open`/`io.open` are replaced
for the duration of a `with` block in THIS process; only calls whose path lies under `root`
are recorded or faulted, everything else passes through.

API (stable)
------------
    run = fsx.record(fn, root, chunk=None)            # -> Run
    run = fsx.run_with_fault(fn, root, k, mode="crash"|"eio", chunk=None)   # -> Run
    Run.result      value returned by fn (None if it raised)
    Run.exc         the exception fn raised (None otherwise; a simulated crash is `fsx.Crash`)
    Run.crashed     True when the simulated crash fired
    Run.trace       list[Call] — every ATTEMPTED mutating call under root, in order;
                    index in this list == the fault index k of run_with_fault
    Call.kind       mkdir rename link symlink unlink rmdir chmod chown utime mkfifo mknod
                    create (open() that creates a file) truncate (O_TRUNC / truncate())
                    write (one chunk of data written through a file object or os.write)
    Call.args       kind-specific tuple, paths as given by the caller:
                      mkdir(path, effective_mode) rename(src, dst) link(src, dst)
                      symlink(target, path) unlink(path) rmdir(path) chmod(path, mode)
                      chown(path, uid, gid, follow) utime(path, mtime_int) mkfifo(path, mode)
                      mknod(path, mode, dev) create(path, effective_mode) truncate(path)
                      write(path, offset, data_bytes)
    Call.cpaths     the path arguments canonicalised AT CALL TIME: tuple of components
                    relative to root, symlinks resolved in every component but the last
                    (None when it escapes root)
    Call.rpaths     same, with the last component resolved as well (what a following call
                    such as chmod/utime/open really touches)
    Call.ok         False when the real call raised (errno in Call.errno); such a call
                    changed nothing
    Call.faulted    True for the call at which the fault was injected

    fault semantics   mode="crash": call k is NOT performed, `fsx.Crash` (a BaseException, so
                      `except OSError/Exception` handlers do not swallow it) is raised, and
                      every later mutating call under root raises Crash as well (cleanup
                      code in `finally`/`except BaseException` cannot touch the tree).
                      mode="eio": call k is not performed and raises OSError(EIO); the
                      program continues and its own error handling runs for real.
    chunk             when set, every write() of n bytes is split into ceil(n/chunk) separate
                      mutating calls (chunk=1: byte-granular crash points); file objects
                      opened for writing under root are unbuffered in any case, so a
                      completed write call is on "disk".

    fsx.snapshot(root) -> {relpath_tuple: node}   node = ("file", data, mode, uid, gid, mtime, ino)
                      | ("dir", mode, uid, gid, mtime) | ("sym", target, uid, gid, mtime)
                      | ("fifo", mode, uid, gid, mtime) | ("dev", mode_with_type, uid, gid, mtime, rdev)
                      mtime is int seconds; ino is the st_ino (compare as a partition)
    fsx.clone_tree(src, dst)   copy a scratch tree preserving types, data, hard-link groups,
                      modes, owners (when root) and mtimes
    fsx.canon(root, path, follow_last=False) -> tuple | None   the canonicalisation used above

Not covered: mmap writes, os.sendfile/copy_file_range, subprocesses (a spawned `cp` is
invisible), renameat2/linkat with dir_fd (dir_fd calls pass through unrecorded).
"""

from __future__ import annotations

import builtins
import errno
import io
import os
import stat as statmod


class Crash(BaseException):
    """The simulated power cut."""


class Call:
    __slots__ = ("kind", "args", "cpaths", "rpaths", "ok", "errno", "faulted")

    def __init__(self, kind, args, cpaths, rpaths):
        self.kind, self.args, self.cpaths, self.rpaths = kind, args, cpaths, rpaths
        self.ok, self.errno, self.faulted = True, None, False

    def __repr__(self):
        flag = "" if self.ok else f" !errno={self.errno}"
        if self.faulted:
            flag += " FAULT"
        a = tuple((x if not isinstance(x, (bytes, bytearray)) or len(x) < 24 else x[:24] + b"..") for x in self.args)
        return f"{self.kind}{a}{flag}"


class Run:
    __slots__ = ("result", "exc", "crashed", "trace")

    def __init__(self):
        self.result, self.exc, self.crashed, self.trace = None, None, False, []


def canon(root, path, follow_last=False):
    """components of `path` relative to `root` with symlinks resolved in all but (unless
    follow_last) the final component; None if the result is outside root."""
    root = os.path.realpath(root)
    path = os.fspath(path)
    if isinstance(path, bytes):
        path = os.fsdecode(path)
    path = os.path.abspath(path)
    if follow_last:
        full = os.path.realpath(path)
    else:
        d, b = os.path.split(path)
        full = os.path.join(os.path.realpath(d), b) if b else os.path.realpath(d)
    if full == root:
        return ()
    if not full.startswith(root + os.sep):
        return None
    return tuple(full[len(root) + 1:].split(os.sep))


_OS_FUNCS = ("mkdir", "rename", "replace", "link", "symlink", "unlink", "remove", "rmdir", "chmod",
             "lchown", "chown", "utime", "mkfifo", "mknod", "truncate", "open", "write", "close",
             "ftruncate")


class _Interposer:
    def __init__(self, root, fault_at=None, mode="crash", chunk=None):
        self.root = os.path.realpath(root)
        self.fault_at, self.mode, self.chunk = fault_at, mode, chunk
        self.trace: list[Call] = []
        self.dead = False
        self.crashed = False
        self.real = {n: getattr(os, n) for n in _OS_FUNCS}
        self.real_open = builtins.open
        self.real_io_open = io.open
        self.fds: dict[int, str] = {}

    # ------------------------------------------------------------------ bookkeeping
    def under(self, path):
        if isinstance(path, int) or path is None:
            return False
        try:
            p = os.fspath(path)
        except TypeError:
            return False
        if isinstance(p, bytes):
            p = os.fsdecode(p)
        p = os.path.abspath(p)
        d = os.path.realpath(os.path.dirname(p))
        return d == self.root or d.startswith(self.root + os.sep) or p == self.root

    def mutate(self, kind, args, paths, thunk):
        """Register one attempted mutating call, inject the fault if it is its turn, else
        perform it."""
        if self.dead:
            raise Crash()
        cp = tuple(canon(self.root, p) for p in paths)
        rp = tuple(canon(self.root, p, True) for p in paths)
        c = Call(kind, args, cp, rp)
        idx = len(self.trace)
        self.trace.append(c)
        if self.fault_at is not None and idx == self.fault_at:
            c.faulted = True
            c.ok = False
            if self.mode == "crash":
                self.dead = True
                self.crashed = True
                raise Crash()
            c.errno = errno.EIO
            raise OSError(errno.EIO, "fsx: injected I/O error", os.fspath(paths[0]) if paths else None)
        try:
            return thunk()
        except OSError as e:
            c.ok = False
            c.errno = e.errno
            raise

    def umask(self):
        um = os.umask(0)
        os.umask(um)
        return um

    # ------------------------------------------------------------------ os.* wrappers
    def install(self):
        R = self.real
        ip = self

        def simple(name, kind, mkargs, npaths):
            real = R[name]

            def w(*a, **kw):
                if kw.get("dir_fd") is not None or kw.get("src_dir_fd") is not None or kw.get("dst_dir_fd") is not None:
                    return real(*a, **kw)
                paths = a[:npaths] if name != "symlink" else (a[1],)
                if not all(ip.under(p) for p in paths):
                    return real(*a, **kw)
                return ip.mutate(kind, mkargs(*a, **kw), [os.fspath(p) for p in paths], lambda: real(*a, **kw))

            w.__name__ = name
            return w

        def a_mkdir(path, mode=0o777, **kw):
            return (os.fspath(path), mode & ~ip.umask() & 0o7777)

        def a_mkfifo(path, mode=0o666, **kw):
            return (os.fspath(path), mode & ~ip.umask() & 0o7777)

        def a_mknod(path, mode=0o600, device=0, **kw):
            return (os.fspath(path), (mode & ~ip.umask() & 0o7777) | statmod.S_IFMT(mode), device)

        def a_utime(path, times=None, *, ns=None, follow_symlinks=True, **kw):
            if times is not None:
                mt = int(times[1])
            elif ns is not None:
                mt = ns[1] // 10 ** 9
            else:
                mt = -1
            return (os.fspath(path), mt) if follow_symlinks else (os.fspath(path), mt, "nofollow")

        patched = {
            "mkdir": simple("mkdir", "mkdir", a_mkdir, 1),
            "rename": simple("rename", "rename", lambda s, d, **kw: (os.fspath(s), os.fspath(d)), 2),
            "replace": simple("replace", "rename", lambda s, d, **kw: (os.fspath(s), os.fspath(d)), 2),
            "link": simple("link", "link", lambda s, d, **kw: (os.fspath(s), os.fspath(d)), 2),
            "symlink": simple("symlink", "symlink", lambda t, p, *a, **kw: (os.fspath(t), os.fspath(p)), 2),
            "unlink": simple("unlink", "unlink", lambda p, **kw: (os.fspath(p),), 1),
            "remove": simple("remove", "unlink", lambda p, **kw: (os.fspath(p),), 1),
            "rmdir": simple("rmdir", "rmdir", lambda p, **kw: (os.fspath(p),), 1),
            "chmod": simple("chmod", "chmod", lambda p, m, **kw: (os.fspath(p), m), 1),
            "lchown": simple("lchown", "chown", lambda p, u, g: (os.fspath(p), u, g, False), 1),
            "chown": simple("chown", "chown",
                            lambda p, u, g, **kw: (os.fspath(p), u, g, kw.get("follow_symlinks", True)), 1),
            "utime": simple("utime", "utime", a_utime, 1),
            "mkfifo": simple("mkfifo", "mkfifo", a_mkfifo, 1),
            "mknod": simple("mknod", "mknod", a_mknod, 1),
            "truncate": simple("truncate", "truncate", lambda p, n=0: (os.fspath(p),), 1),
        }

        # ---- fd level: os.open / os.write / os.ftruncate / os.close
        def os_open(path, flags, mode=0o777, *, dir_fd=None):
            if dir_fd is not None or not ip.under(path):
                return R["open"](path, flags, mode, dir_fd=dir_fd) if dir_fd is not None else R["open"](path, flags, mode)
            p = os.fspath(path)
            writable = flags & (os.O_WRONLY | os.O_RDWR)
            exists = os.path.lexists(p)
            if not exists and (flags & os.O_CREAT):
                fd = ip.mutate("create", (p, mode & ~ip.umask() & 0o7777), [p], lambda: R["open"](p, flags, mode))
            elif exists and writable and (flags & os.O_TRUNC) and os.path.isfile(p):
                fd = ip.mutate("truncate", (p,), [p], lambda: R["open"](p, flags, mode))
            else:
                fd = R["open"](p, flags, mode)
            if writable:
                ip.fds[fd] = (p, bool(flags & os.O_APPEND))
            return fd

        def os_write(fd, data):
            if fd not in ip.fds:
                return R["write"](fd, data)
            p, app = ip.fds[fd]
            return ip.write_chunks(p, fd, data, app)

        def os_ftruncate(fd, length):
            if fd not in ip.fds:
                return R["ftruncate"](fd, length)
            p, _ = ip.fds[fd]
            return ip.mutate("truncate", (p,), [p], lambda: R["ftruncate"](fd, length))

        def os_close(fd):
            ip.fds.pop(fd, None)
            return R["close"](fd)

        patched.update(open=os_open, write=os_write, ftruncate=os_ftruncate, close=os_close)
        for n, f in patched.items():
            setattr(os, n, f)

        def open_(file, mode="r", buffering=-1, encoding=None, errors=None, newline=None, closefd=True, opener=None):
            writable = any(c in mode for c in "wax+")
            if isinstance(file, int):
                if file in ip.fds and writable:
                    p, app = ip.fds[file]
                    return _File(ip, p, file, mode, encoding, errors, app, closefd)
                return ip.real_open(file, mode, buffering, encoding, errors, newline, closefd, opener)
            if not writable or opener is not None or not ip.under(file):
                return ip.real_open(file, mode, buffering, encoding, errors, newline, closefd, opener)
            p = os.fspath(file)
            if isinstance(p, bytes):
                p = os.fsdecode(p)
            flags = os.O_CLOEXEC
            flags |= os.O_RDWR if ("+" in mode) else os.O_WRONLY
            if "w" in mode:
                flags |= os.O_CREAT | os.O_TRUNC
            elif "a" in mode:
                flags |= os.O_CREAT | os.O_APPEND
            elif "x" in mode:
                flags |= os.O_CREAT | os.O_EXCL
            fd = os_open(p, flags, 0o666)
            ip.fds.pop(fd, None)  # writes go through the _File, not os.write
            return _File(ip, p, fd, mode, encoding, errors, "a" in mode, True)

        builtins.open = open_
        io.open = open_

    def uninstall(self):
        for n, f in self.real.items():
            setattr(os, n, f)
        builtins.open = self.real_open
        io.open = self.real_io_open

    def write_chunks(self, path, fd, data, append):
        if not isinstance(data, bytes):
            # copy at once: no exported buffer (mmap!) may stay referenced when a Crash unwinds
            with memoryview(data) as _mv:
                data = _mv.tobytes()
        n = len(data)
        step = self.chunk if self.chunk else max(n, 1)
        done = 0
        while done < n:
            piece = data[done:done + step]
            off = os.fstat(fd).st_size if append else os.lseek(fd, 0, os.SEEK_CUR)

            def do(piece=piece):
                w = 0
                while w < len(piece):
                    w += self.real["write"](fd, piece[w:])
                return w

            self.mutate("write", (path, off, piece), [path], do)
            done += len(piece)
        return n


class _File:
    """Unbuffered file object handed out for writable opens under root."""

    def __init__(self, ip, path, fd, mode, encoding, errors, append, closefd):
        object.__setattr__(self, "_ip", ip)
        object.__setattr__(self, "_path", path)
        object.__setattr__(self, "_fd", fd)
        object.__setattr__(self, "_text", "b" not in mode)
        object.__setattr__(self, "_enc", encoding or "utf-8")
        object.__setattr__(self, "_errors", errors or "strict")
        object.__setattr__(self, "_append", append)
        object.__setattr__(self, "_closefd", closefd)
        object.__setattr__(self, "closed", False)
        object.__setattr__(self, "mode", mode)
        object.__setattr__(self, "name", path)

    def write(self, data):
        if self._text:
            if not isinstance(data, str):
                raise TypeError("write() argument must be str")
            self._ip.write_chunks(self._path, self._fd, data.encode(self._enc, self._errors), self._append)
            return len(data)
        return self._ip.write_chunks(self._path, self._fd, data, self._append)

    def writelines(self, lines):
        for ln in lines:
            self.write(ln)

    def read(self, n=-1):
        R = self._ip.real
        if n is None or n < 0:
            out = b""
            while True:
                b = os.read(self._fd, 1 << 16)
                if not b:
                    break
                out += b
        else:
            out = os.read(self._fd, n)
        return out.decode(self._enc, self._errors) if self._text else out

    def seek(self, off, whence=0):
        return os.lseek(self._fd, off, whence)

    def tell(self):
        return os.lseek(self._fd, 0, os.SEEK_CUR)

    def truncate(self, size=None):
        if size is None:
            size = self.tell()
        p = self._path
        self._ip.mutate("truncate", (p,), [p], lambda: self._ip.real["ftruncate"](self._fd, size))
        return size

    def flush(self):
        return None

    def fileno(self):
        return self._fd

    def readable(self):
        return "+" in self.mode or "r" in self.mode

    def writable(self):
        return True

    def seekable(self):
        return True

    def isatty(self):
        return False

    def close(self):
        if not self.closed:
            object.__setattr__(self, "closed", True)
            if self._closefd:
                try:
                    self._ip.real["close"](self._fd)
                except OSError:
                    pass

    def __enter__(self):
        return self

    def __exit__(self, *a):
        self.close()

    def __setattr__(self, k, v):
        object.__setattr__(self, k, v)

    def __iter__(self):
        return iter(self.read().splitlines(True))

    def __del__(self):
        try:
            self.close()
        except Exception:  # noqa: BLE001
            pass


def _run(fn, root, fault_at, mode, chunk) -> Run:
    ip = _Interposer(root, fault_at, mode, chunk)
    run = Run()
    ip.install()
    try:
        try:
            run.result = fn()
        except Crash as c:
            run.exc = c
        except Exception as e:  # noqa: BLE001
            run.exc = e
    finally:
        ip.uninstall()
    run.trace = ip.trace
    run.crashed = ip.crashed
    return run


def record(fn, root, chunk=None) -> Run:
    """Run fn() recording every attempted mutating filesystem call under root."""
    return _run(fn, root, None, "crash", chunk)


def run_with_fault(fn, root, k, mode="crash", chunk=None) -> Run:
    """Run fn() with a simulated crash (mode='crash') or an OSError(EIO) (mode='eio') at the
    k-th (0-based) attempted mutating call under root."""
    assert mode in ("crash", "eio")
    return _run(fn, root, k, mode, chunk)


# ---------------------------------------------------------------------- snapshots / clones
def snapshot(root) -> dict:
    root = os.path.realpath(root)
    out = {}
    stack = [root]
    while stack:
        d = stack.pop()
        for name in sorted(os.listdir(d)):
            p = os.path.join(d, name)
            st = os.lstat(p)
            rel = tuple(p[len(root) + 1:].split(os.sep))
            m = st.st_mode
            perm = statmod.S_IMODE(m)
            mt = int(st.st_mtime)
            if statmod.S_ISDIR(m):
                out[rel] = ("dir", perm, st.st_uid, st.st_gid, mt)
                stack.append(p)
            elif statmod.S_ISLNK(m):
                out[rel] = ("sym", os.readlink(p), st.st_uid, st.st_gid, mt)
            elif statmod.S_ISREG(m):
                with open(p, "rb") as f:
                    data = f.read()
                out[rel] = ("file", data, perm, st.st_uid, st.st_gid, mt, st.st_ino)
            elif statmod.S_ISFIFO(m):
                out[rel] = ("fifo", perm, st.st_uid, st.st_gid, mt)
            else:
                out[rel] = ("dev", m, st.st_uid, st.st_gid, mt, st.st_rdev)
    return out


def clone_tree(src, dst):
    """Copy scratch tree src to (new or empty) dst: types, data, hard-link groups, modes,
    owners (best effort), mtimes."""
    src = os.path.realpath(src)
    os.makedirs(dst, exist_ok=True)
    inodes = {}
    dirs = []
    for d, dn, fn in os.walk(src):
        rel = os.path.relpath(d, src)
        tgt = dst if rel == "." else os.path.join(dst, rel)
        for name in list(dn) + fn:
            s = os.path.join(d, name)
            t = os.path.join(tgt, name)
            st = os.lstat(s)
            m = st.st_mode
            if statmod.S_ISLNK(m):
                os.symlink(os.readlink(s), t)
                if name in dn:
                    dn.remove(name)
            elif statmod.S_ISDIR(m):
                os.mkdir(t, 0o700)
                dirs.append((t, st))
                continue
            elif statmod.S_ISREG(m):
                key = (st.st_dev, st.st_ino)
                if key in inodes:
                    os.link(inodes[key], t)
                    continue
                inodes[key] = t
                with open(s, "rb") as f, open(t, "wb") as g:
                    g.write(f.read())
            elif statmod.S_ISFIFO(m):
                os.mkfifo(t)
            else:
                os.mknod(t, m, st.st_rdev)
            try:
                os.lchown(t, st.st_uid, st.st_gid)
            except OSError:
                pass
            if not statmod.S_ISLNK(m):
                os.chmod(t, statmod.S_IMODE(m))
            os.utime(t, ns=(st.st_atime_ns, st.st_mtime_ns), follow_symlinks=False)
    for t, st in reversed(dirs):
        try:
            os.lchown(t, st.st_uid, st.st_gid)
        except OSError:
            pass
        os.chmod(t, statmod.S_IMODE(st.st_mode))
        os.utime(t, ns=(st.st_atime_ns, st.st_mtime_ns))
    st = os.lstat(src)
    os.chmod(dst, statmod.S_IMODE(st.st_mode))
