(* Prop_C32.v — the property theorems of C32 and nothing else.
   Model = pkgcore with the repairs C33-install-fallback-status, C33-per-call-parser-defaults,
   C32-single-line-reply, C32-helper-state-reset, C32-read-array-raw applied.
   [body] (parse_args + run of ANY helper), [cwd_ok] and the world type are universally quantified
   in the protocol theorems; the external install(1) is the oracle [w_ans] + [ext_effect]. *)
From Coq Require Import List NArith ZArith Bool String.
Import ListNotations.
From Verif Require Import Base.Val C32.Model_C32 C32.Spec_C32 C32.Proofs_C32 C32.Exit_C32 C32.Lift_C32.
Local Open Scope N_scope.

(* one request -> exactly one line on the wire, or nothing and the daemon loop is left *)
Theorem one_reply_line : forall (W : Type) (body : list str -> list str -> W -> hres * W) (cwd_ok : str -> bool)
    (rest : str) (w : W) e rest' w',
  ipc_call W body cwd_ok rest w = (e, rest', w') ->
  e = CCrash /\ wire_of e = [] \/ one_line (wire_of e).
Proof. exact one_reply_line_proof. Qed.
Print Assumptions one_reply_line.

(* the reply's status field is "0" exactly when the helper body completed *)
Theorem truthful : forall (W : Type) (body : list str -> list str -> W -> hres * W) (cwd_ok : str -> bool)
    l1 l2 l3 l4 l5 tail (w : W) options res w1 d,
  ~ In NL l1 -> ~ In NL l2 -> ~ In NL l3 -> ~ In NL l4 -> ~ In NL l5 ->
  shlex_split (strip l4) = Some options -> cwd_ok (strip l2) = true ->
  body options (split_args l5) w = (res, w1) ->
  (forall code msg, res = HCmdErr code msg -> code <> 0%Z) ->
  wire_of (fst (fst (ipc_call W body cwd_ok (framed l1 l2 l3 l4 l5 tail) w))) = d ++ [NL] ->
  (says_success d <-> completed res).
Proof. exact truthful_proof. Qed.
Print Assumptions truthful.

(* the premise of [truthful] holds for the install family, whatever install(1) answers *)
Theorem install_codes_nonzero : forall ed (ext_effect : list str -> image -> image) has_r de dflt options args w,
  hcode_nonzero (fst (body_install ed ext_effect has_r de dflt options args w)).
Proof. exact install_codes_nonzero_proof. Qed.
Print Assumptions install_codes_nonzero.

(* a reported success of the copy loop means every regular file is at its destination *)
Theorem install_int_post : forall ed fs im w w',
  (forall s1 d1 s2 d2, In (s1, d1) fs -> In (s2, d2) fs -> comps d1 = comps d2 -> s1 = s2) ->
  install_int ed fs im w = (None, w') ->
  forall s d, In (s, d) fs -> file_at w' s d.
Proof. exact install_int_post_proof. Qed.
Print Assumptions install_int_post.

(* ... and of the install(1) fallback, with the behaviour of install(1) as the ONLY assumption: when it
   exits 0 and DEST is not a directory, the sources (copies of one file) are at DEST, DEST has not
   become a directory and nothing else was touched *)
Theorem install_fallback_post : forall ed src (ext_effect : list str -> image -> image),
  (forall words ss d i s cid,
     rel d -> In s ss -> (forall s', In s' ss -> s' = s) -> assoc s src = Some (SFile cid) ->
     not_dir i (comps d) ->
     exists m, img_get (comps d) (ext_effect ([E "install"] ++ words ++ ss ++ [abs_of ed d]) i) = Some (NFile cid m)) ->
  (forall words ss d i,
     rel d -> not_dir i (comps d) ->
     not_dir (ext_effect ([E "install"] ++ words ++ ss ++ [abs_of ed d]) i) (comps d)) ->
  (forall words ss d i k,
     rel d -> k <> comps d -> not_dir i (comps d) ->
     img_get k (ext_effect ([E "install"] ++ words ++ ss ++ [abs_of ed d]) i) = img_get k i) ->
  forall fs words w w',
  w_src w = src ->
  (forall s d, In (s, d) fs -> rel d) ->
  (forall s d, In (s, d) fs -> not_dir (w_img w) (comps d)) ->
  (forall s1 d1 s2 d2, In (s1, d1) fs -> In (s2, d2) fs -> comps d1 = comps d2 -> s1 = s2) ->
  install_files ed ext_effect fs (IFallback words) w = (None, w') ->
  forall s d cid, In (s, d) fs -> assoc s src = Some (SFile cid) ->
                  exists m, img_get (comps d) (w_img w') = Some (NFile cid m).
Proof. exact install_fallback_post_proof. Qed.
Print Assumptions install_fallback_post.

(* the assumption is satisfiable (an install(1) that never treats DEST as a directory) *)
Theorem install_fallback_post_satisfiable : forall ed src fs words w w',
  w_src w = src ->
  (forall s d, In (s, d) fs -> rel d) ->
  (forall s d, In (s, d) fs -> not_dir (w_img w) (comps d)) ->
  (forall s1 d1 s2 d2, In (s1, d1) fs -> In (s2, d2) fs -> comps d1 = comps d2 -> s1 = s2) ->
  install_files ed (ideal_effect ed src) fs (IFallback words) w = (None, w') ->
  forall s d cid, In (s, d) fs -> assoc s src = Some (SFile cid) ->
                  exists m, img_get (comps d) (w_img w') = Some (NFile cid m).
Proof. exact install_fallback_post_ideal. Qed.
Print Assumptions install_fallback_post_satisfiable.

(* nonfatal: code and message come back; otherwise the same line is written and the build fails *)
Theorem nonfatal_returns_code : forall (W : Type) (body : list str -> list str -> W -> hres * W) (cwd_ok : str -> bool)
    l1 l2 l3 l4 l5 tail (w : W) options code msg w1,
  ~ In NL l1 -> ~ In NL l2 -> ~ In NL l3 -> ~ In NL l4 -> ~ In NL l5 ->
  shlex_split (strip l4) = Some options -> cwd_ok (strip l2) = true ->
  body options (split_args l5) w = (HCmdErr code msg, w1) ->
  ipc_call W body cwd_ok (framed l1 l2 l3 l4 l5 tail) w =
    ((if str_eqb (strip l1) (lit "true") then CReplied else CFatal) (encode_err code msg), tail, w1)
  /\ status_field (encode_err code msg) = dec_Z code
  /\ (code <> 0%Z -> ~ says_success (encode_err code msg)).
Proof. exact nonfatal_returns_code_proof. Qed.
Print Assumptions nonfatal_returns_code.

(* python side: a call reads exactly its own five lines *)
Theorem reads_five_lines : forall (W : Type) (body : list str -> list str -> W -> hres * W) (cwd_ok : str -> bool)
    l1 l2 l3 l4 l5 tail (w : W) e rest' w',
  ~ In NL l1 -> ~ In NL l2 -> ~ In NL l3 -> ~ In NL l4 -> ~ In NL l5 ->
  shlex_split (strip l4) <> None ->
  ipc_call W body cwd_ok (framed l1 l2 l3 l4 l5 tail) w = (e, rest', w') ->
  rest' = tail.
Proof. exact reads_five_lines_proof. Qed.
Print Assumptions reads_five_lines.

(* the daemon loop over a stream of requests = the requests handled one by one in isolation *)
Theorem channel_in_sync : forall c rs w,
  Forall req_ok rs -> Forall (cmd_ok) rs ->
  exists rest,
    run_daemon c (stream rs) w
    = (fst (fst (serve c rs w [])), rest, snd (fst (serve c rs w [])), snd (serve c rs w []))
    /\ (snd (fst (serve c rs w [])) = SFinished -> rest = []).
Proof. exact channel_in_sync_proof. Qed.
Print Assumptions channel_in_sync.

(* ... and what it writes is one line per answered request, as many as requests when it finishes *)
Theorem one_line_per_request : forall c rs w,
  exists ls, k_lines (fst (fst (serve c rs w []))) ls
             /\ (List.length ls <= List.length rs)%nat
             /\ (snd (fst (serve c rs w [])) = SFinished -> List.length ls = List.length rs).
Proof. exact one_line_per_request_proof. Qed.
Print Assumptions one_line_per_request.

(* bash side: k reads take k replies off the channel, in order, nothing is left *)
Theorem lockstep : forall wire ls,
  k_lines wire ls -> bash_reads (List.length ls) wire = Some (map bash_fields ls, []).
Proof. exact lockstep_proof. Qed.
Print Assumptions lockstep.

(* ... and __ipc_exit returns the code python sent (nonfatal) or dies *)
Theorem bash_exit : forall cmd nonfatal code msg,
  code <> 0%Z ->
  let '(st, _, died) := bash_ipc_exit cmd nonfatal (bash_fields (encode_err code msg)) in
  st = dec_Z code /\ died = negb nonfatal.
Proof. exact bash_exit_proof. Qed.
Print Assumptions bash_exit.

(* the repair folds without losing a one-line message *)
Theorem single_line_keeps_one_liners : forall s, ~ In NL s -> s <> [] -> single_line s = s.
Proof. exact single_line_id. Qed.
Print Assumptions single_line_keeps_one_liners.

(* without repair C32-single-line-reply the statement is false *)
Theorem one_reply_line_unrepaired_refuted :
  exists code msg, In NL (encode_err_raw code msg) /\ ~ In NL (encode_err code msg).
Proof. exact one_reply_line_unrepaired_refuted_proof. Qed.
Print Assumptions one_reply_line_unrepaired_refuted.

(* known class: a newline inside an argument breaks the framing (req_ok is necessary) *)
Theorem channel_in_sync_refuted :
  let r := ex_req true (lit "--dest=/usr") (lit "a" ++ [NL] ++ lit "b" ++ [0]) in
  newline_in_request r /\
  snd (fst (run_daemon ex_cfg (stream [r]) ex_world)) = SUnhandled.
Proof. exact channel_in_sync_refuted_proof. Qed.
Print Assumptions channel_in_sync_refuted.

(* ------------------------------------------------------------------ extensions *)
(* TRUTHFUL ON DISK (install family, internal copy path): a reply with status "0" means that every
   regular file named in the request is in the image at <dest>/<name> with the source's content -
   through option parsing, makedirs and the Doins/Dodoc directory handling *)
Theorem install_reply_truthful_on_disk : forall ed (ext_effect : list str -> image -> image) has_r de dflt
    (cwd_ok : str -> bool) l1 l2 l3 l4 l5 tail w options d,
  ~ In NL l1 -> ~ In NL l2 -> ~ In NL l3 -> ~ In NL l4 -> ~ In NL l5 ->
  shlex_split (strip l4) = Some options -> cwd_ok (strip l2) = true ->
  let o := parse_options options {| o_dest := [47]; o_ins := None; o_dir := None; o_unknown := [] |} in
  (forall ws, install_mode (o_ins o) dflt <> IFallback ws) ->
  (forall ws, install_mode (o_dir o) [] <> IFallback ws) ->
  let r := ipc_call world (body_install ed ext_effect has_r de dflt) cwd_ok (framed l1 l2 l3 l4 l5 tail) w in
  wire_of (fst (fst r)) = d ++ [NL] -> says_success d ->
  forall t cid, In t (snd (fst (split_targets has_r (split_args l5)))) -> assoc t (w_src w) = Some (SFile cid) ->
                exists m, img_get (comps (pjoin (lstrip_sl (o_dest o)) t)) (w_img (snd r)) = Some (NFile cid m).
Proof. exact install_reply_truthful_on_disk_proof. Qed.
Print Assumptions install_reply_truthful_on_disk.

(* the body-level form: body returned None => files on disk *)
Theorem install_truthful_internal : forall ed (ext_effect : list str -> image -> image) has_r de dflt options args w w',
  let o := parse_options options {| o_dest := [47]; o_ins := None; o_dir := None; o_unknown := [] |} in
  (forall ws, install_mode (o_ins o) dflt <> IFallback ws) ->
  (forall ws, install_mode (o_dir o) [] <> IFallback ws) ->
  body_install ed ext_effect has_r de dflt options args w = (HNone, w') ->
  forall t cid, In t (snd (fst (split_targets has_r args))) -> assoc t (w_src w) = Some (SFile cid) ->
                exists m, img_get (comps (pjoin (lstrip_sl (o_dest o)) t)) (w_img w') = Some (NFile cid m).
Proof. exact install_truthful_internal_proof. Qed.
Print Assumptions install_truthful_internal.

(* DODIR: without injected faults the directory loop succeeds exactly when every requested directory,
   with all its parents, exists afterwards *)
Theorem dodir_truthful : forall ed rels dm w r w',
  w_faults w = [] -> (forall ws, dm <> IFallback ws) ->
  install_dirs_int ed rels dm w = (r, w') ->
  (r = None <-> forall d, In d rels -> dir_path (w_img w') (comps d)).
Proof. exact dodir_truthful_proof. Qed.
Print Assumptions dodir_truthful.

(* ... and through Dodir's option/argument handling *)
Theorem dodir_body_truthful : forall ed (ext_effect : list str -> image -> image) options args w res w',
  let o := parse_options options {| o_dest := [47]; o_ins := None; o_dir := None; o_unknown := [] |} in
  o_unknown o = [] -> args <> [] -> w_faults w = [] ->
  install_mode (o_ins o) [] <> IBad ->
  install_mode (o_dir o) (E "-m0755") <> IBad ->
  (forall ws, install_mode (o_dir o) (E "-m0755") <> IFallback ws) ->
  body_dodir ed ext_effect options args w = (res, w') ->
  (res = HNone <->
   forall d, In d args -> dir_path (w_img w') (comps (pjoin (lstrip_sl (o_dest o)) (lstrip_sl d)))).
Proof. exact dodir_body_truthful_proof. Qed.
Print Assumptions dodir_body_truthful.

(* what the caller of a nonfatal helper sees in $?: the code modulo 256 ... *)
Theorem caller_sees_code_mod_256 : forall code,
  exit_status (dec_Z code) = dec_N (Z.to_N (code mod 256)).
Proof. exact caller_sees_code_mod_256_proof. Qed.
Print Assumptions caller_sees_code_mod_256.

(* ... so exactly the non-zero multiples of 256 are taken for success (finding status-multiple-of-256) *)
Theorem status_multiple_of_256 : forall cmd code msg,
  code <> 0%Z ->
  let '(st, _, died) := bash_ipc_exit cmd true (bash_fields (encode_err code msg)) in
  died = false /\ st = dec_Z code /\ (exit_status st = [48] <-> (code mod 256 = 0)%Z).
Proof. exact status_multiple_of_256_proof. Qed.
Print Assumptions status_multiple_of_256.
