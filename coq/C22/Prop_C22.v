(* Prop_C22.v — the property theorems of C22 and nothing else. *)
From Coq Require Import List NArith ZArith Bool.
Import ListNotations.
From Verif Require Import Base.Val C22.Model_C22 C22.Spec_C22 C22.Proofs_C22.

(* POSIX normalisation (incl. the two-leading-slashes rule) is idempotent: stored keys are stable *)
Theorem normpath_idempotent : forall p, normpath (normpath p) = normpath p.
Proof. exact normpath_idempotent_proof. Qed.
Print Assumptions normpath_idempotent.

(* every constructor and every operation (also one that raises half-way through an in-place bulk
   update) keeps the keys unique and normalised *)
Theorem ops_preserve_wf :
  (forall m l, wf (mk_cset m l)) /\ forall s o, wf s -> wf (snd (step s o)).
Proof. exact ops_preserve_wf_proof. Qed.
Print Assumptions ops_preserve_wf.

(* lookup: by fs object or by path string in ANY spelling = map lookup at the normalised path *)
Theorem lookup_refines : forall s it,
  contains s it = (match abs s (norm_key it) with Some _ => true | None => false end)
  /\ getitem s it = (match abs s (norm_key it) with Some e => Ok e | None => Er KeyError end).
Proof. exact lookup_refines_proof. Qed.
Print Assumptions lookup_refines.

Theorem lookup_spelling : forall s p q e, wf_entry e ->
  (normpath p = normpath q -> getitem s (IS p) = getitem s (IS q) /\ contains s (IS p) = contains s (IS q))
  /\ (normpath p = eloc e -> getitem s (IS p) = getitem s (IE e) /\ contains s (IS p) = contains s (IE e))
  /\ getitem s (IS (eloc e)) = getitem s (IE e).
Proof. exact lookup_spelling_proof. Qed.
Print Assumptions lookup_spelling.

Theorem add_refines : forall s e,
  (mut s = false -> add s e = Er AttributeError)
  /\ (mut s = true -> exists s', add s e = Ok s' /\ mut s' = true /\ same_map (abs s') (M_set e (abs s))).
Proof. exact add_refines_proof. Qed.
Print Assumptions add_refines.

(* removal *)
Theorem remove_refines : forall s it,
  (mut s = false -> remove s it = Er AttributeError)
  /\ (mut s = true ->
      match remove s it with
      | Ok s' => dom (abs s) (norm_key it) /\ mut s' = true /\ same_map (abs s') (M_remove (norm_key it) (abs s))
      | Er k => k = KeyError /\ abs s (norm_key it) = None
      end).
Proof. exact remove_refines_proof. Qed.
Print Assumptions remove_refines.

(* discard, as repaired by fixes/C22-discard-normpath.patch *)
Theorem discard_refines : forall s it,
  same_map (abs (discard s it)) (M_remove (norm_key it) (abs s)) /\ mut (discard s it) = mut s.
Proof. exact discard_refines_proof. Qed.
Print Assumptions discard_refines.
(* ... and as it was on the pinned tree *)
Theorem discard_pinned_refuted : ~ discard_pinned_full_statement.
Proof. exact discard_pinned_refuted_proof. Qed.
Print Assumptions discard_pinned_refuted.
Theorem discard_pinned_partial : forall s it,
  (match it with IS p => normpath p = p | IE _ => True end) ->
  same_map (abs (discard_pinned s it)) (M_remove (norm_key it) (abs s)).
Proof. exact discard_pinned_partial_proof. Qed.
Print Assumptions discard_pinned_partial.

(* difference / intersection_update / issubset / isdisjoint: full statements refuted (known class
   raw-in-container), proved for every argument outside the class *)
Theorem difference_refuted : ~ difference_full_statement.
Proof. exact difference_refuted_proof. Qed.
Print Assumptions difference_refuted.
Theorem difference_partial : forall s a, wf s -> raw_in_class a = false ->
  is_restrict false (arg_keys a) (abs s) (abs (difference s a)) /\ mut (difference s a) = mut s.
Proof. exact difference_partial_proof. Qed.
Print Assumptions difference_partial.

Theorem intersection_update_refuted : ~ intersection_update_full_statement.
Proof. exact intersection_update_refuted_proof. Qed.
Print Assumptions intersection_update_refuted.
Theorem intersection_update_partial : forall s a, wf s -> raw_in_class a = false ->
  (mut s = false -> intersection_update s a = Er TypeError)
  /\ (mut s = true -> exists s', intersection_update s a = Ok s' /\ is_restrict true (arg_keys a) (abs s) (abs s')).
Proof. exact intersection_update_partial_proof. Qed.
Print Assumptions intersection_update_partial.

Theorem issubset_refuted : ~ issubset_full_statement.
Proof. exact issubset_refuted_proof. Qed.
Print Assumptions issubset_refuted.
Theorem issubset_partial : forall s a, wf s -> raw_in_class a = false ->
  (issubset s a = true <-> forall p, dom (abs s) p -> arg_keys a p).
Proof. exact issubset_partial_proof. Qed.
Print Assumptions issubset_partial.

Theorem isdisjoint_refuted : ~ isdisjoint_full_statement.
Proof. exact isdisjoint_refuted_proof. Qed.
Print Assumptions isdisjoint_refuted.
Theorem isdisjoint_partial : forall s a, wf s -> raw_in_class a = false ->
  (isdisjoint s a = true <-> forall p, dom (abs s) p -> ~ arg_keys a p).
Proof. exact isdisjoint_partial_proof. Qed.
Print Assumptions isdisjoint_partial.

(* difference_update and issuperset normalise: full, for every kind of argument *)
Theorem difference_update_refines : forall s a,
  (mut s = false -> difference_update s a = Er TypeError)
  /\ (mut s = true -> exists s', difference_update s a = Ok s' /\ mut s' = true
                      /\ is_restrict false (arg_keys a) (abs s) (abs s')).
Proof. exact difference_update_refines_proof. Qed.
Print Assumptions difference_update_refines.

Theorem issuperset_refines : forall s a,
  issuperset s a = true <-> forall p, arg_keys a p -> dom (abs s) p.
Proof. exact issuperset_refines_proof. Qed.
Print Assumptions issuperset_refines.

(* union: self wins on common paths; a path string among the argument raises TypeError *)
Theorem union_refines : forall s a,
  match all_entries (arg_items a) with
  | Some es => exists r, union s a = Ok r /\ mut r = true
                         /\ (wf s -> same_map (abs r) (M_union (abs s) (ents_map es)))
  | None => union s a = Er TypeError
  end.
Proof. exact union_refines_proof. Qed.
Print Assumptions union_refines.

(* intersection: right key set, but the ARGUMENT's objects (known class intersection-arg-objects) *)
Theorem intersection_refines : forall s es,
  exists r, intersection s (AIter (map IE es)) = Ok r /\ intersection s (AList (map IE es)) = Ok r
            /\ mut r = mut s
            /\ same_map (abs r) (M_inter (ents_map es) (abs s))
            /\ (forall p, dom (abs r) p <-> dom (abs s) p /\ arg_keys (AIter (map IE es)) p).
Proof. exact intersection_refines_proof. Qed.
Print Assumptions intersection_refines.
Theorem intersection_refuted : ~ intersection_full_statement.
Proof. exact intersection_refuted_proof. Qed.
Print Assumptions intersection_refuted.
Theorem intersection_partial : forall s es r,
  (forall p e e', abs s p = Some e -> ents_map es p = Some e' -> e = e') ->
  intersection s (AIter (map IE es)) = Ok r -> same_map (abs r) (M_inter (abs s) (ents_map es)).
Proof. exact intersection_partial_proof. Qed.
Print Assumptions intersection_partial.

(* symmetric difference (and its in-place variant) with another set or an iterator of fs objects;
   given a LIST it is refuted (known class symdiff-list-class-equality) *)
Theorem symdiff_refines : forall s,
  (forall o, exists r, symmetric_difference s (ACs o) = Ok r /\ mut r = mut s
                       /\ same_map (abs r) (M_symdiff (abs s) (abs o))
                       /\ symmetric_difference_update s (ACs o) = (if mut s then Ok r else Er TypeError))
  /\ (forall es, exists r, symmetric_difference s (AIter (map IE es)) = Ok r /\ mut r = mut s
                       /\ same_map (abs r) (M_symdiff (abs s) (ents_map es))
                       /\ symmetric_difference_update s (AIter (map IE es)) = (if mut s then Ok r else Er TypeError))
  /\ (forall l, all_entries l = None -> symmetric_difference s (AIter l) = Er ValueError).
Proof. exact symdiff_refines_proof. Qed.
Print Assumptions symdiff_refines.
Theorem symdiff_list_refuted : ~ symdiff_full_statement.
Proof. exact symdiff_list_refuted_proof. Qed.
Print Assumptions symdiff_list_refuted.
(* ... and proved for every list outside the class (no path of self held with another class) *)
Theorem symdiff_list_partial : forall s es,
  wf s -> NoDup (map eloc es) -> symdiff_list_class s es = false ->
  exists r, symmetric_difference s (AList (map IE es)) = Ok r /\ mut r = mut s
            /\ same_map (abs r) (M_symdiff (abs s) (ents_map es))
            /\ symmetric_difference_update s (AList (map IE es)) = (if mut s then Ok r else Er TypeError).
Proof. exact symdiff_list_partial_proof. Qed.
Print Assumptions symdiff_list_partial.

(* relocation replaces the old prefix with the new one *)
Theorem relocate_prefix : forall co cn cr n,
  Forall plainc co -> Forall plainc cn -> Forall plainc cr ->
  reloc ((SL :: join_sl co) ++ repeat SL n) (SL :: join_sl cn) (SL :: join_sl (co ++ cr))
  = SL :: join_sl (cn ++ cr).
Proof. exact relocate_prefix_proof. Qed.
Print Assumptions relocate_prefix.
Theorem change_offset_image : forall s old new,
  (forall q e', abs (change_offset s old new) q = Some e' ->
     exists e, In e (ents s) /\ e' = with_loc e (reloc old new (eloc e)) /\ q = eloc e')
  /\ (forall e, In e (ents s) -> dom (abs (change_offset s old new)) (normpath (reloc old new (eloc e))))
  /\ mut (change_offset s old new) = true.
Proof. exact change_offset_image_proof. Qed.
Print Assumptions change_offset_image.

Theorem child_nodes_exact : forall s start p e,
  abs (child_nodes s start) p = Some e
  <-> abs s p = Some e /\ exists rest, p = rstrip_sl (normpath start) ++ SL :: rest.
Proof. exact child_nodes_exact_proof. Qed.
Print Assumptions child_nodes_exact.

(* completing missing directories adds exactly the absent proper ancestors other than "/":
   soundness (old entries kept; every new entry is a directory at such an ancestor) ... *)
Theorem missing_dirs_sound_partial : forall s tag, missing_sound s (add_missing_directories s tag) tag.
Proof. exact missing_dirs_sound_partial_proof. Qed.
Print Assumptions missing_dirs_sound_partial.
(* ... completeness (every such ancestor is present afterwards) ... *)
Theorem missing_dirs_complete : forall s tag, wf s -> missing_complete s (add_missing_directories s tag).
Proof. exact missing_dirs_complete_proof. Qed.
Print Assumptions missing_dirs_complete.
(* ... and the exact statement *)
Theorem missing_dirs_exact : forall s tag, wf s ->
  missing_sound s (add_missing_directories s tag) tag /\ missing_complete s (add_missing_directories s tag).
Proof. exact missing_dirs_exact_proof. Qed.
Print Assumptions missing_dirs_exact.
(* an iterated dirname of a normalised path is normalised (or empty, for relative paths) *)
Theorem ancestor_normal_form : forall p a, normpath p = p -> ancestor p a -> normpath a = a \/ a = [].
Proof. exact ancestor_normal. Qed.
Print Assumptions ancestor_normal_form.
