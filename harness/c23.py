"""C23 — merge-time permission hardening never lets unsafe modes through (DESIGN §6 C23).

Tables (coq/gen/Tables_triggers_perms.v, regenerated fail-closed from the source on every run)
  masks of fix_set_bits / detect_world_writable, root uid/gid of os_data.py, the default trigger
  tuple of default_plugins_triggers() with each class's priority/_hooks/_engine_types, the engine's
  hook names per mode, the merge mode constants.

Streams
  order   names of the triggers a real MergeEngine (install / replace / uninstall) runs at
          pre_merge, in execution order                       impl vs Model_C23.engine_pre_merge_names
  pre     random content sets through MergeEngine.install/.replace(...).pre_merge() with the default
          plugin triggers (passwd db patched so that portage = 250:251)
                                                              impl vs Model_C23.run_pre   (A)
                                                              impl vs Spec_C23.spec_pre_ok (B, in Coq)
                                                              + the direct Python oracle (B)
  bad     the same with mode-less / owner-less entries (malformed stream: a trigger raises, the
          engine suppresses)                                  impl vs Model_C23.run_pre
  direct  each trigger class instantiated with explicit arguments and called like the engine calls
          it (trigger(engine, {"new_cset": cset})) with a minimal engine, observer present/absent
                                                              impl vs Model_C23.run_direct
  sweep   all 4096 permission values (plus file-type bits) x owner classes {build, root, other}^2
          x entry kinds through the real install engine, compact encoding
                                                              impl vs Model_C23.run_sweep + Python oracle
"""

import ast
import os
import sys

from . import tables
from .common import Check, Err, Raw, SRC, cN, cZ, cbool, clist, cnat, copt, cpair, cstr, cval, impl_call, shrink_list
from .tables import TableError

IMPORTS = ("From Coq Require Import List NArith ZArith Bool.\n"
           "From Verif Require Import Base.Val gen.Tables_triggers_perms C23.Model_C23 C23.Spec_C23.\n"
           "Local Open Scope N_scope.")
ANCHORS = ["merge/triggers.py::fix_uid_perms", "merge/triggers.py::fix_gid_perms",
           "merge/triggers.py::fix_set_bits", "merge/triggers.py::detect_world_writable",
           "merge/triggers.py::default_plugins_triggers", "merge/triggers.py::base",
           "merge/engine.py::MergeEngine.execute_hook", "merge/engine.py::MergeEngine.__init__",
           "fs/fs.py::fsBase.change_attributes", "fs/fs.py::fsLink.change_attributes",
           "fs/fs.py::fsFile.change_attributes", "fs/contents.py::contentsSet.update",
           "fs/contents.py::contentsSet.itersymlinks"]

BUILD_UID, BUILD_GID = 250, 251          # the passwd/group entry "portage" the harness presents
OTHER_UID, OTHER_GID = 1000, 100
KINDS = ("file", "dir", "sym", "dev", "fifo")


# =========================================================================== tables (fail-closed)
def _is_mode_attr(n):
    return isinstance(n, ast.Attribute) and n.attr == "mode" and isinstance(n.value, ast.Name)


def _mask(n, inverted):
    """`x.mode & C` (inverted=False) or `x.mode & ~C` (inverted=True) -> C"""
    if not (isinstance(n, ast.BinOp) and isinstance(n.op, ast.BitAnd) and _is_mode_attr(n.left)):
        raise TableError(f"expected `x.mode & <mask>`, got {ast.dump(n)[:160]}")
    r = n.right
    if inverted:
        if not (isinstance(r, ast.UnaryOp) and isinstance(r.op, ast.Invert)):
            raise TableError(f"expected `x.mode & ~<literal>`, got {ast.dump(n)[:160]}")
        r = r.operand
    if not (isinstance(r, ast.Constant) and type(r.value) is int and r.value >= 0):
        raise TableError(f"mask is not a non-negative int literal: {ast.dump(n)[:160]}")
    return r.value


def _trigger_masks(tree, cls, nsel):
    """selection masks (the comprehension over cset.iterlinks(True)) and the wipe mask
    (change_attributes(mode=x.mode & ~C)) of class `cls`'s trigger()."""
    fn = tables.find_func(tree, f"{cls}.trigger")
    comps = [n for n in ast.walk(fn) if isinstance(n, ast.ListComp)]
    if len(comps) != 1 or len(comps[0].generators) != 1:
        raise TableError(f"{cls}.trigger: expected exactly one single-generator list comprehension")
    g = comps[0].generators[0]
    it = g.iter
    if not (isinstance(it, ast.Call) and isinstance(it.func, ast.Attribute) and it.func.attr == "iterlinks"
            and len(it.args) == 1 and isinstance(it.args[0], ast.Constant) and it.args[0].value is True
            and not it.keywords):
        raise TableError(f"{cls}.trigger: the selection no longer iterates cset.iterlinks(True)")
    if not (isinstance(comps[0].elt, ast.Name) and isinstance(g.target, ast.Name)
            and comps[0].elt.id == g.target.id):
        raise TableError(f"{cls}.trigger: the comprehension no longer yields the entry itself")
    if len(g.ifs) != 1:
        raise TableError(f"{cls}.trigger: expected one condition in the selection")
    cond = g.ifs[0]
    if nsel == 1:
        sel = [_mask(cond, False)]
    else:
        if not (isinstance(cond, ast.BoolOp) and isinstance(cond.op, ast.And) and len(cond.values) == nsel):
            raise TableError(f"{cls}.trigger: selection is no longer a conjunction of {nsel} mask tests")
        sel = [_mask(v, False) for v in cond.values]
    wipes = []
    for n in ast.walk(fn):
        if isinstance(n, ast.Call) and isinstance(n.func, ast.Attribute) and n.func.attr == "change_attributes":
            if n.args or len(n.keywords) != 1 or n.keywords[0].arg != "mode":
                raise TableError(f"{cls}.trigger: change_attributes() no longer sets exactly `mode`")
            wipes.append(_mask(n.keywords[0].value, True))
    if len(wipes) != 1:
        raise TableError(f"{cls}.trigger: expected exactly one change_attributes(mode=...)")
    return sel, wipes[0]


def _const_ints(rel, names):
    t = tables.parse(rel)
    out = {}
    for n in names:
        v = tables.literal(tables.find_assign(t, n))
        if type(v) is not int or v < 0:
            raise TableError(f"{rel}: {n} is not a non-negative int literal")
        out[n] = v
    return out


def _mode_tuple(tree, name, consts):
    v = tables.find_assign(tree, name)
    if not isinstance(v, ast.Tuple):
        raise TableError(f"{name}: expected a tuple")
    out = []
    for e in v.elts:
        if not (isinstance(e, ast.Attribute) and isinstance(e.value, ast.Name) and e.value.id == "const"
                and e.attr in consts):
            raise TableError(f"{name}: element is not const.<MODE>")
        out.append(consts[e.attr])
    return out


def _class_attr(tree, cls, attr, depth=0):
    """class-level `attr = <expr>` of cls, following single in-module inheritance."""
    if depth > 6:
        raise TableError(f"{cls}: inheritance too deep")
    node = None
    for n in ast.iter_child_nodes(tree):
        if isinstance(n, ast.ClassDef) and n.name == cls:
            node = n
    if node is None:
        raise TableError(f"class {cls} not found in merge/triggers.py")
    hits = [n.value for n in node.body if isinstance(n, ast.Assign)
            and any(isinstance(t, ast.Name) and t.id == attr for t in n.targets)]
    hits += [n.value for n in node.body if isinstance(n, ast.AnnAssign) and isinstance(n.target, ast.Name)
             and n.target.id == attr and n.value is not None]
    if len(hits) > 1:
        raise TableError(f"{cls}.{attr}: assigned more than once")
    if hits:
        return hits[0]
    if len(node.bases) != 1 or not isinstance(node.bases[0], ast.Name):
        if not node.bases:
            raise TableError(f"{cls}.{attr}: not defined")
        raise TableError(f"{cls}: unsupported bases")
    return _class_attr(tree, node.bases[0].id, attr, depth + 1)


def _hook_names(tree, name):
    v = tables.find_assign(tree, name, cls="MergeEngine")
    if not (isinstance(v, ast.DictComp) and isinstance(v.value, ast.List) and not v.value.elts
            and len(v.generators) == 1 and isinstance(v.key, ast.Name)):
        raise TableError(f"MergeEngine.{name}: expected {{x: [] for x in (<names>)}}")
    names = tables.literal(v.generators[0].iter)
    if not (isinstance(names, tuple) and all(isinstance(s, str) for s in names)):
        raise TableError(f"MergeEngine.{name}: hook names are not string literals")
    return list(names)


def _same(node, src):
    return ast.dump(node) == ast.dump(ast.parse(src, mode="eval").body)


def gen_tables():
    t = tables.parse("merge/triggers.py")
    sel_sb, wipe_sb = _trigger_masks(t, "fix_set_bits", 2)
    sel_ww, wipe_ww = _trigger_masks(t, "detect_world_writable", 1)
    # default owner arguments of the two re-owning triggers
    for cls, bad, good in (("fix_uid_perms", "portage_uid", "root_uid"), ("fix_gid_perms", "portage_gid", "root_gid")):
        init = tables.find_func(t, f"{cls}.__init__")
        d = init.args.defaults
        if not (len(init.args.args) == 3 and len(d) == 2 and all(
                isinstance(x, ast.Attribute) and isinstance(x.value, ast.Name) and x.value.id == "os_data" for x in d)
                and [x.attr for x in d] == [bad, good]):
            raise TableError(f"{cls}.__init__: defaults are no longer (os_data.{bad}, os_data.{good})")
    od = _const_ints("os_data.py", ["root_uid"])
    o = tables.parse("os_data.py")
    rg = [n for n in ast.iter_child_nodes(o) if isinstance(n, ast.Assign)
          and any(isinstance(x, ast.Name) and x.id == "root_gid" for x in n.targets)]
    if len(rg) != 1 or not (isinstance(rg[0].value, ast.Constant) and type(rg[0].value.value) is int
                            and rg[0].value.value >= 0):
        raise TableError("os_data.root_gid is not a single int literal assignment")
    root_gid = rg[0].value.value
    consts = _const_ints("merge/const.py", ["REPLACE_MODE", "INSTALL_MODE", "UNINSTALL_MODE"])
    if len(set(consts.values())) != 3:
        raise TableError("merge/const.py: modes are not distinct")
    modesets = {n: _mode_tuple(t, n, consts) for n in ("INSTALLING_MODES", "UNINSTALLING_MODES")}
    # default trigger tuple and its sort
    fn = tables.find_func(t, "default_plugins_triggers")
    body = [s for s in fn.body if not (isinstance(s, ast.Expr) and isinstance(s.value, ast.Constant))]
    if not (len(body) == 2 and isinstance(body[0], ast.Assign) and isinstance(body[0].value, ast.Tuple)
            and isinstance(body[1], ast.Return)
            and _same(body[1].value,
                      "tuple(sorted(triggers, reverse=True, key=lambda x: (x.priority, x.__name__)))")
            and all(isinstance(e, ast.Name) for e in body[0].value.elts)):
        raise TableError("default_plugins_triggers: unexpected shape")
    rows = []
    for e in body[0].value.elts:
        pr = _class_attr(t, e.id, "priority")
        if not (isinstance(pr, ast.Constant) and type(pr.value) is int) and not (
                isinstance(pr, ast.UnaryOp) and isinstance(pr.op, ast.USub)):
            raise TableError(f"{e.id}.priority is not an int literal")
        pr = tables.literal(pr)
        if type(pr) is not int:
            raise TableError(f"{e.id}.priority is not an int literal")
        hooks = tables.literal(_class_attr(t, e.id, "_hooks"))
        if not (isinstance(hooks, tuple) and all(isinstance(h, str) for h in hooks)):
            raise TableError(f"{e.id}._hooks is not a tuple of string literals")
        et = _class_attr(t, e.id, "_engine_types")
        if isinstance(et, ast.Constant) and et.value is None:
            ets = None
        elif isinstance(et, ast.Name) and et.id in modesets:
            ets = modesets[et.id]
        else:
            raise TableError(f"{e.id}._engine_types: expected None or (UN)INSTALLING_MODES")
        rows.append((e.id, pr, hooks, ets))
    # engine: hooks per mode, and the sort at execution
    eng = tables.parse("merge/engine.py")
    ih, uh = _hook_names(eng, "install_hooks"), _hook_names(eng, "uninstall_hooks")
    rh = tables.find_assign(eng, "replace_hooks", cls="MergeEngine")
    if not (isinstance(rh, ast.DictComp) and _same(
            rh.generators[0].iter, "set(chain(install_hooks.keys(), uninstall_hooks.keys()))")):
        raise TableError("MergeEngine.replace_hooks is no longer the union of install and uninstall hooks")
    ex = tables.find_func(eng, "MergeEngine.execute_hook")
    fors = [n for n in ast.walk(ex) if isinstance(n, ast.For)]
    if not (len(fors) == 1 and _same(
            fors[0].iter, 'sorted(self.hooks[hook], key=operator.attrgetter("priority"))')):
        raise TableError("MergeEngine.execute_hook no longer runs sorted(self.hooks[hook], key=priority)")

    txt = tables.header("merge/triggers.py, merge/engine.py, merge/const.py, os_data.py")
    txt += "\n(* fix_set_bits: an entry is selected when (mode & sel_setid) and (mode & sel_ww); then mode & ~wipe *)\n"
    txt += f"Definition sb_sel_setid : N := {cN(sel_sb[0])}.  (* 0o{sel_sb[0]:o} *)\n"
    txt += f"Definition sb_sel_ww : N := {cN(sel_sb[1])}.  (* 0o{sel_sb[1]:o} *)\n"
    txt += f"Definition sb_wipe : N := {cN(wipe_sb)}.  (* 0o{wipe_sb:o} *)\n"
    txt += "(* detect_world_writable: selected when mode & sel; with fix_perms: mode & ~wipe *)\n"
    txt += f"Definition ww_sel : N := {cN(sel_ww[0])}.\nDefinition ww_wipe : N := {cN(wipe_ww)}.\n"
    txt += f"\nDefinition root_uid : N := {cN(od['root_uid'])}.\nDefinition root_gid : N := {cN(root_gid)}.\n"
    txt += "\n(* merge/const.py *)\n"
    for k, v in consts.items():
        txt += f"Definition {k} : N := {cN(v)}.\n"
    txt += "\n(* default_plugins_triggers(): (class name, priority, _hooks, _engine_types) in source order *)\n"
    txt += "Definition default_triggers : list (str * Z * list str * option (list N)) :=\n  %s.\n" % clist(
        ["(%s, %s, %s, %s)" % (cstr(n), cZ(p), clist([cstr(h) for h in hs], "str"),
                               copt(et, lambda l: clist([cN(x) for x in l], "N"), "list N"))
         for n, p, hs, et in rows], "str * Z * list str * option (list N)")
    txt += "\n(* MergeEngine.install_hooks / uninstall_hooks (replace_hooks is their union) *)\n"
    txt += "Definition install_hooks : list str := %s.\n" % clist([cstr(h) for h in ih], "str")
    txt += "Definition uninstall_hooks : list str := %s.\n" % clist([cstr(h) for h in uh], "str")
    txt += "\n(* names used by the model *)\n"
    for nm in ("pre_merge", "fix_uid_perms", "fix_gid_perms", "fix_set_bits", "detect_world_writable"):
        txt += f"Definition name_{nm} : str := {cstr(nm)}.\n"
    return {"Tables_triggers_perms.v": txt}


# =========================================================================== implementation driver
class _Impl:
    """pkgcore imported under a passwd/group database in which portage = BUILD_UID:BUILD_GID
    (os_data resolves the build user at import time; trigger defaults bind it at class creation)."""

    def __init__(self, scratch):
        import grp
        import importlib
        import pwd

        gp, gg = pwd.getpwnam, grp.getgrnam

        def fake_pw(name):
            if name == "portage":
                return pwd.struct_passwd(("portage", "x", BUILD_UID, BUILD_GID, "", "/var/tmp/portage", "/bin/false"))
            return gp(name)

        def fake_gr(name):
            if name == "portage":
                return grp.struct_group(("portage", "x", BUILD_GID, []))
            return gg(name)

        pwd.getpwnam, grp.getgrnam = fake_pw, fake_gr
        try:
            stale = [m for m in ("pkgcore.os_data", "pkgcore.merge.triggers", "pkgcore.merge.engine") if m in sys.modules]
            from pkgcore import os_data
            from pkgcore.merge import triggers, engine
            for m in stale:  # imported earlier under the real passwd db: rebind
                importlib.reload(sys.modules[m])
        finally:
            pwd.getpwnam, grp.getgrnam = gp, gg
        from pkgcore.fs import contents, fs
        from pkgcore.merge import const
        from pkgcore.operations import observer
        from snakeoil.data_source import data_source

        self.os_data, self.triggers, self.engine, self.const = os_data, triggers, engine, const
        self.fs, self.contents, self.observer = fs, contents, observer
        self.root = os.path.join(scratch, "c23root")
        self.tmp = os.path.join(scratch, "c23tmp")
        os.makedirs(self.root, exist_ok=True)
        os.makedirs(self.tmp, exist_ok=True)
        self.kcls = {0: fs.fsFile, 1: fs.fsDir, 2: fs.fsLink, 3: fs.fsDev, 4: fs.fsFifo}
        self.DS = [data_source("d%d" % i) for i in range(4)]
        self.CH = [{"size": i} for i in range(3)]
        self.TARGETS = ["a", "../b", "/abs/c", "d -> e", "100%", "%s/%(x)s", "{0}", "caf\u00e9"]
        self.rest_ids = {}

    # ---- ids
    def rest_id(self, obj):
        def g(a):
            try:
                return getattr(obj, a)
            except AttributeError:
                return "<absent>"
        ch = g("chksums")
        chi = next((i for i, c in enumerate(self.CH) if c is ch), "<absent>" if ch == "<absent>" else ("other", id(ch)))
        key = (g("mtime"), chi, g("dev"), g("inode"), g("major"), g("minor"))
        return self.rest_ids.setdefault(key, len(self.rest_ids))

    def make(self, spec):
        """spec: dict(kind, path, mode, uid, gid, target, data, mtime, extra) -> fs object"""
        k = spec["kind"]
        kw = {}
        for a in ("mode", "uid", "gid", "mtime"):
            if spec.get(a) is not None:
                kw[a] = spec[a]
        strict = all(spec.get(a) is not None for a in ("mode", "uid", "gid", "mtime"))
        fs = self.fs
        if k == 0:
            kw.update(data=self.DS[spec["data"]], chksums=self.CH[spec["extra"] % 3])
            if strict:
                kw.update(dev=spec["extra"], inode=spec["extra"] + 7)
            return fs.fsFile(spec["path"], strict=strict, **kw)
        if k == 1:
            return fs.fsDir(spec["path"], strict=strict, **kw)
        if k == 2:
            return fs.fsLink(spec["path"], self.TARGETS[spec["target"]], strict=strict, **kw)
        if k == 3:
            return fs.fsDev(spec["path"], major=spec["extra"] + 1, minor=spec["extra"] + 2, strict=strict, **kw)
        return fs.fsFifo(spec["path"], strict=strict, **kw)

    def canon(self, obj, locid):
        """fs object -> [kind, loc, mode, uid, gid, target, data, rest]"""
        kind = next((k for k, c in self.kcls.items() if type(obj) is c), 99)
        tgt = getattr(obj, "target", None) if kind == 2 else None
        tgt = None if tgt is None else (self.TARGETS.index(tgt) if tgt in self.TARGETS else 999)
        try:
            d = obj.data
        except AttributeError:
            d = None
        di = None if d is None else next((i for i, s in enumerate(self.DS) if s is d), 999)
        return [kind, locid(obj.location), obj.mode, obj.uid, obj.gid, tgt, di, self.rest_id(obj)]

    def canon_warn(self, msg, locid):
        for pre, k in (("correcting unsafe world writable SetGID: ", 0),
                       ("correcting unsafe world writable SetUID: ", 0),
                       ("world writable file: ", 1)):
            if msg.startswith(pre):
                return [k, locid(msg[len(pre):])]
        if msg.startswith("unhandled exception caught and suppressed"):
            return [2, 0]
        return [9, 0]

    # ---- observers that really format (as pmerge's do): operations.observer._convert runs
    #      `msg % args` for every message with arguments; null_output (and a stub) never would
    def make_observer(self, kind):
        """kind 'file': repo_observer(file_handle_output(sink)); 'fmt': repo_observer(formatter_output(
        formatter)).  Returns (observer, msgs) where msgs collects (level, text) per message."""
        obsmod = self.observer
        msgs = []
        if kind == "file":
            class Sink:
                def write(self, text):
                    for lvl in ("warning", "error", "info", "debug"):
                        if text.startswith(lvl + ": "):
                            msgs.append((lvl, text[len(lvl) + 2:].rstrip("\n")))
                            return
                    msgs.append(("write", text))

                def flush(self):
                    pass
            return obsmod.repo_observer(obsmod.file_handle_output(Sink())), msgs

        class Formatter:          # the part of snakeoil.formatters.Formatter that formatter_output uses
            bold, reset, verbosity = "<b>", "<r>", 0

            def fg(self, colour=None):
                return f"<{colour}>"

            def write(self, *args, prefixes=(), autoline=True, **kw):
                lvl = {"<yellow>": "warning", "<red>": "error", "<green>": "info"}.get(prefixes[0] if prefixes else "", "write")
                msgs.append((lvl, "".join(str(a) for a in args)))

            def flush(self):
                pass
        return obsmod.repo_observer(obsmod.formatter_output(Formatter())), msgs

    @staticmethod
    def reported(msgs):
        """the messages the model speaks about: warnings and errors (info/debug chatter is not modelled)"""
        return [("error: " + t) if lvl == "error" else t for lvl, t in msgs if lvl in ("warning", "error")]

    # ---- the real engine
    def engine_run(self, mode, objs, obs_kind="file"):
        """install/replace MergeEngine over a package whose contents are objs; runs pre_merge();
        returns (entries of engine.csets['new_cset'] in order, warnings)."""
        class Pkg:
            def __init__(self, cs):
                self.contents = cs

        cs = self.contents.contentsSet(objs)
        obs, msgs = self.make_observer(obs_kind)
        if mode == self.const.INSTALL_MODE:
            e = self.engine.MergeEngine.install(self.tmp, Pkg(cs), offset=self.root, observer=obs)
        else:
            e = self.engine.MergeEngine.replace(self.tmp, Pkg(self.contents.contentsSet()), Pkg(cs),
                                                offset=self.root, observer=obs)
        e.pre_merge()
        return list(e.csets["new_cset"]), self.reported(msgs)

    def strip(self, loc):
        return loc[len(self.root):] if loc.startswith(self.root + "/") else loc

    def order(self, mode):
        Pkg = type("Pkg", (), {"contents": self.contents.contentsSet()})
        mk = {self.const.INSTALL_MODE: lambda: self.engine.MergeEngine.install(self.tmp, Pkg(), offset=self.root),
              self.const.REPLACE_MODE: lambda: self.engine.MergeEngine.replace(self.tmp, Pkg(), Pkg(), offset=self.root),
              self.const.UNINSTALL_MODE: lambda: self.engine.MergeEngine.uninstall(self.tmp, Pkg(), offset=self.root)}
        e = mk[mode]()
        import operator
        return [type(t).__name__ for t in sorted(e.hooks.get("pre_merge", []), key=operator.attrgetter("priority"))]


# =========================================================================== rendering
def c_entry(e):
    k, l, m, u, g, t, d, r = e
    o = lambda x: "None" if x is None else f"(Some {int(x)})"  # noqa: E731
    return f"mkE {k} {l} {o(m)} {o(u)} {o(g)} {o(t)} {o(d)} {r}"


def c_entries(es):
    return clist([c_entry(e) for e in es], "entry")


# =========================================================================== the property's oracle (B)
def oracle(inp, out, wf):
    """inp/out: canonical entries before / after pre_merge.  Returns a description of the first
    failure of the property's statement, or None."""
    if len(inp) != len(out):
        return f"{len(inp)} entries in, {len(out)} out"
    for a, b in zip(inp, out):
        for name, i in (("type", 0), ("location", 1), ("target", 5), ("data", 6), ("other attributes", 7)):
            if a[i] != b[i]:
                return f"{name} of entry {a[1]} changed: {a[i]!r} -> {b[i]!r}"
        if b[3] != (0 if a[3] == BUILD_UID else a[3]):
            return f"uid of entry {a[1]}: {a[3]!r} -> {b[3]!r}"
        if b[4] != (0 if a[4] == BUILD_GID else a[4]):
            return f"gid of entry {a[1]}: {a[4]!r} -> {b[4]!r}"
        if a[0] == 2:
            if a[2] != b[2]:
                return f"mode of symlink {a[1]} changed: {a[2]!r} -> {b[2]!r}"
            continue
        if wf and isinstance(b[2], int) and (b[2] & 0o6000) and (b[2] & 0o002):
            return f"entry {a[1]} leaves pre_merge set-id and world-writable: mode {a[2]:o} -> {b[2]:o}"
        if isinstance(a[2], int):
            if not isinstance(b[2], int) or (b[2] ^ a[2]) & ~0o6002:
                return f"mode bits outside 0o6002 of entry {a[1]} changed: {a[2]:o} -> {b[2]!r}"
            if not ((a[2] & 0o6000) and (a[2] & 0o002)) and b[2] != a[2]:
                return f"safe mode of entry {a[1]} changed: {a[2]:o} -> {b[2]:o}"
        elif b[2] != a[2]:
            return f"absent mode of entry {a[1]} changed to {b[2]!r}"
    return None


# =========================================================================== generators
PATHS = ["/usr", "/usr/bin", "/usr/bin/su", "/usr/lib64/x.so", "/etc/conf", "/var/tmp", "/tmp", "/dev/null",
         "/run/f", "/usr/bin/passwd", "/opt/a b", "/usr/share/doc/x -> y", "/srv", "/bin/ls", "/home/u/.x", "/sbin/i",
         # names that are hostile to message formatting / encoding / globbing done on the way
         "/usr/share/doc/100%_coverage.html", "/srv/a%20b.png", "/etc/%s.tmpl", "/opt/%(name)s", "/usr/share/50%",
         "/tmp/%%d %i", "/var/{0}/{x}", "/usr/share/caf\u00e9/\u00fc", "/usr/lib/a\\b", "/usr/bin/[", "/opt/$HOME `x`",
         "/usr/lib/'q\"", "/usr/share/*?", "/usr/lib/" + "long" * 60] + ["/usr/lib/pkg/f%02d" % i for i in range(14)]
HOSTILE = range(16, 30)
TYPEBITS = {0: (0, 0o100000), 1: (0, 0o40000), 2: (0, 0o120000), 3: (0o20000, 0o60000), 4: (0, 0o10000)}


def gen_mode(rng, kind):
    r = rng.random()
    perm = rng.choice((0o755, 0o644, 0o777, 0o666, 0o4755, 0o2755, 0o4711, 0o1777, 0o2775, 0o6755)) if r < 0.3 else (
        (rng.choice((0o4000, 0o2000, 0o6000)) | rng.randrange(512) | 0o002 | (0o1000 if rng.random() < 0.3 else 0))
        if r < 0.65 else rng.randrange(4096))
    tb = TYPEBITS[kind]
    hi = tb[0] if kind == 3 and rng.random() < 0.5 else (tb[1] if kind == 3 or rng.random() < 0.2 else 0)
    return perm | hi


def gen_owner(rng, build, other):
    return rng.choice((build, build, 0, 0, other, rng.randrange(1, 70000), 65534, 2 ** 31 - 1, 2 ** 32 - 2))


def gen_cset(rng, malformed):
    n = rng.choice((0, 1, 2, 3, 4, 6, 8, 12, 12, 20))
    paths = rng.sample(PATHS, min(n, len(PATHS)))
    if paths and rng.random() < 0.5:      # make sure names of the hostile class take part often
        paths[rng.randrange(len(paths))] = PATHS[rng.choice(HOSTILE)]
        paths = list(dict.fromkeys(paths))
    specs = []
    for p in paths:
        k = rng.choice((0, 0, 0, 1, 1, 2, 3, 4))
        s = dict(kind=k, path=p, mode=gen_mode(rng, k), uid=gen_owner(rng, BUILD_UID, OTHER_UID),
                 gid=gen_owner(rng, BUILD_GID, OTHER_GID), target=rng.randrange(8), data=rng.randrange(4),
                 mtime=rng.choice((0, 5, 1700000000)), extra=rng.randrange(5))
        specs.append(s)
    if malformed and specs:
        for s in rng.sample(specs, min(len(specs), rng.choice((1, 1, 2)))):
            for a in rng.choice((("mode",), ("mode",), ("uid",), ("gid",), ("uid", "gid"), ("mode", "uid", "gid"), ("mtime",))):
                s[a] = None
    return specs


# =========================================================================== main
def main(chk: Check):
    chk.rule("random content sets (0-12 entries over files/dirs/symlinks/devices/fifos, modes biased to "
             "set-id + world-writable, owners in {build, root, other, random}) through a real "
             "MergeEngine.install/.replace pre_merge() with the default plugin triggers; sweep = every "
             "permission value 0..0o7777 (plus device type bits) x 5 kinds x owner classes through the "
             "install engine; non-trivial = distinct (stream, kind, mode, uid-class, gid-class) of an entry "
             "that the stage changes or whose mode has a set-id or world-writable bit (sweep: distinct "
             "(kind, mode, uid, gid) of non-symlinks with such a bit); direct: distinct (trigger, observer, "
             "raised, owner classes)")
    import time
    _t0 = time.time()

    def lap(what):
        if os.environ.get("VERIF_DEBUG"):
            print(f"[C23 {time.time() - _t0:6.1f}s] {what}", file=sys.stderr)
    try:
        tables.regenerate(sys.modules[__name__])
        table_ok = True
    except TableError as e:
        chk.violation("table", {"what": "source-derived table of C23 cannot be regenerated (fail-closed): " + str(e),
                                "table": "coq/gen/Tables_triggers_perms.v"}, no_input=True)
        table_ok = False
    ok = chk.build(["C23/Prop_C23.vo"])
    if ok:
        chk.check_assumptions("C23/Prop_C23.v")
    chk.lint(["C23"])
    chk.check_fingerprint(ANCHORS)

    lap('build+assumptions+lint done')
    impl = _Impl(str(chk.scratch))
    rng = chk.rng
    # a changed fingerprint escalates the quick budgets to the thorough ones (DESIGN §2 step 3);
    # VERIF_C23_NO_ESCALATE=1 (self-tests of the check only) keeps the quick budgets
    escalate = chk.fingerprint_changed and not os.environ.get("VERIF_C23_NO_ESCALATE")
    budget = lambda q, t: t if (chk.thorough or escalate) else q  # noqa: E731
    cfg = (impl.os_data.portage_uid, impl.os_data.portage_gid)
    if cfg != (BUILD_UID, BUILD_GID):
        chk.note(f"os_data resolved the build user to {cfg}")
    c_cfg = cpair(str(cfg[0]), str(cfg[1]))
    prop_bad = []          # concrete property failures (B)

    def classify(e):
        oc = lambda v, b: "none" if v is None else "build" if v == b else "root" if v == 0 else "other"  # noqa: E731
        return (e[0], e[2], oc(e[3], cfg[0]), oc(e[4], cfg[1]))

    # ---- order stream
    order_cases = []
    for mode in (impl.const.INSTALL_MODE, impl.const.REPLACE_MODE, impl.const.UNINSTALL_MODE):
        order_cases.append((str(mode), impl_call(lambda: impl.order(mode))))
    chk.count("order", len(order_cases))
    chk.sample({"stream": "order", "mode": 1, "impl": order_cases[0][1]})
    inst = order_cases[0][1]
    if not isinstance(inst, Err):
        want = ["fix_uid_perms", "fix_gid_perms", "fix_set_bits"]
        if any(w not in inst for w in want):
            prop_bad.append({"what": "an install engine's pre_merge stage no longer runs " +
                                     ", ".join(w for w in want if w not in inst),
                             "input": {"engine": "MergeEngine.install", "pre_merge triggers": inst}})

    # ---- pre / bad streams through the real engine
    def engine_case(specs, mode, obs_kind="file"):
        pathid = {p: i for i, p in enumerate(PATHS)}
        locid = lambda loc: pathid.get(impl.strip(loc), 9999)  # noqa: E731
        objs = [impl.make(s) for s in specs]
        inp = [impl.canon(o, lambda loc: pathid.get(loc, 9999)) for o in objs]

        def run():
            out, msgs = impl.engine_run(mode, objs, obs_kind)
            return [[impl.canon(o, locid) for o in out], [impl.canon_warn(m, locid) for m in msgs]]
        res = impl_call(run)
        return inp, res

    def stream(name, n, malformed):
        cases, raw = [], []
        corpus = []
        cdir = os.path.join(os.path.dirname(os.path.dirname(os.path.abspath(__file__))), "corpus", "C23")
        if os.path.isdir(cdir) and not malformed:
            import json
            for f in sorted(os.listdir(cdir)):
                if f.endswith(".json"):
                    corpus.extend(json.load(open(os.path.join(cdir, f))))
        for i in range(n + len(corpus)):
            if i < len(corpus):
                specs, mode, okind = corpus[i]["entries"], corpus[i].get("mode", 1), corpus[i].get("observer", "file")
            else:
                specs = gen_cset(rng, malformed)
                mode = impl.const.INSTALL_MODE if rng.random() < 0.7 else impl.const.REPLACE_MODE
                okind = "file" if rng.random() < 0.6 else "fmt"
            inp, res = engine_case(specs, mode, okind)
            term = cpair(str(mode), c_cfg, c_entries(inp))
            cases.append((term, res))
            raw.append((mode, inp, res, specs))
            wf = all(e[0] == 2 or e[2] is not None for e in inp)
            if isinstance(res, Err):
                prop_bad.append({"what": f"pre_merge raised {res.kind}",
                                 "input": {"mode": mode, "observer": okind, "entries": specs}})
                continue
            why = oracle(inp, res[0], wf)
            if why:
                if len(prop_bad) < 2:      # minimise the first failures: fewest entries that still fail
                    def fails(sub):
                        i2, r2 = engine_case(sub, mode, okind)
                        return isinstance(r2, Err) or oracle(i2, r2[0], all(e[0] == 2 or e[2] is not None for e in i2)) is not None
                    specs = shrink_list(specs, fails, 1)
                    inp, res = engine_case(specs, mode, okind)
                    why = (f"pre_merge raised {res.kind}" if isinstance(res, Err) else
                           oracle(inp, res[0], all(e[0] == 2 or e[2] is not None for e in inp))) or why
                prop_bad.append({"what": why, "input": {"mode": mode, "observer": okind, "entries": specs},
                                 "after": None if isinstance(res, Err) else res[0],
                                 "observer messages": None if isinstance(res, Err) else res[1]})
            for a, b in zip(inp, res[0]):
                if a != b or (isinstance(a[2], int) and a[0] != 2 and (a[2] & 0o6002)):
                    chk.nontrivial((name,) + classify(a))
        chk.count(name, len(cases))
        if raw:
            chk.sample({"stream": name, "mode": raw[-1][0], "entries": raw[-1][1], "impl": raw[-1][2]})
        return cases

    pre_cases = stream("pre", budget(240, 2400), False)
    bad_cases = stream("bad", budget(80, 800), True)

    lap('pre/bad streams done')
    # ---- direct stream: trigger classes with explicit arguments, minimal engine
    T = impl.triggers
    direct_cases = []

    for _ in range(budget(150, 1500)):
        specs = gen_cset(rng, rng.random() < 0.25)
        pathid = {p: i for i, p in enumerate(PATHS)}
        locid = lambda loc: pathid.get(loc, 9999)  # noqa: E731
        objs = [impl.make(s) for s in specs]
        inp = [impl.canon(o, locid) for o in objs]
        which = rng.randrange(5)
        obs = rng.random() < 0.6
        bad, good = rng.choice((BUILD_UID, BUILD_GID, 0, OTHER_UID, 7)), rng.choice((0, 0, 3, BUILD_UID))
        if which == 0:
            trig, term = T.fix_uid_perms(uid=bad, replacement=good), f"FixUid {bad} {good}"
        elif which == 1:
            trig, term = T.fix_gid_perms(gid=bad, replacement=good), f"FixGid {bad} {good}"
        elif which == 2:
            trig, term = T.fix_set_bits(), "FixSetBits"
        else:
            fp = which == 4
            trig, term = T.detect_world_writable(fix_perms=fp), f"DetectWW {cbool(fp)}"
        okind = "file" if rng.random() < 0.6 else "fmt"
        rep, rmsgs = impl.make_observer(okind) if obs else (None, [])
        eng = type("Engine", (), {"observer": rep, "mode": impl.const.INSTALL_MODE, "offset": "/"})()

        def run():
            cs = impl.contents.contentsSet(objs)
            trig(eng, {"new_cset": cs})     # base.__call__, as MergeEngine.execute_hook calls it
            return [[impl.canon(o, locid) for o in cs], [impl.canon_warn(m, locid) for m in impl.reported(rmsgs)]]
        res = impl_call(run)
        # the triggers' own contract, judged directly (B): re-owning never fails and maps bad -> good only
        dwhat = None
        wf_d = all(e[0] == 2 or e[2] is not None for e in inp)
        if isinstance(res, Err):
            if which in (0, 1) or wf_d:
                dwhat = f"{type(trig).__name__}.trigger raised {res.kind}"
        elif which in (0, 1):
            col = 3 if which == 0 else 4
            exp = [e[:col] + [good if e[col] == bad else e[col]] + e[col + 1:] for e in inp]
            if exp != res[0]:
                dwhat = f"{type(trig).__name__}({bad}, {good}) did not map exactly the entries owned by {bad} to {good}"
        if dwhat:
            prop_bad.append({"what": dwhat, "input": {"trigger": term, "observer": okind if obs else None, "entries": specs},
                             "after": None if isinstance(res, Err) else res[0]})
        direct_cases.append((cpair(cbool(obs), f"({term})", c_entries(inp)), res))
        chk.nontrivial(("direct", which, obs, isinstance(res, Err), tuple(sorted(set(classify(e)[2:] for e in inp)))[:3]))
    chk.count("direct", len(direct_cases))
    chk.sample({"stream": "direct", "input": direct_cases[-1][0], "impl": direct_cases[-1][1]})

    lap('direct done')
    # ---- sweep: all 4096 permission values x kinds x owner classes through the install engine
    owners_u = {"build": cfg[0], "root": 0, "other": OTHER_UID}
    owners_g = {"build": cfg[1], "root": 0, "other": OTHER_GID}
    combos = []
    full = chk.thorough or escalate
    for k in range(5):
        for un, u in owners_u.items():
            for gn, g in owners_g.items():
                if full or k in (0, 1) or un == gn:
                    hi = TYPEBITS[k][0]
                    combos.append((k, u, g, hi))
                    if full:
                        combos.append((k, u, g, TYPEBITS[k][1]))
    sweep_cases, tabs, n_sweep = [], {}, 0
    for k, u, g, hi in combos:
        sdir = "/s" if (k + u + g) % 2 else "/s/50%_off %s {0}"
        specs = [dict(kind=k, path="%s/%d" % (sdir, hi | p), mode=hi | p, uid=u, gid=g, target=1, data=1, mtime=0, extra=0)
                 for p in range(4096)]
        objs = [impl.make(s) for s in specs]
        what = {"kind": KINDS[k], "uid": u, "gid": g, "modes": "0o%o | 0..0o7777" % hi, "directory": sdir}
        res = impl_call(lambda: impl.engine_run(impl.const.INSTALL_MODE, objs))
        if isinstance(res, Err):
            prop_bad.append({"what": f"pre_merge raised {res.kind}", "input": what})
            continue
        out = res[0]
        if len(out) != 4096:
            prop_bad.append({"what": f"4096 entries in, {len(out)} out", "input": what})
            continue
        n_sweep += 4096
        for s, o0, o in zip(specs, objs, out):
            a = [k, s["path"], s["mode"], u, g, 1 if k == 2 else None, 1 if k == 0 else None, impl.rest_id(o0)]
            b = impl.canon(o, impl.strip)
            why = oracle([a], [b], True)
            if why:
                prop_bad.append({"what": why, "input": {"mode": 1, "entries": [s]}, "after": b})
            if (s["mode"] & 0o6002) and k != 2:
                chk.nontrivial(("sweep", k, s["mode"], u, g))
        term = "((%s), (%d, Some %d, Some %d), (%d, %s))" % (c_cfg[1:-1], k, u, g, hi, cnat(4096))
        owners = {(o.uid, o.gid) for o in out}
        if len(owners) == 1 and all(type(o.mode) is int for o in out) and all(type(x) is int for x in next(iter(owners))):
            uu, gg = next(iter(owners))
            tid = tabs.setdefault(tuple(o.mode - hi for o in out), len(tabs))
            sweep_cases.append((term, Raw("(VL (map (fun m => VZ (m + %d)%%Z) tab%d))" % (hi + 16777216 * (uu + 65536 * gg), tid))))
        else:   # not expected on the unchanged tree: explicit values
            sweep_cases.append((term, [None if None in (o.mode, o.uid, o.gid) else o.mode + 16777216 * (o.uid + 65536 * o.gid)
                                       for o in out]))
    chk.count("sweep", n_sweep)
    chk.sample({"stream": "sweep", "combos (kind, uid, gid, type bits)": len(combos), "distinct mode maps": len(tabs)})
    # the mode maps p -> resulting mode (relative to the type bits), shared between cases
    sweep_pre = ""
    for t, tid in tabs.items():
        chunks = ["[" + ";".join(str(x) if x >= 0 else f"({x})" for x in t[i:i + 64]) + "]" for i in range(0, len(t), 64)]
        sweep_pre += "Definition tab%d : list Z := concat [%s]%%Z.\n" % (tid, ";".join(chunks))

    lap('sweep done')
    # ---- evaluate model and spec inside Coq (streams in parallel)
    ENTRY_IN = "N * (N * N) * list entry"
    streams = [
        ("pre_bad", ENTRY_IN, pre_cases + bad_cases, ["mismatches run_pre cases",
                                                      "where_ (fun i r => negb (spec_pre_ok i r)) cases"], 200, ""),
        ("sweep", "(N * N) * (N * option N * option N) * (N * nat)", sweep_cases, ["mismatches run_sweep cases"], (14 if not full else 23), sweep_pre),
        ("direct", "bool * trig * list entry", direct_cases, ["mismatches run_direct cases"], 180, ""),
        ("order", "N", order_cases, ["mismatches run_order cases"], 120, ""),
    ]
    spec_bad, corr_bad = [], []
    if ok and table_ok:
        import concurrent.futures as cf
        # quick: few shards, all streams at once; thorough: one stream at a time (<= 12 coqc)
        with cf.ThreadPoolExecutor(max_workers=(1 if full else len(streams))) as ex:
            futs = [ex.submit(chk.coq_eval, name, IMPORTS, ty, cases, evals, shard, pre)
                    for name, ty, cases, evals, shard, pre in streams]
            results = [f.result() for f in futs]
        for (name, ty, cases, evals, shard, pre), r in zip(streams, results):
            if r is None:
                continue
            if len(r) > 1:
                spec_bad += [(name, cases[i]) for i in r[1]]
            corr_bad += [(name, cases[i]) for i in r[0]]
    lap('coq evaluation done')
    # ---- report
    for b in prop_bad[:3]:
        chk.violation("property", b)
    if spec_bad and not prop_bad:
        for name, c in spec_bad[:3]:
            chk.violation("property", {"what": "Spec_C23.spec_pre_ok rejects the content set the implementation "
                                               "produced at pre_merge", "input": c[0], "implementation": c[1]})
    for name, c in corr_bad[:3]:
        chk.violation("correspondence",
                      {"what": f"implementation and Model_C23 disagree on stream '{name}' "
                               "(the theorems of Prop_C23 no longer speak about this code)",
                       "input": c[0], "implementation": c[1] if not isinstance(c[1], Raw) else c[1].term[:400]},
                      no_input=not (prop_bad or spec_bad))


def replay(chk: Check, data):
    """re-run one recorded content set (detail.input = {"mode": m, "entries": [specs]}) against the
    implementation, the model and the spec."""
    inp_d = data.get("detail", {}).get("input")
    if not (isinstance(inp_d, dict) and "entries" in inp_d):
        print("replay: this record carries no content set (tie/proof violation); nothing to re-run")
        return
    impl = _Impl(str(chk.scratch))
    mode, specs = inp_d.get("mode", 1), inp_d["entries"]
    paths = [s["path"] for s in specs]
    objs = [impl.make(s) for s in specs]
    inp = [impl.canon(o, lambda loc: paths.index(loc) if loc in paths else 9999) for o in objs]
    locid = lambda loc: paths.index(impl.strip(loc)) if impl.strip(loc) in paths else 9999  # noqa: E731

    def run():
        out, msgs = impl.engine_run(mode, objs, inp_d.get("observer") or "file")
        return [[impl.canon(o, locid) for o in out], [impl.canon_warn(m, locid) for m in msgs]]
    res = impl_call(run)
    print("implementation:", res)
    if not isinstance(res, Err):
        print("oracle (B):", oracle(inp, res[0], all(e[0] == 2 or e[2] is not None for e in inp)) or "ok")
    term = cpair(str(mode), cpair(str(impl.os_data.portage_uid), str(impl.os_data.portage_gid)), c_entries(inp))
    r = chk.coq_eval("replay", IMPORTS, "N * (N * N) * list entry", [(term, res)],
                     ["mismatches run_pre cases", "where_ (fun i r => negb (spec_pre_ok i r)) cases"])
    if r is not None:
        print("model (A):", "agrees" if not r[0] else "DISAGREES", "| spec in Coq (B):", "accepts" if not r[1] else "REJECTS")
