#!/bin/sh
# usage: dbg.sh LINE  -> shows the goal at the given line of Proofs_C25.v
cd /verif/coq
head -n $1 C25/Proofs_C25.v > /verif/chk.scratch/c25/Dbg.v
echo "Show. Abort All." >> /verif/chk.scratch/c25/Dbg.v
timeout 600 coqc -R . Verif /verif/chk.scratch/c25/Dbg.v 2>&1 | head -${2:-60}
