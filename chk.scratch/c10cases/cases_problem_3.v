From Coq Require Import List NArith ZArith Bool.
From Verif Require Import Base.Val C10.Model_C10 C10.Spec_C10.
Import ListNotations.

Definition cases : list ((fcs_input) * val) := 
[
  (([(Flag false false [0%N])], ([0%N; 5%N], [0%N], (@nil (N)), (@nil (N)))),
   (prob_val [(0, [true]); (5, [true; false])]%N [(1, [1])]%N));
  (([(Grp KOr false [(Flag false false [0%N]); (Grp KOr true [(Flag true false [0%N; 1%N])])]); (Flag true false (@nil (N)))], ([0%N; 1%N; 5%N], (@nil (N)), (@nil (N)), [0%N])),
   (prob_val [(0, [false; true]); (1, [true; false]); (5, [true; false])]%N [(3, [1; 2; 3]); (0, [0])]%N));
  (([(Cond true 0%N [(Cond true 0%N [(Grp KOr false [(Flag false false [0%N])]); (Grp KOne false [(Flag false false [0%N]); (Flag false false (@nil (N))); (Flag false false [0%N])]); (Grp KOr false [(Flag false false [0%N]); (Flag true false [0%N])])]); (Cond true 0%N [(Flag true false [0%N])])]); (Flag false false [0%N])], ([0%N; 5%N], (@nil (N)), (@nil (N)), (@nil (N)))),
   (prob_val [(0, [true; false]); (5, [true; false])]%N [(1, [1]); (1, [1]); (1, [0; 1]); (1, [0; 1]); (1, [1])]%N));
  (([(Grp KOne false [(Flag false false (@nil (N)))])], ((@nil (N)), (@nil (N)), (@nil (N)), (@nil (N)))),
   (prob_val (@nil (N * list bool))%N [(0, (@nil (N)))]%N));
  (([(Grp KAmo false [(Flag false false [0%N]); (Flag true false [0%N]); (Flag true false [0%N])])], ([0%N], (@nil (N)), (@nil (N)), (@nil (N)))),
   (prob_val [(0, [true; false])]%N [(1, [1])]%N));
  (([(Grp KAmo false [(Grp KOne false [(Flag false false [1%N])])])], ([1%N; 5%N], (@nil (N)), (@nil (N)), [1%N])),
   (prob_val [(1, [false; true]); (5, [true; false])]%N [(2, [0; 2])]%N));
  (([(Flag false false [0%N])], ([0%N; 5%N], [5%N], (@nil (N)), (@nil (N)))),
   (prob_val [(0, [true; false]); (5, [true])]%N [(1, [1])]%N));
  (([(Flag true false [0%N])], ([0%N; 5%N], (@nil (N)), (@nil (N)), [0%N])),
   (prob_val [(0, [false; true]); (5, [true; false])]%N [(1, [0])]%N));
  (([(Grp KOne true (@nil (ru)))], ((@nil (N)), (@nil (N)), (@nil (N)), [5%N])),
   (VErr [86;97;108;117;101;69;114;114;111;114]%N));
  (([(Flag false false (@nil (N))); (Flag true false [0%N])], ([5%N], [0%N], (@nil (N)), (@nil (N)))),
   (prob_val [(0, [false]); (5, [true; false])]%N [(0, (@nil (N))); (1, [0])]%N));
  (([(Grp KAnd true (@nil (ru)))], ((@nil (N)), (@nil (N)), (@nil (N)), (@nil (N)))),
   (VErr [65;115;115;101;114;116;105;111;110;69;114;114;111;114]%N));
  (([(Flag false false [2%N]); (Grp KOr false (@nil (ru)))], ([2%N; 5%N], (@nil (N)), (@nil (N)), [2%N; 5%N])),
   (VErr [86;97;108;117;101;69;114;114;111;114]%N))
].
Eval vm_compute in (mismatches run_problem cases).
