"""C29 — package database updates are crash-consistent (DESIGN §6 C29).

For every scenario (a scratch vdb or binpkg repository + one install / replace / uninstall run
through the real repo-operation classes) the complete run is traced with harness/fsx.py, then the
run is repeated on a fresh clone of the tree with a simulated crash before every traced call,
and a FRESH repository object scans the tree and reads the metadata.

Streams (evaluated inside Coq against C29/Model_C29.v)
  ops    traced successful calls of the complete run == Model_C29.sc_ops, every model op succeeds,
         and the window (lo, hi) of the known classes == Model_C29.sc_window            (A)
  state  snapshot of the scratch tree after a crash == Model_C29.sc_state (sampled points)  (A)
  view   fresh view after each crash: == Model_C29.sc_view                                (A)
         and in {view before, view after completion} (Spec_C29.spec_view_ok)              (B)
and directly in Python: old-or-new at every crash point, the completed package has every
metadata key / the removed one is gone, binpkg metadata read through the Packages cache equals
the xpak of the listed tarball.
"""

from __future__ import annotations

import contextlib
import bz2
import logging
import os
import shutil
import sys
import tempfile
import traceback
import time

from . import fsx
from .common import Check, Err, Raw, cN, cZ, cnat, clist, impl_call

IMPORTS = ("From Coq Require Import List NArith ZArith Bool.\n"
           "From Verif Require Import Base.Val C18.Fs C29.Model_C29 C29.Spec_C29.")
PREAMBLE = "Definition t := s2l.\nDefinition h := hx.\n"
ANCHORS = ["vdb/repo_ops.py", "vdb/ondisk.py::tree._get_categories", "vdb/ondisk.py::tree._get_packages",
           "vdb/ondisk.py::tree._internal_load_key", "vdb/ondisk.py::tree.notify_remove_package",
           "vdb/ondisk.py::tree._metadata_rewrites",
           "binpkg/repo_ops.py", "binpkg/repository.py::tree._get_categories",
           "binpkg/repository.py::tree._get_packages", "binpkg/repository.py::tree._get_metadata",
           "binpkg/repository.py::tree.notify_add_package", "binpkg/repository.py::tree.notify_remove_package",
           "operations/repo.py::install", "operations/repo.py::uninstall", "operations/repo.py::replace"]
OLD_T = 1_000_000_000          # mtime of everything in a freshly built scratch tree
FROZEN = 1_500_000_000         # what time.time() answers while the implementation runs
PLAIN_KEYS = ["DESCRIPTION", "SLOT", "EAPI", "KEYWORDS", "RDEPEND", "USE", "IUSE", "repository",
              "COUNTER", "PKGMANAGER"]
KINDS = {"vinstall": "KVInstall", "vuninstall": "KVUninstall", "vreplace": "KVReplace",
         "binstall": "KBInstall", "breplace": "KBReplace", "buninstall": "KBUninstall"}


# --------------------------------------------------------------------------- Coq rendering
def lit(b) -> str:
    """bytes/str -> Coq term of type list N through a cheap string literal"""
    if isinstance(b, str):
        b = b.encode()
    if all(32 <= c < 127 for c in b):
        return '(t "' + b.decode().replace('"', '""') + '"%bs)'
    return '(h "' + b.hex() + '"%bs)'


def c_path(p) -> str:
    return clist([lit(c) for c in p], "str")


def vterm(x) -> str:
    if isinstance(x, Err):
        return f"(VErr {lit(x.kind)})"
    if x is None:
        return "VNone"
    if isinstance(x, (bytes, str)):
        return f"(VS {lit(x)})"
    if isinstance(x, (list, tuple)):
        return "(VL " + clist([vterm(i) for i in x], "val") + ")"
    if isinstance(x, bool):
        return "(VB true)" if x else "(VB false)"
    if isinstance(x, int):
        return f"(VZ {cZ(x)})"
    raise TypeError(x)


def canon_t(mt, is_dir):
    if mt == OLD_T:
        return mt
    if mt == FROZEN:
        return -1
    return -2 if is_dir else -1


def c_fs(snap) -> str:
    inomap = {}
    rows = []
    for p, n in sorted(snap.items()):
        if n[0] == "file":
            _, data, mode, u, g, mt, ino = n
            i = inomap.setdefault(ino, len(inomap) + 1)
            node = f"File {lit(data)} {mode} {u} {g} ({canon_t(mt, False)}) {i}"
        elif n[0] == "dir":
            _, mode, u, g, mt = n
            node = f"Dir {mode} {u} {g} ({canon_t(mt, True)})"
        else:
            raise ValueError(f"unexpected node in a repository tree: {n[0]}")
        rows.append(f"({c_path(p)}, {node})")
    return clist(rows, "path * node")


def c_op(o) -> str:
    k = o[0]
    if k in ("Mkdir", "Create", "Chmod"):
        return f"{k} {c_path(o[1])} {o[2]}"
    if k == "Append":
        return f"Append {c_path(o[1])} {lit(o[2])}"
    if k == "Pwrite":
        return f"Pwrite {c_path(o[1])} {cnat(o[2])} {lit(o[3])}"
    if k in ("Truncate", "Unlink", "Rmdir"):
        return f"{k} {c_path(o[1])}"
    if k == "Rename":
        return f"Rename {c_path(o[1])} {c_path(o[2])}"
    if k == "Chown":
        f = lambda v: "None" if v is None else f"(Some {cN(v)})"  # noqa: E731
        return f"Chown {c_path(o[1])} {f(o[2])} {f(o[3])}"
    if k == "Utime":
        return f"Utime {c_path(o[1])} ({o[2]})"
    raise ValueError(o)


def c_chunks(chs) -> str:
    return clist([lit(c) for c in chs], "list N")


def c_rt(t) -> str:
    if isinstance(t, str):
        return f"RF {lit(t)}"
    return f"RD {lit(t[0])} {clist([c_rt(x) for x in t[1]], 'rt')}"


def c_scen(sc, m) -> str:
    items = []
    for it in m["items"]:
        if it[0] == "W":
            items.append(f"W {lit(it[1])} {c_chunks(it[2])}")
        else:
            items.append(f"WC {c_chunks(it[1])}")
    return ("{| sc_kind := %s; sc_fs := %s; sc_loc := %s; sc_cat := %s; sc_pf := %s; sc_old := %s; "
            "sc_items := %s; sc_tree := %s; sc_pid := %s; sc_chunks := %s; sc_cache := %s |}"
            % (KINDS[sc["kind"]], c_fs(m["pre"]), c_path(("r",)), lit(sc["cat"]), lit(sc.get("pf", "")),
               lit(sc.get("old", "")), clist(items, "item"), clist([c_rt(x) for x in m["tree"]], "rt"),
               lit(str(os.getpid())), c_chunks(m["chunks"]), c_chunks(m["cache"])))


# --------------------------------------------------------------------------- scratch repositories
def write(p, data):
    os.makedirs(os.path.dirname(p), exist_ok=True)
    with open(p, "wb") as f:
        f.write(data if isinstance(data, bytes) else data.encode())


def mk_vdb_pkg(root, cat, pf, meta, contents="", extra=None):
    d = os.path.join(root, cat, pf)
    os.makedirs(d)
    for k, v in meta.items():
        write(os.path.join(d, k), v + "\n" if v else "")
    write(os.path.join(d, "CONTENTS"), contents)
    write(os.path.join(d, "environment.bz2"), bz2.compress(("PF=%s\n" % pf).encode()))
    write(os.path.join(d, pf + ".ebuild"), "# %s\n" % pf)
    for rel, data in (extra or {}).items():
        write(os.path.join(d, rel), data)


def settle(root):
    """give every entry of a freshly built tree the fixed old mtime"""
    for d, dn, fn in os.walk(root, topdown=False):
        for n in fn:
            os.utime(os.path.join(d, n), (OLD_T, OLD_T))
        os.utime(d, (OLD_T, OLD_T))


def gen_meta(rng, pf):
    words = ["x", "amd64", "~arm", "foo", "bar", "doc", "ssl"]
    use = sorted(rng.sample(["a", "b", "c"], rng.randint(0, 2)))
    return {"EAPI": rng.choice(["7", "8"]), "SLOT": rng.choice(["0", "1", "2/2.1"]),
            "DESCRIPTION": "d " + pf + " " + rng.choice(words), "KEYWORDS": rng.choice(["amd64", "~arm amd64", ""]),
            "RDEPEND": rng.choice(["", "dev-libs/x", ">=dev-libs/y-1:0"]), "USE": " ".join(use),
            "IUSE": "a b c", "repository": rng.choice(["gentoo", "ov"]), "DEFINED_PHASES": "install",
            "LICENSE": "GPL-2"}


def gen_scenario(rng, kind, variant=None):
    """variant (replace kinds): "same" = re-install of the same version, "upgrade" = another
    version, "revision" = 1.0 <-> 1.0-r0 (equal versions for install_or_replace, two file names)"""
    cat = rng.choice(["c", "app-misc", "dev-x"])
    name = rng.choice(["p", "foo", "q+x"])
    v1, v2 = rng.sample(["1", "1.0", "2.3.4", "10", "1.0-r1"], 2)
    sc = {"kind": kind, "cat": cat, "pre": [], "junk": [], "stale": False}
    if kind in ("vreplace", "breplace"):
        if variant is None:
            variant = rng.choice(["same", "upgrade", "revision"] if kind == "breplace" else ["same", "upgrade", "upgrade"])
        if variant == "same":
            v2 = v1
        elif variant == "revision":
            v1, v2 = rng.choice([("1.0", "1.0-r0"), ("1.0-r0", "1.0"), ("2-r0", "2")])
        sc["variant"] = variant
    old, new = f"{name}-{v1}", f"{name}-{v2}"
    if kind == "breplace" and variant == "same":
        sc["same_second"] = True
    if kind in ("vinstall", "vreplace", "binstall", "breplace"):
        sc["pf"] = new
        sc["new_meta"] = gen_meta(rng, new)
        # (a vdb CONTENTS "dir" line carries no mode, so a tarball cannot be made of it)
        sc["new_contents"] = "" if kind[0] == "b" else rng.choice(["", "dir /usr\n", "dir /usr\ndir /usr/share\n"])
    if kind in ("vreplace", "vuninstall", "breplace", "buninstall"):
        sc["old"] = old
        extra = {}
        if kind.startswith("v"):
            if rng.random() < 0.6:
                extra["NOTES"] = "n\n"
            if rng.random() < 0.5:
                extra["sub/x"] = "x"
            if rng.random() < 0.3:
                extra["sub/deep/y"] = ""
        ometa = gen_meta(rng, old)
        if sc.get("same_second"):
            # old and new differ in keys the Packages index stores
            ometa["DESCRIPTION"] = "OLD build of " + old
            ometa["KEYWORDS"] = "~old"
            ometa["SLOT"] = "9"
        sc["pre"].append({"cat": cat, "pf": old, "meta": ometa, "extra": extra})
    # neighbours (few metadata files each): another version of the same package, another
    # package, another category
    def small(pf):
        m = gen_meta(rng, pf)
        return m if kind[0] == "b" else {k: m[k] for k in ("EAPI", "SLOT", "DESCRIPTION")}
    if rng.random() < 0.5:
        sc["pre"].append({"cat": cat, "pf": f"{name}-99", "meta": small(f"{name}-99"), "extra": {}})
    if rng.random() < 0.5:
        sc["pre"].append({"cat": cat, "pf": "other-3", "meta": small("other-3"), "extra": {}})
    if rng.random() < 0.4:
        sc["pre"].append({"cat": "zz", "pf": "far-1", "meta": small("far-1"), "extra": {}})
    # entries every listing must skip
    if kind.startswith("v"):
        for nm in rng.sample([".tmp.gone-1", "-MERGING-half-2", "lock-1.lockfile"], rng.randint(0, 2)):
            sc["junk"].append((cat, nm, "dir"))
        if kind in ("vinstall", "vreplace") and rng.random() < 0.3:
            sc["stale"] = True                      # staging directory of an earlier crashed attempt
    else:
        for nm in rng.sample([".tmp.77.gone-1.tbz2", "half-2.tbz2.lockfile", "README"], rng.randint(0, 2)):
            sc["junk"].append((cat, nm, "file"))
    return sc


class World:
    """source packages + the template of the target repository of one scenario"""

    def __init__(self, work, sc):
        from pkgcore.binpkg import repository as binrepo
        from pkgcore.vdb import ondisk

        self.sc, self.work = sc, work
        self.src = os.path.join(work, "src")
        self.tmpl = os.path.join(work, "tmpl")
        self.loc_t = os.path.join(self.tmpl, "r")
        os.makedirs(self.loc_t)
        self.is_vdb = sc["kind"].startswith("v")
        cat = sc["cat"]
        if "pf" in sc:
            mk_vdb_pkg(self.src, cat, sc["pf"], sc["new_meta"], sc["new_contents"])
        if self.is_vdb:
            for p in sc["pre"]:
                mk_vdb_pkg(self.loc_t, p["cat"], p["pf"], p["meta"], "", p["extra"])
        self.src_repo = ondisk.tree(self.src, disable_cache=True) if os.path.isdir(self.src) else None
        self.src_pkgs = {f"{p.category}/{p.package}-{p.fullver}": p for p in (self.src_repo or ())}
        if not self.is_vdb:
            srcpre = os.path.join(work, "srcpre")
            for p in sc["pre"]:
                mk_vdb_pkg(srcpre, p["cat"], p["pf"], p["meta"], "")
            bt = binrepo.tree(self.loc_t)
            if sc["pre"]:
                for sp in ondisk.tree(srcpre, disable_cache=True):
                    bt.operations.install(sp).finish()
        for c, nm, ty in sc["junk"]:
            if ty == "dir":
                os.makedirs(os.path.join(self.loc_t, c, nm), exist_ok=True)
                write(os.path.join(self.loc_t, c, nm, "SLOT"), "0\n")
            else:
                write(os.path.join(self.loc_t, c, nm), "junk")
        if sc["stale"]:
            d = os.path.join(self.loc_t, cat, ".tmp." + sc["pf"])
            os.makedirs(d, exist_ok=True)
            write(os.path.join(d, "SLOT"), "stale-stale-stale\n")
            write(os.path.join(d, "LEFTOVER"), "zz")
        settle(self.tmpl)
        if not self.is_vdb and sc["pre"]:
            # the Packages index the repository wrote itself, consistent with the settled tarballs
            bt = binrepo.tree(self.loc_t)
            for p in bt:
                bt._get_metadata(p, force=True)
            bt.cache.commit(force=True)
            settle(self.tmpl)
        self.n = 0

    def fresh(self):
        self.n += 1
        top = os.path.join(self.work, f"run{self.n}")
        fsx.clone_tree(self.tmpl, top)
        os.utime(top, (OLD_T, OLD_T))
        return top

    def operation(self, top):
        """the thunk that performs the update on the clone at `top` through the real classes"""
        from pkgcore.binpkg import repository as binrepo
        from pkgcore.vdb import ondisk

        sc = self.sc
        loc = os.path.join(top, "r")
        kind = sc["kind"]
        dom = type("Dom", (), {"pm_tmpdir": os.path.join(self.work, "pmtmp")})()
        repo = ondisk.tree(loc, disable_cache=True) if self.is_vdb else binrepo.tree(loc)
        new = self.src_pkgs.get(f"{sc['cat']}/{sc['pf']}") if "pf" in sc else None
        old = None
        if "old" in sc:
            old = [p for p in repo if p.category == sc["cat"] and f"{p.package}-{p.fullver}" == sc["old"]][0]

        def go():
            with dirfd_adapter():
                ops = repo.operations
                if kind == "vinstall":
                    op = ops.install(new)
                    op.add_data(dom)
                elif kind == "vreplace":
                    op = ops.replace(old, new)
                    op.add_data(dom)
                elif kind in ("vuninstall", "buninstall"):
                    op = ops.uninstall(old)
                elif kind == "binstall":
                    op = ops.install(new)
                else:
                    op = ops.replace(old, new)
                op.finish()
        return go


@contextlib.contextmanager
def dirfd_adapter():
    """shutil.rmtree removes entries through dir_fd, which fsx passes through unrecorded:
    turn those calls into the equivalent path calls (which fsx then sees)."""
    cur_unlink, cur_rmdir = os.unlink, os.rmdir

    def conv(fn):
        def w(path, *, dir_fd=None):
            if dir_fd is not None:
                path = os.path.join(os.readlink(f"/proc/self/fd/{dir_fd}"), os.fsdecode(path))
            return fn(path)
        return w

    os.unlink, os.rmdir = conv(cur_unlink), conv(cur_rmdir)
    try:
        yield
    finally:
        os.unlink, os.rmdir = cur_unlink, cur_rmdir


@contextlib.contextmanager
def frozen_clock():
    real = time.time
    time.time = lambda: FROZEN
    try:
        yield
    finally:
        time.time = real


# --------------------------------------------------------------------------- the fresh view
def raw_bytes(src):
    with open(src.path, "rb") as f:
        return f.read()


def vdb_view(loc):
    from pkgcore.vdb import ondisk

    t = ondisk.tree(loc, disable_cache=True)
    out = []
    for pkg in t:
        d = t._get_metadata(pkg)
        pf = f"{pkg.package}-{pkg.fullver}"
        vals = []
        for k in PLAIN_KEYS:
            try:
                vals.append(d[k])
            except KeyError:
                vals.append(None)
        try:
            cf = d["contents"]
            list(cf)
            with open(os.path.join(loc, pkg.category, pf, "CONTENTS"), "rb") as f:
                vals.append(f.read())
        except (KeyError, OSError):
            vals.append(None)
        for k in ("environment", "ebuild"):
            try:
                vals.append(raw_bytes(d[k]))
            except (KeyError, OSError):
                vals.append(None)
        out.append([pkg.category, pf, vals])
    return sorted(out, key=lambda e: (e[0], e[1]))


def bin_view(loc):
    """-> (view, stale) ; stale lists packages whose metadata read through the repository
    (Packages cache) differs from the xpak of the listed tarball"""
    from pkgcore.binpkg import repository as binrepo
    from pkgcore.binpkg.xpak import Xpak

    t = binrepo.tree(loc)
    out, stale = [], []
    for pkg in t:
        pf = f"{pkg.package}-{pkg.fullver}"
        path = t._get_path(pkg)
        with open(path, "rb") as f:
            data = f.read()
        out.append([pkg.category, pf, data])
        x = Xpak(path)
        for attr, key in (("description", "DESCRIPTION"), ("eapi", "EAPI"), ("fullslot", "SLOT")):
            got = str(getattr(pkg, attr))
            want = x.get(key, b"")
            want = want.decode() if isinstance(want, bytes) else want
            if got.strip() != want.strip():
                stale.append([pkg.category, pf, key, got, want])
    return sorted(out, key=lambda e: (e[0], e[1])), stale


# --------------------------------------------------------------------------- traces -> model ops
def rel(top, p):
    return fsx.canon(top, p)


def raw_key(c):
    """what two runs of the same scenario must agree on, call by call"""
    a = c.args
    if c.kind == "write":
        p = c.cpaths[0]
        if p and p[-1] == ".update.Packages":
            return (c.kind, c.cpaths, c.ok)       # carries mtimes / checksums of this very run
        return (c.kind, c.cpaths, a[1], bytes(a[2]), c.ok)
    if c.kind == "utime":
        return (c.kind, c.cpaths, c.ok)
    return (c.kind, c.cpaths, tuple(x for x in a[1:] if isinstance(x, int)), c.ok)


def to_ops(trace, pre, final_snap):
    """-> (ops, idx) ; idx[k] = number of model ops completed before traced call k
    (idx[len(trace)] = all).  None when a call is outside the model."""
    ops, idx = [], []
    sizes = {p: len(n[1]) for p, n in pre.items() if n[0] == "file"}
    for c in trace:
        k, a, cp = c.kind, c.args, c.cpaths
        if any(x is None for x in cp):
            return None
        p = cp[0]
        if c.ok and k == "write" and p not in sizes:
            # the compressed tar was written by the compressor outside the traced calls
            off = a[1]
            blob = None
            for q, n in final_snap.items():
                if n[0] == "file" and q[:-1] == p[:-1] and p[-1].endswith("." + q[-1]):
                    blob = n[1][:off]
            if blob is None or len(blob) != off:
                return None
            ops += [("Create", p, 0o644), ("Append", p, blob)]
            sizes[p] = off
        idx.append(len(ops))
        if not c.ok:
            continue
        if k == "mkdir":
            ops.append(("Mkdir", p, a[1]))
        elif k == "create":
            sizes[p] = 0
            ops.append(("Create", p, a[1]))
        elif k == "truncate":
            if p[-1].startswith(".tmp.") and p[-1].endswith(".tbz2"):
                continue                      # Xpak.write_xpak: handle.truncate() at the end of the data
            sizes[p] = 0
            ops.append(("Truncate", p))
        elif k == "write":
            off, data = a[1], bytes(a[2])
            if sizes.get(p) == off:
                ops.append(("Append", p, data))
                sizes[p] = off + len(data)
            else:
                ops.append(("Pwrite", p, off, data))
        elif k == "rename":
            ops.append(("Rename", cp[0], cp[1]))
            if cp[0] in sizes:
                sizes[cp[1]] = sizes.pop(cp[0])
        elif k == "unlink":
            ops.append(("Unlink", p))
            sizes.pop(p, None)
        elif k == "rmdir":
            ops.append(("Rmdir", p))
        elif k == "chmod":
            ops.append(("Chmod", p, a[1] & 0o7777))
        elif k == "chown":
            ops.append(("Chown", p, None if a[1] == -1 else a[1], None if a[2] == -1 else a[2]))
        elif k == "utime":
            if len(a) > 2:
                return None
            ops.append(("Utime", p, -1 if a[1] == FROZEN else a[1]))
        else:
            return None
    idx.append(len(ops))
    return ops, idx


def scan_tree(d):
    out = []
    with os.scandir(d) as it:
        entries = list(it)
    for e in entries:
        if e.is_dir(follow_symlinks=False):
            out.append((e.name, scan_tree(e.path)))
        else:
            out.append(e.name)
    return out


# --------------------------------------------------------------------------- known classes
def k_rmtree_partial(ex):
    """vdb replace / uninstall, crash strictly inside shutil.rmtree(old): the old package is
    still listed with some of its files gone"""
    return (ex["kind"] in ("vreplace", "vuninstall") and ex["lo"] < ex["m"] < ex["lo"] + ex["n_rm"]
            and ex["old_listed"] and not ex["scan_raises"])


def k_replace_neither(ex):
    """vdb replace, crash after rmtree(old) finished and before rename(new): with different
    versions neither is listed, with the same version the package is gone"""
    return (ex["kind"] == "vreplace" and ex["lo"] + ex["n_rm"] <= ex["m"] < ex["hi"]
            and not ex["old_listed"] and not ex["new_listed"] and not ex["scan_raises"])


def k_bin_both_listed(ex):
    """binpkg replace whose old and new tarball names differ, crash exactly between the rename of the
    new tarball and the unlink of the old one: both (complete) tarballs are listed"""
    return (ex["kind"] == "breplace" and ex["old"] != ex["new"] and ex["lo"] < ex["m"] < ex["hi"]
            and ex["old_listed"] and ex["new_listed"] and not ex["scan_raises"])


CLASSES = [("vdb-rmtree-partial", k_rmtree_partial), ("vdb-replace-neither", k_replace_neither),
           ("binpkg-replace-both-listed-window", k_bin_both_listed)]


# --------------------------------------------------------------------------- one scenario
class Broken(Exception):
    pass


class Failed(Exception):
    """a property failure found while setting a scenario up"""


def run_scenario(chk, work, sc, max_points=None, keep_all=False):
    """-> dict(model input, ops, idx, views[k], snaps{k: snap}, findings[], bad[])"""
    w = World(work, sc)
    view_of = (lambda loc: (vdb_view(loc), [])) if w.is_vdb else bin_view
    kinds = {"InvalidCPV": "InvalidCPV"}

    def observe(top):
        if sc.get("same_second"):
            # both builds were written within the same second: the tarball just renamed into place
            # carries the same integer mtime as the one the Packages index was written for
            for d, _dn, fn in os.walk(os.path.join(top, "r")):
                for nm in fn:
                    fp = os.path.join(d, nm)
                    if nm.endswith(".tbz2") and not nm.startswith(".tmp.") and int(os.stat(fp).st_mtime) != OLD_T:
                        os.utime(fp, (OLD_T, OLD_T))
        r = impl_call(lambda: view_of(os.path.join(top, "r")), kinds=kinds)
        return (r, []) if isinstance(r, Err) else r

    # ---- the complete run
    top = w.fresh()
    pre = fsx.snapshot(top)
    view0, stale0 = observe(top)
    if isinstance(view0, Err):
        raise Failed({"what": f"a fresh view of the untouched scratch repository raises {view0.kind}: an entry "
                              "that every listing must skip (.tmp.*, -MERGING-*, *.lockfile, non-tarballs) is not skipped",
                      "scenario": sc, "entries": sc["junk"], "stale_staging_dir": sc["stale"]})
    old_dir = os.path.join(top, "r", sc["cat"], sc.get("old", "\0"))
    tree = scan_tree(old_dir) if w.is_vdb and "old" in sc and os.path.isdir(old_dir) else []
    with frozen_clock():
        try:
            go = w.operation(top)
        except Exception as e:  # noqa: BLE001
            raise Broken(f"cannot set the operation up on the scratch repository: {e!r}") from e
        ref = fsx.record(go, top)
    if ref.exc is not None:
        raise Broken(f"the operation raised on the scratch repository: {ref.exc!r}")
    final = fsx.snapshot(top)
    viewn, stalen = observe(top)
    conv = to_ops(ref.trace, pre, final)
    n = len(ref.trace)
    unmodelled = conv is None
    if unmodelled:
        # a traced call is outside the model: the crash points are still replayed and judged
        conv = ([], [0] * (n + 1))
    ops, idx = conv
    # ---- model input taken from the package / the completed run (see Model_C29 header)
    m = {"pre": pre, "tree": tree, "items": [], "chunks": [], "cache": []}
    if sc["kind"] in ("vinstall", "vreplace"):
        new = w.src_pkgs[f"{sc['cat']}/{sc['pf']}"]
        rw = type(w.src_repo)._metadata_rewrites
        dst = ("r", sc["cat"], sc["pf"])

        def data_of(name):
            node = final.get(dst + (name,))
            return node[1] if node else b""
        for k in new.tracked_attributes:
            if k == "contents":
                d = data_of("CONTENTS")
                m["items"].append(("WC", [d[i:j] for i, j in line_spans(d)]))
            elif k == "environment":
                m["items"].append(("W", "environment.bz2", [data_of("environment.bz2")]))
            else:
                nm = rw.get(k, k.upper())
                m["items"].append(("W", nm, [data_of(nm)]))
        for nm in (sc["pf"] + ".ebuild", "COUNTER", "PKGMANAGER"):
            m["items"].append(("W", nm, [data_of(nm)]))
    if sc["kind"] in ("binstall", "breplace"):
        for c in ref.trace:
            if c.ok and c.kind == "write":
                if c.cpaths[0][-1] == ".update.Packages":
                    m["cache"].append(bytes(c.args[2]))
                else:
                    m["chunks"].append(bytes(c.args[2]))
        tars = [o for o in ops if o[0] == "Append"]
        if tars:
            m["chunks"].insert(0, tars[0][2])
    # ---- crash before every traced call
    points = list(range(n))
    if max_points is not None and len(points) > max_points:
        # always keep the neighbourhood of renames / removals; sample the rest
        keep = set()
        for i, c in enumerate(ref.trace):
            if c.kind in ("rename", "unlink", "rmdir"):
                keep.update((i, min(i + 1, n - 1)))
            elif keep_all and not (c.kind == "write" and c.cpaths[0] and c.cpaths[0][-1] == ".update.Packages"):
                keep.add(i)
        rest = [i for i in points if i not in keep]
        keep.update(chk.rng.sample(rest, min(len(rest), max_points)))
        points = sorted(keep)
    views = {0: (view0, stale0), n: (viewn, stalen)}
    snaps = {n: final}
    want_snap = set(chk.rng.sample(points, min(3, len(points))))
    for i, c in enumerate(ref.trace):
        if c.kind == "rename":
            want_snap.update((i, min(i + 1, n - 1)))
    cache_from = next((i for i, c in enumerate(ref.trace) if c.cpaths and c.cpaths[0] and c.cpaths[0][-1] == ".update.Packages"), n)
    for k in points:
        if k == 0:
            continue
        top = w.fresh()
        with frozen_clock():
            try:
                go = w.operation(top)
            except Exception as e:  # noqa: BLE001
                raise Broken(f"cannot set the operation up on the scratch repository: {e!r}") from e
            r = fsx.run_with_fault(go, top, k, "crash")
        if not r.crashed or [raw_key(c) for c in r.trace[:k]] != [raw_key(c) for c in ref.trace[:k]]:
            raise Broken(f"run with a crash before call {k} diverged from the complete run "
                         f"(crashed={r.crashed}, exc={r.exc!r})")
        if k in want_snap and k <= cache_from:
            snaps[k] = fsx.snapshot(top)
        views[k] = observe(top)
        shutil.rmtree(top, ignore_errors=True)
    return {"sc": sc, "m": m, "ops": ops, "idx": idx, "views": views, "snaps": {} if unmodelled else snaps, "n": n,
            "trace": [repr(c) for c in ref.trace], "unmodelled": unmodelled}


def line_spans(d):
    """ContentsFile.flush writes one line per write()"""
    out, i = [], 0
    while i < len(d):
        j = d.find(b"\n", i)
        j = len(d) if j < 0 else j + 1
        out.append((i, j))
        i = j
    return out


def window_of(res):
    """(lo, hi, n_rm) in model-op indices, from the structure of the scenario"""
    sc, ops = res["sc"], res["ops"]
    if sc["kind"] == "breplace":
        ren = [i for i, o in enumerate(ops) if o[0] == "Rename" and o[1][-1].startswith(".tmp.") and o[1][-1].endswith(".tbz2")]
        if not ren:
            return 0, 0, 0
        lo = ren[0]
        old = ("r", sc["cat"], sc["old"] + ".tbz2")
        return lo, lo + 1 + sum(1 for o in ops if o[0] == "Unlink" and o[1] == old), 0
    if sc["kind"] not in ("vreplace", "vuninstall"):
        return 0, 0, 0
    old = ("r", sc["cat"], sc["old"])
    rm = [i for i, o in enumerate(ops) if o[0] in ("Unlink", "Rmdir") and o[1][:3] == old]
    if not rm:
        return 0, 0, 0          # the old directory is not removed in place: no known class applies
    lo = rm[0]
    n_rm = len(rm)
    hi = lo + n_rm + (2 if sc["kind"] == "vreplace" else 0)
    return lo, hi, n_rm


def listed(view, cat, pf):
    return (not isinstance(view, Err)) and any(e[0] == cat and e[1] == pf for e in view)


def judge(chk, res):
    """the statement, directly on the implementation's views (Python side of B)"""
    sc = res["sc"]
    n = res["n"]
    v0, vn = res["views"][0][0], res["views"][n][0]
    lo, hi, n_rm = window_of(res)
    bad = []
    for k, (v, stale) in sorted(res["views"].items()):
        if stale:
            bad.append({"what": "metadata read through the repository (Packages index) differs from the listed "
                                "tarball's xpak: the fresh view mixes the old and the new package",
                        "scenario": sc, "crash_before_call": k, "stale": stale})
        if v == v0 or v == vn:
            continue
        ex = {"kind": sc["kind"], "m": res["idx"][k], "lo": lo, "hi": hi, "n_rm": n_rm,
              "old_listed": listed(v, sc["cat"], sc.get("old")), "new_listed": listed(v, sc["cat"], sc.get("pf")),
              "scan_raises": v.kind if isinstance(v, Err) else None,
              "crash_before_call": k, "call": res["trace"][k] if k < n else None,
              "cat": sc["cat"], "old": sc.get("old"), "new": sc.get("pf")}
        for cid, pred in CLASSES:
            if pred(ex) and chk.known_finding(cid, ex):
                break
        else:
            what = "the fresh view after the crash is neither the old nor the new state"
            if isinstance(v, Err):
                what = (f"after the crash a fresh scan of the repository RAISES {v.kind}: nothing is listed any more "
                        "(neither the old nor the new state; unrelated packages disappear too)")
            elif "old" in sc and "pf" in sc and not ex["old_listed"] and not ex["new_listed"]:
                what = "after the crash NO version of the replaced package is listed (neither old nor new)"
            bad.append({"what": what, "scenario": sc, "detail": ex, "view": v, "old_view": v0, "new_view": vn})
    # the completed state is the NEW state
    if isinstance(vn, Err):
        bad.append({"what": "the repository cannot be listed after the completed update", "scenario": sc})
    else:
        if "pf" in sc:
            e = [x for x in vn if x[0] == sc["cat"] and x[1] == sc["pf"]]
            if not e:
                bad.append({"what": "the installed package is not listed after completion", "scenario": sc})
            elif sc["kind"].startswith("v"):
                vals = dict(zip(PLAIN_KEYS + ["CONTENTS", "environment", "ebuild"], e[0][2]))
                missing = [k for k, x in vals.items() if x is None]
                if missing:
                    bad.append({"what": "the installed package lacks metadata after completion",
                                "missing": missing, "scenario": sc})
                for key in ("DESCRIPTION", "SLOT", "EAPI", "repository"):
                    if vals.get(key) is not None and vals[key] != sc["new_meta"][key]:
                        bad.append({"what": f"{key} of the installed package is not the new package's",
                                    "got": vals[key], "scenario": sc})
        if "old" in sc and sc.get("old") != sc.get("pf") and listed(vn, sc["cat"], sc["old"]):
            bad.append({"what": "the removed package is still listed after completion", "scenario": sc})
    return bad


# --------------------------------------------------------------------------- main
QUICK = [("vinstall", None), ("vreplace", None), ("vuninstall", None), ("binstall", None),
         ("breplace", "same"), ("buninstall", None), ("breplace", "other")]


def scenarios(chk):
    kinds = list(QUICK)
    extra = chk.n(0, 25)
    kinds += [(chk.rng.choice(list(KINDS)), None) for _ in range(extra)]
    out = []
    for k, var in kinds:
        if var == "other":
            var = chk.rng.choice(["upgrade", "revision"])
        out.append(gen_scenario(chk.rng, k, var))
    return out


def main(chk: Check):
    logging.getLogger("pkgcore").setLevel(logging.CRITICAL)
    chk.rule("scenarios: vdb install / replace (other and same version) / uninstall and binpkg install / "
             "same-version replace / uninstall on scratch repositories with neighbour packages, entries the "
             "listing must skip and stale staging directories; every traced filesystem call of the update is a "
             "crash point; non-trivial = crash point at which the update has started (at least one call done) "
             "and not finished")
    ok = chk.build(["C29/Prop_C29.vo"])
    if ok:
        chk.check_assumptions("C29/Prop_C29.v")
    chk.lint(["C29"])
    chk.check_fingerprint(ANCHORS)
    os.umask(0o022)
    work = tempfile.mkdtemp(prefix="verif_c29w_")
    results, py_bad = [], []
    # objects torn by a simulated crash complain in __del__ (AtomicWriteFile.discard): not our business
    sys.unraisablehook = lambda *a: None
    try:
        for i, sc in enumerate(scenarios(chk)):
            wdir = os.path.join(work, f"s{i}")
            os.makedirs(wdir)
            try:
                # a binpkg replace under another file name: every call is a crash point also in quick
                # (but for the Packages-cache data writes after the commit, which are sampled)
                other = sc["kind"] == "breplace" and (sc.get("old") != sc.get("pf") or sc.get("same_second"))
                res = run_scenario(chk, wdir, sc, max_points=None if chk.thorough else 6, keep_all=other)
            except Broken as e:
                chk.violation("correspondence", {"what": str(e), "scenario": sc}, no_input=True)
                continue
            except Failed as e:
                py_bad.append(e.args[0])
                continue
            except Exception:  # noqa: BLE001 - an unexpected answer of the implementation, not a crash of the check
                chk.violation("correspondence",
                              {"what": "the implementation answered in a way the harness does not expect while "
                                       "the scenario was replayed", "scenario": sc,
                               "traceback": traceback.format_exc()[-3000:]}, no_input=True)
                continue
            finally:
                shutil.rmtree(wdir, ignore_errors=True)
            try:
                bad = judge(chk, res)
            except Exception:  # noqa: BLE001
                chk.violation("correspondence",
                              {"what": "the recorded views of a scenario cannot be judged", "scenario": sc,
                               "traceback": traceback.format_exc()[-3000:]}, no_input=True)
                continue
            py_bad += bad
            if res["unmodelled"]:
                chk.violation("correspondence",
                              {"what": "a traced filesystem call of the update is outside Model_C29 (the theorems of "
                                       "Prop_C29 no longer speak about this code)", "scenario": sc,
                               "trace": res["trace"]}, no_input=not bad)
                continue
            results.append(res)
    finally:
        shutil.rmtree(work, ignore_errors=True)
    chk.cov["t_scenarios_s"] = round(time.time() - chk.t0, 1)
    try:
        evaluate(chk, ok, results, py_bad)
    except Exception:  # noqa: BLE001
        for b in py_bad[:5]:
            chk.violation("property", {"what": b["what"], "input": b})
        chk.violation("correspondence",
                      {"what": "the recorded traces / snapshots / views cannot be rendered for the model (an entry "
                               "kind or answer Model_C29 does not know)", "traceback": traceback.format_exc()[-3000:]},
                      no_input=not py_bad)


def evaluate(chk, ok, results, py_bad):
    pre = [PREAMBLE]
    cases, meta = [], []
    for i, res in enumerate(results):
        sc, n = res["sc"], res["n"]
        pre.append(f"Definition sc{i} : scen := {c_scen(sc, res['m'])}.")
        pre.append(f"Definition ov{i} : val := {vterm(res['views'][0][0])}.")
        pre.append(f"Definition nv{i} : val := {vterm(res['views'][n][0])}.")
        lo, hi, _ = window_of(res)
        cases.append((f"POps sc{i} {clist([c_op(o) for o in res['ops']], 'op')}", Raw(vterm([True, True, lo, hi]))))
        meta.append(("ops", i, None))
        for k, snap in sorted(res["snaps"].items()):
            cases.append((f"PState sc{i} {cnat(res['idx'][k])} {c_fs(snap)}", Raw("VNone")))
            meta.append(("state", i, k))
        for k, (v, _) in sorted(res["views"].items()):
            cases.append((f"PView sc{i} {cnat(res['idx'][k])} ov{i} nv{i}", Raw(vterm(v))))
            meta.append(("view", i, k))
            if 0 < k < n:
                chk.nontrivial((i, res["idx"][k], k))
        chk.sample({"scenario": {k: v for k, v in sc.items() if k in ("kind", "cat", "pf", "old", "stale", "junk")},
                    "calls": n, "model_ops": len(res["ops"]),
                    "window": window_of(res)[:2], "first_calls": res["trace"][:3]})
    for nm in ("ops", "state", "view"):
        chk.count(nm, sum(1 for m in meta if m[0] == nm))
    chk.cov["scenario_kinds"] = {}
    for res in results:
        kd = res["sc"]["kind"]
        chk.cov["scenario_kinds"][kd] = chk.cov["scenario_kinds"].get(kd, 0) + 1
    coq_bad = False
    spec_bad = set()
    if ok and results:
        # scenarios are sharded together with their probes (the preamble of a shard holds only
        # the scenarios it mentions)
        t1 = time.time()
        r = eval_sharded(chk, pre, cases, meta, len(results))
        chk.cov["t_coq_s"] = round(time.time() - t1, 1)
        if r is None:
            coq_bad = True
        else:
            for j in r[0][:4]:
                nm, i, k = meta[j]
                if nm == "ops":
                    what = ("the traced calls of the complete update are not Model_C29.sc_ops (or a model op "
                            "fails, or the known-class window differs)")
                    det = {"scenario": results[i]["sc"], "trace": results[i]["trace"]}
                elif nm == "state":
                    what = "the scratch tree after a crash is not the model state"
                    det = {"scenario": results[i]["sc"], "crash_before_call": k}
                else:
                    what = "the fresh view after a crash is not the model's view"
                    det = {"scenario": results[i]["sc"], "crash_before_call": k,
                           "implementation_view": results[i]["views"][k][0]}
                chk.violation("correspondence",
                              {"what": what + " (the theorems of Prop_C29 no longer speak about this code)", **det},
                              no_input=not py_bad)
            spec_bad = {(meta[j][1], meta[j][2]) for j in r[1]}
            for j in r[2][:3]:
                chk.violation("correspondence",
                              {"what": "a vdb install scenario does not satisfy the hypotheses of the theorem "
                                       "vdb_install_complete (Spec_C29.install_hyps_ok): item names not distinct, "
                                       "a metadata key of the check not staged, or the package already bound",
                               "scenario": results[meta[j][1]]["sc"]}, no_input=not py_bad)
    # ---- B: property failures
    for b in py_bad[:5]:
        chk.violation("property", {"what": b["what"], "input": b})
    # the Coq-side acceptor must flag exactly the crash points the Python oracle flagged
    py_flagged = set()
    for i, res in enumerate(results):
        v0, vn = res["views"][0][0], res["views"][res["n"]][0]
        for k, (v, _) in res["views"].items():
            if v != v0 and v != vn:
                py_flagged.add((i, k))
    if ok and results and not coq_bad and spec_bad != py_flagged:
        diff = sorted(spec_bad ^ py_flagged)[:3]
        for i, k in diff:
            chk.violation("property", {"what": "Spec_C29.spec_view_ok and the direct oracle disagree on a crash point",
                                       "input": {"scenario": results[i]["sc"], "crash_before_call": k,
                                                 "view": results[i]["views"][k][0]}})


def eval_sharded(chk, pre, cases, meta, nsc, per_shard=2):
    """one coq_eval per group of scenarios, run concurrently; returns global index lists"""
    import concurrent.futures as cf

    groups = [list(range(g, min(g + per_shard, nsc))) for g in range(0, nsc, per_shard)]

    def one(gi_g):
        gi, g = gi_g
        sel = [j for j, m in enumerate(meta) if m[1] in g]
        preamble = "\n".join([pre[0]] + [pre[1 + 3 * i + d] for i in g for d in range(3)])
        r = chk.coq_eval(f"probe{gi}", IMPORTS, "probe", [cases[j] for j in sel],
                         ["where_ probe_bad cases", "where_ spec_bad cases", "where_ hyps_bad cases"],
                         shard=100000, preamble=preamble)
        return None if r is None else [[sel[x] for x in lst] for lst in r]

    with cf.ThreadPoolExecutor(max_workers=6) as ex:
        outs = list(ex.map(one, enumerate(groups)))
    if any(o is None for o in outs):
        return None
    return [sorted(x for o in outs for x in o[k]) for k in range(3)]


def replay(chk, data):
    det = data.get("detail", {})
    inp = det.get("input", det)
    sc = inp.get("scenario")
    if not sc:
        print("no scenario recorded in this replay file")
        return
    logging.getLogger("pkgcore").setLevel(logging.CRITICAL)
    os.umask(0o022)
    work = tempfile.mkdtemp(prefix="verif_c29r_")
    try:
        res = run_scenario(chk, work, sc)
        n = res["n"]
        print("calls:", n, "model ops:", len(res["ops"]), "window:", window_of(res))
        for k, (v, stale) in sorted(res["views"].items()):
            tag = "old" if v == res["views"][0][0] else "new" if v == res["views"][n][0] else "NEITHER"
            names = v if isinstance(v, Err) else [f"{e[0]}/{e[1]}" for e in v]
            print(f"crash before call {k:3d} ({res['trace'][k] if k < n else 'complete'}): {tag} {names} {stale or ''}")
        evaluate(chk, chk.build(["C29/Prop_C29.vo"]), [res], judge(chk, res))
        for v in chk.violations:
            print("VIOLATION", v["kind"], v["detail"].get("what"))
    finally:
        shutil.rmtree(work, ignore_errors=True)
