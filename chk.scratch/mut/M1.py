import sys; p=sys.argv[1]; s=open(p).read()
a='            head = body[: tokens[1].start()]\n'; assert a in s
s=s.replace(a,'            head = body[: tokens[0].end()] + " "\n'); open(p,'w').write(s)
