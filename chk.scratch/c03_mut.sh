#!/bin/bash
# mutation self-test for C03: each edit in a scratch worktree, then the check against it
set -u
WT=/tmp/wt_C03
LOG=/verif/chk.scratch/c03_mut.log
: > $LOG
run() { # name, python edit snippet
  git -C /repo worktree remove --force $WT 2>/dev/null
  git -C /repo worktree add --detach $WT HEAD >/dev/null 2>&1
  python3 - "$WT" <<PY
import sys,re
wt=sys.argv[1]
def sub(rel, old, new, count=1):
    p=f"{wt}/src/pkgcore/{rel}"; s=open(p).read(); assert old in s, (rel, old); s=s.replace(old,new,count); open(p,"w").write(s)
$2
PY
  echo "=== $1" >> $LOG
  # pre-record the mutated tree's fingerprint so that the check runs with QUICK budgets (harder test)
  ( cd /verif; VERIF_REPO=$WT PYTHONPATH=$WT/src:/verif /venv/bin/python -c "
import json,harness.c03 as m
from harness.common import fingerprint
json.dump(fingerprint(m.ANCHORS),open('/verif/fingerprints/C03.json','w'),indent=1,sort_keys=True)" 2>/dev/null )
  ( cd /verif; VERIF_REPO=$WT timeout 3000 ./check C03 2>/dev/null | grep -v KNOWN-FINDING | cut -c1-200 >> $LOG; echo "exit=${PIPESTATUS[0]}" >> $LOG )
  for f in /verif/replay/C03-0-0.json; do [ -f $f ] && python3 -c "
import json;d=json.load(open('$f'));print('   first:',d['kind'],str(d['detail'].get('what'))[:110],json.dumps(d['detail'].get('input'))[:100])" >> $LOG; done
  rm -f /verif/replay/C03-0-*.json /verif/replay/C03-0-cases*.v
}
run "M1 slot may start with a dot (dropped '.' from the first-char test)" 'sub("ebuild/atom.py", "if chunk[0] in \"-.\":", "if chunk[0] in \"-\":")'
run "M2 isvalid_pkg_name off-by-one (len(chunks) > 3)" 'sub("ebuild/cpv.py", "if len(chunks) >= 3 and isvalid_rev(chunks[-1]):", "if len(chunks) > 3 and isvalid_rev(chunks[-1]):")'
run "M3 USE defaults gate moved from EAPI 4 to EAPI 5" 'sub("ebuild/eapi.py", "            \"has_use_dep_defaults\": True,\n", ""); sub("ebuild/eapi.py", "            \"sub_slotting\": True,\n", "            \"sub_slotting\": True,\n            \"has_use_dep_defaults\": True,\n")'
run "M4 __str__ drops the = slot operator after a slot" 'sub("ebuild/atom.py", "            if self.slot_operator == \"=\":\n                s += self.slot_operator\n", "")'
run "M5 strong-blocker gate never fires (wrong test)" 'sub("ebuild/atom.py", "if not eapi_obj.options.strong_blockers:", "if eapi_obj.options.strong_blockers is None:")'
run "M6 ~ with revision no longer refused" 'sub("ebuild/atom.py", "elif self.op == \"~\" and self.revision:", "elif self.op == \"~\" and self.revision and False:")'
run "M7 repo_id allowed with an explicit EAPI (dropped branch)" 'sub("ebuild/atom.py", "if eapi != \"-1\" and self.repo_id is not None:", "if False and self.repo_id is not None:")'
run "H2 harmless (behaviour-preserving): sub-slot split uses rsplit" 'sub("ebuild/atom.py", "slots = slot.split(\"/\", 1)", "slots = slot.rsplit(\"/\", 1)")'
run "H1 harmless: reorder character-set literals, rename a local" 'sub("ebuild/atom.py", "valid_slot_chars.update(\".+_-\")", "valid_slot_chars.update(\"-_+.\")"); sub("ebuild/cpv.py", "regexp(r\"^[a-zA-Z0-9+_]+$\")", "regexp(r\"^[A-Za-z0-9_+]+$\")"); sub("ebuild/atom.py", "            i2 = atom.find(\"::\", slot_start)\n            if i2 != -1:\n                repo_id = atom[i2 + 2 :]", "            i2 = atom.find(\"::\", slot_start)\n            if i2 >= 0:\n                repo_id = atom[i2 + 2 :]")'
git -C /repo worktree remove --force $WT 2>/dev/null
cp /verif/chk.scratch/C03.fingerprint.real /verif/fingerprints/C03.json
echo "=== unchanged tree" >> $LOG
( cd /verif; ./check C03 2>/dev/null | grep -v KNOWN-FINDING >> $LOG; echo "exit=${PIPESTATUS[0]}" >> $LOG )
echo DONE >> $LOG
