(* Prop_C48.v — the property theorems of C48 and nothing else. *)
From Coq Require Import List NArith ZArith Bool.
Import ListNotations.
From Verif Require Import Base.Val C48.Model_C48 C48.Spec_C48 C48.Proofs_C48.

(* validate_entry decides exactly the validity of the statement: the recorded validation value
   of the ebuild is the current one, and (no eclasses recorded, or INHERIT is present and every
   recorded eclass is still visible with every recorded value equal) *)
Theorem validate_iff_valid : forall lay w e, validate lay w e = true <-> spec_valid lay w e.
Proof. exact validate_spec. Qed.
Print Assumptions validate_iff_valid.

(* the stacked eclass lookup is "the first repository that has the eclass" *)
Theorem stacked_lookup_first : forall st n f, ec_lookup st n = Some f <-> visible st n f.
Proof. exact ec_lookup_visible. Qed.
Print Assumptions stacked_lookup_first.

(* for ALL repositories and cache tuples: the read is served from cache i with payload p
   exactly when cache i is the first cache holding a valid entry (and p is its payload) *)
Theorem used_iff_valid : forall w cs i p,
  fst (get_metadata w cs) = Used i p <->
  exists pre c post e,
    cs = pre ++ c :: post /\ length pre = i /\ c_slot c = Entry e /\
    spec_valid (c_lay c) w e /\ c_payload e = p /\ Forall (fun c' => ~ cache_valid w c') pre.
Proof. exact used_iff_valid_proof. Qed.
Print Assumptions used_iff_valid.

(* ... and the metadata is regenerated exactly when no cache holds a valid entry *)
Theorem regen_iff_none_valid : forall w cs p,
  fst (get_metadata w cs) = Regen p <-> p = w_payload w /\ Forall (fun c => ~ cache_valid w c) cs.
Proof. exact regen_iff_none_valid_proof. Qed.
Print Assumptions regen_iff_none_valid.

(* the statement for a single cache, as in the property text *)
Theorem single_cache_used_iff_valid : forall w c,
  (exists p, fst (get_metadata w [c]) = Used 0 p) <-> cache_valid w c.
Proof. exact single_cache_proof. Qed.
Print Assumptions single_cache_used_iff_valid.

(* after a regeneration no writable cache keeps a stale entry (each holds the fresh entry,
   nothing, or the unreadable file it had), read-only caches are untouched, and the first
   writable cache holds the regenerated entry *)
Theorem stale_replaced : forall w cs p cs',
  get_metadata w cs = (Regen p, cs') ->
  Forall2 (regen_rel w) cs cs' /\
  forall pre c post, cs = pre ++ c :: post ->
    Forall (fun x => writable x = false) pre -> writable c = true ->
    exists c', nth_error cs' (length pre) = Some c' /\ c_slot c' = Entry (fresh (c_lay c) w).
Proof. exact stale_replaced_proof. Qed.
Print Assumptions stale_replaced.

(* when cache i is used: the caches before it lost their stale entries if writable, the used
   cache and everything after it are untouched *)
Theorem used_keeps : forall w cs i p cs',
  get_metadata w cs = (Used i p, cs') ->
  exists pre c post pre',
    cs = pre ++ c :: post /\ cs' = pre' ++ c :: post /\ length pre = i /\ Forall2 passed_rel pre pre'.
Proof. exact used_keeps_proof. Qed.
Print Assumptions used_keeps.

(* the regenerated entry is valid, so the next read is served from the cache with the
   regenerated metadata *)
Theorem reread_uses_cache : forall w cs p cs',
  get_metadata w cs = (Regen p, cs') -> existsb writable cs = true -> fresh_ok w ->
  exists i, fst (get_metadata w cs') = Used i (w_payload w).
Proof. exact reread_proof. Qed.
Print Assumptions reread_uses_cache.
