(* Model_C25.v — executable model of pkgcore.fs.tar (src/pkgcore/fs/tar.py):
     to_members  = add_contents_to_tarfile + fsobj_to_tarinfo   (what write_set puts in the archive)
     of_members  = archive_to_fsobj + convert_archive            (what generate_contents reads back)
   over an ABSTRACT archive: the list of member records.  The byte-level tar / bzip2 / xz codec is
   Python's tarfile + compressor (trusted library, exercised by the correspondence run).
   File contents are abstract data ids (0 = no data).  mtimes are in quarter seconds.
   No proofs here.

   The model describes the REPAIRED behaviour of three defects of the pinned tree
   (fixes/C25-*.patch, notes/C25.md):
     - a file whose (dev,inode) key is already taken but which cannot be hardlinked is written
       with its data (pinned tree: header with size N and no data blocks -> corrupt archive);
     - device members are read with devmajor/devminor and get their S_IFCHR/S_IFBLK bit back
       (pinned tree: AttributeError 'major');
     - an empty tar stream reads as the empty set (pinned tree: AttributeError 'message'). *)
From Coq Require Import List NArith ZArith Bool Arith.
Import ListNotations.
From Verif Require Import Base.Val C25.Path_C25.

(* ------------------------------------------------------------------ fs objects *)
Inductive kind := KReg | KDir | KSym | KFifo | KDev.

Record entry := mkE {
  loc : str;                 (* fsBase.location (already normpath'ed by fsBase.__init__) *)
  knd : kind;
  mode : N; uid : N; gid : N; mtime : N;
  target : str;              (* fsSymlink.target *)
  dev : option N; ino : option N;   (* fsFile.dev / fsFile.inode (None when unknown) *)
  data : N; size : N;        (* fsFile.data (abstract id), chksums["size"] *)
  major : N; minor : N;      (* fsDev *)
  ord : N                    (* model-internal: position of the tar member (files_ordering) *)
}.

Definition kind_eqb (a b : kind) : bool :=
  match a, b with
  | KReg, KReg | KDir, KDir | KSym, KSym | KFifo, KFifo | KDev, KDev => true
  | _, _ => false
  end.
Definition is_dir (e : entry) : bool := kind_eqb (knd e) KDir.
Definition is_reg (e : entry) : bool := kind_eqb (knd e) KReg.
Definition is_sym (e : entry) : bool := kind_eqb (knd e) KSym.

Definition with_loc (e : entry) (l : str) : entry :=   (* change_attributes(location=l) *)
  mkE l (knd e) (mode e) (uid e) (gid e) (mtime e) (target e) (dev e) (ino e) (data e) (size e)
      (major e) (minor e) (ord e).

(* ------------------------------------------------------------------ tar members *)
Inductive mtype := MReg | MLnk | MSym | MChr | MBlk | MDir | MFifo | MOther.

Record member := mkM {
  mname : str; mty : mtype;
  mmode : N; muid : N; mgid : N; mmtime : N; msize : N;
  mlink : str; mmajor : N; mminor : N;
  mdata : N                  (* data id of the blocks following the header, 0 = none *)
}.

(* ------------------------------------------------------------------ insertion sort (stable) *)
Section Sort.
  Context {A : Type} (lt : A -> A -> bool).
  Fixpoint ins (x : A) (l : list A) : list A :=
    match l with
    | [] => [x]
    | y :: r => if lt x y then x :: l else y :: ins x r
    end.
  Definition isort (l : list A) : list A := fold_left (fun acc x => ins x acc) l [].
End Sort.

Definition loc_lt (x y : entry) : bool := str_ltb (loc x) (loc y).     (* fsBase.__lt__ *)
Definition sort_loc (l : list entry) : list entry := isort loc_lt l.   (* sorted(l) / l.sort() *)

(* ------------------------------------------------------------------ writing *)
Definition S_IFCHR : N := 8192.  (* 0o020000 *)
Definition S_IFBLK : N := 24576. (* 0o060000 *)
Definition is_chr (m : N) : bool := N.eqb (N.land m 61440) S_IFCHR.     (* stat.S_ISCHR *)

Definition member_name (l : str) : str := 46%N :: SL :: lstrip_sl l.    (* f"./{location.lstrip('/')}" *)

(* fsobj_to_tarinfo(x, absolute_path=False); the mode is masked to 0o7777 by the tar header *)
Definition to_info (e : entry) : member :=
  mkM (member_name (loc e))
      (match knd e with
       | KReg => MReg | KDir => MDir | KSym => MSym | KFifo => MFifo
       | KDev => if is_chr (mode e) then MChr else MBlk end)
      (N.land (mode e) 4095) (uid e) (gid e) (mtime e)
      (match knd e with KReg => size e | _ => 0%N end)
      (match knd e with KSym => target e | _ => [] end)
      (match knd e with KDev => major e | _ => 0%N end)
      (match knd e with KDev => minor e | _ => 0%N end)
      (match knd e with KReg => data e | _ => 0%N end).

Definition oN_eqb (a b : option N) : bool :=
  match a, b with
  | Some x, Some y => N.eqb x y
  | None, None => true
  | _, _ => false
  end.
Definition is_some {A} (o : option A) : bool := match o with Some _ => true | None => false end.

(* inodes.get((x.dev, x.inode)) *)
Fixpoint find_key (d i : option N) (seen : list entry) : option entry :=
  match seen with
  | [] => None
  | e :: r => if oN_eqb (dev e) d && oN_eqb (ino e) i then Some e else find_key d i r
  end.

(* fsFile._can_be_hardlinked *)
Definition can_link (x ex : entry) : bool :=
  is_reg ex && is_some (ino x) && is_some (dev x)
  && oN_eqb (dev x) (dev ex) && oN_eqb (ino x) (ino ex)
  && N.eqb (uid x) (uid ex) && N.eqb (gid x) (gid ex)
  && N.eqb (mode x) (mode ex) && N.eqb (mtime x) (mtime ex).

Definition as_link (t : member) (ex : entry) : member :=
  mkM (mname t) MLnk (mmode t) (muid t) (mgid t) (mmtime t) 0 (member_name (loc ex)) 0 0 0.

(* the second loop of add_contents_to_tarfile; [seen] = values of the inodes dict.
   (the dict only ever gets a key once, so the first entry with a key is the one found) *)
Fixpoint add_nondirs (seen : list entry) (l : list entry) : list member :=
  match l with
  | [] => []
  | x :: r =>
      let t := to_info x in
      match knd x with
      | KReg =>
          match find_key (dev x) (ino x) seen with
          | Some ex => (if can_link x ex then as_link t ex else t) :: add_nondirs seen r
          | None => t :: add_nondirs (seen ++ [x]) r
          end
      | _ => t :: add_nondirs seen r
      end
  end.

(* [c] = the contents set in its iteration order *)
Definition to_members (c : list entry) : list member :=
  map to_info (sort_loc (filter is_dir c)) ++ add_nondirs [] (filter (fun e => negb (is_dir e)) c).

(* ------------------------------------------------------------------ the location dict *)
Definition dict := list entry.
Definition dhas (k : str) (d : dict) : bool := existsb (fun e => str_eqb (loc e) k) d.
Fixpoint dset (e : entry) (d : dict) : dict :=         (* d[e.location] = e *)
  match d with
  | [] => [e]
  | x :: r => if str_eqb (loc x) (loc e) then e :: r else x :: dset e r
  end.
Definition ddel (k : str) (d : dict) : dict := filter (fun e => negb (str_eqb (loc e) k)) d.
Definition dupdate (d : dict) (l : list entry) : dict := fold_left (fun acc e => dset e acc) l d.
Definition ddiff (d : dict) (l : list entry) : dict :=  (* difference_update *)
  fold_left (fun acc e => ddel (loc e) acc) l d.

Definition child_nodes (d : dict) (start : str) : dict :=
  filter (fun e => starts_with (child_prefix start) (loc e)) d.
Definition change_offset (old new : str) (d : dict) : dict :=
  dupdate [] (map (fun e => with_loc e (reloc old new (loc e))) d).

(* fsLink.resolved_target *)
Definition resolved_target (e : entry) : str :=
  match target e with
  | c :: _ => if is_sl c then target e
              else normpath (pjoin (pjoin (loc e) [46; 46; 47]%N) (target e))
  | [] => normpath (pjoin (pjoin (loc e) [46; 46; 47]%N) [])
  end.

(* ------------------------------------------------------------------ reading *)
Definition loc_of_name (n : str) : str := normpath (SL :: strip_sl n).  (* abspath(join("/", name.strip("/"))) *)
Definition loc_of_link (n : str) : str := normpath (pjoin [SL] n).       (* abspath(join("/", linkname)) *)

Fixpoint cache_get (k : str) (c : list (str * (N * N))) : option (N * N) :=
  match c with
  | [] => None
  | (k', v) :: r => if str_eqb k' k then Some v else cache_get k r
  end.

Definition the_dev : option N := Some 0%N.

(* archive_to_fsobj; [i] = index of the member (serves as the fresh inode number and as the
   files_ordering key), [cache] = the inodes dict (location -> inode) paired with the data id
   TarFile.extractfile resolves the member to.  None = AssertionError. *)
Fixpoint raw_of (i : N) (cache : list (str * (N * N))) (ms : list member) : option (list entry) :=
  match ms with
  | [] => Some []
  | m :: r =>
      let l := loc_of_name (mname m) in
      let base k md tg dv io dt mj mn :=
        mkE l k md (muid m) (mgid m) (mmtime m) tg dv io dt 0 mj mn i in
      let cons e rest := match rest with Some es => Some (e :: es) | None => None end in
      match mty m with
      | MDir =>
          if str_eqb (strip_sl (mname m)) dot then raw_of (N.succ i) cache r
          else cons (base KDir (mmode m) [] None None 0 0 0)%N (raw_of (N.succ i) cache r)
      | MReg =>
          cons (base KReg (mmode m) [] the_dev (Some i) (mdata m) 0 0)%N
               (raw_of (N.succ i) ((l, (i, mdata m)) :: cache) r)
      | MLnk =>
          match cache_get (loc_of_link (mlink m)) cache with
          | None => None
          | Some (io, dt) =>
              cons (base KReg (mmode m) [] the_dev (Some io) dt 0 0)%N
                   (raw_of (N.succ i) ((l, (io, dt)) :: cache) r)
          end
      | MSym => cons (base KSym (mmode m) (mlink m) None None 0 0 0)%N (raw_of (N.succ i) cache r)
      | MFifo => cons (base KFifo (mmode m) [] None None 0 0 0)%N (raw_of (N.succ i) cache r)
      | MChr => cons (base KDev (N.lor (mmode m) S_IFCHR) [] None None 0 (mmajor m) (mminor m))%N
                     (raw_of (N.succ i) cache r)
      | MBlk => cons (base KDev (N.lor (mmode m) S_IFBLK) [] None None 0 (mmajor m) (mminor m))%N
                     (raw_of (N.succ i) cache r)
      | MOther => None
      end
  end.

(* --- convert_archive, first loop: rewrite symlinks that live beneath symlinks *)
Fixpoint first_affected (sorted : list entry) (d : dict) : option (entry * dict) :=
  match sorted with
  | [] => None
  | x :: r => match child_nodes d (loc x) with
              | [] => first_affected r d
              | a => Some (x, a)
              end
  end.
Fixpoint sym_loop (fuel : nat) (syms : dict) : option dict :=
  match fuel with
  | O => None
  | S f =>
      match first_affected (sort_loc syms) syms with
      | None => Some syms
      | Some (x, a) =>
          sym_loop f (dupdate (ddiff syms a) (change_offset (loc x) (resolved_target x) a))
      end
  end.

(* second loop: move everything beneath a symlink to the symlink's resolved target *)
Fixpoint move_children (syms_desc : list entry) (t : dict) (additions : list entry) : dict * list entry :=
  match syms_desc with
  | [] => (t, additions)
  | x :: r =>
      match child_nodes t (loc x) with
      | [] => move_children r t additions
      | a => move_children r (ddiff t a) (additions ++ change_offset (loc x) (resolved_target x) a)
      end
  end.

(* --- contentsSet.add_missing_directories *)
Definition smem (x : str) (l : list str) : bool := existsb (str_eqb x) l.
Fixpoint sdedupe (l : list str) : list str :=
  match l with
  | [] => []
  | x :: r => if smem x r then sdedupe r else x :: sdedupe r
  end.
Fixpoint ascend (fuel : nat) (d : dict) (tgt : str) (missing : list str) : list str :=
  match fuel with
  | O => missing
  | S f =>
      if smem tgt missing || dhas (normpath tgt) d then missing
      else ascend f d (dirname tgt) (tgt :: missing)
  end.
Definition missing_dirs (d : dict) : list str :=
  let m0 := sdedupe (filter (fun x => negb (dhas (normpath x) d)) (map (fun e => dirname (loc e)) d)) in
  let m := fold_left (fun m x => ascend (S (S (length x))) d (dirname x) m) m0 m0 in
  filter (fun x => negb (str_eqb x [SL])) m.

Definition now_q : N := 4398046511104.   (* stands for time.time() in the canonical form *)
Definition new_dir (l : str) : entry :=
  mkE (normpath l) KDir 509 0 0 now_q [] None None 0 0 0 0 0.   (* mode 0o775, uid 0, gid 0 *)
Definition add_missing (d : dict) : dict := dupdate d (map new_dir (missing_dirs d)).

(* --- the final sort: sort_func x y < 0 *)
Definition final_lt (x y : entry) : bool :=
  if is_dir x then (if is_dir y then loc_lt x y else true)
  else if is_dir y then false
  else if is_reg x then (if is_reg y then N.ltb (ord x) (ord y) else false)
  else if is_reg y then true
  else loc_lt x y.

Inductive res := Ok (l : list entry) | Fail (k : N).   (* 1 AssertionError, 2 model fuel exhausted *)

Definition convert (raw : list entry) : res :=
  let t := dupdate [] raw in
  let raw_syms := filter is_sym t in
  match sym_loop (S (length raw_syms * length raw_syms)) (dupdate [] raw_syms) with
  | None => Fail 2
  | Some syms =>
      let t1 := dupdate (ddiff t raw_syms) syms in
      let '(t2, additions) := move_children (rev (sort_loc syms)) t1 [] in
      Ok (isort final_lt (add_missing (dupdate t2 additions)))
  end.

Definition of_members (ms : list member) : res :=
  match raw_of 0 [] ms with
  | None => Fail 1
  | Some raw => convert raw
  end.

(* ------------------------------------------------------------------ encoders for the harness *)
Definition vN (n : N) : val := VZ (Z.of_N n).
Definition kind_id (k : kind) : N :=
  match k with KReg => 0 | KDir => 1 | KSym => 2 | KFifo => 3 | KDev => 4 end%N.
Definition mtype_id (t : mtype) : N :=
  match t with MReg => 0 | MLnk => 1 | MSym => 2 | MChr => 3 | MBlk => 4 | MDir => 5 | MFifo => 6
             | MOther => 99 end%N.
Definition enc_member (m : member) : val :=
  VL [VS (mname m); vN (mtype_id (mty m)); vN (mmode m); vN (muid m); vN (mgid m); vN (mmtime m);
      vN (msize m); VS (mlink m); vN (mmajor m); vN (mminor m); vN (mdata m)].

(* inode numbers are canonicalised to the output position of the first entry carrying them *)
Fixpoint first_pos (i : N) (n : N) (l : list entry) : N :=
  match l with
  | [] => n
  | e :: r => if is_reg e && oN_eqb (ino e) (Some i) then n else first_pos i (N.succ n) r
  end.
Definition enc_entry (all : list entry) (e : entry) : val :=
  VL [VS (loc e); vN (kind_id (knd e)); vN (mode e); vN (uid e); vN (gid e); vN (mtime e);
      VS (target e);
      match knd e, ino e with KReg, Some i => vN (first_pos i 0 all) | _, _ => VNone end;
      vN (data e); vN (major e); vN (minor e)].
Definition enc_res (r : res) : val :=
  match r with
  | Ok l => VL (map (enc_entry l) l)
  | Fail 1 => VErr [65;115;115;101;114;116;105;111;110;69;114;114;111;114]%N   (* AssertionError *)
  | Fail _ => VErr [102;117;101;108]%N                                          (* "fuel" *)
  end.

(* stream "w": the member list add_contents_to_tarfile writes for a contents set *)
Definition run_w (c : list entry) : val := VL (map enc_member (to_members c)).
(* stream "rt": generate_contents(write_set(c)) *)
Definition run_rt (c : list entry) : val := enc_res (of_members (to_members c)).
(* stream "rd": convert_archive on a given (foreign) member list *)
Definition run_rd (ms : list member) : val := enc_res (of_members ms).
