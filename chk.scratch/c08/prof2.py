import time, sys, os, subprocess
from harness import common, c08
chk = common.Check("C08", "quick")
m = c08.load_mods()
import random
rng = random.Random(1)
cases=[]
for i in range(100):
    dicts=[c08.gen_repo(rng) for _ in range(rng.choice([1,1,2,3]))]
    tree=c08.gen_tree(rng, rng.choice([1,2,2,3]))
    try: robj, term = c08.make_case(m, dicts, tree)
    except ValueError: continue
    res = c08.run_impl(m, dicts, robj)
    cases.append((term,res))
body=[c08.IMPORTS,"Import ListNotations.","Time Definition cases : list (qinput * val) := ["]
body.append(";\n".join(f"({t},\n {common.cval(r)})" for t,r in cases)+"].")
body.append("Time Eval vm_compute in (mismatches run_query cases).")
body.append("Time Eval vm_compute in (where_ (fun i r => negb (spec_query_ok i r)) cases).")
body.append("Time Eval vm_compute in (where_ (fun i r => negb (spec_tuple_ok i r)) cases).")
body.append("Time Eval vm_compute in (length cases).")
open("/verif/chk.scratch/c08/p.v","w").write("\n".join(body))
