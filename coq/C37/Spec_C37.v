(* Spec_C37.v — the reference: how a Bugzilla server reads and evaluates search parameters.

   * plain parameters: values of one key are ORed, different keys are ANDed
     (limit / offset / order are paging controls, not constraints);
   * boolean charts (Bugzilla::Search::_custom_search): the ids N of all f<N> parameters,
     sorted, are walked once; f<N>=OP opens a group joined by j<N>, f<N>=CP closes the
     innermost open group, anything else is a condition (f<N>, o<N>, all v<N>, negated by n<N>);
     the top level is a conjunction; a condition without value and a group without content
     contribute nothing.

   None of this looks at how query.py allocates slots.  The meaning of one condition and of one
   plain key=value test are parameters ([cond], [has]) of the evaluator; a concrete instance
   over synthetic bugs is used on the implementation's recorded output in the cases files. *)
From Coq Require Import List NArith ZArith Bool Decimal.
Import ListNotations.
From Verif Require Import Base.Val C37.Model_C37.

(* ------------------------------------------------------------------ reading parameter names *)
Fixpoint digits_uint (s : str) : option uint :=
  match s with
  | [] => Some Nil
  | c :: r =>
      match digits_uint r with
      | None => None
      | Some u =>
          match c with
          | 48 => Some (D0 u) | 49 => Some (D1 u) | 50 => Some (D2 u) | 51 => Some (D3 u)
          | 52 => Some (D4 u) | 53 => Some (D5 u) | 54 => Some (D6 u) | 55 => Some (D7 u)
          | 56 => Some (D8 u) | 57 => Some (D9 u) | _ => None
          end%N
      end
  end.
Definition undec (s : str) : option N :=
  match s with [] => None | _ => option_map N.of_uint (digits_uint s) end.
Definition ckind_of_char (c : N) : option ckind :=
  match c with
  | 102 => Some KF | 111 => Some KO | 118 => Some KV | 110 => Some KN | 106 => Some KJ | _ => None
  end%N.
(* ^[fovnj](\d+)$ is a chart parameter of slot \1; everything else is a plain name *)
Definition classify (s : str) : pkey :=
  match s with
  | c :: r => match ckind_of_char c, undec r with
              | Some k, Some n => PC k n
              | _, _ => PS s
              end
  | [] => PS s
  end.
Definition read_keys (ps : list (str * str)) : kparams :=
  map (fun kv => (classify (fst kv), snd kv)) ps.

Definition ckind_eqb (a b : ckind) : bool :=
  match a, b with KF, KF | KO, KO | KV, KV | KN, KN | KJ, KJ => true | _, _ => false end.
Definition pkey_eqb (a b : pkey) : bool :=
  match a, b with
  | PS x, PS y => str_eqb x y
  | PC k s, PC k' s' => ckind_eqb k k' && N.eqb s s'
  | _, _ => false
  end.
(* all values of one parameter name, in order (the parameters are a multi-dict) *)
Definition vals_of (ps : kparams) (k : pkey) : list str :=
  map snd (filter (fun kv => pkey_eqb (fst kv) k) ps).
Definition drop_key (ps : kparams) (k : pkey) : kparams :=
  filter (fun kv => negb (pkey_eqb (fst kv) k)) ps.

(* ------------------------------------------------------------------ the chart reader *)
Inductive rchart :=
| RCond (field op : str) (values : list str) (neg : bool)
| RGroup (j : join) (neg : bool) (children : list rchart).

Definition f_slots (ps : kparams) : list N :=
  flat_map (fun kv => match fst kv with PC KF s => [s] | _ => [] end) ps.
Definition markers (ps : kparams) : list str :=
  flat_map (fun kv => match fst kv with PC KF _ => [snd kv] | _ => [] end) ps.
Fixpoint insert_u (x : N) (l : list N) : list N :=
  match l with
  | [] => [x]
  | y :: r => if (x <? y)%N then x :: l else if (x =? y)%N then l else y :: insert_u x r
  end.
(* sorted, duplicate-free ids of the f<N> parameters *)
Definition field_ids (ps : kparams) : list N := fold_right insert_u [] (f_slots ps).

Definition first_or_nil (l : list str) : str := match l with x :: _ => x | [] => [] end.
Definition join_of (s : str) : join :=
  if str_eqb s s_OR then JOr else if str_eqb s s_AND_G then JAndG else JAnd.
Definition truthy (l : list str) : bool :=
  match l with [] => false | x :: _ => negb (is_nil x) && negb (str_eqb x [48%N]) end.

(* an open group: its join, its negation, and the children of the ENCLOSING level read so far *)
Definition frame := (join * bool * list rchart)%type.
Fixpoint read_ids (ps : kparams) (ids : list N) (cur : list rchart) (stack : list frame)
  : option (list rchart) :=
  match ids with
  | [] => match stack with [] => Some (List.rev cur) | _ => None end
  | id :: r =>
      let f := first_or_nil (vals_of ps (PC KF id)) in
      if str_eqb f s_OP then
        read_ids ps r [] ((join_of (first_or_nil (vals_of ps (PC KJ id))),
                           truthy (vals_of ps (PC KN id)), cur) :: stack)
      else if str_eqb f s_CP then
        match stack with
        | [] => None
        | (j, n, outer) :: st => read_ids ps r (RGroup j n (List.rev cur) :: outer) st
        end
      else
        read_ids ps r (RCond f (first_or_nil (vals_of ps (PC KO id))) (vals_of ps (PC KV id))
                             (truthy (vals_of ps (PC KN id))) :: cur) stack
  end.
Definition read_charts_k (ps : kparams) : option (list rchart) :=
  read_ids ps (field_ids ps) [] [].
Definition read_charts (ps : list (str * str)) : option (list rchart) :=
  read_charts_k (read_keys ps).

(* what reading should give back: the chart trees themselves (the splittable mark is not sent) *)
Fixpoint erase (c : chart) : rchart :=
  match c with
  | Crit f o vs n _ => RCond f o vs n
  | Group j cs => RGroup j false (map erase cs)
  end.

(* ------------------------------------------------------------------ slots and markers *)
Fixpoint Nseq (s : N) (n : nat) : list N :=
  match n with O => [] | S n' => s :: Nseq (N.succ s) n' end.
(* OP / CP as brackets: never closes below the starting depth, ends at depth 0 *)
Fixpoint balanced_from (d : nat) (ms : list str) : bool :=
  match ms with
  | [] => Nat.eqb d 0
  | m :: r =>
      if str_eqb m s_OP then balanced_from (S d) r
      else if str_eqb m s_CP then match d with O => false | S d' => balanced_from d' r end
      else balanced_from d r
  end.
Definition balanced (ps : kparams) : bool := balanced_from 0 (markers ps).
(* every slot in [s, s') carries exactly one f parameter, in increasing order; no chart
   parameter lies outside [s, s') *)
Definition slots_exact (ps : kparams) (s s' : N) : Prop :=
  (s <= s')%N /\ f_slots ps = Nseq s (N.to_nat (s' - s)) /\
  forall k id v, In (PC k id, v) ps -> (s <= id < s')%N.

(* ------------------------------------------------------------------ evaluation *)
Definition is_control (n : str) : bool :=
  str_eqb n s_limit || str_eqb n s_offset || str_eqb n s_order.

Section Sem.
  Variable bug : Type.
  Variable has : str -> str -> bug -> bool.              (* plain test: field = value *)
  Variable cond : str -> str -> list str -> bug -> bool. (* one chart condition *)

  Definition somes (l : list (option bool)) : list bool :=
    flat_map (fun o => match o with Some x => [x] | None => [] end) l.
  Fixpoint eval (b : bug) (c : rchart) : option bool :=
    match c with
    | RCond f o vs n => match vs with [] => None | _ => Some (xorb n (cond f o vs b)) end
    | RGroup j n cs =>
        match somes (map (eval b) cs) with
        | [] => None
        | rs => Some (xorb n (match j with JOr => existsb id rs | _ => forallb id rs end))
        end
    end.
  Definition charts_ok (b : bug) (cs : list rchart) : bool :=
    forallb id (somes (map (eval b) cs)).
  Definition simple_ok (ps : kparams) (b : bug) : bool :=
    forallb (fun kv => match fst kv with
                       | PS n => is_control n || existsb (fun v => has n v b) (vals_of ps (PS n))
                       | PC _ _ => true
                       end) ps.
  (* None: the chart parameters are not well formed (CP without OP, group left open) *)
  Definition sem_k (ps : kparams) (b : bug) : option bool :=
    match read_charts_k ps with
    | None => None
    | Some cs => Some (simple_ok ps b && charts_ok b cs)
    end.
  Definition sem_params (ps : list (str * str)) (b : bug) : option bool := sem_k (read_keys ps) b.
  (* the meaning of a search = what the server computes from its rendered parameters *)
  Definition sem (q : query) (b : bug) : option bool := sem_params (params q) b.

  Definition opt_and (x y : option bool) : option bool :=
    match x, y with Some a, Some b => Some (a && b) | _, _ => None end.
  Definition opt_or_list (l : list (option bool)) : option bool :=
    fold_right (fun x acc => match x, acc with Some a, Some b => Some (a || b) | _, _ => None end)
               (Some false) l.
End Sem.

(* ------------------------------------------------------------------ batches *)
(* the parameter that carries the values of an axis *)
Definition slot_of (cs : list chart) (i : nat) : N := snd (render_list (firstn i cs) 1).
Definition ax_key (q : query) (a : axis) : pkey :=
  match a with AxSimple k _ => PS k | AxChart i _ _ => PC KV (slot_of (charts q) i) end.

(* ------------------------------------------------------------------ well-formedness premises *)
(* a plain name that does not read as a chart parameter (all names the constructors use) *)
Definition plain_name (n : str) : bool :=
  match classify n with PS _ => true | PC _ _ => false end.
Fixpoint wf_chart (c : chart) : bool :=
  match c with
  | Crit f _ _ _ _ => negb (str_eqb f s_OP) && negb (str_eqb f s_CP)
  | Group _ cs => forallb wf_chart cs
  end.
Definition wf_query (q : query) : bool :=
  forallb (fun kv => plain_name (fst kv) && negb (is_control (fst kv))) (simple q)
  && forallb wf_chart (charts q).

(* the known class of `&`: both operands constrain the same plain key with non-empty value
   lists that differ as sets *)
Definition same_set (a b : list str) : bool :=
  forallb (fun x => mem_str x b) a && forallb (fun x => mem_str x a) b.
Definition conflict (a b : query) : bool :=
  existsb (fun kv => match dict_get (simple a) (fst kv) with
                     | Some va => negb (is_nil va) && negb (is_nil (snd kv)) && negb (same_set va (snd kv))
                     | None => false
                     end) (simple b).

(* ------------------------------------------------------------------ concrete instance for the cases files *)
Definition cbug := list (str * list str).          (* field -> its values *)
Definition cfield (b : cbug) (f : str) : list str := get_or_nil b f.
Definition c_has (n v : str) (b : cbug) : bool := mem_str v (cfield b n).
Fixpoint is_prefix (p s : str) : bool :=
  match p, s with
  | [], _ => true
  | x :: p', y :: s' => N.eqb x y && is_prefix p' s'
  | _, [] => false
  end.
Fixpoint is_substr (w s : str) : bool :=
  is_prefix w s || match s with [] => false | _ :: s' => is_substr w s' end.
(* split on blanks and commas *)
Fixpoint words_acc (s cur : str) : list str :=
  match s with
  | [] => match cur with [] => [] | _ => [List.rev cur] end
  | c :: r => if (N.eqb c 32 || N.eqb c 44)%N
              then match cur with [] => words_acc r [] | _ => List.rev cur :: words_acc r [] end
              else words_acc r (c :: cur)
  end.
Definition words_of (vs : list str) : list str := flat_map (fun v => words_acc v []) vs.
Definition s_allwords : str := [97;108;108;119;111;114;100;115]%N. (* allwords *)
Definition s_nowords : str := [110;111;119;111;114;100;115]%N. (* nowords *)
Definition s_anywordssubstr : str := [97;110;121;119;111;114;100;115;115;117;98;115;116;114]%N.
Definition s_equals : str := [101;113;117;97;108;115]%N. (* equals *)
Definition s_notequals : str := [110;111;116;101;113;117;97;108;115]%N. (* notequals *)
Definition c_cond (f o : str) (vs : list str) (b : cbug) : bool :=
  let bw := cfield b f in
  let ws := words_of vs in
  if str_eqb o s_anywords then existsb (fun w => mem_str w bw) ws
  else if str_eqb o s_allwords then forallb (fun w => mem_str w bw) ws
  else if str_eqb o s_nowords then negb (existsb (fun w => mem_str w bw) ws)
  else if str_eqb o s_anywordssubstr then existsb (fun w => existsb (is_substr w) bw) ws
  else if str_eqb o s_nowordssubstr then negb (existsb (fun w => existsb (is_substr w) bw) ws)
  else if str_eqb o s_equals then mem_str (first_or_nil vs) bw
  else if str_eqb o s_notequals then negb (mem_str (first_or_nil vs) bw)
  else false.
Definition c_sem (ps : list (str * str)) (b : cbug) : option bool := sem_params cbug c_has c_cond ps b.

(* decoding the implementation's recorded parameters *)
Definition dec_params (v : val) : option (list (str * str)) :=
  match v with
  | VL l => fold_right (fun e acc => match e, acc with
                                     | VL [VS k; VS x], Some r => Some ((k, x) :: r)
                                     | _, _ => None end) (Some []) l
  | _ => None
  end.
Definition ob_eqb (a b : option bool) : bool :=
  match a, b with Some x, Some y => Bool.eqb x y | _, _ => false end.   (* None never accepted *)

Fixpoint rchart_eqb (a b : rchart) {struct a} : bool :=
  match a, b with
  | RCond f o vs n, RCond f' o' vs' n' =>
      str_eqb f f' && str_eqb o o' && Bool.eqb n n'
      && (fix go (x y : list str) := match x, y with
                                     | [], [] => true
                                     | u :: x', w :: y' => str_eqb u w && go x' y'
                                     | _, _ => false end) vs vs'
  | RGroup j n cs, RGroup j' n' cs' =>
      str_eqb (join_str j) (join_str j') && Bool.eqb n n'
      && (fix go (x y : list rchart) := match x, y with
                                        | [], [] => true
                                        | u :: x', w :: y' => rchart_eqb u w && go x' y'
                                        | _, _ => false end) cs cs'
  | _, _ => false
  end.
Fixpoint all2 {A} (f : A -> A -> bool) (x y : list A) : bool :=
  match x, y with [] , [] => true | a :: x', b :: y' => f a b && all2 f x' y' | _, _ => false end.
Fixpoint Nseq_eqb (l : list N) (s : N) : bool :=
  match l with [] => true | x :: r => N.eqb x s && Nseq_eqb r (N.succ s) end.

(* (B) params: the implementation's rendering of q uses slots 1,2,3,... once each, is balanced,
   and the reference reader gets q's chart trees back from it *)
Definition spec_params_ok (q : query) (res : val) : bool :=
  match dec_params res with
  | None => false
  | Some ps =>
      let k := read_keys ps in
      Nseq_eqb (f_slots k) 1 && balanced k
      && match read_charts_k k with
         | Some cs => all2 rchart_eqb cs (map erase (charts q))
         | None => false
         end
  end.

(* (B) and: on every probe bug, the rendered a & b means (a's meaning) and (b's meaning) *)
Definition spec_and_ok (i : query * query * list cbug) (res : val) : bool :=
  match res with
  | VL [pa; pb; _; pab] =>
      match dec_params pa, dec_params pb, dec_params pab with
      | Some a, Some b, Some ab =>
          forallb (fun bug => ob_eqb (c_sem ab bug) (opt_and (c_sem a bug) (c_sem b bug))) (snd i)
      | _, _, _ => false
      end
  | _ => false
  end.

(* (B) any_of: on every probe bug, the rendered any_of means the disjunction of the operands *)
Definition spec_anyof_ok (i : list query * list cbug) (res : val) : bool :=
  match res with
  | VErr _ => true
  | VL [VL ops; _; pq] =>
      match dec_params pq with
      | Some p =>
          forallb (fun bug =>
                     ob_eqb (c_sem p bug)
                            (opt_or_list (map (fun o => match dec_params o with
                                                        | Some po => c_sem po bug
                                                        | None => None end) ops))) (snd i)
      | None => false
      end
  | _ => false
  end.
