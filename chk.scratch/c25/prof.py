import cProfile, pstats, sys, os
sys.argv=['x']
from harness.common import Check
import harness.c25 as m
chk = Check("C25","quick")
chk.build=lambda *a,**k: False
chk.check_assumptions=lambda *a,**k: True
chk.lint=lambda *a,**k: True
cProfile.run("m.main(chk)", "/verif/chk.scratch/c25/prof.out")
p=pstats.Stats("/verif/chk.scratch/c25/prof.out"); p.sort_stats("cumulative").print_stats(28)
