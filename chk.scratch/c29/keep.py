import sys, os, shutil
sys.path.insert(0, "/verif")
from harness import c29
from harness.common import Check
chk = Check("C29")
c29.main(chk)
shutil.rmtree("/verif/chk.scratch/c29/keepdir", ignore_errors=True)
shutil.copytree(chk.scratch, "/verif/chk.scratch/c29/keepdir")
print(chk.violations[:2], chk.cov.get("t_scenarios_s"))
