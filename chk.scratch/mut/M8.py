import sys; p=sys.argv[1]; s=open(p).read()
a='f"{body[tokens[-1].end() :]}{self.raw[comment_at:]}"'; assert a in s
s=s.replace(a,'f"{body[tokens[-1].end() :] and \' \'}{self.raw[comment_at:]}"'); open(p,'w').write(s)
