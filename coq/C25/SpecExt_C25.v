(* SpecExt_C25.v — statements for the extended round-trip theorems of C25 (sets whose parent
   directories are missing; sets with entries beneath one level of symlinked directory).
   Written without looking at the algorithm of tar.py. *)
From Coq Require Import List NArith ZArith Bool Arith Permutation.
Import ListNotations.
From Verif Require Import Base.Val C25.Path_C25 C25.Model_C25 C25.Spec_C25.

(* proper ancestors of a path: dirname iterated at least once *)
Inductive ancestor : str -> str -> Prop :=
| anc_parent p : ancestor p (dirname p)
| anc_up p a : ancestor p a -> ancestor p (dirname a).

(* files that were hardlinked still share an inode, and no others do *)
Definition links_ok (c r : list entry) : Prop :=
  forall e1 e2 r1 r2, In e1 c -> In e2 c -> In r1 r -> In r2 r ->
    knd e1 = KReg -> knd e2 = KReg -> loc r1 = loc e1 -> loc r2 = loc e2 ->
    (ino r1 = ino r2 <-> same_file e1 e2).

(* "parents present or added": the result is c plus exactly the missing ancestor directories.
   every written entry is back unchanged; every other entry of the result is a fresh directory
   (mode 0o775, root:root, mtime = now: Model_C25.new_dir) at a proper ancestor, other than "/" and
   absent from c, of some written entry; every such ancestor is present; no path twice. *)
Definition roundtrip_dirs_ok (c r : list entry) : Prop :=
  NoDup (map loc r) /\
  (forall e, In e c -> exists r0, In r0 r /\ obs r0 = obs e) /\
  (forall r0, In r0 r ->
     (exists e, In e c /\ obs r0 = obs e) \/
     (exists x, r0 = new_dir x /\ x <> [SL] /\ ~ In (normpath x) (map loc c)
                /\ exists e, In e c /\ ancestor (loc e) x)) /\
  (forall e a, In e c -> ancestor (loc e) a -> a <> [SL] -> In (normpath a) (map loc r)) /\
  links_ok c r.
