import random, sys, collections
sys.path.insert(0, '/verif/chk.scratch/c11')
import pymodel as M
from pkgcore.ebuild.misc import ChunkedDataDict, chunked_data
from pkgcore.ebuild.atom import atom
from pkgcore.restrictions import packages
from pkgcore.util.parserestrict import parse_match
from pkgcore.test.misc import FakePkg
KEYS = ['cata/p1', 'cata/p2', 'catb/p1']
GLOBS = {3: parse_match('cata/*'), 5: parse_match('*/p1'), 4: parse_match('catb/*')}
SIMPLE = [atom(k) for k in KEYS]
VER = {(k, v): atom('=%s-%d' % (KEYS[k], v)) for k in range(3) for v in (1, 2)}
PKGS = {(k, v): FakePkg('%s-%d' % (KEYS[k], v)) for k in range(3) for v in (1, 2)}
FLAGS = ['a', 'b', 'c', 'd', 'foo_a', 'foo_b', 'bar_a']
WILD = ['*', 'foo_*', 'bar_*']
def real_scope(s):
    if s[0] == 'A': return packages.AlwaysTrue
    if s[0] == 'G': return GLOBS[s[1]]
    if s[0] == 'S': return SIMPLE[s[1]]
    return VER[(s[1], s[2])]
def run_real(prog):
    t = prog[0]
    if t == 'new': return ChunkedDataDict()
    if t == 'add':
        d = run_real(prog[1]); c = prog[2]
        if c[0][0] == 'A' and prog[3]:
            d.add_bare_global(prog[4][0], prog[4][1])
        else:
            raw = prog[4]
            d.update_from_stream([chunked_data(real_scope(c[0]), raw[0], raw[1])])
        return d
    if t == 'merge':
        d = run_real(prog[1]); q = run_real(prog[2]); d.merge(q); return d
    if t == 'freeze':
        d = run_real(prog[1]); d.freeze(); return d
    if t == 'clone': return run_real(prog[1]).clone(unfreeze=prog[2])
    if t == 'opt':
        d = run_real(prog[1]); d.optimize(cache={} if prog[2] else None); return d
def gen_entry(rng, wild):
    r = rng.random()
    if r < 0.35: sc = ('A',)
    elif r < 0.45: sc = ('G', rng.choice([3, 5, 4]))
    elif r < 0.75: sc = ('S', rng.randrange(3))
    else: sc = ('V', rng.randrange(3), rng.choice([1, 2]))
    fl = rng.sample(FLAGS, rng.choice([1, 1, 2, 2, 3]))
    neg = tuple(f for f in fl if rng.random() < 0.4)
    pos = tuple(f for f in fl if f not in neg)
    if rng.random() < wild:
        neg = (rng.choice(WILD),) + neg
    raw = (neg, pos)
    if sc[0] in 'AG':
        neg, pos = tuple(set(neg)), tuple(set(pos))
    return (sc, neg, pos), raw
def gen_prog(rng, n, wild, depth=0):
    p = ('new',)
    for _ in range(n):
        r = rng.random()
        if r < 0.6:
            c, raw = gen_entry(rng, wild)
            p = ('add', p, c, rng.random() < 0.5, raw)
        elif r < 0.7 and depth < 2:
            q = gen_prog(rng, rng.randrange(0, 4), wild, depth + 1)
            if rng.random() < 0.7: q = ('freeze', q)
            p = ('merge', p, q)
        elif r < 0.8:
            p = ('opt', p, rng.random() < 0.5)
        elif r < 0.9:
            p = ('clone', ('freeze', p), True)
        elif r < 0.95:
            p = ('clone', p, rng.random() < 0.5)
        else:
            p = ('freeze', p)
    return p
def main():
    rng = random.Random(int(sys.argv[1]) if len(sys.argv) > 1 else 0)
    wild = float(sys.argv[2]) if len(sys.argv) > 2 else 0.15
    N = int(sys.argv[3]) if len(sys.argv) > 3 else 3000
    stats = collections.Counter()
    for i in range(N):
        prog = gen_prog(rng, rng.randrange(1, 8), wild)
        try: real = run_real(prog)
        except Exception as e: real = type(e).__name__
        try: mod = M.run(prog)
        except M.Frozen: mod = 'Frozen'
        if isinstance(real, str) or isinstance(mod, str):
            stats['err'] += 1
            if not (isinstance(real, str) and isinstance(mod, str)):
                print('ERR MISMATCH', prog, real, mod); stats['A-mismatch'] += 1
            continue
        ents = M.entries(prog)
        for pk, P in PKGS.items():
            for pre in ((), ('a', 'foo_a', 'e')):
                r = real.render_pkg(P, pre); m = M.render(mod, pk, pre); f = M.fold(ents, pk, pre)
                stats['n'] += 1
                if r != m:
                    stats['A-mismatch'] += 1
                    if stats['A-mismatch'] < 4: print('A', prog, pk, pre, r, m)
                if r != f:
                    stats['B-fail'] += 1
    print(stats)
if __name__ == "__main__": main()
