#!/usr/bin/env python3
"""seed_batch.py [-j N] — verify every delivered seed under /tmp/seed/s*/out/<ID>/ that has no
/verif/seeded/<ID>/result.json yet: demo passes on pristine HEAD and fails with the patch, then run
./check <ID> against a scratch worktree with the patch.  Keeps patch.diff, demo, meta.json + result.json
in /verif/seeded/<ID>/ (a second seed for the same property goes to <ID>-2)."""
import concurrent.futures as cf, glob, json, os, re, shutil, subprocess, sys, tempfile, time
V = "/verif"
def run_one(src):
    pid = os.path.basename(src)
    wt = tempfile.mkdtemp(prefix="wtseed_", dir="/tmp"); os.rmdir(wt)
    subprocess.run(["git", "-C", "/repo", "worktree", "add", "--detach", wt, "HEAD"], capture_output=True)
    res = {"property": pid, "source": src, "repo_head": subprocess.run(["git", "-C", "/repo", "log", "--format=%h", "-1"], capture_output=True, text=True).stdout.strip()}
    try:
        demo = os.path.join(src, "demo.py"); runner = ["/venv/bin/python"]
        if not os.path.exists(demo):
            demo = os.path.join(src, "test_demo.py"); runner = ["/venv/bin/python", "-m", "pytest", "-q", "-p", "no:cacheprovider"]
        env = dict(os.environ, PYTHONPATH=wt + "/src", PYTHONHASHSEED="0")
        def rundemo():
            try:
                return subprocess.run(["timeout", "900"] + runner + [demo], cwd=wt, env=env, capture_output=True, text=True).returncode
            except Exception as e:
                return -1
        res["demo_pristine_rc"] = rundemo()
        a = subprocess.run(["git", "-C", wt, "apply", os.path.join(src, "patch.diff")], capture_output=True, text=True)
        if a.returncode != 0:
            res["error"] = "patch does not apply to current HEAD: " + a.stderr[-300:]
            return res
        res["demo_patched_rc"] = rundemo()
        t0 = time.time()
        env2 = dict(os.environ, VERIF_REPO=wt)
        c = subprocess.run(["timeout", "5400", V + "/check", pid], cwd=V, env=env2, capture_output=True, text=True)
        res["check_rc"] = c.returncode
        res["check_wall_s"] = round(time.time() - t0)
        lines = c.stdout.splitlines()
        res["violation_lines"] = [l for l in lines if l.startswith("VIOLATION")][:8]
        res["summary_line"] = next((l for l in lines if l.startswith("[" + pid + "]")), "")
        kinds = []
        for l in res["violation_lines"]:
            m = re.search(r"replay=(\S+)", l)
            if m and os.path.exists(m.group(1)):
                try:
                    d = json.load(open(m.group(1))); kinds.append(d.get("kind") + (":no-input" if d.get("no_input") else ""))
                    if "first_violation" not in res: res["first_violation"] = json.dumps(d.get("detail"))[:1500]
                except Exception: pass
        res["violation_kinds"] = kinds
        res["caught"] = c.returncode == 1 and bool(res["violation_lines"])
        res["caught_with_input"] = any(k == "property" for k in kinds)
    finally:
        subprocess.run(["git", "-C", "/repo", "worktree", "remove", "--force", wt], capture_output=True)
    return res
def redo(names, j):
    """re-run the check against already kept seeds (after the check was strengthened): writes result_after.json"""
    srcs = []
    for n in names:
        d = f"{V}/seeded/{n}"
        pid = n.split("-")[0]
        tmp = tempfile.mkdtemp(prefix="redo_", dir="/tmp"); link = os.path.join(tmp, pid)
        os.symlink(d, link); srcs.append((n, link))
    with cf.ThreadPoolExecutor(max_workers=j) as ex:
        for (n, link), res in zip(srcs, ex.map(run_one, [l for _, l in srcs])):
            res["source"] = f"{V}/seeded/{n}"
            json.dump(res, open(f"{V}/seeded/{n}/result_after.json", "w"), indent=1)
            print(n, "AFTER: demo", res.get("demo_pristine_rc"), res.get("demo_patched_rc"), "check_rc", res.get("check_rc"),
                  res.get("violation_kinds"), res.get("summary_line"), res.get("error", ""), flush=True)
            shutil.rmtree(os.path.dirname(link), ignore_errors=True)
def main():
    j = 3
    if "--redo" in sys.argv:
        i = sys.argv.index("--redo"); names = [a for a in sys.argv[i + 1:] if not a.startswith("-")]
        if "-j" in sys.argv: j = int(sys.argv[sys.argv.index("-j") + 1])
        names = [n for n in names if not n.isdigit()]
        return redo(names, j)
    if "-j" in sys.argv: j = int(sys.argv[sys.argv.index("-j") + 1])
    todo = []
    done_src = set()
    for r in glob.glob(V + "/seeded/*/result.json"):
        try: done_src.add(json.load(open(r))["source"])
        except Exception: pass
    for src in sorted(glob.glob("/tmp/seed/s*/out/C[0-9][0-9]")):
        if src in done_src or not os.path.exists(src + "/patch.diff"): continue
        todo.append(src)
    print("to verify:", todo, flush=True)
    with cf.ThreadPoolExecutor(max_workers=j) as ex:
        for res in ex.map(run_one, todo):
            pid = res["property"]; dst = f"{V}/seeded/{pid}"; n = 1
            while os.path.exists(dst + "/result.json"):
                n += 1; dst = f"{V}/seeded/{pid}-{n}"
            os.makedirs(dst, exist_ok=True)
            for f in os.listdir(res["source"]):
                if os.path.isfile(os.path.join(res["source"], f)): shutil.copy(os.path.join(res["source"], f), dst)
            json.dump(res, open(dst + "/result.json", "w"), indent=1)
            print(pid, "demo", res.get("demo_pristine_rc"), res.get("demo_patched_rc"), "check_rc", res.get("check_rc"),
                  res.get("violation_kinds"), res.get("summary_line"), res.get("error", ""), flush=True)
main()
