(* Proofs_C15.v — check_plan decides ValidPlan (soundness and completeness), non-vacuity examples,
   and the obligation on the table regenerated from choice_point.py. *)
From Coq Require Import List NArith ZArith Bool Lia.
Import ListNotations.
From Verif Require Import Base.Val C15.Model_C15 C15.Spec_C15 gen.Tables_choice_point.

(* ------------------------------------------------------------------ small reflections *)
Lemma memN_In x l : memN x l = true <-> In x l.
Proof.
  unfold memN. rewrite existsb_exists. split.
  - intros [y [Hy He]]. apply N.eqb_eq in He. subst. exact Hy.
  - intro H. exists x. split; [exact H | apply N.eqb_refl].
Qed.

Lemma matchesb_iff c a p : matchesb c a p = true <-> Matches c a p.
Proof. unfold matchesb, Matches. apply memN_In. Qed.

Lemma same_slotb_iff a b : same_slotb a b = true <-> SameSlot a b.
Proof.
  unfold same_slotb, SameSlot. rewrite andb_true_iff, !N.eqb_eq. tauto.
Qed.

Lemma op_okb_iff c st o : op_okb c st o = true <-> OpOk c st o.
Proof.
  unfold op_okb, OpOk. destruct (ocode o) as [|[q|q|]] eqn:E.
  - (* 0 *) split.
    + intro H. left. split; [reflexivity|].
      destruct (getp c (opkg o)) as [pk|]; [|discriminate].
      exists pk. split; [reflexivity|]. intro L. rewrite L in H. apply memN_In. exact H.
    + intros [[_ [pk [G L]]] | [[X _] | [X _]]]; try discriminate.
      rewrite G. destruct (plivefs pk); [apply memN_In; auto | reflexivity].
  - (* odd > 1 *) split; [discriminate|]. intros [[X _] | [[X _] | [X _]]]; discriminate.
  - (* even *) destruct q as [q|q|].
    + split; [discriminate|]. intros [[X _] | [[X _] | [X _]]]; discriminate.
    + split; [discriminate|]. intros [[X _] | [[X _] | [X _]]]; discriminate.
    + (* 2 *) split.
      * intro H. right. right. split; [reflexivity|].
        destruct (getp c (opkg o)) as [pk|]; [|discriminate].
        destruct (getp c (oold o)) as [ok|]; [|discriminate].
        apply andb_true_iff in H as [H1 H2].
        exists pk, ok. repeat split; try reflexivity.
        -- apply memN_In; exact H1.
        -- apply same_slotb_iff in H2. apply H2.
        -- apply same_slotb_iff in H2. apply H2.
      * intros [[X _] | [[X _] | [_ [pk [ok [G1 [G2 [I S]]]]]]]]; try discriminate.
        rewrite G1, G2. apply andb_true_iff. split; [apply memN_In; exact I | apply same_slotb_iff; exact S].
  - (* 1 *) split.
    + intro H. right. left. split; [reflexivity|].
      destruct (getp c (opkg o)) as [pk|]; [|discriminate].
      split; [exists pk; reflexivity | apply memN_In; exact H].
    + intros [[X _] | [[_ [[pk G] I]] | [X _]]]; try discriminate.
      rewrite G. apply memN_In. exact I.
Qed.

Lemma ops_okb_iff c os : forall st, ops_okb c st os = true <-> OpsOk c st os.
Proof.
  induction os as [|o os IH]; intro st; cbn.
  - split; [intro; constructor | reflexivity].
  - rewrite andb_true_iff, op_okb_iff, IH. split.
    + intros [A B]. constructor; assumption.
    + intro H. inversion H; subst. split; assumption.
Qed.

Lemma is_addb_iff o : is_addb o = true <-> (ocode o = 0%N \/ ocode o = 2%N).
Proof. unfold is_addb. rewrite orb_true_iff, !N.eqb_eq. tauto. Qed.

Lemma planned_iff c p : In p (planned c) <-> Planned c p.
Proof.
  unfold planned, Planned, Final. rewrite filter_In, in_map_iff, memN_In. split.
  - intros [[o [E I]] F]. apply filter_In in I as [I A]. apply is_addb_iff in A.
    split; [exact F|]. exists o. auto.
  - intros [F [o [I [A E]]]]. split; [|exact F].
    exists o. split; [exact E|]. apply filter_In. split; [exact I | apply is_addb_iff; exact A].
Qed.

Lemma merged_iff c p : In p (merged c) <-> Merged c p.
Proof.
  unfold merged, Merged. rewrite filter_In, planned_iff. unfold is_sourceb. split.
  - intros [Pl S]. split; [exact Pl|].
    destruct (getp c p) as [pk|]; [|discriminate]. exists pk. split; [reflexivity|].
    destruct (plivefs pk); [discriminate | reflexivity].
  - intros [Pl [pk [G L]]]. split; [exact Pl|]. rewrite G, L. reflexivity.
Qed.

Lemma blocked_none_iff c a p :
  forallb (fun q => negb (matchesb c a q) || N.eqb q p) (final_state c) = true
  <-> (forall q, Final c q -> Matches c a q -> q = p).
Proof.
  rewrite forallb_forall. unfold Final. split.
  - intros H q F M. specialize (H q F). apply orb_true_iff in H as [H|H].
    + apply matchesb_iff in M. rewrite M in H. discriminate.
    + apply N.eqb_eq. exact H.
  - intros H q F. destruct (matchesb c a q) eqn:M; [|reflexivity].
    cbn. apply N.eqb_eq. apply H; [exact F | apply matchesb_iff; exact M].
Qed.

Lemma alt_satb_iff c p alt : alt_satb c (final_state c) p alt = true <-> AltSat c p alt.
Proof.
  unfold alt_satb, AltSat. destruct (alt_blocks alt).
  - apply blocked_none_iff.
  - rewrite existsb_exists. unfold Final. split.
    + intros [q [F M]]. exists q. split; [exact F | apply matchesb_iff; exact M].
    + intros [q [F M]]. exists q. split; [exact F | apply matchesb_iff; exact M].
Qed.

Lemma clause_satb_iff c p clause :
  clause_satb c (final_state c) p clause = true <-> exists alt, In alt clause /\ AltSat c p alt.
Proof.
  unfold clause_satb. rewrite existsb_exists. split.
  - intros [a [I S]]. exists a. split; [exact I | apply alt_satb_iff; exact S].
  - intros [a [I S]]. exists a. split; [exact I | apply alt_satb_iff; exact S].
Qed.

Lemma deps_of_In c p clause :
  In clause (deps_of c p) <-> exists pk cls, getp c p = Some pk /\ In cls (pdeps pk) /\ In clause cls.
Proof.
  unfold deps_of. destruct (getp c p) as [pk|].
  - rewrite in_concat. split.
    + intros [cls [A B]]. exists pk, cls. auto.
    + intros [pk' [cls [E [A B]]]]. injection E as <-. exists cls. auto.
  - split; [intros [] | intros [pk [cls [E _]]]; discriminate].
Qed.

(* ------------------------------------------------------------------ the four clauses *)
Lemma targets_iff c : targets_okb c (final_state c) = true <-> TargetsMet c.
Proof.
  unfold targets_okb, TargetsMet. rewrite forallb_forall. split.
  - intros H t I. specialize (H t I). apply existsb_exists in H as [p [F M]].
    exists p. split; [exact F | apply matchesb_iff; exact M].
  - intros H t I. destruct (H t I) as [p [F M]]. apply existsb_exists.
    exists p. split; [exact F | apply matchesb_iff; exact M].
Qed.

Lemma closed_iff c : forallb (closedb c (final_state c)) (merged c) = true <-> DepsClosed c.
Proof.
  unfold DepsClosed, closedb. rewrite forallb_forall. split.
  - intros H p pk cls clause M G I1 I2.
    apply merged_iff in M. specialize (H p M). rewrite forallb_forall in H.
    apply clause_satb_iff. apply H. apply deps_of_In. exists pk, cls. auto.
  - intros H p M. apply merged_iff in M. apply forallb_forall. intros clause I.
    apply deps_of_In in I as [pk [cls [G [I1 I2]]]].
    apply clause_satb_iff. eapply H; eauto.
Qed.

Lemma slots_iff c : slots_okb c (final_state c) = true <-> SlotsUnique c.
Proof.
  unfold slots_okb, SlotsUnique, Final. rewrite forallb_forall. split.
  - intros H p q pk qk Fp Fq Gp Gq S.
    specialize (H p Fp). rewrite forallb_forall in H. specialize (H q Fq).
    unfold slot_clashb in H. rewrite Gp, Gq in H.
    apply negb_true_iff, andb_false_iff in H as [H|H].
    + apply negb_false_iff, N.eqb_eq in H. exact H.
    + apply same_slotb_iff in S. rewrite S in H. discriminate.
  - intros H p Fp. apply forallb_forall. intros q Fq. unfold slot_clashb.
    destruct (getp c p) as [pk|] eqn:Gp; [|reflexivity].
    destruct (getp c q) as [qk|] eqn:Gq; [|reflexivity].
    destruct (same_slotb pk qk) eqn:S; [|rewrite andb_false_r; reflexivity].
    apply same_slotb_iff in S. rewrite (H p q pk qk Fp Fq Gp Gq S), N.eqb_refl. reflexivity.
Qed.

Lemma blockers_iff c : blockers_okb c (final_state c) = true <-> NoBlocked c.
Proof.
  unfold blockers_okb, NoBlocked. rewrite forallb_forall. split.
  - intros H p pk cls b q Pl G I1 I2 B F M.
    apply planned_iff in Pl. specialize (H p Pl). rewrite forallb_forall in H.
    assert (I : In [b] (deps_of c p)) by (apply deps_of_In; exists pk, cls; auto).
    specialize (H _ I). cbn in H. rewrite B in H.
    exact (proj1 (blocked_none_iff c (alt_atom b) p) H q F M).
  - intros H p Pl. apply planned_iff in Pl. apply forallb_forall. intros clause I.
    apply deps_of_In in I as [pk [cls [G [I1 I2]]]].
    destruct clause as [|b [|b' rest]]; try reflexivity. cbn.
    destruct (alt_blocks b) eqn:B; [|reflexivity].
    apply blocked_none_iff. intros q F M. eapply H; eauto.
Qed.

(* ------------------------------------------------------------------ main theorems *)
Theorem check_plan_iff c : check_plan c = true <-> ValidPlan c.
Proof.
  unfold check_plan, ValidPlan. cbv zeta.
  rewrite !andb_true_iff, ops_okb_iff, targets_iff, closed_iff, slots_iff, blockers_iff. tauto.
Qed.

Definition check_plan_sound_proof : forall c, check_plan c = true -> ValidPlan c :=
  fun c => proj1 (check_plan_iff c).
Definition check_plan_complete_proof : forall c, ValidPlan c -> check_plan c = true :=
  fun c => proj2 (check_plan_iff c).

(* a rejected plan comes with the clause of the statement that fails *)
Theorem check_plan_why_proof : forall c,
  match check_plan_why c with
  | 0%N => ValidPlan c
  | 1%N => ~ OpsOk c (installed c) (cops c)
  | 2%N => ~ TargetsMet c
  | 3%N => ~ DepsClosed c
  | 4%N => ~ SlotsUnique c
  | _ => ~ NoBlocked c
  end.
Proof.
  intro c. unfold check_plan_why. cbv zeta.
  destruct (ops_okb c (installed c) (cops c)) eqn:E1; cbn.
  2:{ intro H. apply ops_okb_iff in H. congruence. }
  destruct (targets_okb c (final_state c)) eqn:E2; cbn.
  2:{ intro H. apply targets_iff in H. congruence. }
  destruct (forallb (closedb c (final_state c)) (merged c)) eqn:E3; cbn.
  2:{ intro H. apply closed_iff in H. congruence. }
  destruct (slots_okb c (final_state c)) eqn:E4; cbn.
  2:{ intro H. apply slots_iff in H. congruence. }
  destruct (blockers_okb c (final_state c)) eqn:E5; cbn.
  2:{ intro H. apply blockers_iff in H. congruence. }
  apply check_plan_iff. unfold check_plan. cbv zeta. rewrite E1, E2, E3, E4, E5. reflexivity.
Qed.

(* the final state never lists a package twice (so "at most one per slot" counts packages) *)
Lemma addN_nodup x l : NoDup l -> NoDup (addN x l).
Proof.
  intro H. unfold addN. destruct (memN x l) eqn:M; [exact H|].
  assert (N : ~ In x l) by (intro I; apply memN_In in I; congruence).
  clear M. induction l as [|a l IH]; cbn.
  - constructor; [intros [] | constructor].
  - inversion H; subst. constructor.
    + rewrite in_app_iff. intros [I|[E|[]]]; [contradiction|]. subst. apply N. left. reflexivity.
    + apply IH; [assumption|]. intro I. apply N. right. exact I.
Qed.
Lemma delN_nodup x l : NoDup l -> NoDup (delN x l).
Proof. intro H. unfold delN. apply NoDup_filter. exact H. Qed.
Lemma step_nodup st o : NoDup st -> NoDup (step st o).
Proof.
  intro H. unfold step. destruct (ocode o) as [|[q|q|]]; try exact H.
  - apply addN_nodup; exact H.
  - destruct q as [q|q|]; try exact H. apply addN_nodup, delN_nodup; exact H.
  - apply delN_nodup; exact H.
Qed.
Lemma installed_from_lb ps : forall i x, In x (installed_from i ps) -> (i <= x)%N.
Proof.
  induction ps as [|p ps IH]; intros i x; cbn; [intros []|].
  destruct (plivefs p); [intros [<-|H]; [lia|] | intro H]; apply IH in H; lia.
Qed.
Lemma installed_from_nodup ps : forall i, NoDup (installed_from i ps).
Proof.
  induction ps as [|p ps IH]; intro i; cbn; [constructor|].
  destruct (plivefs p); [|apply IH]. constructor; [|apply IH].
  intro H. apply installed_from_lb in H. lia.
Qed.
Theorem final_state_nodup_proof : forall c, NoDup (final_state c).
Proof.
  intro c. unfold final_state.
  assert (G : forall os st, NoDup st -> NoDup (fold_left step os st)).
  { induction os as [|o os IH]; intros st H; cbn; [exact H | apply IH, step_nodup, H]. }
  apply G. apply installed_from_nodup.
Qed.

(* ------------------------------------------------------------------ non-vacuity *)
(* installed: p0 = k0:s0 (atom 0 matches it).  source: p1 = k0:s0 newer (atoms 0,1),
   p2 = k1:s0 (atom 2) with RDEPEND atom1 and an unconditional blocker !atom3 that matches nothing
   in the final state (atom 3 matches only the replaced p0).  target: atom 2. *)
Definition ex_pkgs : list pkg :=
  [ P 0 0 true []; P 0 0 false []; P 1 0 false [[]; []; [[2%N]; [7%N]]; []; []] ].
Definition ex_match : list (list N) := [[0;1]%N; [1%N]; [2%N]; [0%N]].
Definition ex_good : case := mkcase ex_pkgs ex_match [2%N] [O 0 0 0; O 2 1 0; O 0 2 0].
Definition ex_missing_dep : case := mkcase ex_pkgs ex_match [2%N] [O 0 2 0].
Definition ex_blocked : case := mkcase ex_pkgs ex_match [2%N] [O 0 1 0; O 0 2 0].   (* p0 kept: p2's blocker hits it *)
Definition ex_slot_clash : case := mkcase ex_pkgs ex_match [1%N] [O 0 1 0].        (* p0 kept beside p1 *)

Example ex_good_valid : ValidPlan ex_good.
Proof. apply check_plan_iff. vm_compute. reflexivity. Qed.
Example ex_missing_dep_invalid : ~ ValidPlan ex_missing_dep.
Proof. intro H. apply check_plan_iff in H. vm_compute in H. discriminate. Qed.
Example ex_missing_dep_why : check_plan_why ex_missing_dep = 3%N.
Proof. vm_compute. reflexivity. Qed.
Example ex_blocked_why : check_plan_why ex_blocked = 3%N.
Proof. vm_compute. reflexivity. Qed.
Example ex_slot_clash_why : check_plan_why ex_slot_clash = 4%N.
Proof. vm_compute. reflexivity. Qed.

(* ------------------------------------------------------------------ regenerated table *)
(* choice_point._reset_iters: each of the five dependency iterators is filled from the package
   attribute of its own class; the public properties hand out the iterator of their own class;
   reduce_atoms filters all five. *)
Fixpoint assoc (k : str) (l : list (str * str)) : option str :=
  match l with
  | [] => None
  | (a, b) :: l' => if str_eqb a k then Some b else assoc k l'
  end.
(* property name -> attribute finally read *)
Definition reads (prop : str) : option str :=
  match assoc prop prop_slots with Some slot => assoc slot reset_iters | None => None end.
Definition five_classes : list str :=
  [ [100;101;112;101;110;100]%N;            (* depend *)
    [98;100;101;112;101;110;100]%N;         (* bdepend *)
    [114;100;101;112;101;110;100]%N;        (* rdepend *)
    [105;100;101;112;101;110;100]%N;        (* idepend *)
    [112;100;101;112;101;110;100]%N ].      (* pdepend *)
Definition opt_eqb (a : option str) (b : str) : bool :=
  match a with Some x => str_eqb x b | None => false end.
Definition table_ok : bool :=
  forallb (fun cl => opt_eqb (reads cl) cl) five_classes
  && forallb (fun cl => match assoc cl prop_slots with
                        | Some slot => existsb (str_eqb slot) reduce_names
                        | None => false end) five_classes
  && Nat.eqb (length reset_iters) 5 && Nat.eqb (length reduce_names) 5.

Theorem each_class_reads_its_own_attribute_proof :
  (forall cl, In cl five_classes -> reads cl = Some cl)
  /\ (forall cl, In cl five_classes -> exists slot, assoc cl prop_slots = Some slot /\ In slot reduce_names).
Proof.
  assert (T : table_ok = true) by (vm_compute; reflexivity).
  unfold table_ok in T. rewrite !andb_true_iff in T. destruct T as [[[T1 T2] _] _].
  rewrite forallb_forall in T1, T2. split.
  - intros cl I. specialize (T1 cl I). unfold opt_eqb in T1.
    destruct (reads cl) as [x|]; [|discriminate]. apply str_eqb_eq in T1. congruence.
  - intros cl I. specialize (T2 cl I). destruct (assoc cl prop_slots) as [slot|]; [|discriminate].
    exists slot. split; [reflexivity|]. apply existsb_exists in T2 as [y [Iy E]].
    apply str_eqb_eq in E. subst. exact Iy.
Qed.
