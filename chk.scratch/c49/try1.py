import os, tempfile, shutil, time, sys
from pkgcore.ebuild import repository, repo_objs
from pkgcore.ebuild import processor as P
d = tempfile.mkdtemp(prefix="c49_")
os.makedirs(f"{d}/profiles"); os.makedirs(f"{d}/metadata"); os.makedirs(f"{d}/eclass"); os.makedirs(f"{d}/cat/pkg")
open(f"{d}/profiles/repo_name","w").write("c49\n")
open(f"{d}/metadata/layout.conf","w").write("masters =\ncache-formats =\n")
open(f"{d}/eclass/a.eclass","w").write('IUSE="ea"\nDEPEND="cat/ea"\ninherit b\nIUSE+=" ea2"\nsrc_compile() { :; }\n')
open(f"{d}/eclass/b.eclass","w").write('IUSE="eb"\nRDEPEND="cat/eb"\nRESTRICT="test"\nunset DEPEND\npkg_setup() { :; }\n')
open(f"{d}/cat/pkg/pkg-1.ebuild","w").write('EAPI=7\nIUSE="own"\nDEPEND="cat/own"\ninherit a\nSLOT=0\nDESCRIPTION="x"\nRESTRICT="mirror"\n')
t=time.time()
repo = repository.UnconfiguredTree(d)
for pkg in repo:
    print(pkg, pkg.data if hasattr(pkg,'data') else None)
    print(dict(pkg.data))
    print(pkg.inherited, pkg.inherit, pkg.defined_phases, pkg.iuse)
print(time.time()-t)
shutil.rmtree(d)
