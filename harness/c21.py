"""C21 — protected configuration files are never silently overwritten or removed (DESIGN §6 C21).

Stream "merge": one random scenario per case — an offset ("/", "/o", "/o/", "/o/p"), env.d files
with CONFIG_PROTECT / CONFIG_PROTECT_MASK / COLLISION_IGNORE (+ COLON_SEPARATED / SPACE_SEPARATED
declarations, ignored file names), extra protects/masks/ignores, a live tree with config files,
pending ._cfgNNNN_ updates (well- and ill-formed names), a new package (files, a few symlinks) and
for replace/uninstall an old package with recorded contents — is run through a real
MergeEngine.install / .replace / .uninstall (merge, unmerge, ConfigProtectInstall(+_restore),
ConfigProtectUninstall, optionally CollisionProtect registered; sanity_check, pre_merge, merge,
post_merge, get_merged_cset, pre_unmerge, unmerge, post_unmerge, final) inside a forked child that
chroot()s into a fresh scratch directory, so that offset "/" is really exercised.

Compared:  (A) recorded contents + the whole resulting tree + the two filters on probe paths
               == Model_C21.run evaluated inside Coq on the same scenario;
           (B) the statement of the property, checked directly on the before/after trees by
               `oracle` below (written from the statement, independent of the model).
"""

from __future__ import annotations

import fnmatch
import hashlib
import json
import os
import posixpath
import re
import shutil
import tempfile
import traceback

from .common import Check, Err, Raw, cval

IMPORTS = ("From Coq Require Import List NArith ZArith Bool.\n"
           "From Verif Require Import Base.Val C21.Model_C21 C21.Spec_C21 C21.Proofs_C21.")
ANCHORS = ["ebuild/triggers.py::_strip_offset", "ebuild/triggers.py::collapse_envd", "ebuild/triggers.py::simple_chksum_compare",
           "ebuild/triggers.py::gen_config_protect_filter", "ebuild/triggers.py::gen_collision_ignore_filter",
           "ebuild/triggers.py::ConfigProtectInstall", "ebuild/triggers.py::ConfigProtectInstall_restore",
           "ebuild/triggers.py::ConfigProtectUninstall", "ebuild/triggers.py::FileCollision",
           "merge/engine.py::MergeEngine"]

DIRS = ["/etc", "/etc/x", "/etc/m", "/opt/c", "/opt/c/m", "/usr/etc", "/usr/share", "/var/lib/d"]
NAMES = ["foo", "bar", "a.conf", ".keep", ".keep_a-0", "q", "igx", "boo"]
CP_POOL = ["/opt/c", "/usr/etc", "/opt/c/", "//opt/c", "/opt/../opt/c", "/var/lib", "/etc/x", "/usr/./etc/", "/opt"]
MASK_POOL = ["/etc/m", "/opt/c/m", "/etc/x/", "/etc", "/usr/etc/", "/opt/c/../c/m"]
CI_POOL = ["/etc/ig*", "/etc/x", "/etc/x/", "/etc/x/*", "/opt/c/foo", "*/q", "/etc/[ab]*", "/etc/?oo", "etc/q",
           "/etc/q", "/var/lib/d", "/etc/[!b]oo", "/etc/[a-c]ar", "/opt/c/[", "*.conf", "/usr/etc", "/etc/foo"]
OFFSETS = ["/"] * 9 + ["/o"] * 7 + ["/o/"] * 2 + ["/o/p"] * 2
SEP = set("@|;^\",")
ATTRS = ["644.0.0"] * 4 + ["600.0.0", "640.0.100", "755.0.0", "644.1000.100", "660.1000.0", "4755.0.0"]
DEF_ATTR = "644.0.0"


# --------------------------------------------------------------------------- generator
def gen_case(rng, allow_uninstall_offset=True):
    off = rng.choice(OFFSETS)
    mode = rng.choice(["install"] * 5 + ["replace"] * 3 + ["uninstall"] * 2)
    if mode == "uninstall" and off != "/" and not allow_uninstall_offset:
        mode = "replace"
    coll = mode != "uninstall" and rng.random() < 0.15
    # ---- env.d
    envd = []
    names = rng.sample(["10a", "20b", "05c", "50d"], rng.choice([0, 1, 1, 2, 2, 3]))
    colon_decl = rng.random() < 0.15
    space_decl = rng.random() < 0.25
    for n in names:
        kv = []
        sep = " "
        if rng.random() < 0.75:
            vals = rng.sample(CP_POOL, rng.randint(1, 3))
            kv.append(("CONFIG_PROTECT", (":" if colon_decl and rng.random() < 0.8 else rng.choice([" ", "  ", "\t"])).join(vals)))
        if rng.random() < 0.5:
            vals = rng.sample(MASK_POOL, rng.randint(1, 2))
            kv.append(("CONFIG_PROTECT_MASK", rng.choice([" ", " ", ":"]).join(vals)))
        if rng.random() < 0.55:
            vals = rng.sample(CI_POOL, rng.randint(1, 3))
            kv.append(("COLLISION_IGNORE", rng.choice([" ", " ", ":"]).join(vals)))
        if colon_decl and rng.random() < 0.6:
            kv.append(("COLON_SEPARATED", rng.choice(["CONFIG_PROTECT", "CONFIG_PROTECT COLLISION_IGNORE", "COLLISION_IGNORE"])))
        if space_decl and rng.random() < 0.7:
            kv.append(("SPACE_SEPARATED", rng.choice(["COLLISION_IGNORE", "FOO COLLISION_IGNORE", "FOO"])))
        rng.shuffle(kv)
        envd.append((n, kv))
    for n in rng.sample(["99z.bak", "ab", "7", "._cfg0000_10a", "30x~", "x1y"], rng.choice([0, 0, 1, 2])):
        envd.append((n, [("CONFIG_PROTECT", "/usr/share /var"), ("COLLISION_IGNORE", "/etc/*"),
                         ("CONFIG_PROTECT_MASK", "/etc")]))
    rng.shuffle(envd)
    xp = rng.sample(CP_POOL, rng.choice([0, 0, 1, 2]))
    xm = rng.sample(MASK_POOL, rng.choice([0, 0, 0, 1]))
    xi = rng.sample(CI_POOL, rng.choice([0, 1, 2])) if coll else []
    # ---- the new package
    tok = [0]

    def t(prefix):
        tok[0] += 1
        return f"{prefix}{tok[0]}"

    new, live, old = {}, {}, {}
    slots = [(d, n) for d in DIRS for n in NAMES]
    if mode != "uninstall":
        for d, n in rng.sample(slots, rng.randint(2, 6)):
            p = f"{d}/{n}"
            if rng.random() < 0.1:
                new[p] = ("s", rng.choice(["t1", "../t2", "bar"]))
            else:
                new[p] = ("f", t("n"), rng.choice(ATTRS))
    # ---- the live tree
    for p, nd in new.items():
        k, data = nd[0], nd[1]
        r = rng.random()
        if r < 0.15:
            continue
        if r < 0.33 and k == "f":
            live[p] = ("f", data, rng.choice([nd[2], nd[2], rng.choice(ATTRS)]))
        elif r < 0.93:
            live[p] = ("f", t("L"), rng.choice(ATTRS))
        else:
            live[p] = ("s", rng.choice(["t1", "zz"]))
        if rng.random() < 0.6:          # pending updates beside it
            d, n = posixpath.split(p)
            for _ in range(rng.choice([1, 1, 2, 3])):
                form = rng.random()
                if form < 0.7:
                    nm = "._cfg%04d_%s" % (rng.choice([0, 0, 1, 3, 12, 9998, 9999]), n)
                else:
                    nm = rng.choice(["._cfg12_" + n, "._cfg 1_2_" + n, "._cfg+001_" + n, "._cfg0001-" + n,
                                     "._cfg0001_" + n + "x", "._cfgabcd_" + n, "._cfg00012_" + n, "._cfg0005", "._cfg-001_" + n,
                                     "._cfg0002_" + rng.choice(NAMES)])
                live.setdefault(f"{d}/{nm}", ("f", data if (k == "f" and rng.random() < 0.4) else t("P"), rng.choice(ATTRS)))
    # ---- the old package
    if mode != "install":
        cands = list(new) if mode == "replace" else []
        cands += [f"{d}/{n}" for d, n in rng.sample(slots, rng.randint(2, 5))]
        for p in rng.sample(cands, min(len(cands), rng.randint(2, 6))):
            rec = t("R")
            old[p] = ("f", rec, "")
            if p in live:
                if live[p][0] == "f" and p not in new and rng.random() < 0.5:
                    old[p] = ("f", live[p][1], "")    # unmodified since it was recorded
                continue
            r = rng.random()
            if r < 0.15:
                continue                              # recorded, but gone from the live tree
            if r < 0.55:
                live[p] = ("f", rec, rng.choice(ATTRS))    # unmodified
            elif r < 0.95:
                live[p] = ("f", t("M"), rng.choice(ATTRS))  # modified by the administrator
            else:
                live[p] = ("s", "t1")
    # a few unrelated live files, and explicit directories (COLLISION_IGNORE directory entries)
    for _ in range(rng.choice([0, 1, 2])):
        d, n = rng.choice(slots)
        live.setdefault(f"{d}/{n}", ("f", t("U"), rng.choice(ATTRS)))
    livedirs = rng.sample(["/etc/x", "/var/lib/d", "/usr/etc", "/opt/c/foo", "/etc/foo"], rng.choice([0, 1, 2]))
    livedirs = [d for d in livedirs if d not in live and d not in new and d not in old]
    probes = rng.sample([f"{d}/{n}" for d, n in slots], 4) + rng.sample(
        ["/etc", "/etc/", "/etcx/foo", "/opt/cc", "/usr/etc/q", "/x/.keep", "/.keep", "/a/.keep_b", "/etc/x/y/z", "/opt/c/[", "//etc/foo"], 2)
    return {"offset": off, "mode": mode, "coll": coll, "envd": envd, "xp": xp, "xm": xm, "xi": xi,
            "new": sorted(new.items()), "live": sorted(live.items()), "old": sorted(old.items()),
            "livedirs": livedirs, "probes": probes}


def envd_text(name, kv):
    return f"# {name}\n" + "".join(f'{k}="{v}"\n' for k, v in kv)


def off_prefix(off):
    return off.rstrip("/")


def parents(paths):
    out = set()
    for p in paths:
        while True:
            p = posixpath.dirname(p)
            if p in ("/", ""):
                break
            out.add(p)
    return out


# --------------------------------------------------------------------------- implementation driver
class Impl:
    def __init__(self):
        from pkgcore.ebuild import triggers as etrig
        from pkgcore.fs import contents, fs, livefs
        from pkgcore.merge import triggers as mtrig
        from pkgcore.merge.engine import MergeEngine
        from pkgcore.operations import observer as obs_mod

        self.etrig, self.mtrig, self.ME, self.obs = etrig, mtrig, MergeEngine, obs_mod
        self.contents, self.fs, self.livefs = contents, fs, livefs
        self.base = tempfile.mkdtemp(prefix="verif_c21_")
        # snakeoil (a dependency, not the tree under test) hashes every compared file with ~10 algorithms,
        # one thread each; md5 (what the vdb records) + sha1 + size keep simple_chksum_compare's three
        # branches alive at a fraction of the cost on a loaded machine
        from snakeoil import chksum
        chksum.get_handlers()
        for k in list(chksum.chksum_types):
            if k not in ("md5", "sha1", "size"):
                del chksum.chksum_types[k]
        # warm every lazy import before any chroot
        for mode in ("install", "replace", "uninstall"):
            d = os.path.join(self.base, "warm_" + mode)
            os.mkdir(d)
            self._run({"offset": "/o", "mode": mode, "coll": mode != "uninstall",
                       "envd": [("10x", [("CONFIG_PROTECT", "/etc /opt"), ("CONFIG_PROTECT_MASK", "/etc/m /etc/n"),
                                         ("COLLISION_IGNORE", "/a* /b")])],
                       "xp": [], "xm": [], "xi": [], "livedirs": [], "probes": ["/etc/foo"],
                       "live": [("/etc/foo", ("f", "OLD", DEF_ATTR)), ("/etc/._cfg0000_foo", ("f", "X", DEF_ATTR)), ("/etc/bar", ("f", "B", DEF_ATTR))],
                       "new": [("/etc/foo", ("f", "NEW", "600.1000.100")), ("/usr/x", ("f", "1", DEF_ATTR)), ("/usr/y", ("s", "x"))],
                       "old": [("/etc/bar", ("f", "B", "")), ("/etc/foo", ("f", "Q", ""))]}, base=d)

    def close(self):
        shutil.rmtree(self.base, ignore_errors=True)

    @staticmethod
    def _put(root, rel, node):
        p = root.rstrip("/") + rel
        os.makedirs(os.path.dirname(p), exist_ok=True)
        if node[0] == "f":
            with open(p, "wb") as f:
                f.write(node[1].encode())
            mode, uid, gid = (node[2] or DEF_ATTR).split(".")
            os.chown(p, int(uid), int(gid))
            os.chmod(p, int(mode, 8))
            os.utime(p, (1_000_000_000, 1_000_000_000))
        else:
            os.symlink(node[1], p)

    def _run(self, case, base=""):
        """with `/` (or base, for the warm-up) being the scratch root"""
        off = base + case["offset"] if base else case["offset"]
        img, mt = base + "/img", base + "/mtmp"
        os.makedirs(img)
        os.makedirs(mt)
        os.makedirs(off, exist_ok=True)
        for name, kv in case["envd"]:
            self._put(off, "/etc/env.d/" + name, ("f", envd_text(name, kv), DEF_ATTR))
        for rel, node in case["live"]:
            self._put(off, rel, node)
        for d in case["livedirs"]:
            os.makedirs(off.rstrip("/") + d, exist_ok=True)
        for rel, node in case["new"]:
            self._put(img, rel, node)
        newc = self.livefs.scan(img, offset=img)
        oldc = self.contents.contentsSet(
            [self.fs.fsFile(rel, chksums={"md5": int(hashlib.md5(node[1].encode()).hexdigest(), 16)},
                            mtime=1_000_000_000, strict=False) for rel, node in case["old"]])

        class Out(self.obs.null_output):
            warns = []

            def warn(self, msg, *a, **k):
                m = re.findall(r"^(\w+Error|\w+Exception)\b", msg, flags=re.M)
                self.warns.append(m[-1] if m else "warn")

        out = Out()
        out.warns = []
        ob = self.obs.repo_observer(out)

        class Pkg:
            def __init__(self, c):
                self.contents = c

        mode = case["mode"]
        if mode == "install":
            e = self.ME.install(mt, Pkg(newc), offset=off, disable_plugins=True, observer=ob)
        elif mode == "replace":
            e = self.ME.replace(mt, Pkg(oldc), Pkg(newc), offset=off, disable_plugins=True, observer=ob)
        else:
            e = self.ME.uninstall(mt, Pkg(oldc), offset=off, disable_plugins=True, observer=ob)
        trigs = [self.mtrig.merge(), self.mtrig.unmerge(),
                 self.etrig.ConfigProtectInstall(case["xp"], case["xm"]), self.etrig.ConfigProtectUninstall()]
        if case["coll"]:
            trigs.append(self.etrig.CollisionProtect(case["xp"], case["xm"], case["xi"]))
        for t in trigs:
            t.register(e)
        res = {"err": None, "recorded": None, "new_scanned": sorted((x.location, "d" if x.is_dir else "x") for x in newc)}
        pf = self.etrig.gen_config_protect_filter(off, case["xp"], case["xm"]).match
        igf = self.etrig.gen_collision_ignore_filter
        try:
            res["probes"] = "".join("01"[bool(pf(p))] + "01"[bool(igf(off).match(p))] for p in case["probes"])
        except Exception as ex:  # noqa: BLE001
            res["probes"] = "probe-exception:" + type(ex).__name__
        try:
            e.sanity_check()
            if mode != "uninstall":
                e.pre_merge()
                e.merge()
                e.post_merge()
                res["recorded"] = sorted(x.location for x in e.get_merged_cset())
            else:
                res["recorded"] = []
            if mode != "install":
                e.pre_unmerge()
                e.unmerge()
                e.post_unmerge()
            e.final()
        except Exception as ex:  # noqa: BLE001
            res["err"] = type(ex).__name__
            res["tb"] = traceback.format_exc()[-1200:]
        res["warns"] = out.warns
        return res

    @staticmethod
    def snapshot(root="/"):
        out = {}
        for dp, dn, fn in os.walk(root):
            if dp == root:
                dn[:] = [d for d in dn if d not in ("img", "mtmp")]
            for f in fn:
                p = os.path.join(dp, f)
                if os.path.islink(p):
                    out[p] = ["s", os.readlink(p)]
                else:
                    st = os.lstat(p)
                    with open(p, "rb") as fh:
                        out[p] = ["f", fh.read().decode("latin1"), "%o.%d.%d" % (st.st_mode & 0o7777, st.st_uid, st.st_gid)]
            for d in list(dn):
                p = os.path.join(dp, d)
                if os.path.islink(p):
                    out[p] = ["s", os.readlink(p)]
        return out

    def run_many(self, cases, workers=8):
        """run the scenarios in `workers` forked worker processes; a worker chroot()s into a fresh
        directory for every scenario and returns through a descriptor of the real root (fork is
        the expensive part on a loaded machine, so it is done once per worker, not per scenario)"""
        workers = max(1, min(workers, len(cases)))
        outs = []
        for w in range(workers):
            path = os.path.join(self.base, f"out_{w}.json")
            pid = os.fork()
            if pid == 0:
                try:
                    res = self._worker(cases[w::workers])
                    with open(path, "w") as f:
                        json.dump(res, f)
                finally:
                    os._exit(0)
            outs.append((pid, path, w))
        results = [None] * len(cases)
        for pid, path, w in outs:
            os.waitpid(pid, 0)
            try:
                with open(path) as f:
                    res = json.load(f)
                os.unlink(path)
            except (OSError, ValueError):
                res = []
            idxs = list(range(w, len(cases), workers))
            for i, r in zip(idxs, res):
                results[i] = r
        return [r if r is not None else {"err": "driver:worker-died"} for r in results]

    def _worker(self, cases):
        rootfd = os.open("/", os.O_RDONLY)
        out = []
        for case in cases:
            d = tempfile.mkdtemp(prefix="c_", dir=self.base)
            try:
                os.chroot(d)
                os.chdir("/")
                try:
                    res = self._run(case)
                    res["tree"] = self.snapshot()
                except BaseException as ex:  # noqa: BLE001
                    res = {"err": "driver:" + repr(ex), "tb": traceback.format_exc()[-1500:]}
            finally:
                os.fchdir(rootfd)
                os.chroot(".")
            shutil.rmtree(d, ignore_errors=True)
            out.append(res)
        return out

    def run(self, case):
        return self.run_many([case], 1)[0]


# --------------------------------------------------------------------------- rendering
def pre_tree(case):
    """the live tree before the run: {full location: [kind, data]} (env.d files included)"""
    pre = {}
    op = off_prefix(case["offset"])
    for name, kv in case["envd"]:
        pre[f"{op}/etc/env.d/{name}"] = ["f", envd_text(name, kv), DEF_ATTR]
    for rel, node in case["live"]:
        pre[op + rel] = list(node)
    return pre


def tokens(case):
    """file content -> token (env.d texts are replaced by E<name>)"""
    return {envd_text(n, kv): "E" + re.sub(r"[^A-Za-z0-9]", "", n) + str(i) for i, (n, kv) in enumerate(case["envd"])}


def cs(s):
    assert all(c == "\t" or 32 <= ord(c) < 127 for c in s), s
    return '"' + s.replace('"', '""') + '"%bs'


def chk_text(s):
    assert not (set(s) & SEP), s
    return s


def fdata(nd, tk=None):
    """the data field of a node row: "content,attrs" for a file, the target for a symlink"""
    if nd[0] != "f":
        return nd[1] if nd[0] == "s" else ""
    return (tk or {}).get(nd[1], nd[1]) + "," + nd[2]


def show_tree(tree, tk):
    rows = []
    for p, nd in tree.items():
        rows.append(f"{p};{nd[0]};{fdata(nd, tk)}")
    return "|".join(sorted(rows))


def c_input(case, new_entries):
    op = off_prefix(case["offset"])
    tk = tokens(case)
    pre = pre_tree(case)
    fs_rows = [f"{chk_text(p)};{nd[0]};{fdata(nd, tk)}" for p, nd in sorted(pre.items())]
    fs_rows += [f"{op}{d};d;" for d in case["livedirs"]]
    new_rows = [f"{p};{nd[0]};{fdata(nd)}" for p, nd in new_entries]
    old_rows = [f"{p};{nd[0]};{fdata(nd)}" for p, nd in case["old"]]
    env_rows = [";".join([chk_text(n)] + [f"{k}^{chk_text(v)}" for k, v in kv]) for n, kv in case["envd"]]
    mode = {"install": "0", "replace": "1", "uninstall": "2"}[case["mode"]] + ("1" if case["coll"] else "0")
    secs = [mode, case["offset"], "|".join(env_rows), "|".join(case["xp"]), "|".join(case["xm"]), "|".join(case["xi"]),
            "|".join(fs_rows), "|".join(new_rows), "|".join(old_rows), "|".join(case["probes"])]
    for row in fs_rows + new_rows + old_rows:
        assert row.count(";") == 2 and row.count(",") <= 1 and not (set(row) & set("@|^\"")), row
    txt = "@".join(secs)
    assert txt.count("@") == 9
    return cs(txt)


def new_entries_of(case):
    """the new package as the image scan yields it: every parent directory + the entries"""
    ents = [(p, tuple(n)) for p, n in case["new"]]
    ents += [(d, ("d",)) for d in sorted(parents(p for p, _ in case["new"]))]
    return sorted(ents)


def c_result(case, res):
    if res.get("err") == "BlockModification":
        return Raw("(VErr [66%N])")
    if res.get("err"):
        return Err(res["err"])
    tk = tokens(case)
    txt = "|".join(sorted(res["recorded"])) + "@" + show_tree(res["tree"], tk) + "@" + res["probes"]
    return Raw("(VT " + cs(txt) + ")")


# --------------------------------------------------------------------------- (B) the statement
def intended(case):
    """effective settings, computed from what the generator wrote (not from collapse_envd)"""
    def valid(n):
        return not (n.endswith((".bak", "~")) or n.startswith("._cfg") or len(n) <= 2 or not n[:2].isdigit())

    files = sorted((n, dict(kv)) for n, kv in case["envd"] if valid(n))
    colon = set(w for _, kv in files for w in kv.get("COLON_SEPARATED", "").split())
    space = set(w for _, kv in files for w in kv.get("SPACE_SEPARATED", "").split())

    def words(key, v):
        return [x for x in v.split(":") if x] if key in colon else v.split()

    cp = [w for _, kv in files if "CONFIG_PROTECT" in kv for w in words("CONFIG_PROTECT", kv["CONFIG_PROTECT"])]
    cpm = [w for _, kv in files if "CONFIG_PROTECT_MASK" in kv for w in words("CONFIG_PROTECT_MASK", kv["CONFIG_PROTECT_MASK"])]
    civ = [kv["COLLISION_IGNORE"] for _, kv in files if "COLLISION_IGNORE" in kv]
    if "COLLISION_IGNORE" in colon or "COLLISION_IGNORE" in space:
        ci = [w for v in civ for w in words("COLLISION_IGNORE", v)]
    else:
        ci = civ[-1].split() if civ else []
    return cp, cpm, ci


def under(rel, entries):
    return any(rel.startswith(posixpath.normpath(x).rstrip("/") + "/") for x in entries)


def ignored(rel, pats, isdir):
    for x in list(pats) + ["*/.keep", "*/.keep_*"]:
        if not x.endswith("/*") and isdir(x):
            x = x.rstrip("/") + "/*"
        if fnmatch.fnmatchcase(rel, x):
            return True
    return False


def oracle(case, res):
    """failures of the statement on this run: list of dicts"""
    bad = []
    if res.get("err"):
        return bad
    op = off_prefix(case["offset"])
    pre, post = pre_tree(case), res["tree"]
    cp, cpm, ci = intended(case)
    new = dict(case["new"])
    old = dict(case["old"])
    alldirs = parents(pre) | {op + d for d in case["livedirs"]}

    def isdir_at(tree_dirs):
        return lambda x: posixpath.normpath(op + "/" + x.lstrip("/")) in tree_dirs or posixpath.normpath(op + "/" + x.lstrip("/")) == "/"

    isdir0 = isdir_at(alldirs)
    for rel, inc in new.items():
        P = op + rel
        if P not in pre or pre[P][0] != "f":
            continue
        if not under(rel, cp + case["xp"] + ["/etc"]) or under(rel, cpm + case["xm"]) or ignored(rel, ci, isdir0):
            continue
        if inc[0] == "f" and inc[1] == pre[P][1]:
            continue
        # protected, differing
        what = None
        if post.get(P) != pre[P]:
            what = "a protected configuration file was overwritten by the merge"
        else:
            d, n = posixpath.split(P)
            pend = {}
            for q, node in pre.items():
                m = re.fullmatch(re.escape(d.rstrip("/")) + r"/\._cfg(\d{4})_" + re.escape(n), q)
                if m and node[0] == "f":
                    pend[int(m.group(1))] = node[1]
            ident = [k for k, v in pend.items() if inc[0] == "f" and v == inc[1]]
            written = [int(m.group(1)) for q, node in post.items()
                       for m in [re.fullmatch(re.escape(d.rstrip("/")) + r"/\._cfg(\d+)_" + re.escape(n), q)]
                       if m and list(node) == list(inc) and (q not in pre or pre[q] != node or int(m.group(1)) in ident)]
            if not written:
                what = "the incoming file was not written as ._cfgNNNN_<name> beside the protected file"
            elif ident:
                fresh = [q for q in post if q not in pre
                         and re.fullmatch(re.escape(d.rstrip("/")) + r"/\._cfg-?\d+_" + re.escape(n), q)]
                if fresh or not any(w in ident for w in written):
                    what = "an identical pending update exists but its number was not reused"
            elif not any(all(w > k for k in pend) for w in written):
                what = "the new ._cfg number does not exceed every existing number"
            for q in pend:
                qq = f"{d.rstrip('/')}/._cfg{q:04d}_{n}"
                if what is None and post.get(qq) != pre[qq] and not (q in ident):
                    what = "a differing pending update was overwritten"
            if what is None and (rel not in res["recorded"] or any(posixpath.basename(r).startswith("._cfg") for r in res["recorded"])):
                what = "the recorded contents do not keep the real name"
        if what:
            bad.append({"what": what, "file": P, "before": pre[P], "after": post.get(P), "incoming": inc})
    if case["mode"] != "install":
        # the tree at pre_unmerge: only locations of the new package (and their ._cfg names) changed
        dirs1 = alldirs | parents(op + r for r in new)
        isdir1 = isdir_at(dirs1)
        for rel, rec in old.items():
            P = op + rel
            if rel in new or P not in pre or pre[P][0] != "f" or pre[P][1] == rec[1]:
                continue
            if not under(rel, cp + ["/etc"]) or under(rel, cpm) or ignored(rel, ci, isdir1):
                continue
            if post.get(P) != pre[P]:
                bad.append({"what": "a protected configuration file that differs from what the package recorded was removed",
                            "file": P, "before": pre[P], "recorded": rec, "after": post.get(P)})
    return bad


def nontrivial_key(case):
    """non-trivial: a pre-existing regular file under /etc or a CONFIG_PROTECT entry whose content differs
    from the incoming entry (install/replace) or from the recorded one (replace/uninstall)"""
    cp, _, _ = intended(case)
    live = dict(case["live"])
    keys = []
    for rel, inc in case["new"]:
        if rel in live and live[rel][0] == "f" and tuple(inc) != tuple(live[rel]) and under(rel, cp + case["xp"] + ["/etc"]):
            keys.append(("i", rel))
    for rel, rec in case["old"]:
        if rel in live and live[rel][0] == "f" and live[rel][1] != rec[1] and under(rel, cp + ["/etc"]):
            keys.append(("u", rel))
    if not keys:
        return None
    return (case["offset"], case["mode"], tuple(keys), tuple(sorted(n for n, _ in case["envd"])),
            tuple(p for p, _ in case["live"] if "._cfg" in p))


# --------------------------------------------------------------------------- main
def load_corpus():
    from .common import VERIF
    out = []
    d = VERIF / "corpus" / "C21"
    if d.is_dir():
        for p in sorted(d.glob("*.json")):
            c = json.loads(p.read_text())
            for k in ("new", "live", "old"):
                c[k] = [(a, tuple(b)) for a, b in c[k]]
            c["envd"] = [(n, [tuple(x) for x in kv]) for n, kv in c["envd"]]
            out.append(c)
    return out


def main(chk: Check):
    chk.rule("random scenario = offset x env.d files (CONFIG_PROTECT/_MASK/COLLISION_IGNORE incl. directory entries, "
             "declarations, ignored file names) x extras x live tree with pending ._cfg files (well/ill-formed) x new "
             "package x old package x mode (install/replace/uninstall, +-CollisionProtect), run by a real MergeEngine "
             "in a chroot; non-trivial = a pre-existing regular file under /etc or a CONFIG_PROTECT entry differs from "
             "the incoming (or recorded) entry; distinct by (offset, mode, those files, env.d names, pending names)")
    ok = chk.build(["C21/Prop_C21.vo"])
    if ok:
        chk.check_assumptions("C21/Prop_C21.v")
    chk.lint(["C21"])
    chk.check_fingerprint(ANCHORS)

    import time
    tm = {"build+lint": round(time.time() - chk.t0, 1)}
    impl = Impl()
    try:
        # MergeEngine.uninstall only handles an offset with fixes/C20-1 (C20's repair); probe it
        pr = impl.run({"offset": "/o", "mode": "uninstall", "coll": False, "envd": [], "xp": [], "xm": [], "xi": [],
                       "livedirs": [], "probes": [], "live": [("/usr/x", ("f", "X", DEF_ATTR))], "new": [], "old": [("/usr/x", ("f", "X", ""))]})
        un_off = pr.get("err") is None and "/o/usr/x" not in pr.get("tree", {"/o/usr/x": 1})
        if not un_off:
            chk.note("MergeEngine.uninstall does not apply the offset before the livefs intersection (fixes/C20-1 not "
                     "in this tree): uninstall mode is exercised with offset / only; replace mode covers the offsets")
        cases = load_corpus()
        n_corpus = len(cases)
        for _ in range(chk.n(160, 2000)):
            cases.append(gen_case(chk.rng, un_off))
        rows, prop_bad, hist = [], [], {}
        t1 = time.time()
        results = impl.run_many(cases)
        tm["implementation"] = round(time.time() - t1, 1)
        for idx, (case, res) in enumerate(zip(cases, results)):
            if str(res.get("err", "")).startswith("driver:"):
                chk.violation("correspondence", {"what": "the driver could not run a scenario", "input": case, "result": res}, True)
                continue
            ne = new_entries_of(case)
            if case["mode"] != "uninstall" and sorted(p for p, _ in ne) != sorted(p for p, _ in res.get("new_scanned", [])):
                chk.violation("correspondence", {"what": "image scan differs from the generator's idea of the package",
                                                 "input": case, "scan": res.get("new_scanned")}, True)
                continue
            rows.append((c_input(case, ne), c_result(case, res), case, res))
            hist[(case["mode"], case["offset"])] = hist.get((case["mode"], case["offset"]), 0) + 1
            k = nontrivial_key(case)
            if k:
                chk.nontrivial(k)
            for b in oracle(case, res):
                prop_bad.append((case, b, res))
            if res.get("warns"):
                prop_bad.append((case, {"what": "a trigger raised and the engine suppressed it: " + ",".join(res["warns"])}, res))
            if idx in (n_corpus, n_corpus + 7, n_corpus + 31):
                chk.sample({"stream": "merge", "case": case, "recorded": res.get("recorded"), "err": res.get("err"),
                            "tree": show_tree(res.get("tree", {}), tokens(case))})
        chk.count("merge", len(rows))
        chk.cov["distribution"] = {f"{m} {o}": n for (m, o), n in sorted(hist.items())}
        mism = []
        t1 = time.time()
        if ok and rows:
            r = chk.coq_eval("merge", IMPORTS, "bstr", [(a, b) for a, b, _, _ in rows],
                             ["mismatches run_merge cases",
                              # the theorems' domain condition on the package, evaluated on what the image scan delivered
                              "where_ (fun i _ => negb (locs_wf (inst_of (dec_input i)))) cases"], shard=130)
            if r is not None:
                mism = r[0]
                for i in r[1][:2]:
                    chk.violation("correspondence", {"what": "a scanned package has a location outside the theorems' domain "
                                                             "(Spec_C21.locs_wf: dirname/basename do not join back)",
                                                     "input": rows[i][2]}, no_input=True)
        tm["coq"] = round(time.time() - t1, 1)
        chk.cov["timing_s"] = tm
        for case, b, res in prop_bad[:4]:
            chk.violation("property", {"what": b["what"], "input": case, "detail": b,
                                       "recorded": res.get("recorded"), "warns": res.get("warns")})
        for i in mism[:3]:
            _, _, case, res = rows[i]
            chk.violation("correspondence",
                          {"what": "implementation and Model_C21.run disagree (the theorems of Prop_C21 no longer speak about this code)",
                           "input": case, "implementation": {"err": res.get("err"), "recorded": res.get("recorded"),
                                                              "tree": show_tree(res.get("tree", {}), tokens(case)),
                                                              "probes": res.get("probes"), "tb": res.get("tb")}},
                          no_input=not prop_bad)
    finally:
        impl.close()


def replay(chk, data):
    case = data.get("detail", {}).get("input")
    if not isinstance(case, dict) or "mode" not in case:
        print("no scenario recorded in this file")
        return
    for k in ("new", "live", "old"):
        case[k] = [(a, tuple(b)) for a, b in case[k]]
    case["envd"] = [(n, [tuple(x) for x in kv]) for n, kv in case["envd"]]
    impl = Impl()
    try:
        res = impl.run(case)
        print("implementation:", json.dumps({k: res.get(k) for k in ("err", "recorded", "warns", "probes")}))
        print("tree:", show_tree(res.get("tree", {}), tokens(case)))
        print("statement failures:", json.dumps(oracle(case, res)))
        r = chk.coq_eval("replay", IMPORTS, "bstr", [(c_input(case, new_entries_of(case)), c_result(case, res))],
                         ["mismatches run_merge cases"])
        print("model agrees with implementation:", r is not None and not r[0])
    finally:
        impl.close()
