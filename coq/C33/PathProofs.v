(* C33/PathProofs.v — lemmas about the path functions of Path.v, and the proof that the
   relative link computed by get_relative_dosym_target resolves lexically to the requested
   absolute target, for EVERY absolute target and EVERY link name. *)
From Coq Require Import List NArith Bool Arith Lia.
Import ListNotations.
From Verif Require Import Base.Val C33.Path.

Definition noslash (c : str) : Prop := forallb (fun x => negb (is_sl x)) c = true.
Definition plain (c : str) : Prop := c <> [] /\ c <> dot /\ c <> dotdot.

(* ------------------------------------------------------------------ split / join *)
Lemma split_sl_nonnil s : split_sl s <> [].
Proof. destruct s as [|c r]; cbn; [discriminate|]. destruct (is_sl c); [discriminate|].
  destruct (split_sl r); discriminate. Qed.

Lemma split_app a b : split_sl (a ++ SL :: b) = split_sl a ++ split_sl b.
Proof.
  induction a as [|c a IH]; cbn.
  - reflexivity.
  - destruct (is_sl c).
    + now rewrite IH.
    + rewrite IH. pose proof (split_sl_nonnil a). destruct (split_sl a); [congruence|reflexivity].
Qed.

Lemma split_noslash_single c : noslash c -> split_sl c = [c].
Proof.
  unfold noslash. induction c as [|x c IH]; cbn; intro H; [reflexivity|].
  apply andb_true_iff in H as [H1 H2]. apply negb_true_iff in H1. rewrite H1, (IH H2). reflexivity.
Qed.

Lemma split_all_noslash s : Forall noslash (split_sl s).
Proof.
  induction s as [|c r IH]; cbn.
  - repeat constructor.
  - destruct (is_sl c) eqn:E.
    + constructor; [reflexivity|exact IH].
    + destruct (split_sl r) as [|h t]; [repeat constructor; unfold noslash; cbn; now rewrite E|].
      inversion IH; subst. constructor; [|assumption]. unfold noslash in *. cbn. now rewrite E.
Qed.

Lemma split_join cs : Forall noslash cs -> cs <> [] -> split_sl (join_sl cs) = cs.
Proof.
  induction cs as [|c r IH]; intros HF HN; [congruence|].
  inversion HF; subst. destruct r as [|c2 r'].
  - cbn. now apply split_noslash_single.
  - change (join_sl (c :: c2 :: r')) with (c ++ SL :: join_sl (c2 :: r')).
    rewrite split_app, split_noslash_single by assumption. rewrite IH; [reflexivity|assumption|discriminate].
Qed.

Lemma noslash_dotdot : noslash dotdot. Proof. reflexivity. Qed.
Lemma noslash_dot : noslash dot. Proof. reflexivity. Qed.

(* ------------------------------------------------------------------ the normpath loop (absolute) *)
Definition run (stk : list str) (cs : list str) : list str := fold_left (norm_step true) cs stk.

Lemma run_cons stk c r : run stk (c :: r) = run (norm_step true stk c) r.
Proof. reflexivity. Qed.
Lemma run_nil stk : run stk [] = stk.
Proof. reflexivity. Qed.
Global Arguments run : simpl never.

Lemma run_app stk a b : run stk (a ++ b) = run (run stk a) b.
Proof. apply fold_left_app. Qed.

Lemma str_eqb_neq a b : a <> b -> str_eqb a b = false.
Proof. intro H. destruct (str_eqb a b) eqn:E; [apply str_eqb_eq in E; congruence|reflexivity]. Qed.

Lemma step_plain stk c : plain c -> norm_step true stk c = c :: stk.
Proof.
  intros (H1 & H2 & H3). unfold norm_step.
  destruct c; [congruence|]. cbn [is_nil orb].
  rewrite (str_eqb_neq _ _ H2), (str_eqb_neq _ _ H3). reflexivity.
Qed.

Lemma step_keeps stk c : Forall plain stk -> Forall plain (norm_step true stk c).
Proof.
  intro H. unfold norm_step.
  destruct (is_nil c) eqn:E1; [exact H|]. cbn [orb].
  destruct (str_eqb c dot) eqn:E2; [exact H|].
  destruct (str_eqb c dotdot) eqn:E3; cbn [negb].
  - destruct stk as [|top rest]; [exact H|]. inversion H; subst.
    destruct H2 as (_ & _ & H2). rewrite (str_eqb_neq _ _ H2). assumption.
  - constructor; [|exact H]. repeat split; intro; subst; cbn in *; congruence.
Qed.

Lemma step_keeps_noslash ab stk c : Forall noslash stk -> noslash c -> Forall noslash (norm_step ab stk c).
Proof.
  intros H Hc. unfold norm_step.
  destruct (is_nil c || str_eqb c dot); [exact H|].
  destruct (negb (str_eqb c dotdot)); [constructor; assumption|].
  destruct stk as [|top rest].
  - destruct ab; [exact H|constructor; assumption].
  - destruct (str_eqb top dotdot); [constructor; assumption|now inversion H].
Qed.

Lemma run_keeps cs : forall stk, Forall plain stk -> Forall plain (run stk cs).
Proof. induction cs as [|c r IH]; intros stk H; [exact H|]. rewrite run_cons. apply IH, step_keeps, H. Qed.

Lemma run_keeps_noslash cs : forall stk, Forall noslash stk -> Forall noslash cs -> Forall noslash (run stk cs).
Proof.
  induction cs as [|c r IH]; intros stk H Hc; [exact H|]. inversion Hc; subst. rewrite run_cons.
  apply IH; [apply step_keeps_noslash; assumption|assumption].
Qed.

Lemma run_plain cs : forall stk, Forall plain cs -> run stk cs = rev cs ++ stk.
Proof.
  induction cs as [|c r IH]; intros stk H; [reflexivity|]. inversion H; subst.
  rewrite run_cons, step_plain by assumption. rewrite IH by assumption. cbn [rev]. now rewrite <- app_assoc.
Qed.

Lemma run_pops s1 : forall s2, Forall plain s1 -> run (s1 ++ s2) (repeat dotdot (length s1)) = s2.
Proof.
  induction s1 as [|c r IH]; intros s2 H; [reflexivity|]. inversion H; subst.
  destruct H2 as (_ & _ & H2). cbn [length repeat app]. rewrite run_cons.
  unfold norm_step. cbn [is_nil dotdot orb]. change (str_eqb [46%N; 46%N] dot) with false.
  change (str_eqb [46%N; 46%N] dotdot) with true. cbn [negb]. rewrite (str_eqb_neq _ _ H2).
  apply IH. assumption.
Qed.

(* the resolved components of any string: plain and slash-free *)
Lemma resolve_plain p : Forall plain (resolve p).
Proof. unfold resolve, norm_comps. apply Forall_rev. apply (run_keeps _ []). constructor. Qed.
Lemma resolve_noslash p : Forall noslash (resolve p).
Proof.
  unfold resolve, norm_comps. apply Forall_rev.
  apply (run_keeps_noslash _ []); [constructor|apply split_all_noslash].
Qed.

(* ------------------------------------------------------------------ normpath of an absolute path *)
Lemma lead_abs p : isabs p = true -> lead_slashes p = 1 \/ lead_slashes p = 2.
Proof.
  destruct p as [|a r]; cbn; [discriminate|]. intros ->.
  destruct r as [|b r2]; [now left|]. destruct (is_sl b); [|now left].
  destruct r2 as [|c r3]; [now right|]. destruct (is_sl c); [now left|now right].
Qed.

Lemma normpath_abs p : isabs p = true ->
  normpath p = repeat SL (lead_slashes p) ++ join_sl (resolve p).
Proof.
  intro H. unfold normpath. destruct p as [|a r]; [discriminate|].
  destruct (lead_abs _ H) as [E|E]; rewrite E; reflexivity.
Qed.

Lemma filter_nonempty_plain cs : Forall plain cs -> filter (fun c : str => negb (is_nil c)) cs = cs.
Proof.
  induction 1 as [|c r (H & _) _ IH]; cbn; [reflexivity|]. destruct c; [congruence|]. cbn. now rewrite IH.
Qed.

Lemma comps_of_joined cs : Forall plain cs -> Forall noslash cs -> nonempty_comps (join_sl cs) = cs.
Proof.
  intros HP HN. unfold nonempty_comps. destruct cs as [|c r]; [reflexivity|].
  rewrite split_join by (assumption || discriminate). now apply filter_nonempty_plain.
Qed.

Lemma nonempty_comps_slash s : nonempty_comps (SL :: s) = nonempty_comps s.
Proof. reflexivity. Qed.

(* the component list relpath extracts from abspath(p) is the lexical resolution of p *)
Lemma comps_normpath_abs p : isabs p = true -> nonempty_comps (normpath p) = resolve p.
Proof.
  intro H. rewrite normpath_abs by assumption.
  destruct (lead_abs _ H) as [E|E]; rewrite E; cbn [repeat app]; rewrite !nonempty_comps_slash;
    apply comps_of_joined; [apply resolve_plain|apply resolve_noslash|apply resolve_plain|apply resolve_noslash].
Qed.

Lemma join2_abs cwd p : isabs p = true -> join2 cwd p = p.
Proof. unfold join2. now intros ->. Qed.

(* ------------------------------------------------------------------ common prefix *)
Lemma common_len_spec a : forall b,
  firstn (common_len a b) a = firstn (common_len a b) b
  /\ common_len a b <= length a /\ common_len a b <= length b.
Proof.
  induction a as [|x a IH]; intros [|y b]; cbn; try (repeat split; lia).
  destruct (str_eqb x y) eqn:E; cbn; [|repeat split; lia].
  apply str_eqb_eq in E; subst. destruct (IH b) as (H1 & H2 & H3). rewrite H1. repeat split; lia.
Qed.

(* ------------------------------------------------------------------ join of plain components *)
Lemma isabs_app_plain c r : c <> [] -> noslash c -> isabs (c ++ r) = false.
Proof.
  destruct c as [|x c]; [congruence|]. unfold noslash. cbn. intros _ H.
  apply andb_true_iff in H as [H _]. now apply negb_true_iff in H.
Qed.

Lemma last_noslash c : c <> [] -> noslash c -> exists x l, rev c = x :: l /\ is_sl x = false.
Proof.
  intros HN H. destruct (rev c) as [|x l] eqn:E.
  - apply (f_equal (@rev N)) in E. rewrite rev_involutive in E. cbn in E. congruence.
  - exists x, l. split; [reflexivity|]. unfold noslash in H. rewrite forallb_forall in H.
    apply negb_true_iff, H, in_rev. rewrite E. now left.
Qed.

Lemma join_many_plain rest : forall acc c,
  Forall (fun c => c <> [] /\ noslash c) (c :: rest) ->
  join_many (acc ++ c) rest = acc ++ join_sl (c :: rest).
Proof.
  induction rest as [|d r IH]; intros acc c H; [reflexivity|].
  inversion H as [|? ? [Hc1 Hc2] H']; subst. inversion H' as [|? ? [Hd1 Hd2] H'']; subst.
  unfold join_many. cbn [fold_left]. fold (join_many (join2 (acc ++ c) d) r).
  assert (Hd : isabs d = false) by (rewrite <- (app_nil_r d); now apply isabs_app_plain).
  unfold join2. rewrite Hd.
  rewrite rev_app_distr. destruct (last_noslash c Hc1 Hc2) as (x & l & E & Ex). rewrite E. cbn [app]. rewrite Ex.
  replace ((acc ++ c) ++ SL :: d) with ((acc ++ c ++ [SL]) ++ d) by (rewrite <- !app_assoc; reflexivity).
  rewrite IH by assumption.
  change (join_sl (c :: d :: r)) with (c ++ SL :: join_sl (d :: r)).
  rewrite <- !app_assoc. reflexivity.
Qed.

(* ------------------------------------------------------------------ the relative link resolves *)
Lemma is_sl_eq c : is_sl c = true -> c = SL.
Proof. unfold is_sl. intro H. now apply N.eqb_eq in H. Qed.

Lemma run_nilcomp stk : run stk [[]] = stk.
Proof. reflexivity. Qed.

(* joining a relative string onto a non-empty directory: resolution continues from the directory *)
Lemma run_split_join2 D R : D <> [] -> isabs R = false ->
  run [] (split_sl (join2 D R)) = run (run [] (split_sl D)) (split_sl R).
Proof.
  intros HD HR. unfold join2. rewrite HR. destruct (rev D) as [|c l] eqn:E.
  - apply (f_equal (@rev N)) in E. rewrite rev_involutive in E. cbn in E. congruence.
  - assert (HDl : D = rev l ++ [c]) by (rewrite <- (rev_involutive D), E; reflexivity).
    destruct (is_sl c) eqn:Ec.
    + apply is_sl_eq in Ec. subst c. rewrite HDl at 1 2. rewrite <- app_assoc. cbn [app].
      rewrite !split_app, !run_app. cbn [split_sl]. now rewrite run_nilcomp.
    + now rewrite split_app, run_app.
Qed.

Lemma relstring_not_abs c rest : c <> [] -> noslash c -> Forall (fun c => c <> [] /\ noslash c) rest ->
  join_many c rest = join_sl (c :: rest).
Proof.
  intros H1 H2 H3. change c with ([] ++ c) at 1. rewrite join_many_plain; [reflexivity|].
  constructor; [split|]; assumption.
Qed.

Lemma plain_nonempty_noslash cs : Forall plain cs -> Forall noslash cs ->
  Forall (fun c => c <> [] /\ noslash c) cs.
Proof.
  intros HP HN. rewrite Forall_forall in *. intros c Hc. split; [apply (HP c Hc)|apply (HN c Hc)].
Qed.

Lemma repeat_dotdot_ok k : Forall (fun c => c <> [] /\ noslash c) (repeat dotdot k).
Proof. induction k; cbn; constructor; [split; [discriminate|reflexivity]|assumption]. Qed.

Lemma Forall_skipn {A} (P : A -> Prop) n l : Forall P l -> Forall P (skipn n l).
Proof. revert l; induction n; intros l H; [exact H|]. destruct l; [constructor|]. inversion H; now apply IHn. Qed.
Lemma Forall_firstn {A} (P : A -> Prop) n l : Forall P l -> Forall P (firstn n l).
Proof. revert l; induction n; intros l H; [constructor|]. destruct l; [constructor|]. inversion H; constructor; [assumption|now apply IHn]. Qed.

Theorem rel_resolves_proof : forall cwd t D, isabs t = true -> isabs D = true ->
  resolve (join2 D (relpath cwd t D)) = resolve t.
Proof.
  intros cwd t D Ht HD.
  assert (HDn : D <> []) by (destruct D; [discriminate|discriminate]).
  unfold relpath, abspath. rewrite (join2_abs cwd t Ht), (join2_abs cwd D HD).
  rewrite !comps_normpath_abs by assumption.
  set (sl := resolve D). set (pl := resolve t).
  destruct (common_len_spec sl pl) as (Hpre & Hle1 & Hle2). set (i := common_len sl pl) in *.
  pose proof (resolve_plain D) as PD. pose proof (resolve_noslash D) as ND.
  pose proof (resolve_plain t) as Pt. pose proof (resolve_noslash t) as Nt. fold sl in PD, ND. fold pl in Pt, Nt.
  assert (Hstk : run [] (split_sl D) = rev sl) by (unfold sl, resolve, norm_comps; now rewrite rev_involutive).
  unfold resolve at 1. unfold norm_comps. fold (run [] (split_sl (join2 D
     match repeat dotdot (length sl - i) ++ skipn i pl with [] => dot | c :: rest => join_many c rest end))).
  destruct (repeat dotdot (length sl - i) ++ skipn i pl) as [|c rest] eqn:Erel.
  - (* the two resolve to the same directory: "." *)
    apply app_eq_nil in Erel as [E1 E2].
    assert (Hk : length sl - i = 0) by (destruct (length sl - i); [reflexivity|discriminate]).
    assert (Hi : length pl <= i).
    { destruct (Nat.le_gt_cases (length pl) i) as [L|L]; [exact L|].
      apply (f_equal (@length str)) in E2. rewrite skipn_length in E2. cbn in E2. lia. }
    rewrite run_split_join2 by (assumption || reflexivity).
    rewrite Hstk. cbn [split_sl dot is_sl N.eqb Pos.eqb]. 
    change (split_sl [46%N]) with [dot]. rewrite run_cons, run_nil.
    unfold norm_step. cbn [is_nil orb dot str_eqb N.eqb Pos.eqb andb].
    rewrite <- (firstn_all sl), <- (firstn_all pl).
    replace (length sl) with i by lia. replace (length pl) with i by lia.
    rewrite Hpre, rev_involutive. reflexivity.
  - assert (Hall : Forall (fun c => c <> [] /\ noslash c) (c :: rest)).
    { rewrite <- Erel. apply Forall_app. split; [apply repeat_dotdot_ok|].
      apply Forall_skipn, plain_nonempty_noslash; assumption. }
    inversion Hall as [|? ? [Hc1 Hc2] Hrest]; subst.
    rewrite relstring_not_abs by assumption.
    assert (Hna : isabs (join_sl (c :: rest)) = false).
    { destruct rest as [|c2 rest2]; [cbn; rewrite <- (app_nil_r c); now apply isabs_app_plain|].
      change (join_sl (c :: c2 :: rest2)) with (c ++ SL :: join_sl (c2 :: rest2)). now apply isabs_app_plain. }
    rewrite run_split_join2 by assumption.
    rewrite split_join; [|rewrite Forall_forall in *; intros x Hx; apply (Hall x Hx)|discriminate].
    transitivity (rev (run (run [] (split_sl D)) (repeat dotdot (length sl - i) ++ skipn i pl)));
      [f_equal; f_equal; symmetry; exact Erel|].
    rewrite run_app. rewrite Hstk.
    rewrite <- (firstn_skipn i sl) at 1. rewrite rev_app_distr.
    replace (length sl - i) with (length (rev (skipn i sl))) by (rewrite rev_length, skipn_length; reflexivity).
    rewrite run_pops by (apply Forall_rev, Forall_skipn, PD).
    rewrite run_plain by (apply Forall_skipn, Pt).
    rewrite Hpre, <- rev_app_distr, firstn_skipn, rev_involutive. reflexivity.
Qed.

(* ------------------------------------------------------------------ dosym -r *)
Lemma absdir_isabs l : isabs (absdir l) = true.
Proof.
  unfold absdir, join2. destruct (isabs (dirname l)) eqn:E; [exact E|]. reflexivity.
Qed.

Theorem dosym_r_resolves_proof : forall cwd t l, isabs t = true ->
  resolve (join2 (absdir l) (relative_target cwd t l)) = resolve t.
Proof. intros. apply rel_resolves_proof; [assumption|apply absdir_isabs]. Qed.

(* dirname of an absolute path is absolute, so for an absolute link name the directory the
   link lives in is just dirname *)
Lemma dropwhile_snoc {A} (f : A -> bool) l x :
  (exists l', dropwhile f (l ++ [x]) = l' ++ [x]) \/ forallb f (l ++ [x]) = true.
Proof.
  induction l as [|y l IH]; cbn.
  - destruct (f x); [now right|left; now exists []].
  - destruct (f y); cbn; [exact IH|left; now exists (y :: l)].
Qed.

Lemma dirname_abs l : isabs l = true -> isabs (dirname l) = true.
Proof.
  destruct l as [|a l']; [discriminate|]. cbn [isabs]. intro Ha. apply is_sl_eq in Ha. subst a.
  unfold dirname. cbn [rev].
  destruct (dropwhile_snoc (fun c => negb (is_sl c)) (rev l') SL) as [(r' & E)|E].
  - rewrite E. destruct (forallb is_sl (r' ++ [SL])) eqn:F.
    + rewrite rev_app_distr. reflexivity.
    + destruct (dropwhile_snoc is_sl r' SL) as [(r2 & E2)|E2]; [|congruence].
      rewrite E2, rev_app_distr. reflexivity.
  - rewrite forallb_app in E. cbn in E. rewrite andb_false_r in E. discriminate.
Qed.

Lemma absdir_of_abs l : isabs l = true -> absdir l = dirname l.
Proof. intro H. unfold absdir. apply join2_abs, dirname_abs, H. Qed.

(* the statement in the form of DESIGN §6 C33, on resolved components *)
Theorem dosym_r_resolves_abs_proof : forall cwd t l, isabs t = true -> isabs l = true ->
  resolve (join2 (dirname l) (relative_target cwd t l)) = resolve t.
Proof. intros cwd t l Ht Hl. rewrite <- (absdir_of_abs l Hl). now apply dosym_r_resolves_proof. Qed.

(* ------------------------------------------------------------------ the normpath form *)
Lemma relpath_first cwd t D : isabs t = true -> isabs D = true ->
  exists x r, relpath cwd t D = x :: r /\ is_sl x = false.
Proof.
  intros Ht HD. unfold relpath, abspath. rewrite (join2_abs cwd t Ht), (join2_abs cwd D HD).
  rewrite !comps_normpath_abs by assumption.
  set (sl := resolve D). set (pl := resolve t). set (i := common_len sl pl).
  destruct (repeat dotdot (length sl - i) ++ skipn i pl) as [|c rest] eqn:Erel.
  - exists 46%N, []. split; reflexivity.
  - assert (Hall : Forall (fun c => c <> [] /\ noslash c) (c :: rest)).
    { rewrite <- Erel. apply Forall_app. split; [apply repeat_dotdot_ok|].
      apply Forall_skipn, plain_nonempty_noslash; [apply resolve_plain|apply resolve_noslash]. }
    inversion Hall as [|? ? [Hc1 Hc2] Hrest]; subst.
    rewrite relstring_not_abs by assumption.
    destruct c as [|x c']; [congruence|]. unfold noslash in Hc2. cbn in Hc2.
    apply andb_true_iff in Hc2 as [Hx _]. apply negb_true_iff in Hx.
    destruct rest as [|c2 rest2]; [exists x, c'|exists x, (c' ++ SL :: join_sl (c2 :: rest2))]; split; (reflexivity || assumption).
Qed.

Lemma lead_join2 D x r : isabs D = true -> is_sl x = false ->
  lead_slashes (join2 D (x :: r)) = lead_slashes D /\ isabs (join2 D (x :: r)) = true.
Proof.
  intros HD Hx. unfold join2. cbn [isabs]. rewrite Hx.
  destruct D as [|a [|b [|c D']]]; [discriminate| | |]; cbn [isabs] in HD.
  - cbn. rewrite HD. cbn. rewrite HD, Hx. split; reflexivity.
  - cbn [rev app]. destruct (is_sl b) eqn:Eb; cbn; rewrite HD, Eb, ?Hx; split; reflexivity.
  - destruct (rev (a :: b :: c :: D')) as [|z zs] eqn:E;
      [apply (f_equal (@rev N)) in E; rewrite rev_involutive in E; discriminate|].
    destruct (is_sl z); cbn; rewrite HD; split; reflexivity.
Qed.

Theorem dosym_r_normpath_partial_proof : forall cwd t l, isabs t = true ->
  lead_slashes (absdir l) = lead_slashes t ->
  normpath (join2 (absdir l) (relative_target cwd t l)) = normpath t.
Proof.
  intros cwd t l Ht Hlead. pose proof (absdir_isabs l) as HD.
  destruct (relpath_first cwd t (absdir l) Ht HD) as (x & r & E & Ex).
  unfold relative_target. pose proof (rel_resolves_proof cwd t (absdir l) Ht HD) as R.
  rewrite E in *. destruct (lead_join2 (absdir l) x r HD Ex) as [L A].
  rewrite (normpath_abs _ A), (normpath_abs _ Ht), L, Hlead, R. reflexivity.
Qed.

(* the literal normpath statement is false when exactly one of the two sides starts with
   exactly two slashes (POSIX leaves "//" implementation-defined; Linux resolves it as "/") *)
Definition dosym_r_normpath_statement : Prop := forall cwd t l, isabs t = true -> isabs l = true ->
  normpath (join2 (dirname l) (relative_target cwd t l)) = normpath t.
Theorem dosym_r_normpath_refuted_proof : ~ dosym_r_normpath_statement.
Proof.
  intro H. specialize (H [] [47;47;97]%N [47;98;47;99]%N eq_refl eq_refl). vm_compute in H. discriminate.
Qed.

(* non-vacuity: a concrete pair with "..", "//" and a trailing slash *)
Example dosym_r_example :
  let t := [47;117;47;47;108;105;98;47;46;46;47;120;47]%N in       (* "/u//lib/../x/" *)
  let l := [47;117;47;98;105;110;47;47;102]%N in                   (* "/u/bin//f" *)
  relative_target [] t l = [46;46;47;120]%N                        (* "../x" *)
  /\ resolve (join2 (dirname l) (relative_target [] t l)) = [[117]; [120]]%N.
Proof. split; reflexivity. Qed.
