(* Model_C33.v — executable model of the install helpers of pkgcore's ebuild daemon:
   the bash wrappers' --dest computation (helpers/0/src_install/<name>, templates regenerated
   into gen/Tables_C33.v), IpcCommand.__call__ / parse_args, _InstallWrapper and its subclasses
   (src/pkgcore/ebuild/ebd_ipc.py), get_relative_dosym_target (ebuild/misc.py), and the
   filesystem effect of the os-level calls they make on an image directory.
   A helper invocation is turned into a PLAN (list of filesystem actions whose destinations are
   pure path computations); [exec] applies a plan to an image.  No proofs here.

   The model describes the code after the repairs of fixes/C33-*.patch (committed in /repo, see
   notes/C33.md); disagreeing cases are classified by the decidable class predicates of
   harness/c33.py against known_findings/C33.json. *)
From Coq Require Import List NArith ZArith Bool Arith.
From Coq Require String Ascii.
Import String.StringSyntax.
Delimit Scope string_scope with string.
Import ListNotations.
From Verif Require Import Base.Val C33.Path gen.Tables_C33.

Definition lit (s : String.string) : str := map Ascii.N_of_ascii (String.list_ascii_of_string s).
Arguments lit s%string.

(* ------------------------------------------------------------------ small string helpers *)
Definition str_mem (x : str) (l : list str) : bool := existsb (str_eqb x) l.
Definition startswith (p s : str) : bool := str_eqb (firstn (List.length p) s) p.
Definition endswith_sl (s : str) : bool := match rev s with c :: _ => is_sl c | [] => false end.
Definition ascii_lower (c : N) : N := if (N.leb 65 c && N.leb c 90)%bool then (c + 32)%N else c.
Definition lower (s : str) : str := map ascii_lower s.
Definition is_digit (c : N) : bool := (N.leb 48 c && N.leb c 57)%bool.
Definition is_lower (c : N) : bool := (N.leb 97 c && N.leb c 122)%bool.
Definition is_upper (c : N) : bool := (N.leb 65 c && N.leb c 90)%bool.
(* \w restricted to ASCII (the generator only produces ASCII names) *)
Definition is_word (c : N) : bool := is_digit c || is_lower c || is_upper c || N.eqb c 95.

(* s.split(sep) for a one-character separator *)
Fixpoint split_on (sep : N) (s : str) : list str :=
  match s with
  | [] => [[]]
  | c :: r =>
      if N.eqb c sep then [] :: split_on sep r
      else match split_on sep r with h :: t => (c :: h) :: t | [] => [[c]] end
  end.
Definition nonempty (l : list str) : list str := filter (fun c => negb (is_nil c)) l.
(* shlex.split / str.split() on a string without quoting: whitespace-separated words *)
Definition words (s : str) : list str := nonempty (split_on 32 s).
(* s.rsplit(".", 1)[0] *)
Definition rsplit_dot (s : str) : str :=
  match dropwhile (fun c => negb (is_dot c)) (rev s) with
  | [] => s
  | _ :: stem_r => rev stem_r
  end.
(* s.rsplit("/", 1)[0], None when there is no slash (then it equals s) *)
Definition rsplit_sl (s : str) : option str :=
  match dropwhile (fun c => negb (is_sl c)) (rev s) with
  | [] => None
  | _ :: head_r => Some (rev head_r)
  end.

(* int(s, 8) for plain octal digit strings; None models _parse_mode's ValueError and the
   spellings this model does not cover *)
Definition octal (s : str) : option N :=
  match s with
  | [] => None
  | _ => fold_left (fun acc c => match acc with
                               | Some v => if (N.leb 48 c && N.leb c 55)%bool then Some (v * 8 + (c - 48))%N else None
                               | None => None end) s (Some 0%N)
  end.

(* ------------------------------------------------------------------ inputs *)
(* what a source path is *)
Inductive fkind := FReg (cid : N) | FLink (target : str) (resolves : bool).
Record wentry := { w_rel : list str;                  (* directory, relative to the walked root *)
                   w_dlinks : list (str * str);       (* sub-directories that are symlinks: name, target *)
                   w_files : list (str * fkind) }.    (* non-directories *)
(* SDir lnk walk: a directory (os.path.isdir); lnk = Some target when the path itself is a symlink *)
Inductive skind := SFile (f : fkind) | SDir (lnk : option str) (walk : list wentry) | SMissing.

Inductive node := NDir (mode : N) | NFile (mode cid ino : N) | NLink (target : str).
Definition image := list (list str * node).           (* sorted by key, keys unique *)

(* the shell-side state the wrappers read (eapi/0/src_install.bash) *)
Record shvars := { v_desttree : str; v_insdesttree : str; v_exedesttree : str; v_docdesttree : str;
                   v_pf : str; v_libdir : str;
                   v_insoptions : str; v_exeoptions : str; v_liboptions : str; v_diroptions : str }.

Record inv := { helper : str;                 (* name as invoked: "doins", "dolib.so", ... *)
                eapi : str;                   (* EAPI magic *)
                sh : shvars;
                args : list (str * skind);
                cat : str; pn : str; slot : str;
                umask : N;
                pre : image }.

(* ------------------------------------------------------------------ tables *)
Fixpoint assoc {A} (k : str) (l : list (str * A)) : option A :=
  match l with [] => None | (k', v) :: r => if str_eqb k k' then Some v else assoc k r end.

Definition gates_of (e : str) : option eapi_row := assoc e eapi_table.

(* bash template evaluation: the OPTIONS=( ... ) line of the wrapper *)
Definition var_value (v : shvars) (name : str) : str :=
  if str_eqb name (lit "PKGCORE_DESTTREE") then v_desttree v
  else if str_eqb name (lit "PKGCORE_INSDESTTREE") then v_insdesttree v
  else if str_eqb name (lit "PKGCORE_EXEDESTTREE") then v_exedesttree v
  else if str_eqb name (lit "PKGCORE_DOCDESTTREE") then v_docdesttree v
  else if str_eqb name (lit "PF") then v_pf v
  else if str_eqb name (lit "INSOPTIONS") then v_insoptions v
  else if str_eqb name (lit "EXEOPTIONS") then v_exeoptions v
  else if str_eqb name (lit "LIBOPTIONS") then v_liboptions v
  else if str_eqb name (lit "DIROPTIONS") then v_diroptions v
  else [].
Definition eval_tok (v : shvars) (t : tok) : str :=
  match t with
  | TLit s => s
  | TVar n => var_value v n
  | TVarDefault n d => match var_value v n with [] => d | x => x end
  | TLibdir => v_libdir v
  end.
Definition eval_template (v : shvars) (t : list tok) : str := concat (map (eval_tok v) t).

(* dolib.so / dolib.a force LIBOPTIONS (the `if [[ ${HELPER_NAME} == ... ]]` of the dolib script) *)
Definition with_libopts (h : str) (v : shvars) : shvars :=
  let lo := if str_eqb h (lit "dolib.so") then lit "-m0755"
            else if str_eqb h (lit "dolib.a") then lit "-m0644" else v_liboptions v in
  {| v_desttree := v_desttree v; v_insdesttree := v_insdesttree v; v_exedesttree := v_exedesttree v;
     v_docdesttree := v_docdesttree v; v_pf := v_pf v; v_libdir := v_libdir v;
     v_insoptions := v_insoptions v; v_exeoptions := v_exeoptions v; v_liboptions := lo;
     v_diroptions := v_diroptions v |}.

(* helpers/<N>/src_install/<h> is the `banned` script for some N on the EAPI's inheritance chain
   (EAPI.helpers walks self.inherits; fuel = table length) *)
Fixpoint chain (fuel : nat) (e : str) : list str :=
  match fuel with
  | O => []
  | S f => e :: match gates_of e with
                | Some r => match g_parent r with Some p => chain f p | None => [] end
                | None => [] end
  end.
Definition decimal (e : str) : N := fold_left (fun acc c => (acc * 10 + (c - 48))%N) e 0%N.
Definition is_banned (h e : str) : bool :=
  let nums := map decimal (chain (List.length eapi_table) e) in
  existsb (fun hb => str_eqb (fst hb) h && existsb (N.eqb (snd hb)) nums) banned_table.

(* bash: `if ${VAR}; then` — an unset variable expands to the empty command, which succeeds *)
Definition guard_true (g : eapi_row) (name : str) : bool :=
  if str_eqb name (lit "PKGCORE_HAS_DESTTREE") then g_has_desttree g else true.

Record wopts := { o_dest : option str; o_ins : option str; o_dir : option str }.
Definition wrapper_opts (g : eapi_row) (h : str) (v : shvars) : option wopts :=
  match assoc h wrapper_table with
  | None => None
  | Some alts =>
      let v := with_libopts h v in
      let fix pick (alts : list (option str * list (str * list tok))) :=
        match alts with
        | [] => []
        | (None, o) :: _ => o
        | (Some gd, o) :: r => if guard_true g gd then o else pick r
        end in
      let o := pick alts in
      let get (k : str) := match assoc k o with Some t => Some (eval_template v t) | None => None end in
      Some {| o_dest := get (lit "dest"); o_ins := get (lit "insoptions"); o_dir := get (lit "diroptions") |}
  end.

(* ------------------------------------------------------------------ install option strings *)
(* _InstallWrapper._parse_install_options on the words of --insoptions / --diroptions.
   Result: None = the string is empty (Namespace stays empty: no chmod at all);
   Some (Some m) = handled natively, chmod m;  Some None = falls back to install(1) (not modelled) *)
(* _parse_user / _parse_group for the spellings the generator uses: a decimal id, or "root" *)
Definition owner_id (v : str) : option N :=
  if str_eqb v (lit "root") then Some 0%N
  else match v with
       | [] => None
       | _ => if forallb is_digit v then Some (fold_left (fun acc c => (acc * 10 + (c - 48))%N) v 0%N) else None
       end.

Fixpoint install_mode_words (ws : list str) (mode : option N) (fuel : nat) : option (option N) :=
  match fuel with O => Some None | S f =>
  match ws with
  | [] => Some mode
  | w :: r =>
      if str_eqb w (lit "-p") || str_eqb w (lit "--preserve-timestamps") then install_mode_words r mode f
      else if str_eqb w (lit "-m") || str_eqb w (lit "--mode") then
        match r with
        | v :: r' => match octal v with Some m => install_mode_words r' (Some m) f | None => Some None end
        | [] => Some None
        end
      else if startswith (lit "--mode=") w then
        match octal (skipn 7 w) with Some m => install_mode_words r (Some m) f | None => Some None end
      else if startswith (lit "-m") w then
        match octal (skipn 2 w) with Some m => install_mode_words r (Some m) f | None => Some None end
      (* -o/--owner and -g/--group: lchown happens BEFORE chmod in _set_attributes, so they do
         not change the resulting mode (chown would clear set-id bits if it came second) *)
      else if str_mem w [lit "-o"; lit "--owner"; lit "-g"; lit "--group"] then
        match r with
        | v :: r' => match owner_id v with Some _ => install_mode_words r' mode f | None => Some None end
        | [] => Some None
        end
      else if startswith (lit "--owner=") w || startswith (lit "--group=") w then
        match owner_id (skipn 8 w) with Some _ => install_mode_words r mode f | None => Some None end
      else if startswith (lit "-o") w || startswith (lit "-g") w then
        match owner_id (skipn 2 w) with Some _ => install_mode_words r mode f | None => Some None end
      else Some None
  end end.

(* the whole namespace of install_parser: (mode, owner, group, preserve_timestamps); owner/group
   None = -1 (unchanged) *)
Record iopts := { io_mode : N; io_owner : option N; io_group : option N; io_preserve : bool }.
Fixpoint install_full_words (ws : list str) (o : iopts) (fuel : nat) : option iopts :=
  match fuel with O => None | S f =>
  match ws with
  | [] => Some o
  | w :: r =>
      let setm m := {| io_mode := m; io_owner := io_owner o; io_group := io_group o; io_preserve := io_preserve o |} in
      let seto (isg : bool) (i : N) :=
        if isg then {| io_mode := io_mode o; io_owner := io_owner o; io_group := Some i; io_preserve := io_preserve o |}
        else {| io_mode := io_mode o; io_owner := Some i; io_group := io_group o; io_preserve := io_preserve o |} in
      if str_eqb w (lit "-p") || str_eqb w (lit "--preserve-timestamps") then
        install_full_words r {| io_mode := io_mode o; io_owner := io_owner o; io_group := io_group o; io_preserve := true |} f
      else if str_eqb w (lit "-m") || str_eqb w (lit "--mode") then
        match r with
        | v :: r' => match octal v with Some m => install_full_words r' (setm m) f | None => None end
        | [] => None
        end
      else if startswith (lit "--mode=") w then
        match octal (skipn 7 w) with Some m => install_full_words r (setm m) f | None => None end
      else if startswith (lit "-m") w then
        match octal (skipn 2 w) with Some m => install_full_words r (setm m) f | None => None end
      else if str_mem w [lit "-o"; lit "--owner"; lit "-g"; lit "--group"] then
        match r with
        | v :: r' => match owner_id v with
                     | Some i => install_full_words r' (seto (str_mem w [lit "-g"; lit "--group"]) i) f
                     | None => None end
        | [] => None
        end
      else if startswith (lit "--owner=") w || startswith (lit "--group=") w then
        match owner_id (skipn 8 w) with Some i => install_full_words r (seto (startswith (lit "--group=") w) i) f | None => None end
      else if startswith (lit "-o") w || startswith (lit "-g") w then
        match owner_id (skipn 2 w) with Some i => install_full_words r (seto (startswith (lit "-g") w) i) f | None => None end
      else None
  end end.
Definition install_full (s : str) : option iopts :=
  let ws := words s in
  install_full_words ws {| io_mode := 493%N; io_owner := None; io_group := None; io_preserve := false |} (S (List.length ws)).

Definition install_mode (s : option str) : option (option N) :=
  match s with
  | None => None
  | Some s => match words s with
              | [] => None
              | ws => install_mode_words ws (Some 493%N) (S (List.length ws))   (* default -m 0755 *)
              end
  end.

(* class defaults: insoptions_default / diroptions_default *)
Definition ins_default (h : str) : str :=
  if str_mem h [lit "dodoc"; lit "doinfo"; lit "doman"; lit "domo"; lit "dohtml"] then lit "-m0644" else [].
Definition dir_default (h : str) : str :=
  if str_mem h [lit "dodir"; lit "keepdir"] then lit "-m0755" else [].

(* ------------------------------------------------------------------ plans *)
Inductive action :=
| AMkdirs (p : str) (mode : option N)               (* os.makedirs(ED/p, exist_ok=True); chmod leaf *)
| AInstall (src : fkind) (p : str) (mode : option N)(* stat, unlink, copyfile(follow_symlinks=False), chmod *)
| AInstallDir (p : str)                             (* copyfile on a directory: fails *)
| ASymlinkNew (target p : str)                      (* os.symlink, an existing entry is an error *)
| ASymlink (target p : str)                         (* dosym: os.symlink, overwrite on EEXIST *)
| AHardlink (src p : str)                           (* dohard: os.link within the image, overwrite *)
| ATouch (p : str).                                 (* open(p, "w").close() *)

Definition E (s : String.string) : str := lit s.
Arguments E s%string.
Definition res (A : Type) := sum A str.             (* inr kind = IpcCommandError of that kind *)

(* pjoin(ED, a, b) relative to ED: os.path.join on the two relative parts *)
Definition edjoin (a b : str) : str := join2 a b.
Definition under (dest d : str) : str := edjoin (lstrip_sl dest) (lstrip_sl d).

Record ictx := { c_dest : str; c_insmode : option N; c_dirmode : option N }.

Definition install_one (c : ictx) (src : str * skind) (d : str) : list action :=
  match snd src with
  | SFile f => [AInstall f (under (c_dest c) d) (c_insmode c)]
  | SDir (Some t) _ => [AInstall (FLink t true) (under (c_dest c) d) (c_insmode c)]
  | SDir None _ => [AInstallDir (under (c_dest c) d)]
  | SMissing => []
  end.

Definition rel_string (rel : list str) : str := match rel with [] => dot | cs => join_sl cs end.

(* _install_from_dirs for one directory argument *)
Definition from_dir (c : ictx) (d : str) (walk : list wentry) : list action :=
  let base := basename (rstrip_sl d) in
  concat (map (fun w =>
    let rel := rel_string (w_rel w) in
    let dd := normpath (join2 base rel) in
    AMkdirs (under (c_dest c) dd) (c_dirmode c)
    :: map (fun nt => ASymlinkNew (snd nt) (under (c_dest c) (join2 dd (fst nt)))) (w_dlinks w)
    ++ map (fun nf => AInstall (snd nf) (under (c_dest c) (join2 dd (fst nf))) (c_insmode c)) (w_files w)) walk).

Definition is_dir (a : str * skind) : bool := match snd a with SDir _ _ => true | _ => false end.
Definition dirs_of (l : list (str * skind)) := filter is_dir l.
Definition files_of (l : list (str * skind)) := filter (fun a => negb (is_dir a)) l.
Definition from_dirs (c : ictx) (l : list (str * skind)) : list action :=
  concat (map (fun a => match snd a with SDir _ w => from_dir c (fst a) w | _ => [] end) l).
Definition install_basenames (c : ictx) (l : list (str * skind)) : list action :=
  concat (map (fun a => install_one c a (basename (fst a))) l).

(* --- doman *)
Definition is_archive_ext (g : eapi_row) (ext : str) : bool :=
  if g_case_insens g then existsb (fun x => str_eqb (lower x) (lower ext)) (g_archive_exts g)
  else str_mem ext (g_archive_exts g).

(* detect_lang_re (with the repair): ^(.+)\.([a-z]{2}(_[A-Z]{2})?)\.(\w+)$ *)
Definition is_lang (l : str) : bool :=
  match l with
  | [a; b] => is_lower a && is_lower b
  | [a; b; u; c; d] => is_lower a && is_lower b && N.eqb u 95 && is_upper c && is_upper d
  | _ => false
  end.
Fixpoint join_on (sep : N) (cs : list str) : str :=
  match cs with
  | [] => []
  | c :: r => match r with [] => c | _ => c ++ sep :: join_on sep r end
  end.
Definition lang_match (b : str) : option (str * str * str) :=
  match rev (split_on 46 b) with
  | sec :: lang :: stem_r =>
      let stem := join_on 46 (rev stem_r) in
      if negb (is_nil sec) && forallb is_word sec && is_lang lang && negb (is_nil stem)
      then Some (stem, lang, sec) else None
  | _ => None
  end.

(* valid_mandir_re.match(basename(mandir)): man[0-9n](f|p|pm)?$ *)
Definition valid_mandir (m : str) : bool :=
  match m with
  | 109 :: 97 :: 110 :: c :: r =>
      (is_digit c || N.eqb c 110)
      && (is_nil r || str_eqb r (lit "f") || str_eqb r (lit "p") || str_eqb r (lit "pm"))
  | _ => false
  end%N.

(* one target of Doman._install_targets: (mandir, installed name) or "invalid man page" *)
Definition doman_dest (g : eapi_row) (i18n : option str) (x : str) : option (str * str) :=
  let b := basename x in
  let ext := snd (splitext b) in
  let ext := if is_archive_ext g ext then snd (splitext (rsplit_dot b)) else ext in
  let mandir := lit "man" ++ tl ext in
  let '(name, mandir) :=
    match (if g_doman_override g then i18n else None) with
    | Some l => (b, join2 l mandir)
    | None =>
        if g_doman_detect g then
          match lang_match b with
          | Some (stem, lang, sec) => (stem ++ DOT :: sec, join2 lang mandir)
          | None => (b, mandir)
          end
        else (b, mandir)
    end in
  if valid_mandir (basename mandir) then Some (mandir, name) else None.

Fixpoint doman_plan (g : eapi_row) (c : ictx) (i18n : option str) (l : list (str * skind)) : res (list action) :=
  match l with
  | [] => inl []
  | a :: r =>
      match doman_dest g i18n (fst a) with
      | None => inr (E "badman")
      | Some (mandir, name) =>
          match doman_plan g c i18n r with
          | inl acts => inl (AMkdirs (under (c_dest c) mandir) (c_dirmode c)
                             :: install_one c a (join2 mandir name) ++ acts)
          | inr e => inr e
          end
      end
  end.
(* the error of a later page is only reached after the earlier pages were installed; the first
   failing action of the plan decides, so an invalid page after a failing install is masked *)

(* --- domo *)
Definition domo_plan (c : ictx) (pn : str) (l : list (str * skind)) : list action :=
  concat (map (fun a =>
    let d := join2 (fst (splitext (basename (fst a)))) (lit "LC_MESSAGES") in
    AMkdirs (under (c_dest c) d) (c_dirmode c) :: install_one c a (join2 d (pn ++ lit ".mo"))) l).

(* --- dohtml *)
Record htmlopts := { h_r : bool; h_A : list str; h_a : list str; h_f : list str; h_x : list str; h_p : str }.
Definition default_html_exts : list str :=
  [lit "css"; lit "gif"; lit "htm"; lit "html"; lit "jpeg"; lit "jpg"; lit "js"; lit "png"].
Definition html_allowed (o : htmlopts) (path : str) : bool :=
  let b := basename path in
  let ext := tl (snd (splitext b)) in
  let exts := (match h_a o with [] => default_html_exts | l => l end) ++ h_A o in
  str_mem ext exts || str_mem b (h_f o).

(* ------------------------------------------------------------------ argument parsing *)
Definition csv (s : str) : list str := nonempty (split_on 44 s).

Record parsed := { p_r : bool; p_i18n : option str; p_html : htmlopts; p_pos : list (str * skind);
                   p_err : option str }.
Definition html0 := {| h_r := false; h_A := []; h_a := []; h_f := []; h_x := []; h_p := [] |}.
Definition parsed0 := {| p_r := false; p_i18n := None; p_html := html0; p_pos := []; p_err := None |}.
Definition set_r (p : parsed) := {| p_r := true; p_i18n := p_i18n p; p_html := p_html p; p_pos := p_pos p; p_err := p_err p |}.
Definition set_i18n (p : parsed) v := {| p_r := p_r p; p_i18n := Some v; p_html := p_html p; p_pos := p_pos p; p_err := p_err p |}.
Definition set_html (p : parsed) h := {| p_r := p_r p; p_i18n := p_i18n p; p_html := h; p_pos := p_pos p; p_err := p_err p |}.
Definition add_pos (p : parsed) a := {| p_r := p_r p; p_i18n := p_i18n p; p_html := p_html p; p_pos := p_pos p ++ [a]; p_err := p_err p |}.
Definition set_err (p : parsed) e := {| p_r := p_r p; p_i18n := p_i18n p; p_html := p_html p; p_pos := p_pos p;
                                        p_err := match p_err p with None => Some e | x => x end |}.

Definition has_r (h : str) : bool := str_mem h [lit "doins"; lit "dodoc"; lit "dohtml"; lit "dosym"].
Definition is_html (h : str) : bool := str_eqb h (lit "dohtml").

(* the subset of argparse the helpers rely on: known flags anywhere before "--", flags with a
   value take the next word, the first "--" is dropped, anything else is positional *)
Fixpoint parse_argv (h : str) (l : list (str * skind)) (dd : bool) (p : parsed) : parsed :=
  match l with
  | [] => p
  | a :: r =>
      let s := fst a in
      if dd then parse_argv h r dd (add_pos p a)
      else if str_eqb s (lit "--") then parse_argv h r true p
      else if has_r h && str_eqb s (lit "-r") then
        parse_argv h r dd (if is_html h then set_html p {| h_r := true; h_A := h_A (p_html p); h_a := h_a (p_html p);
                                                             h_f := h_f (p_html p); h_x := h_x (p_html p); h_p := h_p (p_html p) |}
                           else set_r p)
      else if str_eqb h (lit "doman") && startswith (lit "-i18n=") s then
        parse_argv h r dd (set_i18n p (skipn 6 s))
      else if is_html h && str_eqb s (lit "-V") then parse_argv h r dd p
      else if is_html h && str_mem s [lit "-A"; lit "-a"; lit "-f"; lit "-x"; lit "-p"] then
        match r with
        | [] => set_err p (E "argparse")
        | v :: r' =>
            let o := p_html p in
            let o' :=
              if str_eqb s (lit "-A") then {| h_r := h_r o; h_A := csv (fst v); h_a := h_a o; h_f := h_f o; h_x := h_x o; h_p := h_p o |}
              else if str_eqb s (lit "-a") then {| h_r := h_r o; h_A := h_A o; h_a := csv (fst v); h_f := h_f o; h_x := h_x o; h_p := h_p o |}
              else if str_eqb s (lit "-f") then {| h_r := h_r o; h_A := h_A o; h_a := h_a o; h_f := csv (fst v); h_x := h_x o; h_p := h_p o |}
              else if str_eqb s (lit "-x") then {| h_r := h_r o; h_A := h_A o; h_a := h_a o; h_f := h_f o; h_x := csv (fst v); h_p := h_p o |}
              else {| h_r := h_r o; h_A := h_A o; h_a := h_a o; h_f := h_f o; h_x := h_x o; h_p := fst v |} in
            parse_argv h r' dd (set_html p o')
        end
      else parse_argv h r dd (add_pos p a)
  end.

(* nargs="+" with type=existing_path *)
Definition check_targets (existing : bool) (pos : list (str * skind)) : option str :=
  match pos with
  | [] => Some (E "missing")
  | _ => if existing && existsb (fun a => match snd a with SMissing => true | _ => false end) pos
         then Some (E "nonexistent") else None
  end.

(* ------------------------------------------------------------------ the helpers *)
Definition keep_name (i : inv) : str := lit ".keep_" ++ cat i ++ lit "_" ++ pn i ++ lit "-" ++ slot i.

Definition is_symlink_family (h : str) : bool := str_mem h [lit "dosym"; lit "dohard"].
Definition is_dir_family (h : str) : bool := str_mem h [lit "dodir"; lit "keepdir"].

(* ------------------------------------------------------------------ the image and the os calls *)
Definition key (p : str) : list str := resolve (SL :: p).

Fixpoint str_cmp (a b : str) : comparison :=
  match a, b with
  | [], [] => Eq
  | [], _ => Lt
  | _, [] => Gt
  | x :: a', y :: b' => match N.compare x y with Eq => str_cmp a' b' | c => c end
  end.
Fixpoint key_cmp (a b : list str) : comparison :=
  match a, b with
  | [], [] => Eq
  | [], _ => Lt
  | _, [] => Gt
  | x :: a', y :: b' => match str_cmp x y with Eq => key_cmp a' b' | c => c end
  end.
Fixpoint lookup (k : list str) (img : image) : option node :=
  match img with
  | [] => None
  | (k', n) :: r => match key_cmp k k' with Eq => Some n | _ => lookup k r end
  end.
(* insert or replace, keeping the list sorted by key *)
Fixpoint put (k : list str) (n : node) (img : image) : image :=
  match img with
  | [] => [(k, n)]
  | (k', n') :: r => match key_cmp k k' with
                     | Eq => (k, n) :: r
                     | Lt => (k, n) :: img
                     | Gt => (k', n') :: put k n r
                     end
  end.
Fixpoint del (k : list str) (img : image) : image :=
  match img with
  | [] => []
  | (k', n') :: r => match key_cmp k k' with Eq => r | _ => (k', n') :: del k r end
  end.

Definition parent_ok (k : list str) (img : image) : bool :=
  match removelast k with
  | [] => true
  | pk => match lookup pk img with Some (NDir _) => true | _ => false end
  end.

(* the parent of k is a symlink in the image: the real filesystem would follow it; this lexical
   model does not (such cases are reported as unmodelled and skipped by the comparison) *)
Definition parent_is_link (k : list str) (img : image) : bool :=
  match removelast k with
  | [] => false
  | pk => match lookup pk img with Some (NLink _) => true | _ => false end
  end.

Definition dmode (um : N) : N := N.land 511 (N.lxor 511 (N.land um 511)).      (* 0o777 & ~umask *)
Definition fmode (um : N) : N := N.land 438 (N.lxor 511 (N.land um 511)).      (* 0o666 & ~umask *)

Fixpoint mkdirs_from (um : N) (img : image) (pre rest : list str) : res image :=
  match rest with
  | [] => inl img
  | c :: r =>
      let k := pre ++ [c] in
      match lookup k img with
      | None => mkdirs_from um (put k (NDir (dmode um)) img) k r
      | Some (NDir _) => mkdirs_from um img k r
      | Some (NLink _) => inr (E "unmodelled-symlink-component")   (* the real filesystem follows it *)
      | Some _ => inr (E "oserr")
      end
  end.

Record st := { s_img : image; s_ino : N }.

Definition exec1_raw (um : N) (s : st) (a : action) : res st :=
  let img := s_img s in
  match a with
  | AMkdirs p mode =>
      let k := key p in
      match mkdirs_from um img [] k with
      | inr e => inr e
      | inl img' =>
          let img'' := match mode, k with
                       | Some m, _ :: _ => put k (NDir m) img'
                       | _, _ => img' end in
          inl {| s_img := img''; s_ino := s_ino s |}
      end
  | AInstall src p mode =>
      let k := key p in
      match src with
      | _ =>
          if negb (parent_ok k img) then inr (E "oserr")
          else match k, lookup k img with
               | [], _ => inr (E "oserr")
               | _, Some (NDir _) => inr (E "oserr")
               | _, _ =>
                   let n := match src with
                            | FReg cid => NFile (match mode with Some m => m | None => fmode um end) cid (s_ino s)
                            | FLink t _ => NLink t
                            end in
                   inl {| s_img := put k n img; s_ino := (s_ino s + 1)%N |}
               end
      end
  | AInstallDir p => inr (E "oserr")
  | ASymlinkNew t p =>
      let k := key p in
      if negb (parent_ok k img) then inr (E "oserr")
      else match k, lookup k img with
           | [], _ => inr (E "oserr")
           | _, Some _ => inr (E "oserr")
           | _, None => inl {| s_img := put k (NLink t) img; s_ino := s_ino s |}
           end
  | ASymlink t p =>
      let k := key p in
      if negb (parent_ok k img) then inr (E "oserr")
      else match k, lookup k img with
           | [], _ => inr (E "oserr")
           | _, Some (NDir _) => inr (E "oserr")
           | _, _ => inl {| s_img := put k (NLink t) img; s_ino := s_ino s |}
           end
  | AHardlink src p =>
      let k := key p in
      match lookup (key src) img with
      | Some (NFile m cid ino) =>
          if negb (parent_ok k img) then inr (E "oserr")
          else match k, lookup k img with
               | [], _ => inr (E "oserr")
               | _, Some (NDir _) => inr (E "oserr")
               | _, _ => if match key_cmp k (key src) with Eq => true | _ => false end then inr (E "oserr")
                         else inl {| s_img := put k (NFile m cid ino) img; s_ino := s_ino s |}
               end
      | _ => inr (E "oserr")
      end
  | ATouch p =>
      let k := key p in
      if negb (parent_ok k img) then inr (E "internal")
      else match lookup k img with
           | Some (NDir _) => inr (E "internal")
           | Some (NFile m _ ino) => inl {| s_img := put k (NFile m 0%N ino) img; s_ino := s_ino s |}
           | _ => inl {| s_img := put k (NFile (fmode um) 0%N (s_ino s)) img; s_ino := (s_ino s + 1)%N |}
           end
  end.

Definition action_path (a : action) : option str :=
  match a with
  | AMkdirs _ _ | AInstallDir _ => None
  | AInstall _ p _ | ASymlinkNew _ p | ASymlink _ p | AHardlink _ p | ATouch p => Some p
  end.
Definition exec1 (um : N) (s : st) (a : action) : res st :=
  match action_path a with
  | Some p => if parent_is_link (key p) (s_img s) then inr (E "unmodelled-symlink-component") else exec1_raw um s a
  | None => exec1_raw um s a
  end.

Fixpoint exec (um : N) (s : st) (l : list action) : res st :=
  match l with
  | [] => inl s
  | a :: r => match exec1 um s a with inl s' => exec um s' r | inr e => inr e end
  end.

(* ------------------------------------------------------------------ plan of one invocation *)
(* _Symlink.run / Dosym.run / Dohard.run on the two positionals *)
Definition link_actions (h : str) (dirm : option N) (source target : str) : list action :=
  (match rsplit_sl target with
   | Some d => [AMkdirs (under [SL] d) dirm]
   | None => []
   end)
  ++ [if str_eqb h (lit "dosym") then ASymlink source (lstrip_sl target)
      else AHardlink (lstrip_sl source) (lstrip_sl target)].

Definition plan_dosym (g : eapi_row) (dirm : option N) (pre : image) (relative : bool) (source target : str)
  : res (list action) :=
  if endswith_sl target
     || match lookup (key (lstrip_sl target)) pre with Some (NDir _) => true | _ => false end
  then inr (E "nolinkname")
  else if relative then
    if negb (g_dosym_rel g) then inr (E "gate")
    else if negb (isabs source) then inr (E "relabs")
    else inl (link_actions (lit "dosym") dirm (relative_target [] source target) target)
  else inl (link_actions (lit "dosym") dirm source target).

Definition plan_link (g : eapi_row) (h : str) (dirm : option N) (pre : image) (relative : bool)
  (pos : list (str * skind)) : res (list action) :=
  match pos with
  | [] | [_] => inr (E "missing")
  | src :: tgt :: nil =>
      if str_eqb h (lit "dosym") then plan_dosym g dirm pre relative (fst src) (fst tgt)
      else inl (link_actions h dirm (fst src) (fst tgt))
  | _ => inr (E "unknown")
  end.

(* Dodir.run / Keepdir.run *)
Definition plan_dirs (keep : option str) (dest : str) (dirm : option N) (pos : list (str * skind)) : res (list action) :=
  match pos with
  | [] => inr (E "missing")
  | _ =>
      let mk := map (fun a => AMkdirs (under dest (fst a)) dirm) pos in
      match keep with
      | Some name => inl (mk ++ map (fun a => ATouch (edjoin (lstrip_sl (fst a)) name)) pos)
      | None => inl mk
      end
  end.

Definition base_action (dest : str) : action := AMkdirs (lstrip_sl dest) None.

Definition plan_doins (c : ictx) (r : bool) (pos : list (str * skind)) : res (list action) :=
  inl (base_action (c_dest c) :: (if r then from_dirs c (dirs_of pos) else []) ++ install_basenames c (files_of pos)).

Definition plan_dodoc (g : eapi_row) (c : ictx) (r : bool) (pos : list (str * skind)) : res (list action) :=
  match dirs_of pos with
  | [] => inl (base_action (c_dest c) :: install_basenames c pos)
  | ds => if r && g_dodoc_r g
          then inl (base_action (c_dest c) :: from_dirs c ds ++ install_basenames c (files_of pos))
          else inr (E "isdir")
  end.

Definition plan_doman (g : eapi_row) (c : ictx) (i18n : option str) (pos : list (str * skind)) : res (list action) :=
  match doman_plan g c i18n pos with
  | inl acts => inl (base_action (c_dest c) :: acts)
  | inr e => inr e
  end.

Definition plan_dohtml (dest : str) (insm dirm : option N) (o : htmlopts) (pos : list (str * skind)) : res (list action) :=
  let dest' := join2 dest (lstrip_sl (h_p o)) in
  let c' := {| c_dest := dest'; c_insmode := insm; c_dirmode := dirm |} in
  match dirs_of pos with
  | [] => inl (base_action dest' :: install_basenames c' (filter (fun a => html_allowed o (fst a)) pos))
  | ds => if h_r o
          then inl (base_action dest' :: from_dirs c' (filter (fun a => negb (str_mem (fst a) (h_x o))) ds)
                           ++ install_basenames c' (filter (fun a => html_allowed o (fst a)) (files_of pos)))
          else inr (E "isdir")
  end.

(* doexe dobin dosbin dolib* doinfo: every target through install *)
Definition plan_base (c : ictx) (pos : list (str * skind)) : res (list action) :=
  inl (base_action (c_dest c) :: install_basenames c pos).

(* the chmod modes of one invocation: (files, directories); None = no chmod at all.
   Dobin.parse_install_options overrides the string; otherwise the wrapper's option or the
   class default (insoptions_default / diroptions_default) *)
Definition helper_modes (h : str) (w : wopts) : res (option N * option N) :=
  let ins_s := if str_mem h [lit "dobin"; lit "dosbin"] then Some (lit "-m0755")
               else match o_ins w with Some s => Some s | None => Some (ins_default h) end in
  let dir_s := match o_dir w with Some s => Some s | None => Some (dir_default h) end in
  match install_mode ins_s, install_mode dir_s with
  | Some None, _ | _, Some None => inr (E "fallback-unmodelled")
  | im, dm => inl (match im with Some (Some m) => Some m | _ => None end,
                   match dm with Some (Some m) => Some m | _ => None end)
  end.

Definition plan (i : inv) : res (list action) :=
  let h := helper i in
  match gates_of (eapi i) with
  | None => inr (E "eapi")
  | Some g =>
  if is_banned h (eapi i) then inr (E "banned") else
  match wrapper_opts g h (sh i) with
  | None => inr (E "nohelper")
  | Some w =>
  let p := parse_argv h (args i) false parsed0 in
  match p_err p with Some e => inr e | None =>
  match helper_modes h w with
  | inr e => inr e
  | inl (insm, dirm) =>
  let dest := match o_dest w with Some d => d | None => [SL] end in
  let c := {| c_dest := dest; c_insmode := insm; c_dirmode := dirm |} in
  let pos := p_pos p in
  if is_symlink_family h then plan_link g h dirm (pre i) (p_r p) pos
  else if is_dir_family h then
    plan_dirs (if str_eqb h (lit "keepdir") then Some (keep_name i) else None) dest dirm pos
  else
    match check_targets true pos with
    | Some e => inr e
    | None =>
        if str_eqb h (lit "doins") then plan_doins c (p_r p) pos
        else if str_eqb h (lit "dodoc") then plan_dodoc g c (p_r p) pos
        else if str_eqb h (lit "doman") then plan_doman g c (p_i18n p) pos
        else if str_eqb h (lit "domo") then inl (base_action dest :: domo_plan c (pn i) pos)
        else if is_html h then plan_dohtml dest insm dirm (p_html p) pos
        else plan_base c pos
    end
  end end end end.

(* ------------------------------------------------------------------ encoders for the harness *)
Definition count_ino (ino : N) (img : image) : Z :=
  Z.of_nat (List.length (filter (fun kn => match snd kn with NFile _ _ i => N.eqb i ino | _ => false end) img)).
Definition enc_entry (img : image) (kn : list str * node) : val :=
  let path := VS (join_sl (fst kn)) in
  match snd kn with
  | NDir m => VL [path; VZ 0; VZ (Z.of_N m)]
  | NFile m cid ino => VL [path; VZ 1; VZ (Z.of_N m); VZ (Z.of_N cid); VZ (count_ino ino img)]
  | NLink t => VL [path; VZ 2; VS t]
  end.
Definition enc_image (img : image) : val := VL (map (enc_entry img) img).

Definition max_ino (img : image) : N :=
  fold_left (fun acc kn => match snd kn with NFile _ _ i => N.max acc (i + 1) | _ => acc end) img 0%N.

Definition is_unmodelled (v : val) : bool :=
  match v with VErr k => str_eqb k (E "unmodelled-symlink-component") | _ => false end.

Definition run_helper (i : inv) : val :=
  match plan i with
  | inr e => VErr e
  | inl acts =>
      match exec (umask i) {| s_img := pre i; s_ino := max_ino (pre i) |} acts with
      | inr e => VErr e
      | inl s => enc_image (s_img s)
      end
  end.

(* stream "gate": is the helper banned in this EAPI, and the four option gates *)
Definition run_gate (i : str * str) : val :=
  let '(h, e) := i in
  match gates_of e with
  | None => VErr (E "eapi")
  | Some g => VL [VB (is_banned h e); VB (g_dodoc_r g); VB (g_doman_detect g); VB (g_doman_override g);
                  VB (g_dosym_rel g); VB (g_has_desttree g)]
  end.

(* stream "wrap": the options the bash wrapper passes *)
Definition enc_ostr (o : option str) : val := match o with Some s => VS s | None => VNone end.
Definition run_wrap (i : str * str * shvars) : val :=
  let '(h, e, v) := i in
  match gates_of e with
  | None => VErr (E "eapi")
  | Some g => if is_banned h e then VErr (E "banned") else
              match wrapper_opts g h v with
              | None => VErr (E "nohelper")
              | Some w => VL [enc_ostr (o_dest w); enc_ostr (o_ins w); enc_ostr (o_dir w)]
              end
  end.

(* stream "path": the posixpath functions themselves *)
Definition run_path (i : N * str * str) : val :=
  let '(f, a, b) := i in
  match f with
  | 0 => VS (normpath a)
  | 1 => VS (dirname a)
  | 2 => VS (basename a)
  | 3 => VL [VS (fst (splitext a)); VS (snd (splitext a))]
  | 4 => VS (join2 a b)
  | 5 => match a with [] => VErr (E "ValueError") | _ => VS (relpath [SL] a b) end
  | 6 => VS (relative_target [SL] a b)
  | _ => VNone
  end%N.

(* stream "insopts": _InstallWrapper._parse_install_options on one option string *)
Definition run_insopts (s : str) : val :=
  match install_full s with
  | None => VErr (E "fallback")
  | Some o => VL [VZ (Z.of_N (io_mode o));
                  match io_owner o with Some i => VZ (Z.of_N i) | None => VZ (-1) end;
                  match io_group o with Some i => VZ (Z.of_N i) | None => VZ (-1) end;
                  VB (io_preserve o)]
  end.

(* stream "dosymr": the relative link and its lexical resolution *)
Definition run_dosymr (i : str * str) : val :=
  let '(t, l) := i in
  let r := relative_target [] t l in
  VL [VS r; VL (map VS (resolve (join2 (absdir l) r)))].
