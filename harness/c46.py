"""C46 — distfile cleaning never deletes a distfile that must be kept (DESIGN §6 C46).

The real `pclean dist` is driven through its argument parser (pclean.argparser.parse_args with a
real argv: -I -E -f -p -x CSV -m TIME -s SIZE TARGET…) and its main function (_remove) against a
scratch DISTDIR; the domain is an in-memory one (source repositories and a vdb built from
pkgcore's own ebuild package class over a data dict, so SRC_URI / RESTRICT / DISTFILES go through
the real DepSet parsing: conditionals, `->` renames, mirror:// URIs).

Streams
  dist   structured: random worlds (overlapping distfile names, several versions, shared files,
         files of packages no longer in the tree, unrelated files) x random option combinations
                                       impl vs Model_C46.run            (A)
                                       impl result vs Spec_C46.spec_ok  (B, in Coq)
                                       + the direct oracle in Python on file names (B)
  usecond directed worlds, one per protection clause (-x / -f / -E / -I): the protected package owns
         a USE-conditional distfile named after the TARGET package, with the flag disabled in the
         configured view (source packages are USE-configured wrappers with `_raw_pkg`), so it is kept
         only if the code reads the raw all-USE distfiles (installed: the recorded DISTFILES)
  bad    malformed command lines (bad -m/-s values, unparsable target / exclusion pattern)
                                       impl vs Model_C46.run (nothing may be removed)
  qty    pclean.parse_time / parse_size on valid and malformed strings   impl vs Model_C46.run_qty

The file-name regexes of _dist_validate_args are not modelled in Coq: `sel_oracle` below is a
harness-side replica that says which DISTDIR names the target-derived regexes select; its answer
is part of the model's input (`i_sel`), so a change of the regex logic shows up as (A) mismatch.
"""

import io
import os
import re
import shutil
import sys
import time
from collections import defaultdict
from itertools import chain

from .common import Check, Err, cN, cZ, cbool, clist, cstr, impl_call

IMPORTS = ("From Coq Require Import List NArith ZArith Bool.\n"
           "From Verif Require Import Base.Val C46.Model_C46 C46.Spec_C46.")
ANCHORS = ["scripts/pclean.py::_dist_validate_args", "scripts/pclean.py::_remove",
           "scripts/pclean.py::_setup_file_opts", "scripts/pclean.py::_setup_shared_opts",
           "scripts/pclean.py::_setup_restrictions", "scripts/pclean.py::parse_time",
           "scripts/pclean.py::parse_size", "scripts/pclean.py::Filters"]

CATS = ("app", "dev")
PNS = ("foo", "foo-bar", "foobar", "bar", "libfoo", "baz", "Foo2")
VERS = ("0.9", "1.0", "1.1", "2.0")
VKEY = {v: tuple(int(x) for x in v.split(".")) for v in VERS}
TIME_UNITS = {"s": 1, "min": 60, "h": 3600, "d": 86400, "w": 604800, "m": 2592000, "y": 31536000}
SIZE_UNITS = {"B": 1, "K": 1024, "M": 1024 ** 2, "G": 1024 ** 3}
BAD_PATTERN = "=app/foo"          # versioned operator without a version: does not parse


# --------------------------------------------------------------------------- in-memory domain
def _mk_classes():
    from snakeoil import klass
    from pkgcore.config.hint import ConfigHint
    from pkgcore.ebuild.cpv import CPV
    from pkgcore.ebuild.eapi import get_eapi
    from pkgcore.repository import configured, prototype, util
    from pkgcore.test.misc import FakePkgBase

    class SrcPkg(FakePkgBase):
        __slots__ = ()

        def __init__(self, *a, **k):
            super().__init__(*a, **k)
            object.__setattr__(self, "eapi", get_eapi(self.data.get("EAPI", "8"), False))

    class InstPkg(SrcPkg):
        __slots__ = ()

        @property
        def distfiles(self):      # as ebuild_built.package.distfiles
            return tuple(self.data.get("DISTFILES", "").split())

    class MemRepo(prototype.tree):
        pkg_cls = SrcPkg

        def __init__(self, pkgs, repo_id):
            self.repo_id = repo_id
            self.location = "/nonexistent/c46/" + repo_id
            self._pk = pkgs
            d = {}
            for c in pkgs:
                cpv = CPV(c, versioned=True)
                d.setdefault(cpv.category, {}).setdefault(cpv.package, []).append(cpv.fullver)
            self.cpv_dict = d
            super().__init__(frozen=True)

        def package_class(self, cat, pkg, ver):
            c = f"{cat}/{pkg}-{ver}"
            return self.pkg_cls(c, data=dict(self._pk[c]), repo=self)

        def _get_categories(self):
            return tuple(self.cpv_dict)

        def _get_packages(self, category):
            return tuple(self.cpv_dict[category])

        def _get_versions(self, k):
            return tuple(self.cpv_dict[k[0]][k[1]])

    class VdbRepo(MemRepo):
        pkg_cls = InstPkg

    class CfgTree(configured.tree):
        """USE-configured view of a MemRepo, as a domain hands out its source repositories:
        packages are PackageWrappers (`_raw_pkg` = the raw package) whose distfiles / restrict /
        fetchables are evaluated under the package's USE set, so `pkg.distfiles` differs from
        `pkg._raw_pkg.distfiles` whenever a `flag? ( uri )` part is disabled."""
        configurable = "use"

        def __init__(self, raw_repo, use_map):
            self._use_map = use_map
            super().__init__(raw_repo, {a: klass.alias_method("evaluate_depset")
                                        for a in ("distfiles", "restrict", "fetchables", "license")})

        def _get_pkg_kwds(self, pkg):
            return {"initial_settings": list(self._use_map.get(pkg.cpvstr, ()))}

    class Dom:
        pkgcore_config_type = ConfigHint(typename="domain")

        def __init__(self, distdir, src, vdb):
            self.distdir = distdir
            self.source_repos = util.RepositoryGroup(src)
            self.source_repos_raw = self.source_repos
            self.installed_repos = util.RepositoryGroup(vdb)

        all_source_repos_raw = klass.alias_attr("source_repos_raw.combined")
        all_installed_repos = klass.alias_attr("installed_repos.combined")

    return MemRepo, VdbRepo, Dom, CfgTree


class _Tty(io.StringIO):
    def isatty(self):
        return True


def run_pclean(argv, distdir, repos, vdb, tty, use=None):
    """Run the real parser + main function.  Returns (status, printed_text)."""
    from snakeoil.cli import arghparse
    from snakeoil.formatters import PlainTextFormatter
    from pkgcore.config import basics, central
    from pkgcore.config.hint import ConfigHint
    from pkgcore.scripts import pclean

    MemRepo, VdbRepo, Dom, CfgTree = _CLASSES
    dom = Dom(distdir, [CfgTree(MemRepo(p, f"r{i}"), use or {}) for i, p in enumerate(repos)],
              [VdbRepo(vdb, "vdb")])

    def mk():
        return dom
    mk.pkgcore_config_type = ConfigHint(typename="domain")
    sec = basics.HardCodedConfigSection({"class": mk, "default": True})
    ns = arghparse.Namespace()
    ns.config = central.CompatConfigManager(central.ConfigManager([{"domain": sec}], debug=True))
    out = PlainTextFormatter(io.BytesIO())
    err = PlainTextFormatter(io.BytesIO())
    old_out, old_err = sys.stdout, sys.stderr
    sys.stdout = _Tty() if tty else io.StringIO()
    sys.stderr = io.StringIO()
    try:
        try:
            ns = pclean.argparser.parse_args(list(argv), namespace=ns)
            ret = ns.main_func(ns, out, err)
        except SystemExit:
            return Err("usage"), ""
        except Exception as e:  # noqa: BLE001
            return Err(type(e).__name__), ""
    finally:
        sys.stdout, sys.stderr = old_out, old_err
    return ret, out.stream.getvalue().decode()


_CLASSES = None


# --------------------------------------------------------------------------- harness-side oracles
def pat_matches(pat, cpv):
    """Independent matcher for the four pattern shapes the generator uses."""
    cat, pn, ver = cpv
    if pat.startswith("="):
        return pat == f"={cat}/{pn}-{ver}"
    if pat.endswith("/*"):
        return pat[:-2] == cat
    if "/" in pat:
        return pat == f"{cat}/{pn}"
    return pat == pn


def sel_oracle(matched, all_files):
    """Replica of pclean.py:467-520: which DISTDIR names the regexes built from the matched
    packages select.  matched: [(cpv, [distfile names])] in repository sort order."""
    target_dist = defaultdict(lambda: defaultdict(set))
    for cpv, files in matched:
        target_dist[(cpv[0], cpv[1])][cpv].update(files)
    extra = defaultdict(set)
    prefixes = set()
    for catpn, pkgs in target_dist.items():
        pn_regex = r"\W".join(re.split(r"\W", catpn[1]))
        pkg_regex = re.compile(rf"({pn_regex})(\W\w+)+([\W?(0-9)+])*(\W\w+)*(\.\w+)*", re.IGNORECASE)
        prefixes.add(pn_regex)
        for _pkg, files in pkgs.items():
            for f in sorted(files):
                if pkg_regex.match(f) or (extra and re.match(
                        r"({})([\W?(0-9)+])+(\W\w+)*(\.\w+)+".format("|".join(extra[catpn])), f)):
                    continue
                pieces = re.split(r"([\W?(0-9)+])+(\W\w+)*(\.\w+)+", f)
                if pieces[-1] == "":
                    pieces.pop()
                if len(pieces) > 1:
                    extra[catpn].add(pieces[0])
    if not target_dist:
        return set()
    regexes = [re.compile(rf"({'|'.join(sorted(prefixes))})(\W\w+)+([\W?(0-9)+])*(\W\w+)*(\.\w+)*")]
    if extra:
        x = "|".join(sorted(chain.from_iterable(extra.values())))
        regexes.append(re.compile(rf"({x})([\W?(0-9)+])+(\W\w+)*(\.\w+)+"))
    return {f for f in all_files if any(r.match(f) for r in regexes)}


def flat_src_uri(entries, use=()):
    """entries: [(kind, name)] -> (SRC_URI string, all distfile names (raw, every USE branch),
    names of the USE-configured view under `use`)"""
    parts, names, cfg = [], [], []
    for kind, name in entries:
        on = True
        if kind == "http":
            parts.append(f"http://h.example/d/{name}")
        elif kind == "mirror":
            parts.append(f"mirror://gnu/x/{name}")
        elif kind == "rename":
            parts.append(f"http://h.example/dl?id=7 -> {name}")
        elif kind == "cond":
            parts.append(f"doc? ( http://h.example/{name} )")
            on = "doc" in use
        elif kind == "ncond":
            parts.append(f"!static? ( x86? ( http://h.example/{name} ) )")
            on = "static" not in use and "x86" in use
        else:
            parts.append(name)
        names.append(name)
        if on:
            cfg.append(name)
    return " ".join(parts), names, cfg


# --------------------------------------------------------------------------- generation
def gen_world(rng, big):
    """A random world.  Returns dict(repos=[{cpvstr: data}], vdb={cpvstr: data},
    pkgs=[(cpv, names, fetch)], inst=[names], files={name: (age, size)})."""
    npk = rng.randint(1, 7 if big else 5)
    cpvs = set()
    while len(cpvs) < npk:
        cpvs.add((rng.choice(CATS) if rng.random() < 0.3 else "app", rng.choice(PNS), rng.choice(VERS)))
    cpvs = sorted(cpvs, key=lambda c: (c[0], c[1], VKEY[c[2]]))
    shared = [f"common-{rng.choice(VERS)}.tar.gz", "patches-1.tar.xz"]
    pkgs = []
    pool = set(shared)
    for cat, pn, ver in cpvs:
        ents = []
        r = rng.random()
        if r < 0.75:
            ents.append((rng.choice(["http", "mirror", "http", "bare"]), f"{pn}-{ver}.tar.gz"))
        elif r < 0.9:
            ents.append(("http", f"{pn}_{ver}.zip"))
        if rng.random() < 0.3:
            ents.append((rng.choice(["cond", "ncond", "rename"]), f"{pn}-{ver}-patches.tar.bz2"))
        if rng.random() < 0.25:
            ents.append((rng.choice(["http", "cond"]), rng.choice(shared)))
        if rng.random() < 0.3:   # a file named after ANOTHER package (regex prefix traps)
            other = rng.choice(PNS)
            ents.append((rng.choice(["http", "rename", "cond", "ncond", "cond"]), f"{other}-extra-{ver}.tgz"))
        if rng.random() < 0.15:  # the main tarball's documentation, USE-conditional
            ents.append((rng.choice(["cond", "ncond"]), f"{pn}-docs-{ver}.tar.gz"))
        if rng.random() < 0.12:
            ents.append(("rename", rng.choice(["data.bin", f"{pn.upper()}-{ver}.TGZ", f"{ver}.tar.gz"])))
        use = [f for f in ("doc", "static", "x86") if rng.random() < 0.45]
        uri, names, cfg = flat_src_uri(ents, use)
        r = rng.random()
        if r < 0.2:
            fetch, restrict = True, rng.choice(["fetch", "fetch mirror"])
        elif r < 0.3:    # USE-conditional RESTRICT: evaluated on the configured package
            fetch, restrict = "doc" in use, "doc? ( fetch ) mirror"
        elif r < 0.4:
            fetch, restrict = "static" not in use, "!static? ( fetch )"
        else:
            fetch, restrict = False, rng.choice(["", "", "mirror", "test"])
        pkgs.append(((cat, pn, ver), names, fetch,
                     {"SRC_URI": uri, "RESTRICT": restrict, "SLOT": "0", "IUSE": "doc static x86"}, use, cfg))
        pool.update(names)
    # installed packages: some in the tree, some older versions that left the tree
    inst, vdb = [], {}
    for _ in range(rng.randint(0, 3)):
        if pkgs and rng.random() < 0.6:
            cpv, names, _f, _d, _u, cfg = rng.choice(pkgs)
            # an installed copy records the distfiles of ITS build-time USE: the configured
            # ones, all of them, or just the first
            names = list(rng.choice([cfg, cfg, names, names[:1]]))
        else:
            pn = rng.choice(PNS)
            cpv = ("app", pn, "0.8")
            names = [f"{pn}-0.8.tar.gz"] + ([rng.choice(shared)] if rng.random() < 0.3 else [])
        key = f"{cpv[0]}/{cpv[1]}-{cpv[2]}"
        if key in vdb:
            continue
        vdb[key] = {"DISTFILES": " ".join(names), "SLOT": "0"}
        inst.append(list(names))
        pool.update(names)
    # DISTDIR content
    for pn in rng.sample(PNS, rng.randint(1, 3)):
        pool.add(f"{pn}-{rng.choice(['0.1', '0.8', '3.0'])}.tar.gz")     # versions gone from the tree
    pool.update(rng.sample(["README", "other.txt", "zzz-1.0.tar.gz", "foo.tar.gz", "9base-6.tar.gz",
                            "foo-bar-baz-1.0.tar.gz", ".keep"], rng.randint(0, 3)))
    files = {}
    for name in sorted(pool):
        if rng.random() < 0.8:
            files[name] = None
    if not files:
        files[sorted(pool)[0]] = None
    nrep = 2 if (len(pkgs) > 1 and rng.random() < 0.3) else 1
    repos = [dict() for _ in range(nrep)]
    use_map, cfg_map = {}, {}
    for cpv, _n, _f, data, use, cfg in pkgs:
        key = f"{cpv[0]}/{cpv[1]}-{cpv[2]}"
        repos[rng.randrange(nrep)][key] = data
        use_map[key] = use
        cfg_map[key] = cfg
    return {"repos": repos, "vdb": vdb, "pkgs": [(p[0], p[1], p[2]) for p in pkgs], "inst": inst,
            "files": files, "use": use_map, "cfg": cfg_map}


def gen_usecond(rng, clause):
    """Directed world for one protection clause: package A is the cleaning target; package B
    (excluded by -x / fetch-restricted under -f / merely in the tree under -E / installed under
    -I) owns a USE-conditional distfile NAMED AFTER A whose flag is usually disabled in the
    configured view, so it is selected by A's regex and protected only through B's raw (all-USE)
    distfiles — or, for -I, through the installed copy's recorded DISTFILES."""
    pa, pb = rng.sample(PNS, 2)
    va, vb = rng.choice(VERS), rng.choice(VERS)
    cb = rng.choice(CATS)
    kind = rng.choice(["cond", "ncond"])
    disabled = rng.random() < 0.8
    if kind == "cond":
        use_b = [f for f in ("static", "x86") if rng.random() < 0.5] + ([] if disabled else ["doc"])
    else:
        use_b = (rng.choice([["static"], ["static", "x86"], []]) if disabled else ["x86"]) \
            + (["doc"] if rng.random() < 0.5 else [])
    docs = f"{pa}-docs-{vb}.tar.gz"
    ents_b = [("http", f"{pb}-{vb}.tar.gz"), (kind, docs)]
    rng.shuffle(ents_b)
    uri_b, names_b, cfg_b = flat_src_uri(ents_b, use_b)
    fetch_b, restrict_b = False, rng.choice(["", "mirror"])
    if clause == "f":
        fetch_b, restrict_b = True, rng.choice(["fetch", "!doc? ( fetch )" if "doc" not in use_b else "doc? ( fetch )"])
    use_a = [f for f in ("doc", "static", "x86") if rng.random() < 0.4]
    uri_a, names_a, cfg_a = flat_src_uri([("http", f"{pa}-{va}.tar.gz")], use_a)
    ka, kb = f"app/{pa}-{va}", f"{cb}/{pb}-{vb}"
    pkgs = sorted([(("app", pa, va), names_a, False), ((cb, pb, vb), names_b, fetch_b)],
                  key=lambda p: (p[0][0], p[0][1], VKEY[p[0][2]]))
    repo = {ka: {"SRC_URI": uri_a, "RESTRICT": "", "SLOT": "0", "IUSE": "doc static x86"},
            kb: {"SRC_URI": uri_b, "RESTRICT": restrict_b, "SLOT": "0", "IUSE": "doc static x86"}}
    vdb, inst = {}, []
    if clause == "I" or rng.random() < 0.2:
        rec = list(names_b) if clause == "I" else list(cfg_b)     # built with the flag on / as configured
        vdb[f"{cb}/{pb}-{vb}"] = {"DISTFILES": " ".join(rec), "SLOT": "0"}
        inst.append(rec)
    files = {n: None for n in names_a + names_b + [f"{pa}-0.1.tar.gz", f"{pb}-0.1.tar.gz"]}
    world = {"repos": [repo], "vdb": vdb, "pkgs": pkgs, "inst": inst, "files": files,
             "use": {ka: use_a, kb: use_b}, "cfg": {ka: cfg_a, kb: cfg_b}}
    toks = [{"x": ("x", [f"{cb}/{pb}"]), "f": ("f", None), "E": ("E", None), "I": ("I", None)}[clause]]
    if rng.random() < 0.15:
        toks.append((rng.choice("If"), None))
    if rng.random() < 0.2:
        toks.append(("m", "1d"))
    rng.shuffle(toks)
    pos = rng.randint(0, len(toks))
    toks[pos:pos] = [("t", f"app/{pa}")]
    return world, toks, rng.random() < 0.9


def gen_patterns(rng, world, n, globs=True, bare=True):
    out = []
    for _ in range(n):
        if world["pkgs"] and rng.random() < 0.8:
            cat, pn, ver = rng.choice(world["pkgs"])[0]
        else:
            cat, pn, ver = rng.choice(CATS), rng.choice(PNS), rng.choice(VERS)
        out.append(rng.choice([f"{cat}/{pn}", f"{cat}/{pn}", f"={cat}/{pn}-{ver}"]
                              + ([pn, pn] if bare else []) + ([f"{cat}/*"] if globs else [])))
    return out


def gen_argv(rng, world, bad=False):
    """Returns (argv tokens [(kind, payload)], tty)."""
    toks = []
    for flag, p in (("I", 0.4), ("E", 0.45), ("f", 0.3), ("p", 0.12)):
        if rng.random() < p:
            toks.append((flag, None))
    # With BOTH an exclusion list and targets, category globs are not used and targets always
    # name their category: otherwise the repository's candidate pruning loses matches
    # (repo.itermatch(And(Not(Or(app/baz)), Or(baz))) returns nothing although dev/baz matches —
    # repository-query territory, property C08; for pclean it errs on the side of removing
    # less), see notes/C46.md
    nx = rng.choice([0, 0, 0, 1, 1, 2])
    nt = rng.choice([0, 0, 1, 1, 1, 2])
    for _ in range(nx):
        pats = gen_patterns(rng, world, rng.choice([1, 1, 2]), globs=(nt == 0 and not bad))
        if rng.random() < 0.1:
            pats = []
        toks.append(("x", pats))
    if rng.random() < 0.35:
        u = rng.choice(list(TIME_UNITS))
        toks.append(("m", f"{rng.choice([1, 2, 3, 10, 45])}{u}"))
    if rng.random() < 0.35:
        u = rng.choice(["B", "K", "K", "M", "G"])
        toks.append(("s", f"{rng.choice([1, 2, 5, 100]) if u != 'G' else 1}{u}"))
    targets = [("t", p) for p in gen_patterns(rng, world, nt, globs=(nx == 0 and not bad),
                                             bare=(nx == 0 and not bad))]
    if bad:
        k = rng.choice(["m", "s", "t", "x", "m", "s"])
        if k == "t":
            targets.append(("t", BAD_PATTERN))
            rng.shuffle(targets)
        elif k == "m":
            toks.append(("m", rng.choice(["1x", "d", "", "1.5d", "-1d", "1 d", "1D", "1mins", "y1", "1d1"])))
        elif k == "s":
            toks.append(("s", rng.choice(["10k", "1KB", "K", "", "1.0M", "0x1K", "1 G", "5b"])))
        else:
            toks.append(("x", [BAD_PATTERN] + gen_patterns(rng, world, rng.choice([0, 1]))))
    rng.shuffle(toks)
    # argparse takes the positional TARGETs (nargs="*") as ONE contiguous block
    pos = rng.randint(0, len(toks))
    toks[pos:pos] = targets
    return toks, rng.random() < 0.85


def assign_file_attrs(rng, world, toks):
    """ages / sizes near the thresholds of the given -m / -s options (margins: 600 s, 1 byte)."""
    thr_t = [int(re.match(r"\d+", s).group()) * TIME_UNITS[re.sub(r"^\d+", "", s)]
             for k, s in toks if k == "m" and re.fullmatch(r"\d+(s|min|h|d|w|m|y)", s)]
    thr_s = [int(re.match(r"\d+", s).group()) * SIZE_UNITS[s[-1]]
             for k, s in toks if k == "s" and re.fullmatch(r"\d+[BKMG]", s)]
    for name in world["files"]:
        if thr_t and rng.random() < 0.8:
            t = rng.choice(thr_t)
            age = t + rng.choice([-600, 600, -86400, 86400, 7200, -3600])
        else:
            age = rng.choice([0, 3600, 86400 * 3, 86400 * 40, 86400 * 400])
        for t in thr_t:               # never closer than 600 s to a threshold (the clock moves)
            if abs(age - t) < 600:
                age = t + 600
        if thr_s and rng.random() < 0.8:
            s = rng.choice(thr_s)
            size = max(0, s + rng.choice([-1, 0, 1, -1, 1, 1000, -1000]))
        else:
            size = rng.choice([0, 1, 3, 1500, 70000])
        world["files"][name] = (age, size)


# --------------------------------------------------------------------------- one case
def argv_strings(toks):
    argv = ["dist"]
    for k, v in toks:
        if k in "IEfp":
            argv.append("-" + k)
        elif k == "x":
            argv += ["-x", ",".join(v) if v else ","]
        elif k in "ms":
            argv += [f"-{k}{v}"] if v.startswith("-") else [f"-{k}", v]
        else:
            argv.append(v)
    return argv


def execute(chk, world, toks, tty):
    """Materialise DISTDIR, run the implementation, return the canonical result pieces."""
    base = chk.scratch / "w"
    if base.exists():
        shutil.rmtree(base)
    dist = base / "dist"
    dist.mkdir(parents=True)
    now = time.time()
    for name, (age, size) in world["files"].items():
        p = dist / name
        with open(p, "wb") as fh:
            if size:
                fh.truncate(size)
        os.utime(p, (now - age, now - age))
    cwd = os.getcwd()
    os.chdir(base)
    try:
        status, text = run_pclean(argv_strings(toks), str(dist), world["repos"], world["vdb"], tty,
                                  world.get("use"))
    finally:
        os.chdir(cwd)
    left = sorted(os.listdir(dist))
    printed = []
    if text:
        for line in text.splitlines():
            line = line.removeprefix("Would remove ")
            if line.startswith(str(dist) + "/"):
                printed.append(line[len(str(dist)) + 1:])
            elif line.strip():
                printed.append("?" + line)
    return status, left, printed


def analyse(world, toks):
    """Everything the model input and the Python oracle need, from the harness's own reading of
    the command line (independent of pclean's option code)."""
    flags = {k for k, _ in toks if k in "IEfp"}
    xs = [v for k, v in toks if k == "x"]
    excl = [p for p in (xs[-1] if xs else []) if p]
    targets = [v for k, v in toks if k == "t"]
    pkgs = world["pkgs"]

    def m(pats, cpv):
        return any(pat_matches(p, cpv) for p in pats)
    matched = [(cpv, names) for cpv, names, _f in pkgs
               if (not excl or not m(excl, cpv)) and (not targets or m(targets, cpv))]
    has_restrict = bool(excl or targets)
    sel = sel_oracle(matched, world["files"]) if has_restrict else set(world["files"])
    needed = set()
    if "I" in flags:
        needed.update(chain.from_iterable(world["inst"]))
    if "E" in flags:
        needed.update(chain.from_iterable(n for _c, n, _f in pkgs))
    if "f" in flags:
        needed.update(chain.from_iterable(n for _c, n, f in pkgs if f))
    needed.update(chain.from_iterable(n for c, n, _f in pkgs if m(excl, c)))
    # which needed files are needed ONLY through a USE-conditional part that is disabled in the
    # configured view (the code must read the raw package there), per clause
    cfg = world.get("cfg", {})

    def cn(c, n):
        return cfg.get("%s/%s-%s" % c, n)
    cfg_needed = set(chain.from_iterable(world["inst"])) if "I" in flags else set()
    raw_only = {}
    for key, on, pred in (("E", "E" in flags, lambda c, f: True), ("f", "f" in flags, lambda c, f: f),
                          ("x", bool(excl), lambda c, f: m(excl, c))):
        if on:
            cfg_needed.update(chain.from_iterable(cn(c, n) for c, n, f in pkgs if pred(c, f)))
            raw_only[key] = set(chain.from_iterable(n for c, n, f in pkgs if pred(c, f)))
    for key in raw_only:
        raw_only[key] = raw_only[key] - cfg_needed
    return {"raw_only": raw_only, "flags": flags, "excl": excl, "targets": targets, "matched": matched,
            "has_restrict": has_restrict, "sel": sel, "needed": needed}


def qty(s, table, pat):
    mo = re.fullmatch(pat, s)
    return int(mo.group(1)) * table[mo.group(2)] if mo else None


def oracle(world, toks, an, removed):
    """The property, directly: returns a description of the first failure or None."""
    mods = [v for k, v in toks if k == "m"]
    sizes = [v for k, v in toks if k == "s"]
    tm = qty(mods[-1], TIME_UNITS, r"(\d+)(s|min|h|d|w|m|y)") if mods else None
    sz = qty(sizes[-1], SIZE_UNITS, r"(\d+)([BKMG])") if sizes else None
    for f in removed:
        if f not in world["files"]:
            return f"{f!r} is not a DISTDIR file"
        if f in an["needed"]:
            return f"{f!r} is needed (kept by -I/-E/-f/-x) but was removed"
        if an["has_restrict"] and f not in an["sel"]:
            return f"{f!r} is not selected by the cleaning targets but was removed"
        age, size = world["files"][f]
        if tm is not None and not age > tm:
            return f"{f!r} was modified within the -m window but was removed"
        if sz is not None and not size < sz:
            return f"{f!r} is not smaller than the -s size but was removed"
    return None


def coq_input(world, toks, tty, an):
    names = set(world["files"])
    for _c, n, _f in world["pkgs"]:
        names.update(n)
    for n in world["inst"]:
        names.update(n)
    fid = {n: i + 1 for i, n in enumerate(sorted(names))}
    pats = sorted({p for k, v in toks if k == "x" for p in v} | {v for k, v in toks if k == "t"})
    pid = {p: (0 if p == BAD_PATTERN else i + 1) for i, p in enumerate(pats)}

    def nl(xs):
        xs = list(xs)
        return "[" + ";".join(str(int(x)) for x in xs) + "]%N" if xs else "[]"

    def ids(ns):
        return nl(fid[n] for n in ns)
    tl = []
    for k, v in toks:
        if k in "IEfp":
            tl.append({"I": "TInst", "E": "TExists", "f": "TFetch", "p": "TPretend"}[k])
        elif k == "x":
            tl.append("TExcl " + nl(pid[p] for p in v))
        elif k == "m":
            tl.append("TMod " + cstr(v))
        elif k == "s":
            tl.append("TSize " + cstr(v))
        else:
            tl.append(f"TTarget {pid[v]}%N")
    pk = []
    for cpv, n, f in world["pkgs"]:
        mp = [pid[p] for p in pats if p != BAD_PATTERN and pat_matches(p, cpv)]
        pk.append("mkp %s %s %s" % (ids(n), cbool(f), nl(mp)))
    fl = ["mkf %d %s %d" % (fid[n], f"({a})" if a < 0 else a, s) for n, (a, s) in world["files"].items()]
    term = ("mki %s %s %s %s %s %s"
            % (clist(tl, "tok"), clist(fl, "finfo"), clist(pk, "pkg"),
               clist([ids(n) for n in world["inst"]], "list N"),
               ids(sorted(an["sel"] & set(world["files"]))), cbool(tty)))
    return term, fid, nl


class ResList(list):
    """the canonical result [status, left ids, printed ids] + its compact Coq rendering"""

    def __init__(self, xs, raw):
        super().__init__(xs)
        self.raw = raw


def shuffle_files(rng, world):
    items = list(world["files"].items())
    rng.shuffle(items)
    world["files"] = dict(items)


def one_case(chk, world, toks, tty):
    an = analyse(world, toks)
    status, left, printed = execute(chk, world, toks, tty)
    term, fid, nl = coq_input(world, toks, tty, an)
    unknown = [n for n in left + printed if n not in fid]
    res = [None if status == 0 else status if isinstance(status, Err) else int(status),
           [fid.get(n, 0) for n in left], [fid.get(n, 0) for n in printed]]
    from .common import Raw, cval
    res = ResList(res, Raw("res %s %s %s" % (cval(res[0]), nl(res[1]), nl(res[2]))))
    removed = sorted(set(world["files"]) - set(left))
    bad = oracle(world, toks, an, removed + printed)
    if unknown and not bad:
        bad = f"unexpected names in DISTDIR / output: {unknown}"
    return term, res, an, removed, printed, bad


def describe(world, toks, tty, extra=None):
    d = {"argv": argv_strings(toks), "tty": tty,
         "repo_packages": [{"cpv": "%s/%s-%s" % c, "distfiles": n, "fetch_restricted": f,
                            "use": world.get("use", {}).get("%s/%s-%s" % c, [])} for c, n, f in world["pkgs"]],
         "installed_distfiles": world["inst"], "distdir": {k: list(v) for k, v in world["files"].items()},
         "world": {"repos": world["repos"], "vdb": world["vdb"], "use": world.get("use", {})}, "toks": [[k, v] for k, v in toks]}
    if extra:
        d.update(extra)
    return d


# --------------------------------------------------------------------------- main
def main(chk: Check):
    global _CLASSES
    import logging
    logging.getLogger("pkgcore").setLevel(logging.ERROR)
    from pkgcore.scripts import pclean
    _CLASSES = _mk_classes()

    chk.rule("random worlds: 1-7 repository packages over 7 overlapping package names x 4 versions in 1-2 "
             "repositories, SRC_URI with plain/mirror/renamed/conditional entries, shared files, files named "
             "after other packages, 0-3 installed packages (some no longer in the tree), DISTDIR = random 80% "
             "subset of all those names + files of vanished versions + unrelated files, ages/sizes placed "
             "around the -m/-s thresholds; argv = random subset of -I -E -f -p, 0-2 -x lists, -m, -s, 0-2 "
             "targets, shuffled; non-trivial = a run on a tty without -p in which at least one file is removed "
             "AND at least one DISTDIR file that the targets select and the filters pass is kept because it is "
             "needed (distinct by argv shape + kept/removed pattern)")
    ok = chk.build(["C46/Prop_C46.vo"])
    if ok:
        chk.check_assumptions("C46/Prop_C46.v")
    chk.lint(["C46"])
    chk.check_fingerprint(ANCHORS)

    rng = chk.rng
    cases, results, meta, prop_bad = [], [], [], []
    branch = defaultdict(int)

    def add(world, toks, tty, stream):
        term, res, an, removed, printed, bad = one_case(chk, world, toks, tty)
        cases.append((term, res.raw))
        results.append(res)
        meta.append((world, toks, tty, stream))
        chk.count(stream)
        if bad:
            prop_bad.append((world, toks, tty, bad, removed, printed))
        fl = an["flags"]
        if res[0] is None:
            branch["targets" if an["targets"] else "no-targets"] += 1
            branch["excludes" if an["excl"] else "no-excludes"] += 1
            for k in "IEfp":
                if k in fl:
                    branch["-" + k] += 1
            if an["has_restrict"] and not an["matched"]:
                branch["restrict-matches-nothing"] += 1
            if any(k == "m" for k, _ in toks):
                branch["-m"] += 1
            if any(k == "s" for k, _ in toks):
                branch["-s"] += 1
            if not tty:
                branch["not-a-tty"] += 1
            for key, fs in an["raw_only"].items():
                if any(f in world["files"] and f in an["sel"]
                       and oracle(world, toks, dict(an, needed=set()), [f]) is None for f in fs):
                    branch["kept-only-by-a-disabled-USE-part:-" + key] += 1
            if tty and "p" not in fl and removed:
                kept_needed = [f for f in world["files"] if f in an["needed"] and f in an["sel"]
                               and oracle(world, toks, dict(an, needed=set()), [f]) is None]
                if kept_needed:
                    chk.nontrivial((tuple(sorted(fl)), len(an["excl"]), len(an["targets"]),
                                    tuple(f in removed for f in sorted(world["files"]))))
        else:
            branch["error:" + res[0].kind] += 1
        return res

    # corpus first
    import json
    from .common import VERIF
    for p in sorted((VERIF / "corpus" / "C46").glob("*.json")):
        d = json.loads(p.read_text())
        w = d["world"]
        world = {"repos": w["repos"], "vdb": w["vdb"], "use": w.get("use", {}),
                 "pkgs": [(tuple(c), n, f) for c, n, f in w["pkgs"]], "inst": w["inst"],
                 "files": {k: tuple(v) for k, v in w["files"].items()}}
        add(world, [(k, v) for k, v in d["toks"]], d["tty"], "corpus")

    n_dist = chk.n(220, 2400)
    for i in range(n_dist):
        world = gen_world(rng, chk.thorough)
        toks, tty = gen_argv(rng, world)
        assign_file_attrs(rng, world, toks)
        shuffle_files(rng, world)
        add(world, toks, tty, "dist")
        if i < 3:
            chk.sample({"stream": "dist", "argv": argv_strings(toks), "tty": tty,
                        "distdir": sorted(world["files"]), "impl_status_left_printed": list(results[-1])})
    for i in range(chk.n(36, 240)):
        world, toks, tty = gen_usecond(rng, "xfEI"[i % 4])
        assign_file_attrs(rng, world, toks)
        shuffle_files(rng, world)
        add(world, toks, tty, "usecond")
        if i == 0:
            chk.sample({"stream": "usecond", "argv": argv_strings(toks), "use": world["use"],
                        "repo": world["repos"][0], "impl_status_left_printed": list(results[-1])})
    for i in range(chk.n(40, 300)):
        world = gen_world(rng, False)
        toks, tty = gen_argv(rng, world, bad=True)
        assign_file_attrs(rng, world, toks)
        res = add(world, toks, tty, "bad")
        if i == 0:
            chk.sample({"stream": "bad", "argv": argv_strings(toks), "impl": list(res)})
    chk.cov["branches"] = dict(sorted(branch.items()))

    # ---- qty stream
    qcases = []
    good_t = [f"{v}{u}" for u in TIME_UNITS for v in (0, 1, 7, 12, 365, "007")]
    good_s = [f"{v}{u}" for u in SIZE_UNITS for v in (0, 1, 3, 1024, "010")]
    bad_q = ["", "1", "d", "1x", "1.5d", "-1d", " 1d", "1d ", "1 d", "1D", "1mins", "1mi", "1d\n", "1d\n\n", "\n",
             "1dd", "1sd", "10k", "1KB", "1Kb", "K", "1.0M", "1 G", "5b", "1G\n", "1B1", "1mB"]
    for s in good_t + bad_q:
        qcases.append((False, s))
    for s in good_s + bad_q:
        qcases.append((True, s))
    for _ in range(chk.n(60, 600)):
        which = rng.random() < 0.5
        alpha = "0123456789smhdwyinBKMG \n.-x"
        s = "".join(rng.choice("0123456789") for _ in range(rng.randint(0, 3)))
        s += rng.choice(list(SIZE_UNITS if which else TIME_UNITS) + ["", "x"])
        if rng.random() < 0.4:
            pos = rng.randint(0, len(s))
            s = s[:pos] + rng.choice(alpha) + s[pos:]
        qcases.append((which, s))
    qc2 = []
    for which, s in qcases:
        f = pclean.parse_size if which else pclean.parse_time
        t1 = time.time()
        r = impl_call(lambda: f(s), kinds={"ArgumentTypeError": "usage"})
        t2 = time.time()
        if not isinstance(r, Err) and not which:
            r = int(round((t1 + t2) / 2 - r))       # parse_time returns now - seconds
        qc2.append((cpair_bs(which, s), r))
    chk.count("qty", len(qc2))

    if not ok:
        return
    # ---- evaluate model and spec inside Coq
    import concurrent.futures as cf
    with cf.ThreadPoolExecutor(max_workers=2) as ex:      # the two streams side by side
        fr = ex.submit(chk.coq_eval, "dist", IMPORTS, "input", cases,
                       ["mismatches run cases", "where_ (fun i r => negb (spec_ok i r)) cases"],
                       shard=250)
        fq = ex.submit(chk.coq_eval, "qty", IMPORTS, "bool * str", qc2, ["mismatches run_qty cases"])
        r, rq = fr.result(), fq.result()
    spec_bad = []
    if r is not None:
        spec_bad = r[1]
    for world, toks, tty, bad, removed, printed in prop_bad[:3]:
        chk.violation("property", {"what": bad, "input": describe(world, toks, tty),
                                   "removed": removed, "would_remove": printed})
    if not prop_bad:
        for i in spec_bad[:3]:
            world, toks, tty, _s = meta[i]
            chk.violation("property", {"what": "Spec_C46.spec_ok rejects the implementation's result",
                                       "input": describe(world, toks, tty), "implementation": list(results[i])})
    if r is not None:
        for i in r[0][:3]:
            world, toks, tty, stream = meta[i]
            chk.violation("correspondence",
                          {"what": f"implementation and Model_C46.run disagree on stream '{stream}' "
                                   "(theorems of Prop_C46 no longer speak about this code)",
                           "input": describe(world, toks, tty), "implementation": list(results[i]),
                           "coq_input": cases[i][0]},
                          no_input=not (prop_bad or spec_bad))
    if rq is not None:
        for i in rq[0][:3]:
            chk.violation("correspondence",
                          {"what": "pclean.parse_time/parse_size and Model_C46.parse_qty disagree",
                           "input": {"size": qcases[i][0], "string": qcases[i][1]}, "implementation": qc2[i][1]},
                          no_input=not (prop_bad or spec_bad))


def cpair_bs(which, s):
    return "(%s, %s)" % (cbool(which), cstr(s))


def replay(chk, data):
    global _CLASSES
    _CLASSES = _mk_classes()
    d = data.get("detail", {}).get("input", {})
    if "world" not in d or "toks" not in d:
        print("no replayable input in this record")
        return
    pk = [((lambda c: (c.split("/")[0], c.split("/")[1].rsplit("-", 1)[0], c.rsplit("-", 1)[1]))(p["cpv"]),
           p["distfiles"], p["fetch_restricted"]) for p in d["repo_packages"]]
    world = {"repos": d["world"]["repos"], "vdb": d["world"]["vdb"], "use": d["world"].get("use", {}), "pkgs": pk,
             "inst": d["installed_distfiles"], "files": {k: tuple(v) for k, v in d["distdir"].items()}}
    toks = [(k, v) for k, v in d["toks"]]
    term, res, an, removed, printed, bad = one_case(chk, world, toks, d["tty"])
    print("implementation: status/left/printed =", list(res))
    print("removed:", removed, " would remove:", printed)
    print("needed:", sorted(an["needed"]), " selected:", sorted(an["sel"]))
    print("oracle:", bad or "ok")
    r = chk.coq_eval("replay", IMPORTS, "input", [(term, res.raw)],
                     ["mismatches run cases", "where_ (fun i r => negb (spec_ok i r)) cases"])
    print("model disagrees:" if r and r[0] else "model agrees", "; spec rejects" if r and r[1] else "; spec accepts")
