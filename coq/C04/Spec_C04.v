(* Spec_C04.v — the statement of C04, written from its text (not from the algorithm):
   an atom matches a package exactly when category and name are equal, the version satisfies
   the operator (<, <=, =, ~ ignoring the revision, >=, >, and =...* meaning the written version
   components are a prefix of the package version ON COMPONENT BOUNDARIES), any slot, sub-slot
   and repository constraints are equal, and every USE dependency holds, using the (+)/(-)
   default for flags absent from IUSE.  The order on versions is the parameter [vc]. *)
From Coq Require Import List NArith ZArith Bool.
Import ListNotations.
From Verif Require Import Base.Val C01.Model_C01 C04.Model_C04.

(* ---- version components: maximal digit runs, maximal letter runs, and single separators.
   "1.10a_alpha2-r3" = 1 . 10 a _ alpha 2 - r 3 *)
Definition cls (c : N) : N := if is_digit c then 0%N else if is_alpha c then 1%N else 2%N.
Definition joinable (c d : N) : bool := N.eqb (cls c) (cls d) && negb (N.eqb (cls c) 2).
Fixpoint tokenize (s : str) : list str :=
  match s with
  | [] => []
  | c :: s' =>
      match tokenize s' with
      | (d :: t) :: rest => if joinable c d then (c :: d :: t) :: rest else [c] :: (d :: t) :: rest
      | other => [c] :: other
      end
  end.
Fixpoint list_prefix (a b : list str) : bool :=
  match a, b with
  | [], _ => true
  | x :: a', y :: b' => str_eqb x y && list_prefix a' b'
  | _ :: _, [] => false
  end.
(* the written components [g] are a prefix of the components of [s] *)
Definition comp_prefix (g s : str) : bool := list_prefix (tokenize g) (tokenize s).

(* ---- one USE dependency: the flag's state is its real state when it is in IUSE, else the
   (+)/(-) default when one is written, else whether it is enabled *)
Definition flag_state (dflt : option bool) (f : str) (iuse use : list str) : bool :=
  if smem f iuse then smem f use
  else match dflt with Some d => d | None => smem f use end.
Definition usedep_holds (dflt : option bool) (sign : bool) (f : str) (iuse use : list str) : bool :=
  Bool.eqb (flag_state dflt f iuse use) sign.

Definition opt_eq (o : option str) (s : str) : bool :=
  match o with None => true | Some x => str_eqb x s end.

Section Spec.
Variable vc : str -> option N -> str -> option N -> Z.

Definition ver_ok (a : atom) (p : package) : bool :=
  let c := vc (p_ver p) (p_rev p) (a_ver a) (a_rev a) in
  match a_op a with
  | 0%N => Z.ltb c 0
  | 1%N => Z.leb c 0
  | 2%N => Z.eqb c 0
  | 3%N => Z.leb 0 c
  | 4%N => Z.ltb 0 c
  | 5%N => Z.eqb (vc (p_ver p) None (a_ver a) None) 0         (* ~ ignores the revisions *)
  | 6%N => match a_fullver a with Some g => comp_prefix g (p_fullver p) | None => true end
  | _ => true                                                  (* unversioned *)
  end.

Definition use_ok (a : atom) (p : package) : bool :=
  match a_use a with
  | None => true
  | Some toks =>
      forallb (fun t => let '(d, s, f) := parse_use_token t in
                        usedep_holds d s f (p_iuse p) (p_use p)) toks
  end.

(* the blocker prefix, the slot operator and the original spelling play no role *)
Definition pms_match (a : atom) (p : package) : bool :=
  str_eqb (a_cat a) (p_cat p) && str_eqb (a_pkg a) (p_pkg p)
  && ver_ok a p
  && opt_eq (a_slot a) (p_slot p) && opt_eq (a_subslot a) (p_subslot p)
  && opt_eq (a_repo a) (p_repo p)
  && use_ok a p.
End Spec.

(* ---- shape of a parsed atom (what atom.__init__ guarantees; checked on every atom the
   harness builds): versioned iff it has an operator; a sub-slot only with a slot *)
Definition is_some {A} (o : option A) : bool := match o with Some _ => true | None => false end.
Definition wf_atom (a : atom) : bool :=
  N.leb (a_op a) 7
  && Bool.eqb (N.eqb (a_op a) 7) (negb (is_some (a_fullver a)))
  && (negb (is_some (a_subslot a)) || is_some (a_slot a)).

(* ---- known classes: where the pinned implementation (and the faithful model) leave the spec *)
(* K1: the glob text is a string prefix of the package's fullver that does not end at a
   component boundary (=a/b-1* vs a/b-10) *)
Definition known_glob (a : atom) (p : package) : bool :=
  N.eqb (a_op a) 6
  && match a_fullver a with
     | Some g => startswith (p_fullver p) g && negb (comp_prefix g (p_fullver p))
     | None => false
     end.
(* K2: several negative USE deps of one group, some of the relevant flags enabled and some not:
   the group is evaluated as "not all enabled" *)
Definition mixed (R use : list str) : bool :=
  existsb (fun f => smem f use) R && existsb (fun f => negb (smem f use)) R.
Definition nand_toks (toks : list str) (iuse use : list str) : bool :=
  mixed (group None false toks) use
  || mixed (filter (fun f => smem f iuse) (group (Some false) false toks)) use
  || (subset (group (Some true) false toks) iuse && mixed (group (Some true) false toks) use).
Definition known_use_nand (a : atom) (p : package) : bool :=
  match a_use a with
  | None => false
  | Some toks => nand_toks toks (p_iuse p) (p_use p)
  end.

(* ---- the truth table of one USE dependency: written default, sign, flag in IUSE, flag enabled *)
Definition use_table (dflt : option bool) (sign in_iuse enabled : bool) : bool :=
  match in_iuse, dflt with
  | true, _ => Bool.eqb enabled sign          (* in IUSE: the real state decides *)
  | false, Some d => Bool.eqb d sign          (* absent from IUSE: the written default decides *)
  | false, None => Bool.eqb enabled sign
  end.

(* the text of a USE dep: [-]flag[(+)|(-)] *)
Definition render_use (dflt : option bool) (sign : bool) (f : str) : str :=
  (if sign then [] else [45%N]) ++ f
  ++ match dflt with None => [] | Some true => [40; 43; 41]%N | Some false => [40; 45; 41]%N end.

(* ---- comparison (B) inside Coq: the implementation's recorded answer against the spec, with
   C01's ver_cmp as the order *)
Definition spec_match_bad (i : atom * package) (res : val) : bool :=
  negb (a_negate_vers (fst i))          (* atom(..., negate_vers=True) is outside the statement *)
  && negb (val_eqb res (VB (pms_match ver_cmp (fst i) (snd i)))).
Definition in_known_glob (i : atom * package) (_ : val) : bool := known_glob (fst i) (snd i).
Definition in_known_nand (i : atom * package) (_ : val) : bool := known_use_nand (fst i) (snd i).
Definition atom_illformed (a : atom) (_ : val) : bool := negb (wf_atom a).
