(* Proofs_C44.v — lemmas and proofs for C44. *)
From Coq Require Import List NArith ZArith Bool Arith Lia.
Import ListNotations.
From Verif Require Import Base.Val C01.Model_C01 C04.Model_C04 C44.Model_C44 C44.Spec_C44.
From Verif Require C03.Model_C03.
Local Open Scope N_scope.

(* ------------------------------------------------------------------ strip keeps a blocker mark *)
Lemma mem_app c a b : mem c (a ++ b) = mem c a || mem c b.
Proof. unfold mem. apply existsb_app. Qed.

Lemma mem_rev c s : mem c (List.rev s) = mem c s.
Proof.
  induction s as [|x s IH]; [reflexivity|].
  cbn [List.rev]. rewrite mem_app, IH. unfold mem. cbn [existsb]. rewrite orb_false_r. apply orb_comm.
Qed.

Lemma mem_lstrip c s : is_space c = false -> mem c (lstrip s) = mem c s.
Proof.
  intros Hc. induction s as [|x s IH]; [reflexivity|].
  cbn [lstrip]. destruct (is_space x) eqn:E; [|reflexivity].
  rewrite IH. unfold mem. cbn [existsb]. destruct (c =? x) eqn:Ex; [|reflexivity].
  apply N.eqb_eq in Ex. subst. congruence.
Qed.

Lemma mem_strip c s : is_space c = false -> mem c (strip s) = mem c s.
Proof.
  intros Hc. unfold strip. rewrite mem_rev, (mem_lstrip _ _ Hc), mem_rev. apply mem_lstrip, Hc.
Qed.

Lemma blocker_rejected_proof : forall fix_ t, mem c_bang t = true -> parse_match_gen fix_ t = EParse.
Proof.
  intros fix_ t H. unfold parse_match_gen. cbn [parse_match_fuel]. unfold parse_head.
  rewrite mem_strip by reflexivity. rewrite H. reflexivity.
Qed.
