import time, sys
from harness import common, c17
orig = {}
for name in ("build", "check_assumptions", "lint", "check_fingerprint", "coq_eval"):
    f = getattr(common.Check, name)
    def wrap(f=f, name=name):
        def g(self, *a, **k):
            t = time.time(); r = f(self, *a, **k); print(name, round(time.time() - t, 1), file=sys.stderr); return r
        return g
    setattr(common.Check, name, wrap())
t = time.time()
rc = common.main_entry("C17", [])
print("total", time.time() - t, file=sys.stderr)
