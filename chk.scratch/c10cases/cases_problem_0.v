From Coq Require Import List NArith ZArith Bool.
From Verif Require Import Base.Val C10.Model_C10 C10.Spec_C10.
Import ListNotations.

Definition cases : list ((fcs_input) * val) := 
[
  (([(Grp KOr false [(Cond true 2%N [(Flag false false [0%N])]); (Grp KAnd false [(Flag false false [1%N]); (Flag false false [2%N]); (Flag true false [1%N])])])], ([2%N], [1%N], [2%N], [0%N; 2%N; 5%N])),
   (prob_val [(0, [false]); (1, [false]); (2, [false])]%N [(7, [1; 3; 4; 5; 6; 7])]%N));
  (([(Grp KOr false [(Cond true 2%N [(Flag false false [0%N])]); (Grp KAnd false [(Flag false false [1%N]); (Flag false false [2%N]); (Flag true false [1%N])])])], ([0%N; 2%N], (@nil (N)), [0%N], [0%N])),
   (prob_val [(0, [false]); (1, [false]); (2, [true; false])]%N [(7, [1; 3; 4; 5; 6; 7])]%N));
  (([(Flag true false [0%N]); (Flag false false [3%N])], ((@nil (N)), (@nil (N)), (@nil (N)), [5%N])),
   (prob_val [(0, [false]); (3, [false])]%N [(1, [0]); (8, [8])]%N));
  (([(Flag true false [0%N]); (Flag false false [3%N])], ([0%N], [3%N], (@nil (N)), [0%N; 3%N])),
   (prob_val [(0, [false; true]); (3, [false])]%N [(1, [0]); (8, [8])]%N));
  (([(Flag false false [1%N]); (Flag false false [1%N]); (Grp KAmo false [(Flag true false [1%N]); (Flag false false [1%N]); (Flag true false [0%N])])], ([0%N], [5%N], (@nil (N)), [1%N; 6%N])),
   (prob_val [(0, [true; false]); (1, [false])]%N [(2, [2]); (2, [2]); (3, [1; 3])]%N));
  (([(Flag false false [1%N]); (Flag false false [1%N]); (Grp KAmo false [(Flag true false [1%N]); (Flag false false [1%N]); (Flag true false [0%N])])], ([0%N; 1%N], [5%N], [0%N], (@nil (N)))),
   (prob_val [(0, [false]); (1, [true; false])]%N [(2, [2]); (2, [2]); (3, [1; 3])]%N));
  (([(Grp KOne false [(Flag false false [1%N]); (Grp KOr false [(Flag false false [1%N]); (Flag false false [2%N]); (Flag false false [0%N])])])], ([0%N; 1%N; 2%N], [1%N], [5%N; 6%N], [2%N; 6%N])),
   (prob_val [(0, [true; false]); (1, [true]); (2, [false; true])]%N [(7, [1; 4; 5])]%N));
  (([(Flag false false [0%N]); (Grp KAmo false [(Flag true false [1%N]); (Flag true false [0%N]); (Flag false false [0%N])])], ([0%N; 1%N], [0%N], (@nil (N)), (@nil (N)))),
   (prob_val [(0, [true]); (1, [true; false])]%N [(1, [1]); (3, [2; 3])]%N));
  (([(Flag false false [2%N]); (Flag true false [0%N]); (Grp KOne false [(Grp KOne false [(Flag false false [0%N]); (Flag false false [1%N])]); (Grp KAnd false [(Flag false false [1%N]); (Cond false 2%N [(Flag false false [1%N])])]); (Cond true 2%N [(Flag true false [2%N])])])], ([2%N; 5%N], [1%N; 2%N], (@nil (N)), [0%N; 1%N; 2%N; 6%N])),
   (prob_val [(0, [false]); (1, [false]); (2, [true]); (5, [true; false])]%N [(4, [4]); (1, [0]); (7, [0; 4])]%N));
  (([(Flag false false [0%N]); (Flag false false [0%N])], ([0%N], [5%N], (@nil (N)), [5%N])),
   (prob_val [(0, [true; false])]%N [(1, [1]); (1, [1])]%N));
  (([(Cond false 0%N [(Flag false false [0%N])]); (Grp KAnd false [(Flag false false [4%N]); (Flag true false [1%N])])], ([0%N], [1%N; 6%N], [5%N], [1%N; 4%N; 5%N])),
   (prob_val [(0, [true; false]); (1, [false]); (4, [false])]%N [(1, [0; 1]); (16, [16]); (2, [0])]%N));
  (([(Cond false 0%N [(Flag false false [0%N])]); (Grp KAnd false [(Flag false false [4%N]); (Flag true false [1%N])])], ([0%N; 1%N; 5%N], [4%N], (@nil (N)), [1%N; 4%N])),
   (prob_val [(0, [true; false]); (1, [false; true]); (4, [false]); (5, [true; false])]%N [(1, [0; 1]); (16, [16]); (2, [0])]%N));
  (([(Cond false 0%N [(Flag false false [0%N])]); (Grp KAnd false [(Flag false false [4%N]); (Flag true false [1%N])])], ([0%N; 4%N], (@nil (N)), (@nil (N)), (@nil (N)))),
   (prob_val [(0, [true; false]); (1, [false]); (4, [true; false])]%N [(1, [0; 1]); (16, [16]); (2, [0])]%N));
  (([(Cond false 0%N [(Flag false false [0%N])]); (Grp KAnd false [(Flag false false [4%N]); (Flag true false [1%N])])], ([1%N; 4%N], [0%N; 4%N], [6%N], (@nil (N)))),
   (prob_val [(0, [false]); (1, [true; false]); (4, [true])]%N [(1, [0; 1]); (16, [16]); (2, [0])]%N));
  (([(Cond true 4%N [(Flag true false [1%N]); (Cond false 4%N [(Flag true false [0%N]); (Flag false false [0%N]); (Flag true false [3%N])]); (Flag false false [0%N])])], ((@nil (N)), (@nil (N)), [0%N], (@nil (N)))),
   (prob_val [(0, [false]); (1, [false]); (3, [false]); (4, [false])]%N [(18, [0; 16; 18]); (17, [0; 1; 16; 17]); (17, [0; 1; 16; 17]); (24, [0; 8; 16; 24]); (17, [1; 16; 17])]%N));
  (([(Cond true 4%N [(Flag true false [1%N]); (Cond false 4%N [(Flag true false [0%N]); (Flag false false [0%N]); (Flag true false [3%N])]); (Flag false false [0%N])])], ([0%N; 1%N; 3%N; 4%N], [1%N; 6%N], [0%N], [1%N; 3%N; 4%N; 5%N; 6%N])),
   (prob_val [(0, [false]); (1, [true]); (3, [false; true]); (4, [false; true])]%N [(18, [0; 16; 18]); (17, [0; 1; 16; 17]); (17, [0; 1; 16; 17]); (24, [0; 8; 16; 24]); (17, [1; 16; 17])]%N));
  (([(Cond true 4%N [(Flag true false [1%N]); (Cond false 4%N [(Flag true false [0%N]); (Flag false false [0%N]); (Flag true false [3%N])]); (Flag false false [0%N])])], ([0%N; 5%N], [5%N], (@nil (N)), [1%N; 3%N])),
   (prob_val [(0, [true; false]); (1, [false]); (3, [false]); (4, [false]); (5, [true])]%N [(18, [0; 16; 18]); (17, [0; 1; 16; 17]); (17, [0; 1; 16; 17]); (24, [0; 8; 16; 24]); (17, [1; 16; 17])]%N));
  (([(Cond true 4%N [(Flag true false [1%N]); (Cond false 4%N [(Flag true false [0%N]); (Flag false false [0%N]); (Flag true false [3%N])]); (Flag false false [0%N])])], ([4%N], (@nil (N)), (@nil (N)), [4%N; 6%N])),
   (prob_val [(0, [false]); (1, [false]); (3, [false]); (4, [false; true])]%N [(18, [0; 16; 18]); (17, [0; 1; 16; 17]); (17, [0; 1; 16; 17]); (24, [0; 8; 16; 24]); (17, [1; 16; 17])]%N));
  (([(Cond true 4%N [(Flag true false [1%N]); (Cond false 4%N [(Flag true false [0%N]); (Flag false false [0%N]); (Flag true false [3%N])]); (Flag false false [0%N])])], ([0%N; 1%N; 4%N], [6%N], (@nil (N)), [0%N; 1%N; 3%N; 5%N; 6%N])),
   (prob_val [(0, [false; true]); (1, [false; true]); (3, [false]); (4, [true; false])]%N [(18, [0; 16; 18]); (17, [0; 1; 16; 17]); (17, [0; 1; 16; 17]); (24, [0; 8; 16; 24]); (17, [1; 16; 17])]%N));
  (([(Flag false false [0%N])], ((@nil (N)), (@nil (N)), (@nil (N)), [6%N])),
   (prob_val [(0, [false])]%N [(1, [1])]%N));
  (([(Grp KAmo false [(Cond true 0%N [(Cond false 0%N [(Flag false false [0%N])]); (Grp KOne false [(Flag true false [0%N]); (Flag false false [0%N]); (Flag true false [0%N])]); (Grp KOne false [(Flag false false [0%N]); (Flag false false [0%N]); (Flag false false [0%N])])]); (Flag true false [0%N])])], ([0%N], [0%N], (@nil (N)), [0%N])),
   (prob_val [(0, [true])]%N [(1, [0; 1])]%N));
  (([(Grp KOr false [(Flag false false [0%N]); (Flag true false [0%N])]); (Cond false 0%N [(Flag false false [0%N]); (Flag true false [0%N]); (Cond false 0%N [(Flag false false [0%N])])])], ([0%N; 5%N], (@nil (N)), (@nil (N)), (@nil (N)))),
   (prob_val [(0, [true; false]); (5, [true; false])]%N [(1, [0; 1]); (1, [0; 1]); (1, [0]); (1, [0; 1])]%N));
  (([(Flag false false [0%N]); (Grp KAmo false [(Cond true 0%N [(Flag false false [0%N]); (Cond false 0%N [(Flag true false [0%N])]); (Cond true 0%N [(Flag false false [0%N]); (Flag false false [0%N]); (Flag false false [0%N])])]); (Cond true 0%N [(Flag true false [0%N]); (Grp KOr false [(Flag false false [0%N]); (Flag false false [0%N])])]); (Grp KOne false [(Grp KOne false [(Flag false false [0%N]); (Flag false false [0%N]); (Flag false false [0%N])]); (Grp KAnd false [(Flag false false [0%N]); (Flag false false [0%N]); (Flag false false [0%N])])])])], ([5%N], (@nil (N)), (@nil (N)), (@nil (N)))),
   (prob_val [(0, [false]); (5, [true; false])]%N [(1, [1]); (1, [0])]%N));
  (([(Flag false false [0%N]); (Grp KAmo false [(Cond true 0%N [(Flag false false [0%N]); (Cond false 0%N [(Flag true false [0%N])]); (Cond true 0%N [(Flag false false [0%N]); (Flag false false [0%N]); (Flag false false [0%N])])]); (Cond true 0%N [(Flag true false [0%N]); (Grp KOr false [(Flag false false [0%N]); (Flag false false [0%N])])]); (Grp KOne false [(Grp KOne false [(Flag false false [0%N]); (Flag false false [0%N]); (Flag false false [0%N])]); (Grp KAnd false [(Flag false false [0%N]); (Flag false false [0%N]); (Flag false false [0%N])])])])], ([0%N], (@nil (N)), (@nil (N)), [6%N])),
   (prob_val [(0, [true; false])]%N [(1, [1]); (1, [0])]%N));
  (([(Flag false false [1%N]); (Grp KOr false [(Grp KAmo false [(Flag false false [2%N]); (Cond false 0%N [(Flag false false [2%N]); (Flag false false [2%N])]); (Cond true 1%N [(Flag false false [1%N]); (Flag false false [1%N])])]); (Cond true 3%N [(Flag false false [3%N]); (Grp KOr false [(Flag false false [1%N]); (Flag false false [2%N]); (Flag false false [3%N])])])]); (Grp KAnd false [(Flag false false [0%N]); (Cond false 3%N [(Flag false false [3%N]); (Grp KOr false [(Flag true false [1%N]); (Flag false false [2%N]); (Flag false false [1%N])]); (Grp KAmo false [(Flag false false [0%N]); (Flag true false [0%N])])])])], ([3%N], (@nil (N)), [1%N; 6%N], [0%N; 1%N; 6%N])),
   (prob_val [(0, [false]); (1, [false]); (2, [false]); (3, [true; false])]%N [(2, [2]); (15, [0; 1; 3; 8; 9; 10; 11; 12; 13; 14; 15]); (1, [1]); (8, [0; 8]); (14, [0; 2; 4; 6; 8; 10; 12; 14]); (9, [0; 1; 8; 9])]%N));
  (([(Grp KOr false [(Flag false false [2%N]); (Flag false false [0%N])]); (Cond false 0%N [(Grp KAnd false [(Grp KOr false [(Flag false false [0%N]); (Flag true false [0%N]); (Flag false false [3%N])]); (Grp KOne false [(Flag true false [1%N]); (Flag false false [0%N]); (Flag false false [1%N])]); (Grp KAmo false [(Flag false false [2%N]); (Flag false false [2%N])])]); (Cond false 2%N [(Grp KOne false [(Flag false false [2%N]); (Flag false false [1%N])]); (Flag true false [2%N]); (Flag false false [1%N])]); (Flag false false [0%N])])], ([0%N; 1%N; 2%N; 3%N; 5%N], (@nil (N)), [5%N], [0%N; 5%N])),
   (prob_val [(0, [false; true]); (1, [true; false]); (2, [true; false]); (3, [true; false]); (5, [false])]%N [(5, [1; 4; 5]); (9, [0; 1; 8; 9]); (3, [0; 2]); (5, [0; 1; 4]); (7, [0; 1; 2; 3; 4; 5; 6]); (5, [0; 1; 4]); (7, [0; 1; 2; 3; 4; 6; 7]); (1, [0; 1])]%N));
  (([(Grp KOr false [(Flag false false [2%N]); (Flag false false [0%N])]); (Cond false 0%N [(Grp KAnd false [(Grp KOr false [(Flag false false [0%N]); (Flag true false [0%N]); (Flag false false [3%N])]); (Grp KOne false [(Flag true false [1%N]); (Flag false false [0%N]); (Flag false false [1%N])]); (Grp KAmo false [(Flag false false [2%N]); (Flag false false [2%N])])]); (Cond false 2%N [(Grp KOne false [(Flag false false [2%N]); (Flag false false [1%N])]); (Flag true false [2%N]); (Flag false false [1%N])]); (Flag false false [0%N])])], ([0%N; 1%N; 3%N], [3%N; 6%N], [5%N], [0%N; 1%N; 2%N; 6%N])),
   (prob_val [(0, [false; true]); (1, [false; true]); (2, [false]); (3, [true])]%N [(5, [1; 4; 5]); (9, [0; 1; 8; 9]); (3, [0; 2]); (5, [0; 1; 4]); (7, [0; 1; 2; 3; 4; 5; 6]); (5, [0; 1; 4]); (7, [0; 1; 2; 3; 4; 6; 7]); (1, [0; 1])]%N));
  (([(Grp KOr false [(Flag false false [2%N]); (Flag false false [0%N])]); (Cond false 0%N [(Grp KAnd false [(Grp KOr false [(Flag false false [0%N]); (Flag true false [0%N]); (Flag false false [3%N])]); (Grp KOne false [(Flag true false [1%N]); (Flag false false [0%N]); (Flag false false [1%N])]); (Grp KAmo false [(Flag false false [2%N]); (Flag false false [2%N])])]); (Cond false 2%N [(Grp KOne false [(Flag false false [2%N]); (Flag false false [1%N])]); (Flag true false [2%N]); (Flag false false [1%N])]); (Flag false false [0%N])])], ([1%N; 2%N; 3%N], (@nil (N)), (@nil (N)), [1%N; 5%N; 6%N])),
   (prob_val [(0, [false]); (1, [false; true]); (2, [true; false]); (3, [true; false])]%N [(5, [1; 4; 5]); (9, [0; 1; 8; 9]); (3, [0; 2]); (5, [0; 1; 4]); (7, [0; 1; 2; 3; 4; 5; 6]); (5, [0; 1; 4]); (7, [0; 1; 2; 3; 4; 6; 7]); (1, [0; 1])]%N));
  (([(Grp KOr false [(Flag false false [2%N]); (Flag false false [0%N])]); (Cond false 0%N [(Grp KAnd false [(Grp KOr false [(Flag false false [0%N]); (Flag true false [0%N]); (Flag false false [3%N])]); (Grp KOne false [(Flag true false [1%N]); (Flag false false [0%N]); (Flag false false [1%N])]); (Grp KAmo false [(Flag false false [2%N]); (Flag false false [2%N])])]); (Cond false 2%N [(Grp KOne false [(Flag false false [2%N]); (Flag false false [1%N])]); (Flag true false [2%N]); (Flag false false [1%N])]); (Flag false false [0%N])])], ([2%N; 3%N], [3%N], (@nil (N)), [3%N; 6%N])),
   (prob_val [(0, [false]); (1, [false]); (2, [true; false]); (3, [true])]%N [(5, [1; 4; 5]); (9, [0; 1; 8; 9]); (3, [0; 2]); (5, [0; 1; 4]); (7, [0; 1; 2; 3; 4; 5; 6]); (5, [0; 1; 4]); (7, [0; 1; 2; 3; 4; 6; 7]); (1, [0; 1])]%N));
  (([(Grp KOr false [(Flag false false [2%N]); (Flag false false [0%N])]); (Cond false 0%N [(Grp KAnd false [(Grp KOr false [(Flag false false [0%N]); (Flag true false [0%N]); (Flag false false [3%N])]); (Grp KOne false [(Flag true false [1%N]); (Flag false false [0%N]); (Flag false false [1%N])]); (Grp KAmo false [(Flag false false [2%N]); (Flag false false [2%N])])]); (Cond false 2%N [(Grp KOne false [(Flag false false [2%N]); (Flag false false [1%N])]); (Flag true false [2%N]); (Flag false false [1%N])]); (Flag false false [0%N])])], ([5%N], (@nil (N)), [1%N], [3%N])),
   (prob_val [(0, [false]); (1, [false]); (2, [false]); (3, [false]); (5, [true; false])]%N [(5, [1; 4; 5]); (9, [0; 1; 8; 9]); (3, [0; 2]); (5, [0; 1; 4]); (7, [0; 1; 2; 3; 4; 5; 6]); (5, [0; 1; 4]); (7, [0; 1; 2; 3; 4; 6; 7]); (1, [0; 1])]%N));
  (([(Cond true 4%N [(Cond false 4%N [(Flag false false [0%N]); (Flag false false [3%N]); (Flag true false [4%N])])]); (Flag false false [1%N]); (Cond true 2%N [(Flag true false [3%N]); (Flag true false [3%N])])], ([2%N; 4%N], [0%N; 4%N], (@nil (N)), [3%N])),
   (prob_val [(0, [false]); (1, [false]); (2, [true; false]); (3, [false]); (4, [true])]%N [(17, [0; 1; 16; 17]); (24, [0; 8; 16; 24]); (16, [0; 16]); (2, [2]); (12, [0; 4; 12]); (12, [0; 4; 12])]%N));
  (([(Cond true 4%N [(Cond false 4%N [(Flag false false [0%N]); (Flag false false [3%N]); (Flag true false [4%N])])]); (Flag false false [1%N]); (Cond true 2%N [(Flag true false [3%N]); (Flag true false [3%N])])], ([0%N], (@nil (N)), [1%N; 2%N; 3%N], (@nil (N)))),
   (prob_val [(0, [true; false]); (1, [false]); (2, [false]); (3, [false]); (4, [false])]%N [(17, [0; 1; 16; 17]); (24, [0; 8; 16; 24]); (16, [0; 16]); (2, [2]); (12, [0; 4; 12]); (12, [0; 4; 12])]%N));
  (([(Cond true 4%N [(Cond false 4%N [(Flag false false [0%N]); (Flag false false [3%N]); (Flag true false [4%N])])]); (Flag false false [1%N]); (Cond true 2%N [(Flag true false [3%N]); (Flag true false [3%N])])], ([0%N; 2%N; 5%N], (@nil (N)), (@nil (N)), [0%N; 4%N])),
   (prob_val [(0, [false; true]); (1, [false]); (2, [true; false]); (3, [false]); (4, [false]); (5, [true; false])]%N [(17, [0; 1; 16; 17]); (24, [0; 8; 16; 24]); (16, [0; 16]); (2, [2]); (12, [0; 4; 12]); (12, [0; 4; 12])]%N));
  (([(Flag true false [0%N]); (Flag false false [1%N])], ([0%N; 5%N], (@nil (N)), (@nil (N)), [0%N; 1%N])),
   (prob_val [(0, [false; true]); (1, [false]); (5, [true; false])]%N [(1, [0]); (2, [2])]%N));
  (([(Grp KAnd false [(Cond false 3%N [(Flag true false [3%N]); (Flag false false [2%N])]); (Flag false false [3%N]); (Cond false 2%N [(Flag false false [3%N]); (Flag false false [1%N]); (Flag false false [2%N])])]); (Flag true false [1%N]); (Grp KAnd false [(Flag false false [2%N]); (Flag true false [1%N]); (Flag false false [0%N])])], ([0%N], [3%N; 6%N], [2%N], [1%N; 3%N; 6%N])),
   (prob_val [(0, [true; false]); (1, [false]); (2, [false]); (3, [false])]%N [(8, [0]); (12, [0; 4; 12]); (8, [8]); (12, [0; 8; 12]); (6, [0; 2; 6]); (4, [0; 4]); (2, [0]); (4, [4]); (2, [0]); (1, [1])]%N));
  (([(Grp KAnd false [(Cond false 3%N [(Flag true false [3%N]); (Flag false false [2%N])]); (Flag false false [3%N]); (Cond false 2%N [(Flag false false [3%N]); (Flag false false [1%N]); (Flag false false [2%N])])]); (Flag true false [1%N]); (Grp KAnd false [(Flag false false [2%N]); (Flag true false [1%N]); (Flag false false [0%N])])], ([1%N; 2%N; 5%N], (@nil (N)), (@nil (N)), [6%N])),
   (prob_val [(0, [false]); (1, [true; false]); (2, [true; false]); (3, [false]); (5, [true; false])]%N [(8, [0]); (12, [0; 4; 12]); (8, [8]); (12, [0; 8; 12]); (6, [0; 2; 6]); (4, [0; 4]); (2, [0]); (4, [4]); (2, [0]); (1, [1])]%N));
  (([(Flag true false [1%N]); (Cond false 2%N [(Flag true false [2%N])])], ([1%N; 2%N; 5%N], (@nil (N)), (@nil (N)), [2%N])),
   (prob_val [(1, [true; false]); (2, [false; true]); (5, [true; false])]%N [(2, [0]); (4, [0])]%N));
  (([(Flag false false [0%N]); (Flag false false [1%N]); (Grp KOr false [(Cond false 0%N [(Flag false false [2%N]); (Flag true false [1%N]); (Flag false false [2%N])]); (Flag false false [1%N]); (Flag false false [0%N])])], ((@nil (N)), [0%N; 6%N], [1%N; 2%N; 5%N], [2%N])),
   (prob_val [(0, [false]); (1, [false]); (2, [false])]%N [(1, [1]); (2, [2]); (7, [0; 1; 2; 3; 4; 5; 6; 7])]%N));
  (([(Flag false false [0%N]); (Flag false false [1%N]); (Grp KOr false [(Cond false 0%N [(Flag false false [2%N]); (Flag true false [1%N]); (Flag false false [2%N])]); (Flag false false [1%N]); (Flag false false [0%N])])], ([0%N], [0%N], (@nil (N)), [2%N])),
   (prob_val [(0, [true]); (1, [false]); (2, [false])]%N [(1, [1]); (2, [2]); (7, [0; 1; 2; 3; 4; 5; 6; 7])]%N));
  (([(Flag false false [0%N]); (Flag false false [1%N]); (Grp KOr false [(Cond false 0%N [(Flag false false [2%N]); (Flag true false [1%N]); (Flag false false [2%N])]); (Flag false false [1%N]); (Flag false false [0%N])])], ([1%N], (@nil (N)), (@nil (N)), [5%N])),
   (prob_val [(0, [false]); (1, [true; false]); (2, [false])]%N [(1, [1]); (2, [2]); (7, [0; 1; 2; 3; 4; 5; 6; 7])]%N));
  (([(Flag false false [0%N]); (Flag false false [1%N]); (Grp KOr false [(Cond false 0%N [(Flag false false [2%N]); (Flag true false [1%N]); (Flag false false [2%N])]); (Flag false false [1%N]); (Flag false false [0%N])])], ([0%N; 1%N; 2%N; 5%N], (@nil (N)), (@nil (N)), [0%N; 2%N; 6%N])),
   (prob_val [(0, [false; true]); (1, [true; false]); (2, [false; true]); (5, [true; false])]%N [(1, [1]); (2, [2]); (7, [0; 1; 2; 3; 4; 5; 6; 7])]%N));
  (([(Flag true false [1%N])], ([5%N], (@nil (N)), (@nil (N)), [5%N])),
   (prob_val [(1, [false]); (5, [false; true])]%N [(2, [0])]%N));
  (([(Flag true false [1%N])], ([1%N; 5%N], (@nil (N)), (@nil (N)), [5%N; 6%N])),
   (prob_val [(1, [true; false]); (5, [false; true])]%N [(2, [0])]%N));
  (([(Grp KOne false [(Flag false false [0%N]); (Flag false false [0%N])]); (Flag true false [0%N])], ((@nil (N)), [6%N], (@nil (N)), [6%N])),
   (prob_val [(0, [false])]%N [(1, (@nil (N))); (1, [0])]%N));
  (([(Grp KOr false [(Cond true 1%N [(Flag true false [0%N]); (Flag true false [1%N]); (Cond true 1%N [(Flag true false [0%N]); (Flag false false [1%N])])]); (Grp KAnd false [(Flag false false [0%N]); (Grp KOne false [(Flag true false [0%N]); (Flag false false [1%N])])]); (Grp KOr false [(Flag false false [1%N]); (Flag true false [0%N]); (Flag false false [0%N])])])], ([1%N], [0%N], (@nil (N)), [0%N; 1%N; 5%N; 6%N])),
   (prob_val [(0, [false]); (1, [false; true])]%N [(3, [0; 1; 2; 3])]%N));
  (([(Cond true 0%N [(Flag false false [0%N])])], ([0%N; 5%N], (@nil (N)), [0%N; 5%N], [6%N])),
   (prob_val [(0, [false]); (5, [false])]%N [(1, [1])]%N));
  (([(Flag true false [1%N])], ([1%N; 5%N], (@nil (N)), (@nil (N)), [5%N; 6%N])),
   (prob_val [(1, [true; false]); (5, [false; true])]%N [(2, [0])]%N));
  (([(Cond false 0%N [(Grp KAmo false [(Flag false false [1%N]); (Flag false false [2%N])]); (Flag false false [2%N])]); (Flag false false [0%N])], ([2%N; 5%N], [5%N], [2%N; 6%N], (@nil (N)))),
   (prob_val [(0, [false]); (1, [false]); (2, [false]); (5, [true])]%N [(7, [0; 1; 2; 3; 4; 5; 6]); (5, [0; 4; 5]); (1, [1])]%N));
  (([(Cond false 0%N [(Grp KAmo false [(Flag false false [1%N]); (Flag false false [2%N])]); (Flag false false [2%N])]); (Flag false false [0%N])], ([1%N; 2%N; 5%N], (@nil (N)), (@nil (N)), [6%N])),
   (prob_val [(0, [false]); (1, [true; false]); (2, [true; false]); (5, [true; false])]%N [(7, [0; 1; 2; 3; 4; 5; 6]); (5, [0; 4; 5]); (1, [1])]%N));
  (([(Flag false false [0%N])], ([0%N], (@nil (N)), (@nil (N)), (@nil (N)))),
   (prob_val [(0, [true; false])]%N [(1, [1])]%N));
  (([(Flag false false [0%N])], ([0%N], [0%N], (@nil (N)), [0%N])),
   (prob_val [(0, [true])]%N [(1, [1])]%N));
  (([(Flag false false [0%N])], ([0%N], (@nil (N)), [0%N], [5%N])),
   (prob_val [(0, [false])]%N [(1, [1])]%N));
  (([(Flag false false [0%N])], ([0%N], (@nil (N)), (@nil (N)), (@nil (N)))),
   (prob_val [(0, [true; false])]%N [(1, [1])]%N));
  (([(Flag false false [0%N])], ([0%N], [0%N], (@nil (N)), [0%N])),
   (prob_val [(0, [true])]%N [(1, [1])]%N));
  (([(Flag false false [0%N])], ([0%N], (@nil (N)), [0%N], [5%N])),
   (prob_val [(0, [false])]%N [(1, [1])]%N));
  (([(Flag false false [0%N])], ([0%N; 5%N], (@nil (N)), (@nil (N)), (@nil (N)))),
   (prob_val [(0, [true; false]); (5, [true; false])]%N [(1, [1])]%N));
  (([(Flag false false [0%N])], ([0%N; 5%N], [0%N], (@nil (N)), [0%N])),
   (prob_val [(0, [true]); (5, [true; false])]%N [(1, [1])]%N));
  (([(Flag false false [0%N])], ([0%N; 5%N], (@nil (N)), [0%N], [5%N])),
   (prob_val [(0, [false]); (5, [false; true])]%N [(1, [1])]%N));
  (([(Flag true false [0%N])], ([0%N], (@nil (N)), (@nil (N)), (@nil (N)))),
   (prob_val [(0, [true; false])]%N [(1, [0])]%N));
  (([(Flag true false [0%N])], ([0%N], [0%N], (@nil (N)), [0%N])),
   (prob_val [(0, [true])]%N [(1, [0])]%N))
].
Eval vm_compute in (mismatches run_problem cases).
