#!/bin/sh
# try_seed.sh <dir with patch.diff demo.py|test_demo.py meta.json> <ID> [check-id ...]
# Verifies a seeded change in a scratch worktree of /repo HEAD: demo passes on pristine, fails with the patch;
# then runs ./check for the given ids against the patched worktree.  Prints a summary; cleans up.
D=$(cd "$1" && pwd); ID=$2; shift 2; CHECKS="${@:-$ID}"
WT=$(mktemp -d /tmp/wtseed_XXXX); rmdir $WT
git -C /repo worktree add --detach $WT HEAD >/dev/null 2>&1 || { echo "worktree failed"; exit 2; }
demo=$D/demo.py; runner="/venv/bin/python"
[ -f $D/test_demo.py ] && { demo=$D/test_demo.py; runner="/venv/bin/python -m pytest -q -p no:cacheprovider"; }
( cd $WT && PYTHONPATH=$WT/src timeout 600 $runner $demo >/tmp/seed_pristine.log 2>&1 ); p=$?
git -C $WT apply $D/patch.diff || { echo "PATCH DOES NOT APPLY"; git -C /repo worktree remove --force $WT; exit 2; }
( cd $WT && PYTHONPATH=$WT/src timeout 600 $runner $demo >/tmp/seed_patched.log 2>&1 ); q=$?
echo "demo: pristine rc=$p patched rc=$q"
for c in $CHECKS; do
  VERIF_REPO=$WT timeout 3000 /verif/check $c > /tmp/seed_check_$c.log 2>&1; rc=$?
  echo "check $c on patched tree: rc=$rc"; grep -E "^VIOLATION|^\[$c\]" /tmp/seed_check_$c.log | head -6
done
git -C /repo worktree remove --force $WT
