from pkgcore.repository.util import SimpleTree
from pkgcore.repository import multiplex
from pkgcore.restrictions import packages as P, values as V, boolean as B, restriction as R
from pkgcore.ebuild.atom import atom
d = {"a": {"x": ["1","2"], "y": ["1"]}, "b": {"x": ["1"], "z": ["3"]}, "c": {"y": ["2"]}}
repo = SimpleTree(d)
def brute(r):
    return sorted(str(p) for p in repo.itermatch(P.AlwaysTrue) if r.match(p))
def q(r, **kw):
    try:
        return sorted(str(p) for p in repo.itermatch(r, **kw))
    except Exception as e:
        return repr(e)
cat = lambda s, **kw: P.PackageRestriction("category", V.StrExactMatch(s), **kw)
pkg = lambda s, **kw: P.PackageRestriction("package", V.StrExactMatch(s), **kw)
tests = {
 "and(cat!=a wrapper, pkg==x)": P.AndRestriction(cat("a", negate=True), pkg("x")),
 "and(or-neg(cat a), pkg x)": P.AndRestriction(P.OrRestriction(cat("a"), negate=True), pkg("x")),
 "negate-root": R.Negate(cat("a")),
 "justone(cat a, pkg x)": B.JustOneRestriction(cat("a"), pkg("x"), node_type="package"),
 "or(cat!=a wrapper, and(cat b,pkg z))": P.OrRestriction(cat("a", negate=True), P.AndRestriction(cat("b"), pkg("z"))),
 "and(negate(cat a), pkg x)": P.AndRestriction(R.Negate(cat("a")), pkg("x")),
 "atom": atom("a/x"),
 "and(atom neg?)": P.AndRestriction(atom("a/x"), negate=True),
}
for k, r in tests.items():
    print(k, "\n   got  ", q(r), "\n   brute", brute(r))
print(("a","x") in repo.versions, ("a","q") in repo.versions, ("q","x") in repo.versions)
print(list(atom("=a/x-1").restrictions))
print(list(atom("a/x:0").restrictions), atom("a/x").negate)
print(q(atom("a/x"), versioned=False), q(P.AlwaysTrue, versioned=False))
