(* Proofs_C36.v — proofs about Model_C36.fetch against Spec_C36, for every checksum function H,
   every target, every URI list, every outcome sequence of any length, every attempt budget
   and every initial file (induction over the attempt loop). *)
From Coq Require Import List NArith ZArith Bool Arith Lia.
Import ListNotations.
From Verif Require Import Base.Val C36.Model_C36 C36.Spec_C36.

Section WithHash.
Variable H : N -> bytes -> N.

(* ------------------------------------------------------------------ _verify, characterised *)
Lemma hashes_ok_iff T d : hashes_ok H T d = true <-> digests_ok H T d.
Proof.
  unfold hashes_ok, digests_ok. rewrite forallb_forall. split.
  - intros A a v Hin. apply A in Hin. cbn in Hin. now apply N.eqb_eq.
  - intros A [a v] Hin. cbn. apply N.eqb_eq. now apply A.
Qed.

Lemma hashes_ok_false T d : hashes_ok H T d = false <-> ~ digests_ok H T d.
Proof.
  rewrite <- hashes_ok_iff. destruct (hashes_ok H T d); split; congruence.
Qed.

Lemma verify_ok_iff T f : verify H T f = VOk <-> verified H T f.
Proof.
  unfold verify, verified, size_ok, flen. split.
  - destruct (tbad T); [discriminate|]. intro A. split; [reflexivity|].
    destruct (tsize T) as [n|]; destruct f as [d|]; try discriminate.
    + destruct (N.eqb_spec (N.of_nat (length d)) n) as [E|E].
      * destruct (hashes_ok H T d) eqn:Hh; [|discriminate].
        exists d. repeat split; try congruence. now apply hashes_ok_iff.
      * destruct (N.ltb _ _); discriminate.
    + destruct d as [|b d]; [discriminate|].
      destruct (hashes_ok H T (b :: d)) eqn:Hh; [|discriminate].
      exists (b :: d). repeat split; try congruence. now apply hashes_ok_iff.
  - intros [-> [d [-> [[S1 S2] D]]]]. apply hashes_ok_iff in D.
    destruct (tsize T) as [n|].
    + rewrite (S1 n eq_refl), N.eqb_refl, D. reflexivity.
    + destruct d as [|b d]; [now specialize (S2 eq_refl)|]. now rewrite D.
Qed.

Lemma verifiedb_iff T f : verifiedb H T f = true <-> verified H T f.
Proof.
  unfold verifiedb, verified, size_okb, size_ok, flen. split.
  - intro A. apply andb_true_iff in A as [A1 A2]. apply negb_true_iff in A1. split; [exact A1|].
    destruct f as [d|]; [|discriminate]. apply andb_true_iff in A2 as [A2 A3].
    exists d. split; [reflexivity|]. split.
    + destruct (tsize T) as [n|].
      * apply N.eqb_eq in A2. split; [intros m [= <-]; exact A2 | discriminate].
      * split; [discriminate|]. intros _ ->. discriminate.
    + now apply hashes_ok_iff.
  - intros [-> [d [-> [[S1 S2] D]]]]. cbn. apply andb_true_iff. split.
    + destruct (tsize T) as [n|]; [apply N.eqb_eq; now apply S1|].
      destruct d; [now specialize (S2 eq_refl)|reflexivity].
    + now apply hashes_ok_iff.
Qed.

Lemma verify_small_iff T f : verify H T f = VSmall <-> is_partial T f.
Proof.
  unfold verify, is_partial, flen. split.
  - destruct (tbad T); [discriminate|]. intro A. split; [reflexivity|].
    destruct (tsize T) as [n|]; destruct f as [d|]; try discriminate.
    + destruct (N.eqb_spec (N.of_nat (length d)) n) as [E|E].
      * destruct (hashes_ok H T d); discriminate.
      * destruct (N.ltb_spec (N.of_nat (length d)) n); [|discriminate].
        exists n, d. auto.
    + destruct d; [discriminate|]. destruct (hashes_ok H T _); discriminate.
  - intros [-> [n [d [-> [-> L]]]]].
    destruct (N.eqb_spec (N.of_nat (length d)) n) as [E|E]; [lia|].
    destruct (N.ltb_spec (N.of_nat (length d)) n); [reflexivity|lia].
Qed.

Lemma verify_stuck_iff T f : (verify H T f = VBig \/ verify H T f = VBad) <-> stuck H T f.
Proof.
  unfold verify, stuck, oversized, size_ok, flen. split.
  - destruct (tbad T); [intros [?|?]; discriminate|]. intro A. split; [reflexivity|].
    destruct (tsize T) as [n|]; destruct f as [d|]; try (destruct A; discriminate).
    + destruct (N.eqb_spec (N.of_nat (length d)) n) as [E|E].
      * destruct (hashes_ok H T d) eqn:Hh; [destruct A; discriminate|].
        right. exists d. repeat split; try congruence. now apply hashes_ok_false.
      * destruct (N.ltb_spec (N.of_nat (length d)) n); [destruct A; discriminate|].
        left. exists n, d. repeat split. lia.
    + destruct d as [|b d]; [destruct A; discriminate|].
      destruct (hashes_ok H T (b :: d)) eqn:Hh; [destruct A; discriminate|].
      right. exists (b :: d). repeat split; try congruence. now apply hashes_ok_false.
  - intros [-> [[n [d [-> [-> L]]]] | [d [-> [[S1 S2] D]]]]].
    + destruct (N.eqb_spec (N.of_nat (length d)) n) as [E|E]; [lia|].
      destruct (N.ltb_spec (N.of_nat (length d)) n); [lia|]. now left.
    + apply hashes_ok_false in D. destruct (tsize T) as [n|].
      * rewrite (S1 n eq_refl), N.eqb_refl, D. now right.
      * destruct d as [|b d]; [now specialize (S2 eq_refl)|]. rewrite D. now right.
Qed.

(* ------------------------------------------------------------------ one pass of the loop *)
Lemma prep_some v f k f1 :
  prep v f = Some (k, f1) ->
  (v = VMissing /\ k = CFetch /\ f1 = f) \/ (v = VSmall /\ k = CResume /\ f1 = f)
  \/ (v = VEmpty /\ k = CFetch /\ f1 = None).
Proof. destruct v; cbn; intros [= <- <-]; auto. Qed.

Lemma prep_none v f :
  prep v f = None -> v = VOk \/ v = VBig \/ v = VBad \/ v = VNoHandler.
Proof. destruct v; cbn; intro; try discriminate; auto. Qed.

Lemma loop_S_inv hasres n T us outs f r ff ev :
  loop H hasres (S n) T us outs f = (r, ff, ev) ->
  (verify H T f = VOk /\ r = RPath /\ ff = f /\ ev = [])
  \/ (verify H T f <> VOk /\ prep (verify H T f) f = None
      /\ r = RErr (err_of (verify H T f)) /\ ff = f /\ ev = [])
  \/ (exists k f1, verify H T f <> VOk /\ prep (verify H T f) f = Some (k, f1) /\ us = []
      /\ r = RErr ENoUris /\ ff = f1 /\ ev = [])
  \/ (exists k f1 u us' a st ev',
        verify H T f <> VOk /\ prep (verify H T f) f = Some (k, f1) /\ us = u :: us'
        /\ pick (hd idle outs) (shown hasres k) = (a, st)
        /\ loop H hasres n T us' (tl outs) (settle T st (act a f1)) = (r, ff, ev')
        /\ ev = {| ekind := k; euri := u; eseen := f1; epost := act a f1; estatus := st |} :: ev').
Proof.
  cbn [loop]. destruct (verify H T f) eqn:Ev;
    try (intros [= <- <- <-]; left; now auto);
    cbn [prep];
    try (intros [= <- <- <-]; right; left; repeat split; now auto);
    (destruct us as [|u us'];
     [ intros [= <- <- <-]; right; right; left; do 2 eexists; repeat split; now auto
     | destruct (pick _ _) as [a st] eqn:Ep;
       destruct (loop H hasres n T us' (tl outs) _) as [[r' ff'] ev'] eqn:El;
       intros [= <- <- <-]; right; right; right;
       do 7 eexists; repeat split; try eassumption; now auto ]).
Qed.

Lemma loop_O hasres T us outs f : loop H hasres 0 T us outs f = (final H T f, f, []).
Proof. reflexivity. Qed.

Lemma final_path T f : final H T f = RPath <-> verify H T f = VOk.
Proof. unfold final. destruct (verify H T f); cbn; split; congruence. Qed.

(* ------------------------------------------------------------------ only_verified *)
Lemma loop_only_verified hasres n : forall T us outs f ff ev,
  loop H hasres n T us outs f = (RPath, ff, ev) -> verified H T ff.
Proof.
  induction n as [|n IH]; intros T us outs f ff ev E.
  - rewrite loop_O in E. injection E as E1 <- <-. apply verify_ok_iff. now apply final_path.
  - apply loop_S_inv in E as [(Ev & _ & -> & _) | [(_ & _ & E & _) | [(k & f1 & _ & _ & _ & E & _)
      | (k & f1 & u & us' & a & st & ev' & _ & _ & _ & _ & El & _)]]].
    + now apply verify_ok_iff.
    + discriminate.
    + discriminate.
    + eapply IH; eassumption.
Qed.

Theorem only_verified_proof : forall i ff ev,
  fetch H i = (RPath, ff, ev) -> verified H (tgt i) ff.
Proof. intros i ff ev. unfold fetch. apply loop_only_verified. Qed.

(* ------------------------------------------------------------------ never_wrong_checksum *)
Theorem never_wrong_checksum_proof : forall i ff ev,
  fetch H i = (RPath, ff, ev) -> ~ wrong_checksum H (tgt i) ff /\ ~ wrong_size (tgt i) ff.
Proof.
  intros i ff ev E. apply only_verified_proof in E as [_ [d [-> [[S1 _] D]]]]. split.
  - intros [d' [a [v [[= <-] [Hin Hne]]]]]. apply Hne. now apply D.
  - intros [d' [n [[= <-] [Hs Hne]]]]. apply Hne. now apply S1.
Qed.

(* ------------------------------------------------------------------ uses_every_attempt *)
Lemma settle_good T st f :
  (nochk T = true -> st = 0%Z) -> settle T st f = f.
Proof.
  unfold settle. intro A. destruct (nochk T); [|reflexivity].
  rewrite (A eq_refl). reflexivity.
Qed.

Lemma loop_uses_every_attempt hasres n : forall T us outs f r ff ev,
  loop H hasres n T us outs f = (r, ff, ev) ->
  (verified H T f \/ exists e, In e ev /\ good_event H T e) -> r = RPath.
Proof.
  induction n as [|n IH]; intros T us outs f r ff ev E G.
  - rewrite loop_O in E. injection E as <- <- <-.
    destruct G as [G | [e [[] _]]]. apply final_path. now apply verify_ok_iff.
  - apply loop_S_inv in E as [(Ev & -> & _) | [(Ne & _ & _ & _ & ->) | [(k & f1 & Ne & _ & _ & _ & _ & ->)
      | (k & f1 & u & us' & a & st & ev' & Ne & Hp & _ & _ & El & ->)]]].
    + reflexivity.
    + destruct G as [G | [e [[] _]]]. apply verify_ok_iff in G. contradiction.
    + destruct G as [G | [e [[] _]]]. apply verify_ok_iff in G. contradiction.
    + eapply IH; [exact El|].
      destruct G as [G | [e [[<- | Hin] Ge]]].
      * apply verify_ok_iff in G. contradiction.
      * destruct Ge as [Gv Gs]. cbn in Gv, Gs. left. rewrite settle_good; assumption.
      * right. exists e. auto.
Qed.

Theorem uses_every_attempt_proof : forall i r ff ev,
  fetch H i = (r, ff, ev) ->
  (verified H (tgt i) (file0 i) \/ exists e, In e ev /\ good_event H (tgt i) e) -> r = RPath.
Proof. intros i r ff ev. unfold fetch. apply loop_uses_every_attempt. Qed.

(* ------------------------------------------------------------------ partial_kept_for_resume *)
Lemma nochk_not_partial T f : nochk T = true -> ~ is_partial T f.
Proof.
  unfold nochk, is_partial. intros A [_ [n [d [S _]]]]. rewrite S in A. discriminate.
Qed.

Lemma kept_nochk T p q ev ff : nochk T = true -> kept T p ev ff -> kept T q ev ff.
Proof.
  intros A. destruct ev as [|e r]; cbn.
  - intros _ P. now apply nochk_not_partial in P.
  - intros (_ & K2 & K3). split; [|split]; try assumption.
    + intro P. now apply nochk_not_partial in P.
    + intro E. apply K2 in E. now apply nochk_not_partial in E.
Qed.

Lemma kept_settle T st p ev ff : kept T (settle T st p) ev ff -> kept T p ev ff.
Proof.
  unfold settle. destruct (nochk T) eqn:A; cbn; [|auto].
  destruct (negb (st =? 0)%Z); [|auto]. now apply kept_nochk.
Qed.

Lemma loop_kept hasres n : forall T us outs f r ff ev,
  loop H hasres n T us outs f = (r, ff, ev) -> kept T f ev ff.
Proof.
  induction n as [|n IH]; intros T us outs f r ff ev E.
  - rewrite loop_O in E. injection E as _ <- <-. cbn. auto.
  - apply loop_S_inv in E as [(_ & _ & -> & ->) | [(_ & _ & _ & -> & ->) | [(k & f1 & _ & Hp & _ & _ & -> & ->)
      | (k & f1 & u & us' & a & st & ev' & _ & Hp & _ & _ & El & ->)]]]; cbn; auto.
    + intro P. apply verify_small_iff in P. rewrite P in Hp. cbn in Hp. now injection Hp as _ <-.
    + split; [|split].
      * intro P. apply verify_small_iff in P. rewrite P in Hp. cbn in Hp.
        injection Hp as <- <-. auto.
      * intros ->. apply prep_some in Hp as [(_ & [=] & _) | [(Ev & _ & _) | (_ & [=] & _)]].
        now apply verify_small_iff.
      * apply kept_settle with (st := st). eapply IH. exact El.
Qed.

Theorem partial_kept_for_resume_proof : forall i r ff ev,
  fetch H i = (r, ff, ev) -> kept (tgt i) (file0 i) ev ff.
Proof. intros i r ff ev. unfold fetch. apply loop_kept. Qed.

(* ------------------------------------------------------------------ one URI per attempt; the world *)
Lemma loop_uris hasres n : forall T us outs f r ff ev,
  loop H hasres n T us outs f = (r, ff, ev) -> map euri ev = firstn (length ev) us.
Proof.
  induction n as [|n IH]; intros T us outs f r ff ev E.
  - rewrite loop_O in E. injection E as _ _ <-. reflexivity.
  - apply loop_S_inv in E as [(_ & _ & _ & ->) | [(_ & _ & _ & _ & ->) | [(k & f1 & _ & _ & _ & _ & _ & ->)
      | (k & f1 & u & us' & a & st & ev' & _ & _ & -> & _ & El & ->)]]]; try reflexivity.
    cbn. f_equal. eapply IH. exact El.
Qed.

Lemma loop_world hasres n : forall T us outs f r ff ev,
  loop H hasres n T us outs f = (r, ff, ev) -> world_ok hasres outs ev.
Proof.
  induction n as [|n IH]; intros T us outs f r ff ev E.
  - rewrite loop_O in E. injection E as _ _ <-. exact I.
  - apply loop_S_inv in E as [(_ & _ & _ & ->) | [(_ & _ & _ & _ & ->) | [(k & f1 & _ & _ & _ & _ & _ & ->)
      | (k & f1 & u & us' & a & st & ev' & _ & _ & _ & Hk & El & ->)]]]; try exact I.
    cbn. rewrite Hk. split; [split; reflexivity|]. eapply IH. exact El.
Qed.

Lemma loop_length hasres n : forall T us outs f r ff ev,
  loop H hasres n T us outs f = (r, ff, ev) -> (length ev <= Nat.min n (length us))%nat.
Proof.
  induction n as [|n IH]; intros T us outs f r ff ev E.
  - rewrite loop_O in E. injection E as _ _ <-. cbn. lia.
  - apply loop_S_inv in E as [(_ & _ & _ & ->) | [(_ & _ & _ & _ & ->) | [(k & f1 & _ & _ & _ & _ & _ & ->)
      | (k & f1 & u & us' & a & st & ev' & _ & _ & -> & _ & El & ->)]]]; cbn [length]; try lia.
    apply IH in El. cbn [length]. rewrite <- Nat.succ_min_distr. lia.
Qed.

(* ------------------------------------------------------------------ gives up only when exhausted *)
Lemma verify_nohandler T f : verify H T f = VNoHandler -> tbad T = true.
Proof.
  unfold verify. destruct (tbad T); [reflexivity|].
  destruct (tsize T); destruct f as [d|]; try discriminate.
  - destruct (N.eqb _ _); [destruct (hashes_ok H T d)|destruct (N.ltb _ _)]; discriminate.
  - destruct d; [discriminate|]. destruct (hashes_ok H T _); discriminate.
Qed.

Lemma last_state_cons f e ev : last_state f (e :: ev) = last_state (epost e) ev.
Proof. reflexivity. Qed.

Lemma last_state_indep p q ev : ev <> [] -> last_state p ev = last_state q ev.
Proof. destruct ev as [|e r]; [congruence|]. intros _. reflexivity. Qed.

Lemma stuck_settle T st p : stuck H T (settle T st p) -> settle T st p = p.
Proof.
  unfold settle. destruct (nochk T && negb (st =? 0)%Z); [|reflexivity].
  intros [_ [[n [d [_ [[=] _]]]] | [d [[=] _]]]].
Qed.

Definition chksum_err (e : err) : Prop := e = EBig \/ e = EBad.

Lemma loop_gives_up hasres n : forall T us outs f e ff ev,
  loop H hasres n T us outs f = (RErr e, ff, ev) -> tbad T = false ->
  length ev = Nat.min n (length us)
  \/ (chksum_err e /\ stuck H T (last_state f ev) /\ ff = last_state f ev).
Proof.
  induction n as [|n IH]; intros T us outs f e ff ev E B.
  - rewrite loop_O in E. injection E as _ _ <-. now left.
  - apply loop_S_inv in E as [(_ & [=] & _) | [(Ne & Hp & [= ->] & -> & ->) | [(k & f1 & _ & _ & -> & _ & _ & ->)
      | (k & f1 & u & us' & a & st & ev' & _ & _ & -> & _ & El & ->)]]].
    + right. apply prep_none in Hp as [Hv | [Hv | [Hv | Hv]]].
      * contradiction.
      * rewrite Hv. cbn. split; [now left|]. split; [|reflexivity]. apply verify_stuck_iff. now left.
      * rewrite Hv. cbn. split; [now right|]. split; [|reflexivity]. apply verify_stuck_iff. now right.
      * apply verify_nohandler in Hv. congruence.
    + left. reflexivity.
    + apply IH in El as [L | (Ce & St & ->)]; [| |assumption].
      * left. cbn [length]. rewrite L. apply Nat.succ_min_distr.
      * right. rewrite last_state_cons. cbn [epost].
        destruct ev' as [|e' r'].
        -- cbn in St |- *. rewrite (stuck_settle _ _ _ St) in St |- *. auto.
        -- rewrite (last_state_indep (settle T st (act a f1)) (act a f1)) in St |- * by discriminate. auto.
Qed.

Theorem gives_up_only_when_exhausted_partial_proof : forall i e ff ev,
  fetch H i = (RErr e, ff, ev) -> tbad (tgt i) = false ->
  length ev = Nat.min (attempts i) (length (uris i))
  \/ (chksum_err e /\ stuck H (tgt i) (last_state (file0 i) ev) /\ ff = last_state (file0 i) ev).
Proof. intros i e ff ev. unfold fetch. apply loop_gives_up. Qed.

(* ------------------------------------------------------------------ every attempt within the budget counts *)
Lemma world_nth hasres : forall i outs ev e,
  world_ok hasres outs ev -> nth_error ev i = Some e ->
  epost e = act (fst (pick (nth i outs idle) (shown hasres (ekind e)))) (eseen e)
  /\ estatus e = snd (pick (nth i outs idle) (shown hasres (ekind e))).
Proof.
  induction i as [|i IH]; intros outs ev e W Hn.
  - destruct ev as [|e0 r]; [discriminate|]. injection Hn as ->. cbn in W. destruct W as [W _].
    replace (nth 0 outs idle) with (hd idle outs) by (destruct outs; reflexivity).
    destruct (pick (hd idle outs) (shown hasres (ekind e))) as [a st]. exact W.
  - destruct ev as [|e0 r]; [discriminate|]. cbn in Hn, W. destruct W as [_ W].
    replace (nth (S i) outs idle) with (nth i (tl outs) idle) by (destruct outs; [destruct i|]; reflexivity).
    eapply IH; eassumption.
Qed.

Lemma robust_good_tbad T o : robust_good H T o -> tbad T = false.
Proof. intro R. destruct (R CFetch None) as [[B _] _]. exact B. Qed.

Theorem every_attempt_counts_partial_proof : forall i k r ff ev,
  fetch H i = (r, ff, ev) ->
  (k < Nat.min (attempts i) (length (uris i)))%nat -> robust_good H (tgt i) (nth k (outs i) idle) ->
  r = RPath \/ (exists e, r = RErr e /\ chksum_err e /\ (length ev <= k)%nat
                          /\ stuck H (tgt i) (last_state (file0 i) ev)).
Proof.
  intros i k r ff ev E Hk R.
  destruct (nth_error ev k) as [e|] eqn:Hn.
  - left. eapply uses_every_attempt_proof; [exact E|]. right. exists e. split.
    + eapply nth_error_In. exact Hn.
    + unfold fetch in E. apply loop_world in E. destruct (world_nth _ _ _ _ _ E Hn) as [P S].
      destruct (R (shown (has_resume i) (ekind e)) (eseen e)) as [V St].
      split; [now rewrite P | intro A; rewrite S; now apply St].
  - apply nth_error_None in Hn. destruct r as [|e]; [now left|]. right.
    apply gives_up_only_when_exhausted_partial_proof in E as [L | (Ce & St & _)];
      [lia | | now apply robust_good_tbad in R].
    exists e. auto.
Qed.

End WithHash.

Theorem one_uri_per_attempt_proof : forall H i r ff ev,
  fetch H i = (r, ff, ev) ->
  map euri ev = firstn (length ev) (uris i) /\ world_ok (has_resume i) (outs i) ev
  /\ (length ev <= Nat.min (attempts i) (length (uris i)))%nat.
Proof.
  intros H i r ff ev E. unfold fetch in E.
  split; [eapply loop_uris; exact E | split; [eapply loop_world; exact E | eapply loop_length; exact E]].
Qed.

(* ================================================================== full statements, refuted *)
(* Counterfactual reading of "uses every allowed attempt": a fetch that fails has spent
   min(attempts, #URIs) commands; and an attempt within that budget whose outcome would leave
   a verified file whatever it finds always yields a path.  Both are FALSE of the code: an
   oversized / wrong-checksum file makes it raise at once (known class [stuck]). *)
Definition gives_up_only_when_exhausted_full : Prop :=
  forall H i e ff ev, fetch H i = (RErr e, ff, ev) -> tbad (tgt i) = false ->
  length ev = Nat.min (attempts i) (length (uris i)).
Definition every_attempt_counts_full : Prop :=
  forall H i k r ff ev, fetch H i = (r, ff, ev) ->
  (k < Nat.min (attempts i) (length (uris i)))%nat -> robust_good H (tgt i) (nth k (outs i) idle) ->
  r = RPath.

Definition want : bytes := [97;98;99;100;101;102;103;104]%N.          (* "abcdefgh" *)
Definition corrupt : bytes := [97;98;99;100;88;102;103;104]%N.        (* "abcdXfgh" *)
Definition T_sh : target := {| tsize := Some 8%N; thashes := [(1%N, toyH 1 want)]; tbad := false |}.
Definition T_none : target := {| tsize := None; thashes := []; tbad := false |}.
Definition writes (d : bytes) (st : Z) : outcome := {| ofetch := (Write d, st); oresume := (Write d, st) |}.
Definition wget (d : bytes) (st : Z) : outcome := {| ofetch := (Write d, st); oresume := (Resume d, st) |}.

(* corrupt download first, a correct one second, two attempts, two URIs *)
Definition witness : input :=
  {| attempts := 2; tgt := T_sh; uris := [0;1]%N; outs := [writes corrupt 0; writes want 0];
     file0 := None; has_resume := true |}.

Lemma witness_run :
  fetch toyH witness =
  (RErr EBad, Some corrupt,
   [{| ekind := CFetch; euri := 0%N; eseen := None; epost := Some corrupt; estatus := 0%Z |}]).
Proof. vm_compute. reflexivity. Qed.

Lemma writes_want_robust : robust_good toyH T_sh (writes want 0).
Proof.
  intros k f. destruct k; cbn; (split; [|reflexivity]); apply verifiedb_iff; vm_compute; reflexivity.
Qed.

Theorem gives_up_only_when_exhausted_refuted : ~ gives_up_only_when_exhausted_full.
Proof. intro F. specialize (F toyH witness _ _ _ witness_run eq_refl). discriminate F. Qed.

Theorem every_attempt_counts_refuted : ~ every_attempt_counts_full.
Proof.
  intro F. assert (A : RErr EBad = RPath); [|discriminate A].
  apply (F toyH witness 1%nat _ _ _ witness_run); [cbn; lia | exact writes_want_robust].
Qed.

(* the witness lies in the known class *)
Example witness_in_known_class : stuck toyH T_sh (Some corrupt).
Proof. apply verify_stuck_iff. right. vm_compute. reflexivity. Qed.

(* ================================================================== the unpatched loop *)
(* Before fixes/C36-verify-after-last-attempt.patch: with one allowed attempt and no file in
   distdir the fetch fails with MissingDistfile WHATEVER the download leaves. *)
Theorem legacy_last_attempt_unverified_proof : forall H hasres T u us outs,
  tbad T = false ->
  fst (fst (loop_legacy H hasres 1 T (u :: us) outs None EUnknown)) = RErr EMissing.
Proof.
  intros H hasres T u us outs B. cbn [loop_legacy].
  assert (V : verify H T None = VMissing) by (unfold verify; rewrite B; destruct (tsize T); reflexivity).
  rewrite V. cbn. destruct (pick (hd idle outs) (shown hasres CFetch)) as [a st]. reflexivity.
Qed.

Example legacy_vs_repaired :
  let i := {| attempts := 1; tgt := T_sh; uris := [0]%N; outs := [writes want 0]; file0 := None;
              has_resume := true |} in
  fst (fetch_legacy toyH i) = (RErr EMissing, Some want) /\ fst (fetch toyH i) = (RPath, Some want).
Proof. split; vm_compute; reflexivity. Qed.

(* ================================================================== the hypotheses are satisfiable *)
(* a partial download, then a resume that completes it: path returned, resume command used on
   the kept partial file *)
Example resume_run :
  fetch toyH {| attempts := 3; tgt := T_sh; uris := [0;1;2]%N;
                outs := [wget [97;98;99]%N 1; wget want 0]; file0 := None; has_resume := true |}
  = (RPath, Some want,
     [{| ekind := CFetch; euri := 0%N; eseen := None; epost := Some [97;98;99]%N; estatus := 1%Z |};
      {| ekind := CResume; euri := 1%N; eseen := Some [97;98;99]%N; epost := Some want; estatus := 0%Z |}]).
Proof. vm_compute. reflexivity. Qed.

(* the last allowed attempt completes the file: verified after the loop *)
Example last_attempt_run :
  fst (fetch toyH {| attempts := 2; tgt := T_sh; uris := [0;1]%N;
                     outs := [wget [97;98;99]%N 1; wget want 0]; file0 := None; has_resume := true |})
  = (RPath, Some want).
Proof. vm_compute. reflexivity. Qed.

(* budget exhausted on a partial file: the error says so and the partial file stays *)
Example partial_left_run :
  fst (fetch toyH {| attempts := 1; tgt := T_sh; uris := [0;1]%N;
                     outs := [wget [97;98;99]%N 1]; file0 := None; has_resume := true |})
  = (RErr ESmall, Some [97;98;99]%N).
Proof. vm_compute. reflexivity. Qed.

(* URIs exhausted before the attempts *)
Example uris_exhausted_run :
  fst (fetch toyH {| attempts := 3; tgt := T_sh; uris := [0]%N;
                     outs := [wget [97;98;99]%N 1; wget want 0]; file0 := None; has_resume := true |})
  = (RErr ENoUris, Some [97;98;99]%N).
Proof. vm_compute. reflexivity. Qed.

(* no checksums: a non-zero exit status discards the file, a zero one keeps it *)
Example nochk_runs :
  fst (fetch toyH {| attempts := 1; tgt := T_none; uris := [0]%N; outs := [writes want 92];
                     file0 := None; has_resume := true |}) = (RErr EMissing, None)
  /\ fst (fetch toyH {| attempts := 1; tgt := T_none; uris := [0]%N; outs := [writes want 0];
                        file0 := None; has_resume := true |}) = (RPath, Some want).
Proof. split; vm_compute; reflexivity. Qed.

Example good_event_exists :
  good_event toyH T_sh {| ekind := CFetch; euri := 0%N; eseen := None; epost := Some want; estatus := 0%Z |}.
Proof. split; [apply verifiedb_iff; vm_compute; reflexivity | discriminate]. Qed.

Example is_partial_exists : is_partial T_sh (Some [97;98;99]%N).
Proof. split; [reflexivity|]. exists 8%N, [97;98;99]%N. repeat split. Qed.

(* ================================================================== uri_list.__iter__ *)
(* every host of every entry yields exactly one URI: the number of URIs a fetch can consume is
   the number of plain URIs plus the number of hosts of all mirror entries *)
Definition usrc_count (e : usrc) : nat :=
  match e with UStr _ => 1 | USub hs _ => length hs | UMirror hs => length hs end.
Definition uri_count (l : list usrc) : nat := fold_right (fun e n => (usrc_count e + n)%nat) O l.

Lemma total_len_heads_tails gs : total_len gs = (length (heads gs) + total_len (tails gs))%nat.
Proof.
  induction gs as [|g r IH]; [reflexivity|]. destruct g as [|x t]; unfold total_len in *; cbn in *; lia.
Qed.

Lemma heads_nil_tails gs : heads gs = [] -> tails gs = [].
Proof.
  induction gs as [|g r IH]; [reflexivity|]. destruct g as [|x t]; cbn; [exact IH|discriminate].
Qed.

Lemma round_robin_nil k : round_robin k [] = [].
Proof. destruct k; reflexivity. Qed.

Lemma round_robin_len : forall fuel gs,
  (total_len gs < fuel)%nat -> length (round_robin fuel gs) = total_len gs.
Proof.
  induction fuel as [|k IH]; intros gs L; [lia|].
  destruct gs as [|g r]; [reflexivity|].
  cbn [round_robin]. rewrite app_length, (total_len_heads_tails (g :: r)).
  destruct (heads (g :: r)) as [|h hs] eqn:Eh.
  - apply heads_nil_tails in Eh. rewrite Eh, round_robin_nil. reflexivity.
  - rewrite IH; [reflexivity|]. rewrite (total_len_heads_tails (g :: r)), Eh in L. cbn [length] in L. lia.
Qed.

Lemma take_subs_spec sub : forall l g rest,
  take_subs sub l = (g, rest) ->
  uri_count l = (total_len g + uri_count rest)%nat /\ (length rest <= length l)%nat
  /\ (forall hs s r, l = USub hs s :: r -> (length rest < length l)%nat).
Proof.
  induction l as [|e r IH]; intros g rest E.
  - injection E as <- <-. repeat split; auto. discriminate.
  - destruct e as [u|hs s|hs]; try (injection E as <- <-; repeat split; auto; discriminate).
    cbn in E. destruct (take_subs sub r) as [g' rest'] eqn:Er. injection E as <- <-.
    destruct (IH _ _ eq_refl) as (C & L & _). unfold uri_count, total_len in *. cbn.
    rewrite map_length. split; [lia|]. split; [lia|]. intros; lia.
Qed.

Lemma uri_iter_fuel_len fname : forall fuel l,
  (length l < fuel)%nat -> length (uri_iter_fuel fuel fname l) = uri_count l.
Proof.
  induction fuel as [|k IH]; intros l L; [lia|].
  destruct l as [|e r]; [reflexivity|]. destruct e as [u|hs s|hs].
  - cbn in *. f_equal. apply IH. lia.
  - cbn [uri_iter_fuel]. destruct (take_subs (last_sub (USub hs s :: r) s) (USub hs s :: r)) as [g rest] eqn:Et.
    destruct (take_subs_spec _ _ _ _ Et) as (C & _ & Lt). specialize (Lt _ _ _ eq_refl).
    rewrite app_length, round_robin_len by lia. rewrite IH by (cbn in *; lia). now rewrite C.
  - cbn in *. rewrite app_length, map_length. f_equal. apply IH. lia.
Qed.

Theorem uri_iter_count_proof : forall fname l, length (uri_iter fname l) = uri_count l.
Proof. intros. apply uri_iter_fuel_len. lia. Qed.
