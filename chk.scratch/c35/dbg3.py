import time, sys
from harness.common import Check
from harness import c35, c35_tables
chk = Check("C35")
b = c35_tables.scan_bash()
_, pw, _ = c35_tables.scan_python(c35_tables.SRC / "ebuild" / "processor.py")
_, ew, _ = c35_tables.scan_python(c35_tables.SRC / "ebuild" / "ebd.py", "ebd.")
pw.update(ew)
t=time.time()
print(c35.bash_side(chk, b["fn_reads"], b["fn_writes"], pw), time.time()-t)
if len(sys.argv)>1:
    from pkgcore.ebuild import processor as P
    t=time.time()
    print(c35.bash_side(chk, b["fn_reads"], b["fn_writes"], pw), time.time()-t)
import shutil; shutil.rmtree(chk.scratch, ignore_errors=True)
