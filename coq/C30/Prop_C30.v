(* Prop_C30.v — the property theorems of C30 and nothing else. *)
From Coq Require Import List NArith ZArith Bool Permutation.
Import ListNotations.
From Verif Require Import Base.Val C18.Fs C24.Model_C24 C30.Model_C30 C30.Spec_C30 C30.Proofs_C30 C30.Persist.

(* WorldFile.add (repaired): exactly name / name:slot is added, for ANY slot string; every other
   entry stays *)
Theorem records_exact_add : add_exact_stmt world_add.
Proof. exact add_exact_proof. Qed.
Print Assumptions records_exact_add.

(* WorldFile.remove (repaired): KeyError iff the entry is absent, else exactly that entry goes *)
Theorem records_exact_remove : remove_exact_stmt.
Proof. exact remove_exact_proof. Qed.
Print Assumptions records_exact_remove.

(* the pinned per-character slot loop is refuted (a/b:12 records a/b:1 and a/b:2, not a/b:12) *)
Theorem records_exact_pinned_refuted : ~ add_exact_stmt world_add_pinned.
Proof. exact add_exact_pinned_refuted_proof. Qed.
Print Assumptions records_exact_pinned_refuted.

(* flush() writes exactly the entries of the set *)
Theorem flush_exact : flush_exact_stmt.
Proof. exact flush_exact_proof. Qed.
Print Assumptions flush_exact.

(* what flush() wrote is read back by WorldFile as the same set: the update persists *)
Theorem world_persist : persist_stmt.
Proof. exact world_persist_proof. Qed.
Print Assumptions world_persist.

(* every crash prefix of flush(): the world file is the old one or the complete new one *)
Theorem flush_atomic : wflush_atomic_stmt.
Proof. exact wflush_atomic_proof. Qed.
Print Assumptions flush_atomic.

Theorem flush_complete : forall s mode gid c W s',
  tmp_ok s P_WTMP -> run_opt (wflush_ops s mode gid c W) s = Some s' ->
  is_file_with (utf8 (flush_text W)) mode (lookup s' P_WORLD) /\ lookup s' P_WTMP = None.
Proof. exact wflush_complete_proof. Qed.
Print Assumptions flush_complete.

Theorem flush_eio : forall s mode gid c W k,
  tmp_ok s P_WTMP -> 1 <= k ->
  let sk := fault_state s P_WTMP (wflush_ops s mode gid c W) k true in
  (forall q, q <> P_WORLD -> q <> P_WTMP -> lookup sk q = lookup s q) /\
  (lookup sk P_WORLD = lookup s P_WORLD \/ is_file_with (utf8 (flush_text W)) mode (lookup sk P_WORLD)) /\
  lookup sk P_WTMP = None.
Proof. exact wflush_eio_proof. Qed.
Print Assumptions flush_eio.
