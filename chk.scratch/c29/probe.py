import sys, os, tempfile, shutil, random, logging, time
sys.path.insert(0, "/verif")
from harness import c29, fsx
logging.getLogger("pkgcore").setLevel(logging.CRITICAL)
from pkgcore.vdb import ondisk
from pkgcore.binpkg import repository as binrepo
work = tempfile.mkdtemp(prefix="c29p_")
rng = random.Random(5)
m1 = c29.gen_meta(rng, "p-1"); m2 = dict(m1, DESCRIPTION="NEW description", USE="a", KEYWORDS="~arm", SLOT="7", EAPI="7" if m1["EAPI"]=="8" else "8")
c29.mk_vdb_pkg(work+"/s1", "c", "p-1", m1); c29.mk_vdb_pkg(work+"/s2", "c", "p-1", m2)
a = list(ondisk.tree(work+"/s1", disable_cache=True))[0]; b = list(ondisk.tree(work+"/s2", disable_cache=True))[0]
top = work+"/top"; os.makedirs(top+"/r")
# wait for the start of a second so that both operations land in the same one
while time.time() % 1 > 0.15: time.sleep(0.01)
bt = binrepo.tree(top+"/r"); bt.operations.install(a).finish()
bt2 = binrepo.tree(top+"/r"); old = list(bt2)[0]
def go(): bt2.operations.replace(old, b).finish()
ref_k = None
r = fsx.record(lambda: None, top)
# find the index of the cache create: run once on a clone
clone = work+"/clone"; fsx.clone_tree(top, clone)
btc = binrepo.tree(clone+"/r"); oc = list(btc)[0]
rr = fsx.record(lambda: btc.operations.replace(oc, b).finish(), clone)
k = [i for i,c in enumerate(rr.trace) if c.kind=="create" and c.cpaths[0][-1]==".update.Packages"][0]
print("crash before call", k, rr.trace[k])
r = fsx.run_with_fault(go, top, k, "crash")
print("crashed", r.crashed, "tarball mtime", os.stat(top+"/r/c/p-1.tbz2").st_mtime)
print(open(top+"/r/Packages").read())
t3 = binrepo.tree(top+"/r"); p3 = list(t3)[0]
print("desc", p3.description, "eapi", p3.eapi, "slot", p3.slot, "use", p3.use, "keywords", p3.keywords)
try:
    cd = t3.cache[p3.cpvstr]; print("cache entry", dict(cd))
except Exception as e: print("cache miss", repr(e))
from pkgcore.binpkg.xpak import Xpak
x = Xpak(top+"/r/c/p-1.tbz2"); print("xpak", x.get("DESCRIPTION"), x.get("EAPI"), x.get("USE"))
v, stale = c29.bin_view(top+"/r")
print("stale:", stale)
shutil.rmtree(work)
