(* Prop_C13.v — the property theorems of C13 and nothing else. *)
From Coq Require Import List NArith ZArith Bool.
Import ListNotations.
From Verif Require Import Base.Val C12.Model_C12 C12.Spec_C12 C13.Model_C13 C13.Spec_C13 C13.Proofs_C13.

(* THE STATEMENT: for every well-formed configuration (no incomplete token) and every package
   (LICENSE without empty groups), the filter the domain builds answers exactly
   "not masked net of unmasks, and some keyword accepted, and some LICENSE alternative accepted" *)
Theorem visible_is_spec : forall c p,
  wf_config c = true -> wf_pkg p = true -> visible c p = Visible (visible_spec c p).
Proof. exact visible_is_spec_proof. Qed.
Print Assumptions visible_is_spec.

(* conjunct (1): stacking repository, profile and user masks / unmasks with set operations is
   "the last mention of an atom decides", for every configuration and package *)
Theorem mask_conjunct : forall c p, mask_ok c p = mask_spec c p.
Proof. exact mask_conjunct_proof. Qed.
Print Assumptions mask_conjunct.

(* conjunct (2): default keywords, the stable/unstable split, the bucketed per-package data
   (collapsed_restrict_to_data) and the wildcard rules accept exactly the keywords the
   left-to-right reading of ACCEPT_KEYWORDS and the matching entries accepts; building the
   filter does not raise *)
Theorem keywords_conjunct : forall c p e,
  wf_kw_tokens c = true -> accept_set c = Ok e ->
  build_fails true true c (default_keys_of c e) p = false
  /\ kw_ok true true c (default_keys_of c e) p = inr (kw_spec c p).
Proof. exact kw_conjunct_proof. Qed.
Print Assumptions keywords_conjunct.

(* conjunct (3): USE evaluation + DNF alternatives + per-alternative ACCEPT_LICENSE expansion
   = the LICENSE formula under "license accepted by the token stream" *)
Theorem license_conjunct : forall c p,
  wf_lic_tokens c = true -> wf_pkg p = true -> lic_ok c p = inr (license_spec c p).
Proof. exact license_conjunct_proof. Qed.
Print Assumptions license_conjunct.

(* error mapping: the filter raises only when the configuration has an incomplete token *)
Theorem visible_raises_only_malformed : forall c p,
  wf_pkg p = true -> visible c p = Raises -> wf_config c = false.
Proof. exact visible_raises_proof. Qed.
Print Assumptions visible_raises_only_malformed.

(* the tree before fixes/C13-*.patch does not satisfy the statement (empty match-all entry on a
   stable system; ACCEPT_KEYWORDS wildcards without any entry) *)
Theorem pinned_refuted : ~ visible_is_spec_pinned.
Proof. exact pinned_refuted_proof. Qed.
Print Assumptions pinned_refuted.
Theorem pinned_refuted_wildcard :
  visible_pinned (cfg_plain [s_a1; W_ANY] []) (mk [] [] [s_tb2] []) = Visible false
  /\ visible_spec (cfg_plain [s_a1; W_ANY] []) (mk [] [] [s_tb2] []) = true.
Proof. exact pinned_refuted_wildcard_proof. Qed.
Print Assumptions pinned_refuted_wildcard.
