(* Model_C22.v — executable model of pkgcore.fs.contents.contentsSet
   (src/pkgcore/fs/contents.py) and of the location normalisation of fs.fsBase
   (src/pkgcore/fs/fs.py: every entry stores normpath(location)).  No proofs here.

   A contents set is an insertion-ordered dict location -> entry (Python dict); it is modelled
   as the list of its values ([ents]), the key of a value being its [eloc].  An entry carries its
   class ([ekind]: 0 file, 1 dir, 2 symlink, 3 fifo, 4 device) and an opaque payload ([etag],
   the harness uses mtime) so that "whose object is in the result" is observable.

   Every method is transcribed with ITS OWN normalisation behaviour: add/remove/__getitem__/
   __contains__ normalise path strings; difference / intersection_update / issubset / isdisjoint
   evaluate a raw [location in other] on whatever container they are given.
   [discard] is modelled in its REPAIRED form (fixes/C22-discard-normpath.patch): it normalises a
   path string like remove does. *)
From Coq Require Import List NArith ZArith Bool Arith.
Import ListNotations.
From Verif Require Import Base.Val.

(* ------------------------------------------------------------------ strings, POSIX paths *)
Definition SL : N := 47%N.                       (* "/" *)
Definition is_sl (c : N) : bool := N.eqb c 47.
Definition dot : str := [46%N].
Definition dotdot : str := [46%N; 46%N].

Fixpoint split_sl (s : str) : list str :=        (* s.split("/") *)
  match s with
  | [] => [[]]
  | c :: r =>
      if is_sl c then [] :: split_sl r
      else match split_sl r with
           | h :: t => (c :: h) :: t
           | [] => [[c]]
           end
  end.

Fixpoint join_sl (l : list str) : str :=         (* "/".join(l) *)
  match l with
  | [] => []
  | a :: r => match r with [] => a | _ => a ++ SL :: join_sl r end
  end.

(* one iteration of the component loop of posixpath.normpath; [acc] is new_comps, top first *)
Definition np_step (rooted : bool) (acc : list str) (c : str) : list str :=
  if str_eqb c [] || str_eqb c dot then acc
  else if negb (str_eqb c dotdot) then c :: acc
  else match acc with
       | [] => if rooted then acc else c :: acc
       | t :: r => if str_eqb t dotdot then c :: acc else r
       end.

(* initial_slashes: 0, 1, or 2 (exactly two leading slashes are kept, POSIX) *)
Definition init_slashes (p : str) : nat :=
  match p with
  | a :: r =>
      if is_sl a then
        match r with
        | b :: r2 =>
            if is_sl b then
              match r2 with
              | c :: _ => if is_sl c then 1 else 2
              | [] => 2
              end
            else 1
        | [] => 1
        end
      else 0
  | [] => 0
  end.

Definition np_comps (p : str) : list str :=
  fold_left (np_step (Nat.ltb 0 (init_slashes p))) (split_sl p) [].

Definition or_dot (r : str) : str := match r with [] => dot | _ => r end.

Definition normpath (p : str) : str :=
  match p with
  | [] => dot
  | _ => or_dot (repeat SL (init_slashes p) ++ join_sl (rev (np_comps p)))
  end.

Fixpoint drop_while (f : N -> bool) (s : str) : str :=
  match s with
  | [] => []
  | c :: r => if f c then drop_while f r else s
  end.
Definition lstrip_sl (s : str) : str := drop_while is_sl s.
Definition rstrip_sl (s : str) : str := rev (drop_while is_sl (rev s)).

(* posixpath.dirname *)
Definition dirname (p : str) : str :=
  let rh := drop_while (fun c => negb (is_sl c)) (rev p) in      (* reversed head *)
  if forallb is_sl rh then rev rh else rev (drop_while is_sl rh).

Fixpoint starts_with (pre s : str) : bool :=
  match pre, s with
  | [], _ => true
  | a :: pre', b :: s' => N.eqb a b && starts_with pre' s'
  | _ :: _, [] => false
  end.

Definition ends_sl (a : str) : bool :=
  match rev a with c :: _ => is_sl c | [] => false end.

(* posixpath.join(a, b) *)
Definition pjoin (a b : str) : str :=
  match b with
  | c :: _ => if is_sl c then b
              else match a with
                   | [] => b
                   | _ => if ends_sl a then a ++ b else a ++ SL :: b
                   end
  | [] => match a with
          | [] => []
          | _ => if ends_sl a then a else a ++ [SL]
          end
  end.

(* ------------------------------------------------------------------ entries and the dict *)
Record entry := { eloc : str; ekind : N; etag : N }.

(* fsBase.__init__: d["location"] = normpath(location) *)
Definition mk_entry (raw : str) (k t : N) : entry :=
  {| eloc := normpath raw; ekind := k; etag := t |}.
Definition with_loc (e : entry) (l : str) : entry :=   (* change_attributes(location=l) *)
  {| eloc := normpath l; ekind := ekind e; etag := etag e |}.

Definition dict := list entry.

Definition dhas (k : str) (d : dict) : bool := existsb (fun e => str_eqb (eloc e) k) d.
Fixpoint dget (k : str) (d : dict) : option entry :=
  match d with
  | [] => None
  | e :: r => if str_eqb (eloc e) k then Some e else dget k r
  end.
Fixpoint dset (e : entry) (d : dict) : dict :=         (* d[e.location] = e *)
  match d with
  | [] => [e]
  | x :: r => if str_eqb (eloc x) (eloc e) then e :: r else x :: dset e r
  end.
Definition ddel (k : str) (d : dict) : dict :=
  filter (fun e => negb (str_eqb (eloc e) k)) d.
Definition dupdate (d : dict) (l : list entry) : dict :=
  fold_left (fun acc e => dset e acc) l d.

Record cset := { mut : bool; ents : dict }.
Definition with_ents (s : cset) (d : dict) : cset := {| mut := mut s; ents := d |}.

(* an element argument: an fs object or a path string *)
Inductive item := IE (e : entry) | IS (p : str).
(* a set argument: another contentsSet, a container with __contains__ (list), or a plain
   iterator/generator (no __contains__) *)
Inductive arg := ACs (o : cset) | AList (l : list item) | AIter (l : list item).

Inductive ekd := KeyError | AttributeError | TypeError | ValueError.
Inductive res (A : Type) := Ok (a : A) | Er (k : ekd).
Arguments Ok {A} a.
Arguments Er {A} k.

(* the key the element-level methods (add/remove/__getitem__/__contains__) use *)
Definition key_of (it : item) : str :=
  match it with IE e => eloc e | IS p => normpath p end.

Definition contains (s : cset) (it : item) : bool := dhas (key_of it) (ents s).
Definition getitem (s : cset) (it : item) : res entry :=
  match dget (key_of it) (ents s) with Some e => Ok e | None => Er KeyError end.
Definition add (s : cset) (e : entry) : res cset :=
  if mut s then Ok (with_ents s (dset e (ents s))) else Er AttributeError.
Definition remove (s : cset) (it : item) : res cset :=
  if negb (mut s) then Er AttributeError
  else if dhas (key_of it) (ents s) then Ok (with_ents s (ddel (key_of it) (ents s)))
  else Er KeyError.
(* repaired discard (normalises strings); no mutability check in the code *)
Definition discard (s : cset) (it : item) : cset :=
  with_ents s (ddel (key_of it) (ents s)).
(* discard as it is on the pinned tree: a string is used as the key unnormalised *)
Definition discard_pinned (s : cset) (it : item) : cset :=
  with_ents s (ddel (match it with IE e => eloc e | IS p => p end) (ents s)).
Definition clear (s : cset) : res cset :=
  if mut s then Ok (with_ents s []) else Er AttributeError.

Definition arg_items (a : arg) : list item :=
  match a with ACs o => map IE (ents o) | AList l => l | AIter l => l end.

(* `x.location in other` / `x in other for x in self._dict` as difference, intersection_update,
   issubset and isdisjoint evaluate it: a contentsSet normalises the string; a list compares the
   string with its elements (an fs object never equals a string); an iterator was first turned
   into set(_convert_loc(other)), a set of raw strings *)
Definition loc_in_arg (loc : str) (a : arg) : bool :=
  match a with
  | ACs o => dhas (normpath loc) (ents o)
  | AList l => existsb (fun it => match it with IS q => str_eqb q loc | IE _ => false end) l
  | AIter l => existsb (fun it => str_eqb (match it with IS q => q | IE e => eloc e end) loc) l
  end.

Definition all_entries (l : list item) : option (list entry) :=
  fold_right (fun it acc => match it, acc with IE e, Some r => Some (e :: r) | _, _ => None end)
             (Some []) l.

Definition difference (s : cset) (a : arg) : cset :=
  with_ents s (filter (fun x => negb (loc_in_arg (eloc x) a)) (ents s)).

Definition difference_update (s : cset) (a : arg) : res cset :=
  if negb (mut s) then Er TypeError
  else Ok (with_ents s (fold_left (fun d it => ddel (key_of it) d) (arg_items a) (ents s))).

(* contentsSet(x for x in other if x in self): the ARGUMENT's objects; a string raises *)
Definition intersection (s : cset) (a : arg) : res cset :=
  match all_entries (filter (contains s) (arg_items a)) with
  | Some es => Ok (with_ents s (dupdate [] es))
  | None => Er TypeError
  end.

Definition intersection_update (s : cset) (a : arg) : res cset :=
  if negb (mut s) then Er TypeError
  else Ok (with_ents s (filter (fun x => loc_in_arg (eloc x) a) (ents s))).

Definition issubset (s : cset) (a : arg) : bool :=
  forallb (fun x => loc_in_arg (eloc x) a) (ents s).
Definition issuperset (s : cset) (a : arg) : bool :=
  forallb (contains s) (arg_items a).
Definition isdisjoint (s : cset) (a : arg) : bool :=
  negb (existsb (fun x => loc_in_arg (eloc x) a) (ents s)).

(* c = contentsSet(other); c.update(self) *)
Definition union (s : cset) (a : arg) : res cset :=
  match all_entries (arg_items a) with
  | Some es => Ok {| mut := true; ents := dupdate (dupdate [] es) (ents s) |}
  | None => Er TypeError
  end.

(* `x in other` for an fs object x: a contentsSet looks the location up; a list uses
   fsBase.__eq__ (same class and same location) *)
Definition entry_in_arg (x : entry) (a : arg) : bool :=
  match a with
  | ACs o => dhas (eloc x) (ents o)
  | AList l | AIter l =>
      existsb (fun it => match it with
                         | IE e => N.eqb (ekind e) (ekind x) && str_eqb (eloc e) (eloc x)
                         | IS _ => false end) l
  end.

Fixpoint add_absent (d : dict) (l : list item) : res dict :=
  match l with
  | [] => Ok d
  | it :: r =>
      if dhas (key_of it) d then add_absent d r
      else match it with
           | IE e => add_absent (dset e d) r
           | IS _ => Er TypeError          (* self.add("str") *)
           end
  end.

Definition symdiff_core (d : dict) (a : arg) : res dict :=
  let other :=
    match a with
    | AIter l => match all_entries l with
                 | Some es => Ok (ACs {| mut := true; ents := dupdate [] es |})
                 | None => Er ValueError
                 end
    | _ => Ok a
    end in
  match other with
  | Er k => Er k
  | Ok o =>
      let l := filter (fun x => entry_in_arg x o) d in
      match add_absent d (arg_items o) with
      | Er k => Er k
      | Ok d1 => Ok (fold_left (fun acc x => ddel (eloc x) acc) l d1)
      end
  end.

Definition symmetric_difference (s : cset) (a : arg) : res cset :=
  match symdiff_core (ents s) a with
  | Ok d => Ok (with_ents s d)
  | Er k => Er k
  end.
Definition symmetric_difference_update (s : cset) (a : arg) : res cset :=
  if negb (mut s) then Er TypeError else symmetric_difference s a.

(* update(iterable): d[x.location] = x; a string has no .location *)
Definition update (s : cset) (a : arg) : res cset :=
  match all_entries (arg_items a) with
  | Some es => Ok (with_ents s (dupdate (ents s) es))
  | None => Er AttributeError
  end.

(* the set as it is left when an in-place bulk update raises half-way:
   update() has stored the objects before the first string; symmetric_difference_update() has
   added the absent objects before the first absent string and removed nothing yet (a frozen set
   and the ValueError of _ensure_fsbase are raised before anything is touched) *)
Fixpoint update_partial (d : dict) (l : list item) : dict :=
  match l with
  | IE e :: r => update_partial (dset e d) r
  | _ => d
  end.
Fixpoint add_absent_partial (d : dict) (l : list item) : dict :=
  match l with
  | [] => d
  | it :: r =>
      if dhas (key_of it) d then add_absent_partial d r
      else match it with
           | IE e => add_absent_partial (dset e d) r
           | IS _ => d
           end
  end.
Definition failed_update_state (s : cset) (u : N) (a : arg) : cset :=
  match u with
  | 0%N | 1%N => s
  | 2%N => if mut s
           then match a with
                | AIter _ => s
                | _ => with_ents s (add_absent_partial (ents s) (arg_items a))
                end
           else s
  | _ => with_ents s (update_partial (ents s) (arg_items a))
  end.

(* change_offset_rewriter: strips len(orig.rstrip("/")) characters BLINDLY, then "/"s, joins *)
Definition reloc (old new : str) (loc : str) : str :=
  normpath (pjoin new (lstrip_sl (skipn (length (rstrip_sl old)) loc))).
Definition change_offset (s : cset) (old new : str) : cset :=
  {| mut := true;
     ents := dupdate [] (map (fun e => with_loc e (reloc old new (eloc e))) (ents s)) |}.
Definition insert_offset (s : cset) (off : str) : cset := change_offset s [SL] off.

(* iter_child_nodes / child_nodes with the start point already reduced to a path string *)
Definition child_prefix (start : str) : str := rstrip_sl (normpath start) ++ [SL].
Definition child_nodes (s : cset) (start : str) : cset :=
  {| mut := true; ents := filter (fun e => starts_with (child_prefix start) (eloc e)) (ents s) |}.

(* add_missing_directories *)
Definition smem (x : str) (l : list str) : bool := existsb (str_eqb x) l.
Fixpoint sdedupe (l : list str) : list str :=
  match l with
  | [] => []
  | x :: r => if smem x r then sdedupe r else x :: sdedupe r
  end.
(* the inner while loop; fuel bounds the number of dirname steps *)
Fixpoint ascend (fuel : nat) (d : dict) (target : str) (missing : list str) : list str :=
  match fuel with
  | O => missing
  | S f =>
      if smem target missing || dhas (normpath target) d then missing
      else ascend f d (dirname target) (target :: missing)
  end.
Definition missing_dirs (d : dict) : list str :=
  let m0 := sdedupe (filter (fun x => negb (dhas (normpath x) d)) (map (fun e => dirname (eloc e)) d)) in
  let m := fold_left (fun m x => ascend (S (S (length x))) d (dirname x) m) m0 m0 in
  filter (fun x => negb (str_eqb x [SL])) m.
Definition add_missing_directories (s : cset) (tag : N) : cset :=
  with_ents s (dupdate (ents s) (map (fun x => mk_entry x 1%N tag) (missing_dirs (ents s)))).

(* ------------------------------------------------------------------ encoders for the harness *)
Fixpoint str_leb (a b : str) : bool :=
  match a, b with
  | [], _ => true
  | _ :: _, [] => false
  | x :: a', y :: b' => if N.ltb x y then true else if N.eqb x y then str_leb a' b' else false
  end.
Fixpoint ins_sorted (e : entry) (l : list entry) : list entry :=
  match l with
  | [] => [e]
  | x :: r => if str_leb (eloc e) (eloc x) then e :: l else x :: ins_sorted e r
  end.
Definition sort_ents (l : list entry) : list entry := fold_right ins_sorted [] l.

Definition enc_entry (e : entry) : val := VL [VS (eloc e); VZ (Z.of_N (ekind e)); VZ (Z.of_N (etag e))].
Definition enc_set (s : cset) : val := VL [VB (mut s); VL (map enc_entry (sort_ents (ents s)))].
Definition enc_err (k : ekd) : val :=
  VErr (match k with
        | KeyError => [75;101;121;69;114;114;111;114]
        | AttributeError => [65;116;116;114;105;98;117;116;101;69;114;114;111;114]
        | TypeError => [84;121;112;101;69;114;114;111;114]
        | ValueError => [86;97;108;117;101;69;114;114;111;114]
        end%N).

(* harness-side input language: raw spellings; objects are constructed inside the model *)
Definition rawent := (str * N * N)%type.
Definition mk_raw (r : rawent) : entry := let '(p, k, t) := r in mk_entry p k t.
Inductive ritem := RE (r : rawent) | RS (p : str).
Definition mk_item (i : ritem) : item := match i with RE r => IE (mk_raw r) | RS p => IS p end.
Inductive rarg := RCs (m : bool) (l : list rawent) | RList (l : list ritem) | RIter (l : list ritem).
Definition mk_cset (m : bool) (l : list rawent) : cset :=
  {| mut := m; ents := dupdate [] (map mk_raw l) |}.
Definition mk_arg (a : rarg) : arg :=
  match a with
  | RCs m l => ACs (mk_cset m l)
  | RList l => AList (map mk_item l)
  | RIter l => AIter (map mk_item l)
  end.

Inductive op :=
| OAdd (r : rawent) | ORemove (i : ritem) | ODiscard (i : ritem) | OGet (i : ritem) | OHas (i : ritem)
| OClear
| OBin (b : N) (a : rarg)      (* 0 difference 1 intersection 2 union 3 symmetric_difference; cur := result *)
| OUpd (u : N) (a : rarg)      (* 0 difference_update 1 intersection_update 2 symmetric_difference_update 3 update *)
| OTest (t : N) (a : rarg)     (* 0 issubset 1 issuperset 2 isdisjoint *)
| OChOff (old new : str) | OInsOff (off : str) | OMissing (tag : N) | OChild (start : str).

(* one step: (value reported for the op, new current set) *)
Definition step (s : cset) (o : op) : val * cset :=
  let of_res (r : res cset) (failed : cset) :=
    match r with Ok s' => (VNone, s') | Er k => (enc_err k, failed) end in
  match o with
  | OAdd r => of_res (add s (mk_raw r)) s
  | ORemove i => of_res (remove s (mk_item i)) s
  | ODiscard i => (VNone, discard s (mk_item i))
  | OGet i => (match getitem s (mk_item i) with Ok e => enc_entry e | Er k => enc_err k end, s)
  | OHas i => (VB (contains s (mk_item i)), s)
  | OClear => of_res (clear s) s
  | OBin b a =>
      let a' := mk_arg a in
      of_res (match b with
              | 0%N => Ok (difference s a')
              | 1%N => intersection s a'
              | 2%N => union s a'
              | _ => symmetric_difference s a'
              end) s
  | OUpd u a =>
      let a' := mk_arg a in
      of_res (match u with
              | 0%N => difference_update s a'
              | 1%N => intersection_update s a'
              | 2%N => symmetric_difference_update s a'
              | _ => update s a'
              end) (failed_update_state s u a')
  | OTest t a =>
      let a' := mk_arg a in
      (VB (match t with 0%N => issubset s a' | 1%N => issuperset s a' | _ => isdisjoint s a' end), s)
  | OChOff old new => (VNone, change_offset s old new)
  | OInsOff off => (VNone, insert_offset s off)
  | OMissing tag => (VNone, add_missing_directories s tag)
  | OChild st => (VNone, child_nodes s st)
  end.

Fixpoint run_steps (s : cset) (ops : list op) : list val :=
  match ops with
  | [] => []
  | o :: r => let '(v, s') := step s o in VL [v; enc_set s'] :: run_steps s' r
  end.

(* stream "ops": (mutable, initial raw entries, op sequence) *)
Definition run_ops (i : bool * list rawent * list op) : val :=
  let '(m, l, ops) := i in VL (enc_set (mk_cset m l) :: run_steps (mk_cset m l) ops).

(* stream "path": 0 normpath p | 1 dirname p | 2 join(p, q) *)
Definition run_path (i : N * str * str) : val :=
  let '(f, p, q) := i in
  VS (match f with 0%N => normpath p | 1%N => dirname p | _ => pjoin p q end).
