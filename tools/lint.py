#!/usr/bin/env python3
"""Reject forbidden vernacular in the Coq development (comments and strings stripped first).
usage: lint.py DIR_OR_FILE...   exit 1 + one line per hit."""
import re, sys
from pathlib import Path

FORBID = [r"\bAdmitted\b", r"\badmit\b", r"\bAxiom\b", r"\bAxioms\b", r"\bParameter\b", r"\bParameters\b",
          r"\bConjecture\b", r"\bAdmit\s+Obligations\b", r"Unset\s+Guard", r"bypass_check", r"type-in-type",
          r"impredicative-set", r"Unset\s+Positivity", r"Unset\s+Universe\s+Checking", r"\bgive_up\b",
          r"\bnative_compute\b", r"\bExtract\s+Constant\b", r"\bExtract\s+Inductive\b"]

def strip_comments(s):
    out, depth, i, instr = [], 0, 0, False
    while i < len(s):
        if not instr and s.startswith("(*", i): depth += 1; i += 2; continue
        if not instr and depth and s.startswith("*)", i): depth -= 1; i += 2; continue
        c = s[i]
        if depth == 0:
            if c == '"': instr = not instr
            out.append(" " if instr and c != '"' else c)
        elif c == "\n": out.append("\n")
        i += 1
    return "".join(out)

def check_sections(text, path, hits):
    depth = 0
    for n, line in enumerate(text.splitlines(), 1):
        if re.match(r"\s*Section\b", line): depth += 1
        elif re.match(r"\s*End\b", line) and depth: depth -= 1
        if depth == 0 and re.match(r"\s*(Variable|Variables|Hypothesis|Hypotheses|Context)\b", line):
            hits.append(f"{path}:{n}: {line.strip()} (outside a Section)")

hits = []
for a in sys.argv[1:]:
    p = Path(a)
    files = [p] if p.is_file() else sorted(p.rglob("*.v"))
    for f in files:
        t = strip_comments(f.read_text())
        for n, line in enumerate(t.splitlines(), 1):
            for pat in FORBID:
                if re.search(pat, line): hits.append(f"{f}:{n}: {line.strip()}")
        check_sections(t, f, hits)
print("\n".join(hits))
sys.exit(1 if hits else 0)
