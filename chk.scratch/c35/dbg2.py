import sys
from harness.common import Check, cstr
from harness import c35
chk = Check("C35")
from pkgcore.ebuild import processor as P
ss = c35.real_sessions(chk, P)
name, s = [x for x in ss if x[0] == sys.argv[1]][0]
r = chk.coq_eval("trace", c35.IMPORTS, "str", [(cstr(s.rec.encode()), None)], ["mismatches run_stuck cases"], shard=20)
print(r, chk.violations)
import re
f = open(chk.scratch / "cases_trace_0.v").read()
open("/verif/chk.scratch/c35/last_case.v","w").write(f.replace("mismatches run_stuck cases", "map (fun c => run_stuck (fst c)) cases"))
for j,(k,t) in enumerate(s.rec.recs): print(j, k, t[:90])
