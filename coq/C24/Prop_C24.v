(* Prop_C24.v — the property theorems of C24 and nothing else. *)
From Coq Require Import List NArith ZArith Bool Permutation.
Import ListNotations.
From Verif Require Import Base.Val C22.Model_C22 C18.Fs C24.Model_C24 C24.Spec_C24 C24.Proofs_C24.

(* one entry: what _write prints, stripped and parsed by _iter_contents, is the entry — for EVERY
   entry of the domain: any path / target text (embedded spaces, "->" fragments, unicode), any md5,
   any integral mtime *)
Theorem roundtrip : forall e, WFpath e -> parse_line (strip (write_line e)) = Ok e.
Proof. exact line_roundtrip_proof. Qed.
Print Assumptions roundtrip.

(* a whole set: the file written for it reads back as exactly its entries (in location order) *)
Theorem contents_roundtrip : forall d, uniq_locs d -> Forall WFpath d ->
  read_contents (write_contents d) = Ok (sort_entries d) /\ Permutation (sort_entries d) d.
Proof. exact contents_roundtrip_full_proof. Qed.
Print Assumptions contents_roundtrip.

(* the premises of contents_roundtrip that do not depend on the text of the paths hold for every
   set built by add(): unique locations, normalised locations *)
Theorem set_invariant : forall raw,
  uniq_locs (the_set raw) /\ Forall (fun e => normpath (eloc e) = eloc e) (the_set raw).
Proof. exact the_set_invariant_proof. Qed.
Print Assumptions set_invariant.

(* the recorded defect: without the exclusion of symlink LOCATIONS holding a stand-alone "->" the
   statement is false of the code *)
Theorem roundtrip_refuted_sym :
  wf_base sym_witness = true /\ known_class sym_witness = true /\
  parse_line (strip (write_line sym_witness)) = Ok (ESym [47;97]%N [98;32;45;62;32;99]%N 7) /\
  ~ line_roundtrip_full.
Proof. exact line_roundtrip_refuted_sym_proof. Qed.
Print Assumptions roundtrip_refuted_sym.

(* every crash prefix of ContentsFile.flush(): CONTENTS is the old file or the complete new one,
   nothing else but the temporary changes *)
Theorem flush_atomic : flush_atomic_stmt.
Proof. exact flush_atomic_proof. Qed.
Print Assumptions flush_atomic.

Theorem flush_complete : forall s c d s',
  tmp_ok s P_TMP -> run_opt (flush_ops s c d) s = Some s' ->
  is_file_with (utf8 (write_contents d)) 420 (lookup s' P_CONTENTS) /\ lookup s' P_TMP = None.
Proof. exact flush_complete_proof. Qed.
Print Assumptions flush_complete.

Theorem flush_eio : forall s c d k,
  tmp_ok s P_TMP -> 1 <= k ->
  let sk := fault_state s P_TMP (flush_ops s c d) k true in
  (forall q, q <> P_CONTENTS -> q <> P_TMP -> lookup sk q = lookup s q) /\
  (lookup sk P_CONTENTS = lookup s P_CONTENTS \/
   is_file_with (utf8 (write_contents d)) 420 (lookup sk P_CONTENTS)) /\
  lookup sk P_TMP = None.
Proof. exact flush_eio_proof. Qed.
Print Assumptions flush_eio.
