#!/bin/bash
cd /tmp/wt_C49
R=/verif/chk.scratch/c49/mut/run.sh
F=data/lib/pkgcore/ebd/ebuild-default-functions.bash; E=data/lib/pkgcore/ebd/ebuild.bash
S=src/pkgcore/ebuild/ebuild_src.py; A=src/pkgcore/ebuild/eapi.py
sed -i 's/if __safe_has "${EAPI}" 0 1 2 3; then/if __safe_has "${EAPI}" 0 1 2 3 4; then/' $E; $R M3_rdepend_default_eapi4
sed -i 's/if \[\[ ${RDEPEND-unset} == "unset" \]\]; then/if [[ ${RDEPEND:-unset} == "unset" ]]; then/' $E; $R M5_rdepend_default_when_empty
# M4: EAPI 7 already accumulates PROPERTIES/RESTRICT
/venv/bin/python - <<'PY'
p='/tmp/wt_C49/src/pkgcore/ebuild/eapi.py'
s=open(p).read()
s=s.replace('''            "has_profile_data_dirs": True,''','''            "has_profile_data_dirs": True,
            "accumulate_properties_restrict": True,''',1)
open(p,'w').write(s)
PY
$R M4_accumulate_pr_from_eapi7
# M6: DEFINED_PHASES not mapped to short names when only one phase
sed -i 's/            phases = {d.get(x) for x in phases}/            phases = {d.get(x) for x in phases[1:]} | {phases[0]}/' $S; $R M6_defined_phases_first_unmapped
# M8: the per-eclass unset forgets RDEPEND
sed -i 's/\t\tunset -v IUSE REQUIRED_USE DEPEND RDEPEND PDEPEND BDEPEND IDEPEND$/\t\tunset -v IUSE REQUIRED_USE DEPEND PDEPEND BDEPEND IDEPEND/' $F; $R M8_loop_unset_forgets_RDEPEND
# M9: INHERIT also records nested inherits
sed -i 's/\[\[ ${INHERIT_DEPTH} -eq 1 \]\] \&\& INHERIT+=" $@"/[[ ${INHERIT_DEPTH} -ge 1 ]] \&\& INHERIT+=" $@"/' $F; $R M9_inherit_records_nested
# M10: final merge puts E_ value only when own value is empty (":-" instead of append) for PDEPEND
sed -i 's/\tPDEPEND+=${PDEPEND:+ }${E_PDEPEND}/\tPDEPEND=${PDEPEND:-${E_PDEPEND}}/' $E; $R M10_pdepend_eclass_only_when_own_empty
# H1 harmless: INHERITED recorded before sourcing (order only)
/venv/bin/python - <<'PY'
p='/tmp/wt_C49/data/lib/pkgcore/ebd/ebuild-default-functions.bash'
s=open(p).read()
s=s.replace('\t\tINHERITED+=" ${ECLASS}"\n','')
s=s.replace('\t\t__internal_inherit "$1" || die','\t\tINHERITED+=" ${ECLASS}"\n\t\t__internal_inherit "$1" || die')
open(p,'w').write(s)
PY
$R H1_inherited_recorded_before_sourcing
# H2 harmless: eclass values merged in front of nothing else changed: reorder the E_ append lines + rename loop var comment
/venv/bin/python - <<'PY'
p='/tmp/wt_C49/data/lib/pkgcore/ebd/ebuild.bash'
s=open(p).read()
a='\tIUSE+=${IUSE:+ }${E_IUSE}\n'; b='\tREQUIRED_USE+=${REQUIRED_USE:+ }${E_REQUIRED_USE}\n'
s=s.replace(a+b,b+a)
s=s.replace('\tDEPEND+=${DEPEND:+ }${E_DEPEND}\n','\t[[ -n ${E_DEPEND} ]] && DEPEND+=${DEPEND:+ }${E_DEPEND}\n')
open(p,'w').write(s)
PY
$R H2_reordered_merge_lines
