import sys, os, time, subprocess, shutil
from harness.common import Check
from harness import c28
from pkgcore.ebuild import digest
chk = Check("C28")
work = chk.scratch / "c28"; work.mkdir()
line = c28.stream_line(chk, digest)
text, tm, tb = c28.stream_text(chk, digest, work)
upd, um, ub = c28.stream_update(chk, digest, work)
texts=[m[1]["text"] for m in um]
prs = c28.stream_parse(chk, digest, work, texts)
out="/verif/chk.scratch/c28x/cs"; shutil.rmtree(out, ignore_errors=True); os.makedirs(out)
for name, rows, ev in (("line", line, ["mismatches run_line cases"]), ("text", text, ["mismatches run_text cases", "where_ (fun i r => negb (spec_text_ok i r)) cases"]), ("update", upd, ["mismatches run_update cases","where_ (fun i r => negb (spec_update_ok i r)) cases"]), ("parse", prs, ["mismatches run_parse cases"])):
    body=[c28.IMPORTS, "Import ListNotations.", "Definition cases : list ((bstr) * val) := ["]
    body.append(";\n".join(f"  ({i},\n   {r.term})" for i, r in rows)); body.append("].")
    for e in ev: body.append(f"Eval vm_compute in ({e}).")
    open(f"{out}/cases_{name}.v","w").write("\n".join(body)+"\n")
    print(name, len(rows), os.path.getsize(f"{out}/cases_{name}.v"))
