(* Spec_C17.v — the statement of C17: after a rollback the planner state equals the state obtained
   by applying only the operations that remain.  Nothing here looks at how revert/backtrack work:
   the right-hand side is a replay of API calls from the empty state. *)
From Coq Require Import List NArith ZArith Bool Arith.
Import ListNotations.
From Verif Require Import Base.Val C17.Model_C17.

(* ---------------------------------------------------------------- state equality up to order *)
Fixpoint count {A} (eqb : A -> A -> bool) (x : A) (l : list A) : nat :=
  match l with [] => O | y :: r => (if eqb x y then 1 else 0) + count eqb x r end.

(* the observable components, per-key lists compared as multisets *)
Record obs_eq (s1 s2 : state) : Prop := {
  oe_slots : forall p, count N.eqb p (slots s1) = count N.eqb p (slots s2);
  oe_lims : forall kb, count pair_eqb kb (lims s1) = count pair_eqb kb (lims s2);
  oe_pc : forall p, lookup p (pc s1) = lookup p (pc s2);
  oe_rb : forall e, count trip_eqb e (rb s1) = count trip_eqb e (rb s2);
  oe_brc : forall b, count N.eqb b (brc s1) = count N.eqb b (brc s2);
  oe_vf : forall p, memN p (vf s1) = memN p (vf s2);
  oe_fr : forall r, count N.eqb r (fr s1) = count N.eqb r (fr s2) }.

(* ≈ : observables equal and the same plan (the log that later rollbacks will undo) *)
Definition equiv (s1 s2 : state) : Prop := obs_eq s1 s2 /\ plan s1 = plan s2.
(* ≈w : observables equal and the same plan position.  Two runs that reach ≈w states may have
   logged the nested blocker decrefs of a remove/replace in a different order. *)
Definition equivw (s1 s2 : state) : Prop := obs_eq s1 s2 /\ length (plan s1) = length (plan s2).

(* ---------------------------------------------------------------- well-formed calls *)
Section WithEnv.
Variable E : env.

Definition bound (p : N) (s : state) : bool :=
  match lookup p (pc s) with Some _ => true | None => false end.
Definition opt_eqb (a : option N) (b : N) : bool :=
  match a with Some x => N.eqb x b | None => false end.

(* WF of one API call in the current state.  Each conjunct is what the proof needs; the call site
   in /repo/src/pkgcore/resolver/plan.py that guarantees it is named (see notes/C17.md):
   Bindings (pkg_choices) and exclusions (vdb_filter) are keyed by the package's VALUE (peq: cpv),
   slot occupancy by object identity.
   add      no equal package is bound (insert_choice adds a choice point's current_pkg once;
            _ensure_livefs_is_loaded only when match_atom found nothing), the object is not slotted,
            no equal package was replaced away (livefs_dbs filters vdb_filter, plan.py:336); a
            forced add never doubles a (key,slot)
   remove   targets a slotted package under the choice point it is bound to, not in vdb_filter
   replace  never forced (plan.py:897), the new object is not slotted and hit by no limiter (the
            add_op just before returned no restriction, plan.py:882), a bound package occupies the
            slot and is not in vdb_filter (it came from livefs_dbs), the new package is unbound or
            EQUAL to the one it replaces (same cpv from the vdb and from a repo), and the old
            package is not hit by a blocker of its own choice point
   blocker  is filed under its own key (plan.py:946 passes key=x.key) *)
Definition wf_api_b (s : state) (a : api) : bool :=
  match a with
  | AAdd c p f =>
      negb (bound (peq E p) s) && negb (memN p (slots s)) && negb (memN (peq E p) (vf s))
      && (negb f || is_nil (slot_conflicts E p s))
  | AHardref _ => true
  | ABackref _ _ => true
  | ARemove c p =>
      memN p (slots s) && opt_eqb (lookup (peq E p) (pc s)) c && negb (memN (peq E p) (vf s))
  | AReplace c p f =>
      negb f && negb (memN p (slots s)) && negb (memN (peq E p) (vf s))
      && is_nil (check_limiters E p s)
      && match get_conflicting_slot E p s with
         | None => false
         | Some old =>
             (* the new package is unbound, or it is equal to the package it replaces
                (re-merge of the installed version: same cpv from the vdb and from a repo) *)
             (negb (bound (peq E p) s) || N.eqb (peq E p) (peq E old))
             && negb (memN (peq E old) (vf s))
             && match lookup (peq E old) (pc s) with
                | None => false
                | Some oc => forallb (fun bk => negb (bmatch E (fst bk) old)) (rb_of oc s)
                end
         end
  | ABlock c b k => N.eqb k (bkey E b)
  | ADecref c b k => N.eqb k (bkey E b) && existsb (trip_eqb (c, (b, k))) (rb s)
  end.

(* ---------------------------------------------------------------- histories and what remains *)
(* the run, remembering for every call that is still in effect the plan position it started at *)
Definition tstate := (state * list (nat * api))%type.
Definition tstep (e : event) (t : tstate) : tstate :=
  match e with
  | C a => (call_s E a (fst t), snd t ++ [(length (plan (fst t)), a)])
  | R k => (backtrack_s E k (fst t), filter (fun na => Nat.ltb (fst na) k) (snd t))
  end.
Definition trun (h : list event) (t : tstate) : tstate := fold_left (fun t e => tstep e t) h t.

(* a rollback goes to a position at which a call started (plan.py: frame.start_point) or is a no-op *)
Definition wf_event_b (e : event) (t : tstate) : bool :=
  match e with
  | C a => wf_api_b (fst t) a
  | R k => Nat.eqb k (length (plan (fst t))) || existsb (fun na => Nat.eqb (fst na) k) (snd t)
  end.
Fixpoint wf_from (h : list event) (t : tstate) : bool :=
  match h with [] => true | e :: r => wf_event_b e t && wf_from r (tstep e t) end.
Definition WF (h : list event) : Prop := wf_from h (init, []) = true.

(* the operations that remain after the rollbacks of h *)
Definition surviving (h : list event) : list api := map snd (snd (trun h (init, []))).

End WithEnv.

(* ---------------------------------------------------------------- acceptor on recorded snapshots *)
(* inverse of Model_C17.wire_trace *)
Fixpoint take_n {A} (n : nat) (l : list A) : option (list A * list A) :=
  match n, l with
  | O, _ => Some ([], l)
  | S m, x :: r => match take_n m r with Some (a, b) => Some (x :: a, b) | None => None end
  | S _, [] => None
  end.
Fixpoint read_fields (n : nat) (l : list N) : option (list (list N) * list N) :=
  match n with
  | O => Some ([], l)
  | S m => match l with
           | len :: r => match take_n (N.to_nat len) r with
                         | Some (f, r') => match read_fields m r' with
                                           | Some (fs, r'') => Some (f :: fs, r'')
                                           | None => None
                                           end
                         | None => None
                         end
           | [] => None
           end
  end.
Fixpoint read_steps (n : nat) (l : list N) : option (list (list (list N))) :=
  match n with
  | O => match l with [] => Some [] | _ => None end
  | S m => match l with
           | nf :: r => match read_fields (N.to_nat nf) r with
                        | Some (fs, r') => match read_steps m r' with
                                           | Some ss => Some (fs :: ss)
                                           | None => None
                                           end
                        | None => None
                        end
           | [] => None
           end
  end.
Definition read_trace (l : list N) : option (list (list (list N))) :=
  match l with
  | ns :: r => read_steps (N.to_nat ns) r
  | [] => None
  end.

Definition list_eqb (a b : list N) : bool := str_eqb a b.
Fixpoint perm_b (a b : list N) : bool :=
  match a with
  | [] => is_nil b
  | x :: a' => memN x b && perm_b a' (remove1 N.eqb x b)
  end.
Fixpoint all2 {A} (f : A -> A -> bool) (a b : list A) : bool :=
  match a, b with
  | [], [] => true
  | x :: a', y :: b' => f x y && all2 f a' b'
  | _, _ => false
  end.
(* two snapshots (Model_C17.snapshot without the outcome) agree up to the order inside a key:
   the first [nms] fields as multisets, the positional fields exactly, the plan tail ignored *)
Definition snap_sim (nms : nat) (a b : list (list N)) : bool :=
  all2 perm_b (firstn nms a) (firstn nms b)
  && all2 list_eqb (removelast (skipn nms a)) (removelast (skipn nms b)).
Definition is_err (out : list N) : bool := match out with 2%N :: _ => true | _ => false end.

(* walk the history with the recorded outcome and snapshot of every step.  While the history is
   well-formed: no step raised, and after every rollback the recorded state is the replay (by the
   model's API calls, from the empty state) of the calls that remain. *)
Fixpoint spec_walk (c : cfg) (h : list event) (rec : list (list (list N))) (t : tstate) : bool :=
  match h, rec with
  | [], _ => true
  | e :: h', (out :: snap) :: rec' =>
      if wf_event_b (env_of c) e t then
        let t' := tstep (env_of c) e t in
        negb (is_err out)
        && match e with
           | R _ => snap_sim (NK + NK + NC) snap
                             (snap_cfg c 0 (replay (env_of c) (map snd (snd t')) init))
           | C _ => true
           end
        && spec_walk c h' rec' t'
      else true
  | _, _ => false
  end.

Definition spec_hist_ok (i : (cfg * list event) * tl) : bool :=
  match read_trace (tl_list (snd i)) with
  | Some rec => spec_walk (fst (fst i)) (snd (fst i)) rec (init, [])
  | None => false
  end.
