(* Proofs_C09.v — lemmas and proofs; the property theorems are re-exported in Prop_C09.v. *)
From Coq Require Import List NArith ZArith Bool Lia.
Import ListNotations.
From Verif Require Import Base.Val C09.Model_C09 C09.Spec_C09.
Open Scope N_scope.

(* ------------------------------------------------------------------ induction on trees *)
Section NodeInd.
  Variable P : node -> Prop.
  Hypothesis HL : forall l, P (L l).
  Hypothesis HOp : forall k cs, Forall P cs -> P (Op k cs).
  Hypothesis HCond : forall ng f cs, Forall P cs -> P (Cond ng f cs).
  Fixpoint node_ind2 (n : node) : P n :=
    match n with
    | L l => HL l
    | Op k cs => HOp k cs ((fix go (l : list node) : Forall P l :=
                   match l with [] => Forall_nil P | x :: r => Forall_cons x (node_ind2 x) (go r) end) cs)
    | Cond ng f cs => HCond ng f cs ((fix go (l : list node) : Forall P l :=
                   match l with [] => Forall_nil P | x :: r => Forall_cons x (node_ind2 x) (go r) end) cs)
    end.
End NodeInd.

(* ------------------------------------------------------------------ reading: basic facts *)
Definition members (use : list str) (ls : leaf -> bool) (cs : list node) : list bool :=
  flat_map (fun c => if void use c then [] else [sat_gen use ls c]) cs.

Lemma agg_nil k : agg k [] = true.
Proof. destruct k; reflexivity. Qed.

Lemma members_nil use ls cs : forallb (void use) cs = true -> members use ls cs = [].
Proof.
  induction cs as [|c cs IH]; cbn; [reflexivity|]. intro H. apply andb_true_iff in H as [H1 H2].
  rewrite H1. cbn. apply IH; exact H2.
Qed.

Lemma members_nil_iff use ls cs : members use ls cs = [] <-> forallb (void use) cs = true.
Proof.
  split; [|apply members_nil].
  induction cs as [|c cs IH]; cbn; [reflexivity|]. destruct (void use c); cbn; [exact IH | discriminate].
Qed.

Lemma void_sat use ls n : void use n = true -> sat_gen use ls n = true.
Proof.
  induction n as [l|k cs IH|ng f cs IH] using node_ind2; cbn; intro H.
  - discriminate.
  - fold (members use ls cs). rewrite (members_nil _ _ _ H). apply agg_nil.
  - destruct (off use ng f); [reflexivity|]. cbn in H. fold (members use ls cs).
    rewrite (members_nil _ _ _ H). reflexivity.
Qed.

Lemma forall_members use ls cs : forallb id (members use ls cs) = forallb (sat_gen use ls) cs.
Proof.
  unfold members. induction cs as [|c cs IH]; cbn; [reflexivity|].
  destruct (void use c) eqn:V; cbn.
  - rewrite (void_sat _ _ _ V). cbn. exact IH.
  - unfold id at 1. rewrite IH. reflexivity.
Qed.

Lemma sat_cond_on use ls ng f cs : off use ng f = false ->
  sat_gen use ls (Cond ng f cs) = forallb (sat_gen use ls) cs.
Proof. intro H. cbn. rewrite H. fold (members use ls cs). apply forall_members. Qed.
Lemma sat_cond_off use ls ng f cs : off use ng f = true -> sat_gen use ls (Cond ng f cs) = true.
Proof. intro H. cbn. rewrite H. reflexivity. Qed.

(* ------------------------------------------------------------------ PMS 8.3.4 *)
Lemma expand_sat use S base : forall vs forced,
  forallb (sat_gen use S) (expand base forced vs) = S (mkleaf base (forced ++ ev_flags use vs)).
Proof.
  induction vs as [|u r IH]; intro forced.
  - cbn. rewrite app_nil_r, andb_true_r. reflexivity.
  - cbn [expand ev_flags].
    destruct (u_iseq u), (u_neg u), (mem (u_raw u) use) eqn:M; cbn [Bool.eqb];
      cbn [forallb];
      repeat (first [ rewrite sat_cond_on by (unfold off; rewrite M; reflexivity)
                    | rewrite sat_cond_off by (unfold off; rewrite M; reflexivity) ]);
      rewrite ?andb_true_r, ?andb_true_l, ?IH, <- ?app_assoc; reflexivity.
Qed.

Theorem transitive_use_expansion_proof use S l :
  leaf_sat use S l = S (ev_leaf use l).
Proof.
  unfold leaf_sat, ev_leaf, expand_leaf. destruct (transitive l); [|reflexivity].
  apply expand_sat.
Qed.

(* ------------------------------------------------------------------ evaluation: leaves *)
Lemma variable_minus f : variable (c_minus :: f) = variable f.
Proof. destruct f; reflexivity. Qed.

Lemma existsb_insert (P : str -> bool) x l : existsb P (insert x l) = P x || existsb P l.
Proof.
  induction l as [|y r IH]; cbn; [reflexivity|]. destruct (str_leb x y); cbn; [reflexivity|].
  rewrite IH. destruct (P x), (P y); reflexivity.
Qed.
Lemma existsb_sort (P : str -> bool) l : existsb P (sort l) = existsb P l.
Proof. unfold sort. induction l as [|x r IH]; cbn; [reflexivity|]. rewrite existsb_insert, IH. reflexivity. Qed.

Lemma ev_flags_static use vs :
  forallb (fun u => negb (variable u) || negb (variable (u_flag u))) vs = true ->
  forallb variable vs = true -> existsb variable (ev_flags use vs) = false.
Proof.
  induction vs as [|u r IH]; cbn; [reflexivity|]. intros H1 H2.
  apply andb_true_iff in H1 as [Hu H1]. apply andb_true_iff in H2 as [Vu H2].
  rewrite Vu in Hu. cbn in Hu. apply negb_true_iff in Hu. specialize (IH H1 H2).
  destruct (u_iseq u), (Bool.eqb (mem (u_raw u) use) (u_neg u)), (u_neg u); cbn;
    rewrite ?variable_minus, ?Hu, ?IH; reflexivity.
Qed.

Lemma forallb_filter {A} (P : A -> bool) l : forallb P (filter P l) = true.
Proof. induction l as [|x r IH]; cbn; [reflexivity|]. destruct (P x) eqn:E; cbn; rewrite ?E; exact IH. Qed.
Lemma forallb_filter_weak {A} (P Q : A -> bool) l : forallb Q l = true -> forallb Q (filter P l) = true.
Proof.
  induction l as [|x r IH]; cbn; [reflexivity|]. intro H. apply andb_true_iff in H as [H1 H2].
  destruct (P x); cbn; rewrite ?H1; auto.
Qed.
Lemma existsb_filter_neg {A} (P : A -> bool) l : existsb P (filter (fun x => negb (P x)) l) = false.
Proof. induction l as [|x r IH]; cbn; [reflexivity|]. destruct (P x) eqn:E; cbn; rewrite ?E; exact IH. Qed.

Lemma ev_leaf_static use l : leaf_wf l = true -> transitive (ev_leaf use l) = false.
Proof.
  intro W. unfold ev_leaf. destruct (transitive l) eqn:T; [|exact T].
  unfold transitive, mkleaf. cbn [luse]. rewrite existsb_sort, existsb_app, existsb_filter_neg.
  cbn. apply ev_flags_static; [apply forallb_filter_weak; exact W | apply forallb_filter].
Qed.

(* ------------------------------------------------------------------ evaluation: groups *)
Lemma flat_nonvoid u m : flatb m = true -> void u m = false.
Proof.
  induction m as [l|k cs IH|ng f cs IH] using node_ind2; cbn; intro H; try reflexivity; try discriminate.
  destruct cs as [|c cs]; [discriminate|]. cbn in H |- *. apply andb_true_iff in H as [H1 _].
  inversion IH as [|? ? Hc _]; subst. rewrite (Hc H1). reflexivity.
Qed.

Lemma members_flat u ls l : forallb flatb l = true -> members u ls l = map (sat_gen u ls) l.
Proof.
  unfold members. induction l as [|m r IH]; cbn; [reflexivity|]. intro H.
  apply andb_true_iff in H as [H1 H2]. rewrite (flat_nonvoid u m H1). cbn. rewrite (IH H2). reflexivity.
Qed.

Definition third (pk : kind) (bs : list bool) (v s : bool) : Prop :=
  match pk with
  | KAll => forallb id bs = s
  | KAny => bs <> [] -> existsb id bs = s
  | _ => bs = if v then [] else [s]
  end.

Lemma third_single pk b : third pk [b] false b.
Proof. destruct pk; cbn; unfold id; intros; rewrite ?andb_true_r, ?orb_false_r; reflexivity. Qed.
Lemma third_nil pk : third pk [] true true.
Proof. destruct pk; cbn; intros; congruence. Qed.

Section Eval.
  Variable use use' : list str.
  Variable S : leaf -> bool.
  Let sat0 := sat use S.
  Let sat1 := sat use' S.
  Let mem0 := members use (leaf_sat use S).

  Definition inv (p : option str) (n : node) (l : list node) : Prop :=
    forallb flatb l = true /\ (l = [] <-> void use n = true) /\
    third (pkind p) (map sat1 l) (void use n) (sat0 n).

  Definition kmatch (k : kind) (Lc : list node) (cs : list node) : Prop :=
    match k with
    | KAll => forallb id (map sat1 Lc) = forallb id (mem0 cs)
    | KAny => existsb id (map sat1 Lc) = existsb id (mem0 cs)
    | _ => map sat1 Lc = mem0 cs
    end.

  Lemma children_inv q cs :
    Forall (fun c => forall p, inv p c (ev use p c)) cs ->
    forallb flatb (flat_map (ev use q) cs) = true /\
    (flat_map (ev use q) cs = [] <-> forallb (void use) cs = true) /\
    kmatch (pkind q) (flat_map (ev use q) cs) cs.
  Proof.
    induction 1 as [|c cs Hc _ IH].
    - cbn. split; [reflexivity|]. split; [tauto|]. unfold kmatch. destruct (pkind q); reflexivity.
    - destruct IH as (F & E & K). destruct (Hc q) as (Fc & Ec & Tc).
      cbn [flat_map forallb]. rewrite forallb_app, Fc, F. split; [reflexivity|]. split.
      + split.
        * intro H. apply app_eq_nil in H as [H1 H2]. apply andb_true_iff. split; [apply Ec, H1 | apply E, H2].
        * intro H. apply andb_true_iff in H as [H1 H2]. apply Ec in H1. apply E in H2. rewrite H1, H2. reflexivity.
      + unfold kmatch in *. unfold mem0, members in *. cbn [flat_map].
        unfold third in Tc. fold sat0 in Tc.
        destruct (pkind q); rewrite map_app.
        * rewrite !forallb_app, K, Tc. f_equal.
          destruct (void use c) eqn:V; cbn; [apply void_sat; exact V | unfold id; rewrite andb_true_r; reflexivity].
        * rewrite !existsb_app, K. f_equal.
          destruct (void use c) eqn:V.
          -- destruct Ec as [_ Ec]. rewrite (Ec eq_refl). reflexivity.
          -- rewrite Tc. ++ cbn. unfold id. rewrite orb_false_r. reflexivity.
             ++ intro H. apply map_eq_nil in H. destruct Ec as [Ec _]. specialize (Ec H). discriminate.
        * rewrite K, Tc. reflexivity.
        * rewrite K, Tc. reflexivity.
  Qed.

  Lemma sat1_op k Lc : forallb flatb Lc = true -> sat1 (Op k Lc) = agg (kind_of k) (map sat1 Lc).
  Proof.
    intro F. unfold sat1, sat. cbn [sat_gen]. fold (members use' (leaf_sat use' S) Lc).
    rewrite (members_flat _ _ _ F). reflexivity.
  Qed.

  Lemma count_single b : Nat.leb (count [b]) 1 = true.
  Proof. destruct b; reflexivity. Qed.
  Lemma one_single b : Nat.eqb (count [b]) 1 = b.
  Proof. destruct b; reflexivity. Qed.

  Lemma wrap_inv p k cs Lc :
    forallb flatb Lc = true ->
    (Lc = [] <-> forallb (void use) cs = true) ->
    kmatch (kind_of k) Lc cs ->
    forallb flatb (wrap p k Lc) = true /\
    (wrap p k Lc = [] <-> forallb (void use) cs = true) /\
    third (pkind p) (map sat1 (wrap p k Lc)) (forallb (void use) cs) (agg (kind_of k) (mem0 cs)).
  Proof.
    intros F E K.
    destruct Lc as [|m [|m2 Lr]].
    - (* everything gone *)
      destruct E as [E _]. specialize (E eq_refl). cbn [wrap]. split; [reflexivity|]. split; [tauto|].
      rewrite E. unfold mem0. rewrite (members_nil _ _ _ E), agg_nil. apply third_nil.
    - (* one member left *)
      assert (V : forallb (void use) cs = false).
      { destruct (forallb (void use) cs); [|reflexivity]. destruct E as [_ E]. specialize (E eq_refl). discriminate. }
      assert (NE : mem0 cs <> []).
      { intro H. apply members_nil_iff in H. congruence. }
      rewrite V. cbn [wrap]. unfold kmatch in K. cbn [forallb] in F. apply andb_true_iff in F as [Fm _].
      destruct (kind_of k) eqn:KK; cbn [kind_eqb].
      + split; [cbn; rewrite Fm; reflexivity|]. split; [split; intro; discriminate|].
        cbn [agg]. rewrite <- K. cbn. unfold id. rewrite andb_true_r. apply third_single.
      + split; [cbn; rewrite Fm; reflexivity|]. split; [split; intro; discriminate|].
        cbn [agg]. destruct (mem0 cs) eqn:M; [congruence|]. cbn [is_nil orb]. rewrite <- K. cbn. unfold id.
        rewrite orb_false_r. apply third_single.
      + split; [cbn; rewrite Fm; reflexivity|]. split; [split; intro; discriminate|].
        cbn [agg]. rewrite <- K. cbn [map is_nil orb]. rewrite one_single. apply third_single.
      + split; [cbn; rewrite Fm; reflexivity|]. split; [split; intro; discriminate|].
        cbn [agg]. rewrite <- K. cbn [map]. rewrite count_single.
        rewrite sat1_op by (cbn; rewrite Fm; reflexivity). rewrite KK. cbn [agg map]. rewrite count_single.
        apply third_single.
    - (* several members left *)
      assert (V : forallb (void use) cs = false).
      { destruct (forallb (void use) cs); [|reflexivity]. destruct E as [_ E]. specialize (E eq_refl). discriminate. }
      assert (NE : mem0 cs <> []).
      { intro H. apply members_nil_iff in H. congruence. }
      rewrite V. cbn [wrap]. unfold kmatch in K.
      destruct (splice p k) eqn:SP.
      + split; [exact F|]. split; [split; intro; discriminate|].
        unfold splice in SP. destruct (kind_of k) eqn:KK; try discriminate;
          destruct (pkind p); try discriminate; cbn [third agg].
        * exact K.
        * intros _. destruct (mem0 cs) eqn:M; [congruence|]. exact K.
      + assert (F' : forallb flatb [Op k (m :: m2 :: Lr)] = true).
        { cbn [forallb flatb is_nil negb]. cbn [forallb] in F. rewrite F. reflexivity. }
        split; [exact F'|]. split; [split; intro; discriminate|].
        cbn [map]. rewrite sat1_op by exact F.
        replace (agg (kind_of k) (map sat1 (m :: m2 :: Lr))) with (agg (kind_of k) (mem0 cs)); [apply third_single|].
        destruct (kind_of k); cbn [agg].
        * symmetry; exact K.
        * destruct (mem0 cs) eqn:M; [congruence|]. cbn [is_nil map orb]. rewrite <- K. reflexivity.
        * rewrite K. reflexivity.
        * rewrite K. reflexivity.
  Qed.

  Lemma kind_of_nil : kind_of [] = KAll.
  Proof. reflexivity. Qed.

  Lemma ev_inv n : leaves_wf n = true -> forall p, inv p n (ev use p n).
  Proof.
    induction n as [l|k cs IH|ng f cs IH] using node_ind2; intros W p.
    - cbn in W. unfold inv. cbn [ev forallb flatb void map].
      rewrite (ev_leaf_static use l W). split; [reflexivity|]. split; [split; intro; discriminate|].
      replace (sat1 (L (ev_leaf use l))) with (sat0 (L l)); [apply third_single|].
      unfold sat0, sat1, sat. cbn [sat_gen]. rewrite transitive_use_expansion_proof.
      unfold leaf_sat at 1. rewrite (ev_leaf_static use l W). reflexivity.
    - cbn [leaves_wf] in W.
      assert (IH' : Forall (fun c => forall p, inv p c (ev use p c)) cs).
      { rewrite Forall_forall in *. intros c Hc. apply IH; [exact Hc|]. rewrite forallb_forall in W. apply W, Hc. }
      destruct (children_inv (Some k) cs IH') as (F & E & K).
      destruct (wrap_inv p k cs _ F E K) as (F2 & E2 & T2).
      unfold inv. cbn [ev void]. split; [exact F2|]. split; [exact E2|]. exact T2.
    - cbn [leaves_wf] in W.
      assert (IH' : Forall (fun c => forall p, inv p c (ev use p c)) cs).
      { rewrite Forall_forall in *. intros c Hc. apply IH; [exact Hc|]. rewrite forallb_forall in W. apply W, Hc. }
      unfold inv. cbn [ev void]. fold (off use ng f).
      destruct (off use ng f) eqn:O.
      + cbn [orb forallb map]. split; [reflexivity|]. split; [tauto|].
        unfold sat0, sat. rewrite sat_cond_off by exact O. apply third_nil.
      + destruct (children_inv (Some []) cs IH') as (F & E & K).
        destruct (wrap_inv p [] cs _ F E K) as (F2 & E2 & T2).
        cbn [orb]. split; [exact F2|]. split; [exact E2|].
        rewrite kind_of_nil in T2. unfold sat0, sat. cbn [sat_gen]. rewrite O. exact T2.
  Qed.
End Eval.

Lemma forallb_map_id {A} (f : A -> bool) l : forallb id (map f l) = forallb f l.
Proof. induction l as [|x r IH]; cbn; [reflexivity|]. rewrite IH. reflexivity. Qed.

Lemma flat_cond_free n : flatb n = true -> cond_free n = true.
Proof.
  induction n as [l|k cs IH|ng f cs IH] using node_ind2; cbn; intro H; try exact H.
  apply andb_true_iff in H as [_ H]. rewrite forallb_forall in *. rewrite Forall_forall in IH. auto.
Qed.

Lemma nocond_free n : has_cond n = false -> has_trans n = false -> cond_free n = true.
Proof.
  induction n as [l|k cs IH|ng f cs IH] using node_ind2; cbn; intros H1 H2; try discriminate.
  - rewrite H2. reflexivity.
  - rewrite forallb_forall. rewrite Forall_forall in IH. intros x Hx. apply IH; [exact Hx | |].
    + destruct (has_cond x) eqn:E; [|reflexivity].
      assert (existsb has_cond cs = true) by (apply existsb_exists; eauto). congruence.
    + destruct (has_trans x) eqn:E; [|reflexivity].
      assert (existsb has_trans cs = true) by (apply existsb_exists; eauto). congruence.
Qed.

Lemma cond_free_indep u u' S n : cond_free n = true ->
  void u n = void u' n /\ sat u S n = sat u' S n.
Proof.
  induction n as [l|k cs IH|ng f cs IH] using node_ind2; cbn [cond_free]; intro H; try discriminate.
  - split; [reflexivity|]. unfold sat, leaf_sat. cbn. apply negb_true_iff in H. rewrite H. reflexivity.
  - assert (IH' : Forall (fun c => void u c = void u' c /\ sat u S c = sat u' S c) cs).
    { rewrite Forall_forall in *. rewrite forallb_forall in H. auto. }
    clear IH H. unfold sat. cbn [void sat_gen].
    assert (E1 : forallb (void u) cs = forallb (void u') cs).
    { induction IH' as [|c cs [Hc _] _ IHl]; cbn; [reflexivity|]. rewrite Hc, IHl. reflexivity. }
    assert (E2 : flat_map (fun c => if void u c then [] else [sat_gen u (leaf_sat u S) c]) cs
               = flat_map (fun c => if void u' c then [] else [sat_gen u' (leaf_sat u' S) c]) cs).
    { clear E1. induction IH' as [|c cs [Hc Hs] _ IHl]; cbn; [reflexivity|]. unfold sat in Hs. rewrite Hc, Hs, IHl. reflexivity. }
    rewrite E1, E2. split; reflexivity.
Qed.

Theorem evaluate_preserves_meaning_proof c use d :
  forallb leaves_wf d = true ->
  (tua c = true \/ existsb has_trans d = false) ->
  forallb cond_free (evaluate c use d) = true /\
  forall S use', sat_all use' S (evaluate c use d) = sat_all use S d.
Proof.
  intros W P. unfold evaluate. destruct (node_conds c d) eqn:NC.
  - assert (IH : forall S use', Forall (fun n => forall p, inv use use' S p n (ev use p n)) d).
    { intros S use'. rewrite Forall_forall. intros n Hn. apply ev_inv. rewrite forallb_forall in W. apply W, Hn. }
    split.
    + destruct (children_inv use use (fun _ => true) None d (IH _ _)) as (F & _ & _).
      rewrite forallb_forall in *. intros x Hx. apply flat_cond_free, F, Hx.
    + intros S use'. destruct (children_inv use use' S None d (IH S use')) as (_ & _ & K).
      unfold kmatch in K. cbn [pkind] in K. unfold sat_all. rewrite <- forallb_map_id, K.
      apply forall_members.
  - unfold node_conds in NC. apply orb_false_iff in NC as [NC1 NC2].
    assert (NT : existsb has_trans d = false).
    { destruct P as [P|P]; [rewrite P in NC2; exact NC2 | exact P]. }
    assert (CF : forallb cond_free d = true).
    { rewrite forallb_forall. intros x Hx. apply nocond_free.
      - destruct (has_cond x) eqn:E; [|reflexivity].
        assert (existsb has_cond d = true) by (apply existsb_exists; eauto). congruence.
      - destruct (has_trans x) eqn:E; [|reflexivity].
        assert (existsb has_trans d = true) by (apply existsb_exists; eauto). congruence. }
    split; [exact CF|]. intros S use'. unfold sat_all.
    rewrite forallb_forall in CF. clear - CF. induction d as [|n d IH]; cbn; [reflexivity|].
    destruct (cond_free_indep use' use S n (CF n (or_introl eq_refl))) as [_ E]. rewrite E. f_equal.
    apply IH. intros x Hx. apply CF. right. exact Hx.
Qed.

(* ================================================================== the parser and the grammar *)
Lemma str_eqb_false a b : a <> b -> str_eqb a b = false.
Proof. intro H. destruct (str_eqb a b) eqn:E; [|reflexivity]. apply str_eqb_eq in E. contradiction. Qed.

Lemma last_is_split ch s : last_is ch s = true -> s = removelast s ++ [ch].
Proof.
  induction s as [|x r IH]; [discriminate|]. destruct r as [|y r'].
  - cbn. intro H. apply N.eqb_eq in H. subst. reflexivity.
  - intro H. change (last_is ch (y :: r') = true) in H. specialize (IH H).
    change (x :: y :: r' = x :: (removelast (y :: r') ++ [ch])). rewrite <- IH. reflexivity.
Qed.
Lemma last_is_app ch s : last_is ch (s ++ [ch]) = true.
Proof.
  induction s as [|x r IH]; cbn; [apply N.eqb_refl|].
  destruct (r ++ [ch]) eqn:E; [destruct r; discriminate|]. exact IH.
Qed.
Lemma removelast_snoc {A} (l : list A) a : removelast (l ++ [a]) = l.
Proof. apply removelast_last. Qed.

Section Gram.
  Variable c : cfg.
  Variable lf : str -> option str -> option leaf.
  Notation items := (items c lf).
  Notation item := (item c lf).
  Notation run := (run c lf).

  Definition arrow_ok (rest : list str) : Prop :=
    renames c = true -> match rest with k :: _ => k <> s_arrow | [] => True end.

  Lemma classify_open : classify c s_open = TOpen.
  Proof. reflexivity. Qed.
  Lemma classify_close : classify c s_close = TClose.
  Proof. reflexivity. Qed.
  Lemma cond_tok_q ng f : last_is c_q (cond_tok ng f) = true.
  Proof. unfold cond_tok. rewrite app_assoc. apply last_is_app. Qed.
  Lemma cond_tok_nonnil ng f : cond_tok ng f <> [].
  Proof. unfold cond_tok. destruct ng; cbn; [discriminate|]. destruct f; discriminate. Qed.
  Lemma cond_tok_ne ng f s : last_is c_q s = false -> cond_tok ng f <> s.
  Proof. intros H E. rewrite <- E, cond_tok_q in H. discriminate. Qed.
  Lemma classify_cond ng f : classify c (cond_tok ng f) = TGroup.
  Proof.
    assert (N : is_nil (cond_tok ng f) = false).
    { destruct (cond_tok ng f) eqn:E; [exfalso; exact (cond_tok_nonnil _ _ E) | reflexivity]. }
    unfold classify. rewrite N.
    rewrite (str_eqb_false _ s_close) by (apply cond_tok_ne; reflexivity).
    rewrite (str_eqb_false _ s_open) by (apply cond_tok_ne; reflexivity).
    rewrite cond_tok_q. reflexivity.
  Qed.

  Lemma plain_inv k : plain c k -> str_eqb k s_close = false /\ str_eqb k s_open = false /\ k <> [].
  Proof.
    unfold plain, classify. destruct k as [|x r]; cbn [is_nil]; [discriminate|].
    destruct (str_eqb (x :: r) s_close); [discriminate|].
    destruct (str_eqb (x :: r) s_open); [discriminate|]. intros _. repeat split; discriminate.
  Qed.
  Lemma group_inv k : classify c k = TGroup -> str_eqb k s_close = false /\ str_eqb k s_open = false /\ k <> [].
  Proof.
    unfold classify. destruct k as [|x r]; cbn [is_nil]; [discriminate|].
    destruct (str_eqb (x :: r) s_close); [discriminate|].
    destruct (str_eqb (x :: r) s_open); [discriminate|]. intros _. repeat split; discriminate.
  Qed.

  (* ---- build *)
  Lemma build_single key n : mem key (ops c) = true -> (key = s_most -> mem key (badops c) = true) ->
    build c key [n] = Some n.
  Proof.
    intros M B. unfold build. rewrite M. destruct (str_eqb key s_most) eqn:E; [|reflexivity].
    apply str_eqb_eq in E. rewrite (B E). reflexivity.
  Qed.
  Lemma build_group key ns : mem key (ops c) = true -> mem key (badops c) = false ->
    (length ns >= 2)%nat \/ (key = s_most /\ length ns = 1%nat) -> build c key ns = Some (Op key ns).
  Proof.
    intros M B H. unfold build. rewrite M, B. destruct ns as [|a [|b r]]; cbn in H.
    - destruct H as [H|[_ H]]; [lia | discriminate].
    - destruct H as [H|[H _]]; [lia|]. subst. reflexivity.
    - reflexivity.
  Qed.
  Lemma build_cond ng f ns : mem (cond_tok ng f) (ops c) = false -> (ng = false -> first_is c_bang f = false) ->
    build c (cond_tok ng f) ns = Some (Cond ng f ns).
  Proof.
    intros M B. unfold build. rewrite M. unfold cond_tok. destruct ng.
    - cbn. rewrite removelast_snoc. reflexivity.
    - specialize (B eq_refl). cbn [app]. destruct f as [|x r]; [reflexivity|].
      cbn in B. cbn [app]. rewrite B. change (x :: r ++ [c_q]) with ((x :: r) ++ [c_q]).
      rewrite removelast_snoc. reflexivity.
  Qed.

  (* ---- every grammatical token list is accepted, with the tree the grammar assigns *)
  Lemma item_head t n : item t n -> exists k t', t = k :: t' /\ not_arrow c k.
  Proof.
    destruct 1 as [k l ? A ?|k r l ? ? A ?|key ts n [O A] ? ? ?|key ts ns [O A] ? ? ? ?|ng f ts ns A ? ? ? ?].
    - eauto.
    - eauto.
    - unfold opener. destruct key; cbn; [exists s_open; eexists; split; [reflexivity|discriminate] | eauto].
    - unfold opener. destruct key; cbn; [exists s_open; eexists; split; [reflexivity|discriminate] | eauto].
    - unfold opener. destruct (cond_tok ng f) eqn:E; [exfalso; exact (cond_tok_nonnil _ _ E)|].
      cbn. eauto.
  Qed.
  Lemma items_arrow_ok ts ns rest : items ts ns -> arrow_ok rest -> arrow_ok (ts ++ rest).
  Proof.
    destruct 1 as [|t1 n t2 ns' H1 H2]; [auto|]. intros _ R.
    destruct (item_head _ _ H1) as (k & t' & -> & A). cbn. apply A, R.
  Qed.

  Lemma run_open_key key ts rest cur stk : okkey c key ->
    run (opener key ++ ts ++ rest) cur stk = run (ts ++ rest) [] ((key, cur) :: stk).
  Proof.
    intros [[->|G] _].
    - cbn [opener is_nil app]. cbn [Model_C09.run]. rewrite classify_open. reflexivity.
    - destruct (group_inv _ G) as (_ & _ & NE). unfold opener. destruct key as [|x r]; [congruence|].
      cbn [is_nil app]. cbn [Model_C09.run]. rewrite G. reflexivity.
  Qed.
  Lemma run_close key cur parent stk rest n : cur <> [] -> build c key cur = Some n ->
    run (s_close :: rest) cur ((key, parent) :: stk) = run rest (parent ++ [n]) stk.
  Proof.
    intros NE B. cbn [Model_C09.run]. rewrite classify_close. destruct cur; [congruence|]. rewrite B. reflexivity.
  Qed.

  Scheme item_mind := Minimality for Spec_C09.item Sort Prop
    with items_mind := Minimality for Spec_C09.items Sort Prop.
  Combined Scheme gram_mind from items_mind, item_mind.

  Lemma gram_run :
    (forall ts ns, items ts ns -> forall rest cur stk, arrow_ok rest ->
       run (ts ++ rest) cur stk = run rest (cur ++ ns) stk) /\
    (forall t n, item t n -> forall rest cur stk, arrow_ok rest ->
       run (t ++ rest) cur stk = run rest (cur ++ [n]) stk).
  Proof.
    apply gram_mind.
    - (* leaf *) intros k l P A E rest cur stk R. cbn [app]. cbn [Model_C09.run]. rewrite P.
      destruct (renames c) eqn:RN.
      + destruct rest as [|k2 rest']; [rewrite E; reflexivity|].
        rewrite (str_eqb_false k2 s_arrow) by (apply (R RN)). rewrite E. reflexivity.
      + rewrite E. reflexivity.
    - (* rename *) intros k r l RN P A E rest cur stk R. cbn [app]. cbn [Model_C09.run]. rewrite P, RN.
      rewrite str_eqb_refl, E. reflexivity.
    - (* single *) intros key ts n O M B _ IH rest cur stk R.
      rewrite <- !app_assoc. rewrite run_open_key by exact O.
      rewrite IH by (intros _; discriminate). cbn [app].
      rewrite (run_close key [n] cur stk rest n); [reflexivity | discriminate | apply build_single; assumption].
    - (* group *) intros key ts ns O M B Hl _ IH rest cur stk R.
      rewrite <- !app_assoc. rewrite run_open_key by exact O.
      rewrite IH by (intros _; discriminate). cbn [app].
      rewrite (run_close key ns cur stk rest (Op key ns)); [reflexivity | | apply build_group; assumption].
      intro; subst; cbn in Hl; destruct Hl as [Hl|[_ Hl]]; [lia | discriminate].
    - (* cond *) intros ng f ts ns A M B NE _ IH rest cur stk R.
      rewrite <- !app_assoc. rewrite run_open_key by (split; [right; apply classify_cond | exact A]).
      rewrite IH by (intros _; discriminate). cbn [app].
      rewrite (run_close _ ns cur stk rest (Cond ng f ns)); [reflexivity | exact NE | apply build_cond; assumption].
    - (* nil *) intros rest cur stk _. rewrite app_nil_r. reflexivity.
    - (* cons *) intros t1 n t2 ns H1 IH1 H2 IH2 rest cur stk R.
      rewrite <- app_assoc. rewrite IH1 by (eapply items_arrow_ok; eauto).
      rewrite IH2 by exact R. rewrite <- app_assoc. reflexivity.
  Qed.

  Theorem grammar_accepted_proof toks d : items toks d -> parse c lf toks = Some d.
  Proof.
    intro H. unfold parse. rewrite <- (app_nil_r toks).
    rewrite (proj1 gram_run toks d H [] [] []) by (intros _; exact I). reflexivity.
  Qed.
End Gram.

(* ---- conversely: whatever the stack machine accepts is grammatical *)
Section Sound.
  Variable c : cfg.
  Variable lf : str -> option str -> option leaf.
  Hypothesis AR : arrow_reserved c lf.
  Notation items := (items c lf).
  Notation item := (item c lf).
  Notation run := (run c lf).

  Lemma items_snoc t1 ns t2 n : items t1 ns -> item t2 n -> items (t1 ++ t2) (ns ++ [n]).
  Proof.
    intros H1 H2. induction H1 as [|t1 n1 t1' ns1 Hi _ IH].
    - cbn. rewrite <- (app_nil_r t2). apply I_cons; [exact H2 | apply I_nil].
    - rewrite <- app_assoc. cbn. apply I_cons; [exact Hi | exact IH].
  Qed.

  Lemma close_inv k : classify c k = TClose -> k = s_close.
  Proof.
    unfold classify. destruct (is_nil k); [discriminate|].
    destruct (str_eqb k s_close) eqn:E; [intros _; apply str_eqb_eq; exact E|].
    destruct (str_eqb k s_open); [discriminate|].
    destruct (last_is c_q k || mem k (ops c)); [discriminate|]. destruct (has_bar k); discriminate.
  Qed.
  Lemma open_inv k : classify c k = TOpen -> k = s_open.
  Proof.
    unfold classify. destruct (is_nil k); [discriminate|].
    destruct (str_eqb k s_close); [discriminate|].
    destruct (str_eqb k s_open) eqn:E; [intros _; apply str_eqb_eq; exact E|].
    destruct (last_is c_q k || mem k (ops c)); [discriminate|]. destruct (has_bar k); discriminate.
  Qed.
  Lemma arrow_plain : renames c = true -> classify c s_arrow = TPlain.
  Proof. intro RN. destruct (AR RN) as [_ M]. unfold classify. rewrite M. reflexivity. Qed.
  Lemma group_not_arrow k : classify c k = TGroup -> not_arrow c k.
  Proof. intros G RN E. subst. rewrite (arrow_plain RN) in G. discriminate. Qed.
  Lemma leaf_not_arrow k r l : lf k r = Some l -> not_arrow c k.
  Proof. intros E RN K. subst. destruct (AR RN) as [A _]. rewrite A in E. discriminate. Qed.
  Lemma opener_cons k : k <> [] -> opener k = [k; s_open].
  Proof. destruct k; [congruence | reflexivity]. Qed.

  Lemma build_item key ct cur n : okkey c key -> items ct cur -> cur <> [] ->
    build c key cur = Some n -> item (opener key ++ ct ++ [s_close]) n.
  Proof.
    intros O I NE. unfold build. destruct (mem key (ops c)) eqn:M.
    - destruct cur as [|a [|b r]]; [congruence | |].
      + destruct (str_eqb key s_most && negb (mem key (badops c))) eqn:E; intro H; injection H as <-.
        * apply andb_true_iff in E as [E1 E2]. apply str_eqb_eq in E1. apply negb_true_iff in E2.
          apply G_group; auto.
        * apply G_single; auto. intro K. subst. rewrite str_eqb_refl in E. cbn in E.
          apply negb_false_iff in E. exact E.
      + destruct (mem key (badops c)) eqn:B; [discriminate|]. intro H; injection H as <-.
        apply G_group; auto. left. cbn. lia.
    - destruct O as [[->|G] A]; [discriminate|].
      assert (Q : last_is c_q key = true).
      { unfold classify in G. destruct (is_nil key); [discriminate|]. destruct (str_eqb key s_close); [discriminate|].
        destruct (str_eqb key s_open); [discriminate|]. rewrite M, orb_false_r in G.
        destruct (last_is c_q key); [reflexivity|]. destruct (has_bar key); discriminate. }
      destruct key as [|x r]; [discriminate|].
      destruct (N.eqb x c_bang) eqn:X; intro H; injection H as <-.
      + apply N.eqb_eq in X. subst x.
        assert (R : r = removelast r ++ [c_q]).
        { destruct r as [|y r']; [discriminate|]. apply last_is_split. exact Q. }
        assert (K : c_bang :: r = cond_tok true (removelast r)).
        { unfold cond_tok. cbn. rewrite <- R. reflexivity. }
        rewrite K in *. apply G_cond; auto. discriminate.
      + set (f := removelast (x :: r)).
        assert (K : x :: r = cond_tok false f).
        { unfold cond_tok, f. cbn [app]. apply last_is_split. exact Q. }
        assert (Ff : first_is c_bang f = false).
        { unfold f. destruct r; cbn; [reflexivity | exact X]. }
        change (item (opener (x :: r) ++ ct ++ [s_close]) (Cond false f cur)).
        clearbody f. rewrite K in A, M |- *. apply G_cond; auto.
  Qed.

  Fixpoint prefix (stk : list (str * list node)) (gst : list (list str)) : list str :=
    match stk, gst with
    | (key, _) :: stk', pt :: gst' => prefix stk' gst' ++ pt ++ opener key
    | _, _ => []
    end.
  Fixpoint frames_ok (stk : list (str * list node)) (gst : list (list str)) : Prop :=
    match stk, gst with
    | [], [] => True
    | (key, parent) :: stk', pt :: gst' => items pt parent /\ okkey c key /\ frames_ok stk' gst'
    | _, _ => False
    end.

  Lemma run_sound n : forall toks, (length toks <= n)%nat -> forall cur stk gst ct d,
    items ct cur -> frames_ok stk gst -> run toks cur stk = Some d ->
    items (prefix stk gst ++ ct ++ toks) d.
  Proof.
    induction n as [|n IH]; intros toks Hn cur stk gst ct d Ic Fo.
    - destruct toks; [|cbn in Hn; lia]. cbn. destruct stk; [|discriminate].
      destruct gst; [|contradiction]. intro H; injection H as <-. cbn. rewrite app_nil_r. exact Ic.
    - destruct toks as [|k rest].
      { cbn. destruct stk; [|discriminate]. destruct gst; [|contradiction].
        intro H; injection H as <-. cbn. rewrite app_nil_r. exact Ic. }
      cbn in Hn. cbn [Model_C09.run]. destruct (classify c k) eqn:CL.
      + (* ")" *) apply close_inv in CL. subst k.
        destruct stk as [|[key parent] stk']; [discriminate|]. destruct gst as [|pt gst']; [contradiction|].
        destruct Fo as (Ip & Ok & Fo).
        destruct cur as [|c0 cur']; [discriminate|]. destruct (build c key (c0 :: cur')) eqn:B; [|discriminate].
        intro H. apply (IH rest ltac:(lia) _ _ gst' (pt ++ opener key ++ ct ++ [s_close])) in H; [| |exact Fo].
        * cbn [prefix]. repeat rewrite <- app_assoc in *. exact H.
        * apply items_snoc; [exact Ip|]. eapply build_item; eauto. discriminate.
      + (* "(" *) apply open_inv in CL. subst k. intro H.
        apply (IH rest ltac:(lia) _ _ (ct :: gst) []) in H; [|apply I_nil|].
        * cbn [prefix opener is_nil] in H. repeat rewrite <- app_assoc in *. exact H.
        * cbn. split; [exact Ic|]. split; [|exact Fo]. split; [left; reflexivity | intros _; discriminate].
      + (* operator / conditional *)
        destruct rest as [|k2 rest']; [discriminate|]. destruct (str_eqb k2 s_open) eqn:E2; [|discriminate].
        apply str_eqb_eq in E2. subst k2. intro H. cbn in Hn.
        apply (IH rest' ltac:(lia) _ _ (ct :: gst) []) in H; [|apply I_nil|].
        * cbn [prefix] in H. rewrite opener_cons in H by (apply (group_inv c k CL)).
          repeat rewrite <- app_assoc in *. exact H.
        * cbn. split; [exact Ic|]. split; [|exact Fo]. split; [right; exact CL | apply group_not_arrow; exact CL].
      + discriminate.
      + (* element *)
        assert (LEAF : forall l, lf k None = Some l -> run rest (cur ++ [L l]) stk = Some d ->
                       items (prefix stk gst ++ ct ++ k :: rest) d).
        { intros l E H. apply (IH rest ltac:(lia) _ _ gst (ct ++ [k])) in H; [| |exact Fo].
          - repeat rewrite <- app_assoc in *. exact H.
          - apply items_snoc; [exact Ic|]. apply G_leaf; [exact CL | eapply leaf_not_arrow; eauto | exact E]. }
        destruct (renames c) eqn:RN.
        * destruct rest as [|k2 rest'].
          -- destruct (lf k None) eqn:E; [|discriminate]. apply LEAF; reflexivity.
          -- destruct (str_eqb k2 s_arrow) eqn:EA.
             ++ apply str_eqb_eq in EA. subst k2. destruct rest' as [|k3 rest'']; [discriminate|].
                destruct (lf k (Some k3)) eqn:E; [|discriminate]. intro H. cbn in Hn.
                apply (IH rest'' ltac:(lia) _ _ gst (ct ++ [k; s_arrow; k3])) in H; [| |exact Fo].
                ** repeat rewrite <- app_assoc in *. exact H.
                ** apply items_snoc; [exact Ic|]. apply G_rename; [exact RN | exact CL | eapply leaf_not_arrow; eauto | exact E].
             ++ destruct (lf k None) eqn:E; [|discriminate]. apply LEAF; reflexivity.
        * destruct (lf k None) eqn:E; [|discriminate]. apply LEAF; reflexivity.
  Qed.

  Theorem accepted_grammatical_proof toks d : parse c lf toks = Some d -> items toks d.
  Proof.
    intro H. apply (run_sound (length toks) toks (le_n _) [] [] [] [] d (I_nil c lf) I) in H. exact H.
  Qed.

  (* ---- printing a grammatical tree gives a grammatical token list for the same tree *)
  Hypothesis LG : lf_good c lf.

  Lemma items_of_forall ns : Forall (fun n => item (pr_node n) n) ns -> items (flat_map pr_node ns) ns.
  Proof. induction 1; cbn; [apply I_nil | apply I_cons; assumption]. Qed.

  Lemma print_gram :
    (forall ts ns, items ts ns -> Forall (fun n => item (pr_node n) n) ns) /\
    (forall t n, item t n -> item (pr_node n) n).
  Proof.
    apply gram_mind.
    - intros k l P A E. destruct (LG k None l P A E) as (P' & A' & R & E').
      cbn [pr_node]. unfold pr_leaf. rewrite R. apply G_leaf; assumption.
    - intros k r l RN P A E. destruct (LG k (Some r) l P A E) as (P' & A' & R & E').
      cbn [pr_node]. unfold pr_leaf. rewrite R. apply G_rename; assumption.
    - intros key ts n O M B _ IH. inversion IH; assumption.
    - intros key ts ns O M B Hl _ IH. cbn [pr_node]. apply G_group; auto. apply items_of_forall; exact IH.
    - intros ng f ts ns A M B NE _ IH. cbn [pr_node].
      change [cond_tok ng f; s_open] with ([cond_tok ng f] ++ [s_open]).
      replace ([cond_tok ng f] ++ [s_open]) with (opener (cond_tok ng f))
        by (apply opener_cons, cond_tok_nonnil).
      apply G_cond; auto. apply items_of_forall; exact IH.
    - constructor.
    - intros; constructor; assumption.
  Qed.

  Theorem parse_print_roundtrip_proof toks d :
    parse c lf toks = Some d -> parse c lf (print d) = Some d.
  Proof.
    intro H. apply accepted_grammatical_proof in H. apply grammar_accepted_proof.
    apply items_of_forall. exact (proj1 print_gram _ _ H).
  Qed.
End Sound.

(* ---- unbalanced parentheses and dangling operators are outside the grammar *)
Section Balance.
  Variable c : cfg.
  Variable lf : str -> option str -> option leaf.
  Hypothesis NR : renames c = false.

  Lemma bal_tok depth k rest : str_eqb k s_close = false -> str_eqb k s_open = false ->
    balance depth (k :: rest) = balance depth rest.
  Proof. intros H1 H2. cbn. rewrite H1, H2. reflexivity. Qed.

  Lemma bal_opener depth key r : okkey c key -> balance depth (opener key ++ r) = balance (S depth) r.
  Proof.
    intros [[->|G] _]; [reflexivity|]. destruct (group_inv c key G) as (H1 & H2 & NE).
    rewrite (opener_cons key NE). cbn [app]. rewrite bal_tok by assumption. reflexivity.
  Qed.
  Lemma dang_opener key r : okkey c key -> dangling c (opener key ++ r) = dangling c r.
  Proof.
    intros [[->|G] _]; [reflexivity|]. destruct (group_inv c key G) as (_ & _ & NE).
    rewrite (opener_cons key NE). cbn [app dangling]. rewrite G. cbn. reflexivity.
  Qed.

  Lemma gram_balance :
    (forall ts ns, items c lf ts ns -> forall depth rest,
       balance depth (ts ++ rest) = balance depth rest /\ dangling c (ts ++ rest) = dangling c rest) /\
    (forall t n, item c lf t n -> forall depth rest,
       balance depth (t ++ rest) = balance depth rest /\ dangling c (t ++ rest) = dangling c rest).
  Proof.
    assert (GRP : forall key ts, okkey c key ->
      (forall depth rest, balance depth (ts ++ rest) = balance depth rest /\ dangling c (ts ++ rest) = dangling c rest) ->
      forall depth rest, balance depth ((opener key ++ ts ++ [s_close]) ++ rest) = balance depth rest /\
                         dangling c ((opener key ++ ts ++ [s_close]) ++ rest) = dangling c rest).
    { intros key ts O IH depth rest. repeat rewrite <- app_assoc. rewrite bal_opener, dang_opener by exact O.
      destruct (IH (S depth) ([s_close] ++ rest)) as [B D]. rewrite B, D. split; reflexivity. }
    apply gram_mind.
    - intros k l P _ _ depth rest. destruct (plain_inv c k P) as (H1 & H2 & _).
      cbn [app]. rewrite bal_tok by assumption. cbn [dangling]. rewrite P. split; reflexivity.
    - intros k r l RN. congruence.
    - intros key ts n O _ _ _ IH. apply GRP; assumption.
    - intros key ts ns O _ _ _ _ IH. apply GRP; assumption.
    - intros ng f ts ns A _ _ _ _ IH. apply GRP; [|assumption]. split; [right; apply classify_cond | exact A].
    - intros depth rest. split; reflexivity.
    - intros t1 n t2 ns _ IH1 _ IH2 depth rest. rewrite <- app_assoc.
      destruct (IH1 depth (t2 ++ rest)) as [B1 D1]. destruct (IH2 depth rest) as [B2 D2].
      rewrite B1, D1, B2, D2. split; reflexivity.
  Qed.

  Theorem unbalanced_rejected_proof toks :
    balance 0 toks = false \/ dangling c toks = true -> parse c lf toks = None.
  Proof.
    intro H. destruct (parse c lf toks) as [d|] eqn:E; [|reflexivity]. exfalso.
    apply accepted_grammatical_proof in E; [|intro RN; congruence].
    destruct (proj1 gram_balance _ _ E 0%nat []) as [B D]. rewrite app_nil_r in B, D. cbn in B, D.
    destruct H as [H|H]; congruence.
  Qed.
End Balance.

(* ------------------------------------------------------------------ the premises are satisfiable *)
Lemma lf_id_good c : lf_good c lf_id.
Proof.
  intros k r l P A E. unfold lf_id in E. injection E as <-. cbn. repeat split; assumption.
Qed.

Lemma lf_uri_good c : lf_good c lf_uri.
Proof.
  intros k r l P A E. unfold lf_uri in *. destruct (str_eqb k s_arrow) eqn:K; [discriminate|].
  unfold lf_id in E. injection E as <-. cbn. rewrite K. repeat split; assumption.
Qed.
Lemma lf_uri_reserved c : mem s_arrow (ops c) = false -> arrow_reserved c lf_uri.
Proof. intros M _. split; [|exact M]. intro r. unfold lf_uri. rewrite str_eqb_refl. reflexivity. Qed.
Lemma no_renames_reserved c lf : renames c = false -> arrow_reserved c lf.
Proof. intros H RN. congruence. Qed.

(* round trip, attribute kind by attribute kind (the element parsers of these kinds are modelled) *)
Theorem roundtrip_by_kind_proof kd toks d : (2 <= kd)%N ->
  parse (cfg_of kd) (lf_of kd []) toks = Some d -> parse (cfg_of kd) (lf_of kd []) (print d) = Some d.
Proof.
  intros K. assert (kd <> 0 /\ kd <> 1)%N as [K0 K1] by lia.
  unfold lf_of. destruct (kd <=? 1)%N eqn:E; [apply N.leb_le in E; lia|].
  destruct (kd =? 4)%N eqn:E4.
  - apply N.eqb_eq in E4. subst kd. apply parse_print_roundtrip_proof;
      [apply lf_uri_reserved; reflexivity | apply lf_uri_good].
  - apply parse_print_roundtrip_proof; [|apply lf_id_good].
    apply no_renames_reserved. unfold cfg_of.
    destruct kd as [|[[[|[]|]|[[]|[]|]|]|[[]|[]|]|]]; try reflexivity; try (cbn in E4; discriminate); lia.
Qed.

Definition a_b : str := [97;47;98].            (* "a/b" *)
Definition fx : str := [120].                  (* "x" *)
Definition atom_with (u : list str) : leaf := {| lstr := []; lbase := a_b; luse := u; lren := None |}.
Definition only (tok : str) : leaf -> bool := fun l => str_eqb (lstr l) tok.

(* the four rows of PMS 8.3.4, under x on / x off *)
Example row_cond_on : ev_leaf [fx] (atom_with [[120;63]]) = mkleaf a_b [[120]].            (* a[x?]  x  -> a[x]  *)
Proof. reflexivity. Qed.
Example row_cond_off : ev_leaf [] (atom_with [[120;63]]) = mkleaf a_b [].                  (* a[x?] -x  -> a     *)
Proof. reflexivity. Qed.
Example row_ncond_on : ev_leaf [fx] (atom_with [[33;120;63]]) = mkleaf a_b [].             (* a[!x?] x  -> a     *)
Proof. reflexivity. Qed.
Example row_ncond_off : ev_leaf [] (atom_with [[33;120;63]]) = mkleaf a_b [[45;120]].      (* a[!x?] -x -> a[-x] *)
Proof. reflexivity. Qed.
Example row_eq_on : ev_leaf [fx] (atom_with [[120;61]]) = mkleaf a_b [[120]].              (* a[x=]  x  -> a[x]  *)
Proof. reflexivity. Qed.
Example row_eq_off : ev_leaf [] (atom_with [[120;61]]) = mkleaf a_b [[45;120]].            (* a[x=] -x  -> a[-x] *)
Proof. reflexivity. Qed.
Example row_neq_on : ev_leaf [fx] (atom_with [[33;120;61]]) = mkleaf a_b [[45;120]].       (* a[!x=] x  -> a[-x] *)
Proof. reflexivity. Qed.
Example row_neq_off : ev_leaf [] (atom_with [[33;120;61]]) = mkleaf a_b [[120]].           (* a[!x=] -x -> a[x]  *)
Proof. reflexivity. Qed.
Example mkleaf_str : lstr (mkleaf a_b [[121]; [45;120]]) = [97;47;98;91;45;120;44;121;93].  (* "a/b[-x,y]" *)
Proof. reflexivity. Qed.

(* "|| ( x? ( a ) )" with x off: the any-of group is emptied, evaluates to nothing, is satisfied *)
Definition ex_any : list str := [s_or; s_open; [120;63]; s_open; [97]; s_close; s_close].
Example ex_any_parses : parse (cfg_of 2) lf_id ex_any
  = Some [Cond false [120] [L {| lstr := [97]; lbase := [97]; luse := []; lren := None |}]].
Proof. reflexivity. Qed.
Example ex_any_emptied :
  option_map (evaluate (cfg_of 2) []) (parse (cfg_of 2) lf_id [s_or; s_open; [120;63]; s_open; [97]; s_close; [98]; s_close])
  = Some [L {| lstr := [98]; lbase := [98]; luse := []; lren := None |}].
Proof. reflexivity. Qed.
Example ex_most_single :        (* "?? ( a )" stays an at-most-one-of group, satisfied by {} and by {a} *)
  option_map (fun d => (d, sat_all [] (fun _ => false) d, sat_all [] (fun _ => true) d))
             (parse (cfg_of 5) lf_id [s_most; s_open; [97]; s_close])
  = Some ([Op s_most [L {| lstr := [97]; lbase := [97]; luse := []; lren := None |}]], true, true).
Proof. reflexivity. Qed.
Example ex_roundtrip :          (* "^^ ( a b )" prints as itself *)
  option_map print (parse (cfg_of 5) lf_id [s_one; s_open; [97]; [98]; s_close]) = Some [s_one; s_open; [97]; [98]; s_close].
Proof. reflexivity. Qed.
Example ex_unbalanced : balance 0 [s_open; [97]] = false /\ dangling (cfg_of 0) [[97]; s_or] = true.
Proof. split; reflexivity. Qed.
Example ex_rename : parse (cfg_of 4) lf_id [[117]; s_arrow; [110]]
  = Some [L {| lstr := [117]; lbase := [117]; luse := []; lren := Some [110] |}].
Proof. reflexivity. Qed.
