(* Spec_C31.v — the statement of C31, written from its text, not from the algorithm.

   "For any environment mapping with valid shell names and values that are arbitrary text
    without NUL (or sequences of such text), the build daemon's shell ends up with exactly
    those values, exported unless marked non-exported, whether the environment is sent inline
    or through a file.  After the transfer the command channel is still synchronized."

   [expected_lookup] says what every shell variable must be afterwards; the acceptors
   evaluate that on results RECORDED from the implementation (comparison B, inside Coq). *)
From Coq Require Import List NArith ZArith Bool.
Import ListNotations.
From Verif Require Import Base.Val C31.Model_C31.
Local Open Scope N_scope.

(* ---- the domain of the property *)
Definition valid_name (k : str) : Prop := valid_nameb k = true.
Definition no_nul (s : str) : Prop := ~ In 0 s.
Definition value_ok (v : pyval) : Prop :=
  match v with
  | PStr s => no_nul s
  | PList l => forall s, In s l -> no_nul s
  | POther => False
  end.
Record env_ok (e : env) : Prop := {
  ok_nodup : NoDup (map fst e);                          (* it is a mapping *)
  ok_names : forall k v, In (k, v) e -> valid_name k;
  ok_values : forall k v, In (k, v) e -> value_ok v;
  ok_marker : forall v, In (MARKER, v) e -> exists s, v = PStr s
}.

(* ---- what the shell must contain afterwards *)
Fixpoint indexed (i : N) (l : list str) : list (N * str) :=
  match l with [] => [] | v :: r => (i, v) :: indexed (N.succ i) r end.
Definition marked (e : env) : list str :=
  match assoc MARKER e with Some (PStr s) => split_ws [] s | _ => [] end.
Definition expected_lookup (ro : list str) (e : env) (k : str) : option (bval * bool) :=
  if str_eqb k MARKER || mem_str k ro then None           (* never transferred *)
  else match assoc k e with
       | Some (PStr s) => Some (BStr s, negb (mem_str k (marked e)))
       | Some (PList l) => Some (BArr (indexed 0 l), negb (mem_str k (marked e)))
       | _ => None
       end.

(* ---- boolean forms, for the acceptors *)
Definition bval_eqb (a b : bval) : bool :=
  match a, b with
  | BStr x, BStr y => str_eqb x y
  | BArr x, BArr y =>
      (fix go (x y : list (N * str)) : bool :=
         match x, y with
         | [], [] => true
         | (i, v) :: x', (j, w) :: y' => (i =? j) && str_eqb v w && go x' y'
         | _, _ => false
         end) x y
  | _, _ => false
  end.
Definition entry_eqb (a b : option (bval * bool)) : bool :=
  match a, b with
  | None, None => true
  | Some (v, e), Some (w, f) => bval_eqb v w && Bool.eqb e f
  | _, _ => false
  end.
Definition nul_free (s : str) : bool := negb (memN 0 s).
Definition value_okb (v : pyval) : bool :=
  match v with PStr s => nul_free s | PList l => forallb nul_free l | POther => false end.
Fixpoint nodupb (l : list str) : bool :=
  match l with [] => true | x :: r => negb (mem_str x r) && nodupb r end.
Definition env_okb (e : env) : bool :=
  nodupb (map fst e)
  && forallb (fun kv => valid_nameb (fst kv) && value_okb (snd kv)) e
  && match assoc MARKER e with Some (PStr _) | None => true | _ => false end.

(* (B) stream "gen": the text the IMPLEMENTATION generated, evaluated by the bash model,
   leaves every variable as the statement demands (inputs outside the domain are accepted) *)
Definition spec_text_ok (ro : list str) (e : env) (text : str) : bool :=
  match bash_eval text with
  | None => false
  | Some log =>
      forallb (fun k => entry_eqb (final_lookup k log) (expected_lookup ro e k))
              (map fst e ++ map (fun a => fst (fst a)) log)
  end.
Definition spec_gen_ok (i : gen_input) (r : val) : bool :=
  let '(_, _, ro, e) := i in
  if env_okb e then match r with VS text => spec_text_ok ro e text | _ => false end
  else true.

(* (B) stream "e2e": the variable dump taken from the REAL daemon after the transfer is
   exactly the expected state (dumped names = the keys of the environment) *)
Fixpoint enc_expected (ro : list str) (e : env) (names : list str) : list val :=
  match names with
  | [] => []
  | k :: r =>
      match expected_lookup ro e k with
      | Some x => enc_var k x :: enc_expected ro e r
      | None => enc_expected ro e r
      end
  end.
Definition spec_e2e_ok (i : gen_input) (r : val) : bool :=
  let '(_, _, ro, e) := i in
  if env_okb e then val_eqb r (VL (enc_expected ro e (map fst e))) else true.

(* (B) stream "frame": the bytes the IMPLEMENTATION wrote are read back exactly by the
   daemon's reader, and whatever follows on the channel is left untouched *)
Definition PROBE : list N := [97;108;105;118;101;10].            (* "alive\n" *)
Definition bytes_eqb := str_eqb.
Definition spec_frame_ok (text wire filewire filedata path : str) : bool :=
  match reader (wire ++ PROBE) with
  | Some (payload, rest) => bytes_eqb payload (encode text) && bytes_eqb rest PROBE
  | None => false
  end
  && match reader_file (filewire ++ PROBE) with
     | Some (p, rest) => bytes_eqb p (encode path) && bytes_eqb rest PROBE
     | None => false
     end
  && bytes_eqb filedata (encode text).
Definition spec_frame_val (i : str * str) (r : val) : bool :=
  match r with
  | VL [VS wire; VS filewire; VS filedata] => spec_frame_ok (fst i) wire filewire filedata (snd i)
  | _ => false
  end.
