"""C09 — dependency strings round-trip; USE evaluation preserves meaning (DESIGN §6 C09).

Streams
  parse   DepSet.parse(s) for 7 attribute kinds -> [has_conditionals, tree, str(depset)] | error
            (A) impl vs Model_C09.run_parse
            (B) Spec_C09.spec_rt_ok on the impl's result (its str() re-parses to the same tree),
                + the same round trip directly on the implementation (parse(str(d)) == d),
                + an independent bracket/dangling/empty-group scan: a string it flags must be rejected
  eval    DepSet.parse(s).evaluate_depset(use) for every subset of the referenced flags
            (A) impl vs Model_C09.run_eval
            (B) Spec_C09.spec_eval_ok (conditional-free + same satisfying token sets, in Coq),
                + the same oracle in Python directly on the implementation's two trees
  leaf    premises of the theorems about the external element parser: atom(str(atom(k))) == atom(k),
          variable use deps name plain flags
"""

import itertools
import sys
from functools import partial

from .common import Check, Err, Raw, cN, cbool, clist, copt, cpair, cstr, impl_call, shrink_list

IMPORTS = ("From Coq Require Import List NArith ZArith Bool.\n"
           "From Verif Require Import Base.Val C09.Model_C09 C09.Spec_C09.\nOpen Scope N_scope.")
ANCHORS = ["ebuild/conditionals.py::DepSet.parse", "ebuild/conditionals.py::DepSet.evaluate_depset",
           "ebuild/conditionals.py::stringify_boolean", "ebuild/conditionals.py::_internal_stringify_boolean",
           "restrictions/boolean.py::base.evaluate_conditionals",
           "restrictions/packages.py::Conditional.evaluate_conditionals",
           "ebuild/atom.py::atom.evaluate_conditionals",
           "ebuild/atom.py::transitive_use_atom.evaluate_conditionals"]
KINDS = {"DepsetParseError": "DepsetParseError"}
KIND_NAMES = {0: "DEPEND", 1: "DEPEND(tua=False)", 2: "LICENSE", 3: "RESTRICT", 4: "SRC_URI",
              5: "REQUIRED_USE", 6: "REQUIRED_USE(EAPI4)"}
FLAGS = ("x", "y", "z", "w")

ATOMS = ["a/b", "c/d", ">=e/f-1.2", "!g/h", "!!g/h", "a/b:2", "=i/j-1*", "a/b[x]", "a/b[-y,x]", "g/h[y,x]",
         "a/b[x?]", "a/b[!x?]", "c/d[y=]", "c/d[!y=]", "e/f[x?,!y=,z]", "e/f[x(+)?,w(-)=]",
         "a/b[x?,x]", "!!c/d:0=[!z?,w]", "~k/l-2[z=,y?]"]
BAD_ATOMS = ["foo", "a/b[", ">=a/b", "a/b[x??]", "a/b[]"]
LICENSES = ["GPL-2", "MIT", "BSD", "LGPL-2.1+"]
RESTRICTS = ["mirror", "test", "fetch", "strip"]
URIS = ["http://h/a.tgz", "mirror://m/b.tar", "c.patch", "https://h/d?e=1"]
RU = ["a", "b", "c", "!d", "x", "!y"]


class SrcElem:
    """SRC_URI element keeping the rename; rendered `uri -> name`."""
    __slots__ = ("uri", "rename")

    def __init__(self, uri, rename=None):
        if not isinstance(uri, str) or (rename is not None and not isinstance(rename, str)):
            raise TypeError("bad element")
        if uri == "->":
            raise ValueError("'->' is not a URI")
        self.uri, self.rename = uri, rename

    def __str__(self):
        return self.uri if self.rename is None else f"{self.uri} -> {self.rename}"

    def __eq__(self, o):
        return isinstance(o, SrcElem) and (self.uri, self.rename) == (o.uri, o.rename)

    def __hash__(self):
        return hash((self.uri, self.rename))


class Impl:
    def __init__(self):
        from pkgcore.ebuild import atom as atom_mod
        from pkgcore.ebuild import conditionals, ebuild_src
        from pkgcore.restrictions import boolean, packages, values
        self.atom = atom_mod.atom
        self.DepSet = conditionals.DepSet
        self.boolean, self.packages, self.values = boolean, packages, values
        self.mk_ru = ebuild_src.base._mk_required_use_node
        self.opname = {boolean.AndRestriction: "", boolean.OrRestriction: "||",
                       boolean.JustOneRestriction: "^^", boolean.AtMostOneOfRestriction: "??"}

    def parse(self, kind, s):
        b, D = self.boolean, self.DepSet
        if kind == 0:
            return D.parse(s, self.atom, attr="DEPEND", element_func=self.atom, transitive_use_atoms=True)
        if kind == 1:
            return D.parse(s, self.atom, element_func=self.atom)
        if kind == 2:
            return D.parse(s, str, operators={"||": b.OrRestriction, "": b.AndRestriction},
                           attr="LICENSE", element_func=sys.intern)
        if kind == 3:
            return D.parse(s, str, operators={}, attr="RESTRICT")
        if kind == 4:
            return D.parse(s, SrcElem, operators={}, attr="SRC_URI", element_func=SrcElem,
                           allow_src_uri_file_renames=True)
        ops = {"||": b.OrRestriction, "": b.AndRestriction, "^^": b.JustOneRestriction}
        if kind == 5:
            ops["??"] = b.AtMostOneOfRestriction
        else:
            def _invalid_op(msg, *args):
                raise ValueError(msg)
            ops["??"] = partial(_invalid_op, "no ?? in this EAPI")
        return D.parse(s, self.values.ContainmentMatch, operators=ops, element_func=self.mk_ru,
                       attr="REQUIRED_USE")

    def tree(self, nodes):
        out = []
        for n in nodes:
            if isinstance(n, self.packages.Conditional):
                vals = sorted(n.restriction.vals)
                out.append([2, bool(n.restriction.negate), vals[0] if len(vals) == 1 else "\x00".join(vals),
                            self.tree(n.payload)])
            elif isinstance(n, self.atom):
                out.append([0, str(n), None])
            elif isinstance(n, SrcElem):
                out.append([0, n.uri, n.rename])
            elif isinstance(n, self.boolean.base):
                out.append([1, self.opname.get(type(n), "<" + type(n).__name__ + ">"), self.tree(n.restrictions)])
            else:
                out.append([0, str(n), None])
        return out

    def leaf(self, tok):
        try:
            a = self.atom(tok)
        except Exception:  # noqa: BLE001
            return None
        s = str(a)
        return (s, s.split("[", 1)[0], list(a.use or ()))


# ----------------------------------------------------------------------------- generator
class Gen:
    def __init__(self, rng, kind, maxdepth):
        self.rng, self.kind, self.maxdepth = rng, kind, maxdepth
        self.recent = []
        self.ops = {0: ["||", "("], 1: ["||", "("], 2: ["||", "("], 3: [], 4: [],
                    5: ["||", "(", "^^", "??"], 6: ["||", "(", "^^", "??"]}[kind]

    def leaf(self):
        """a leaf; about a third of the time one that already occurs in this string (the same member
        again inside a counting group or under a conditional), for atoms also its weak/strong blocker twin"""
        out = self._leaf()
        if self.recent and self.rng.random() < 0.35:
            out = list(self.rng.choice(self.recent[-5:]))
            if self.kind in (0, 1) and out[0].startswith("!") and self.rng.random() < 0.6:
                out = [out[0][1:]] if out[0].startswith("!!") else ["!" + out[0]]
        self.recent.append(out)
        return out

    def _leaf(self):
        r, k = self.rng, self.kind
        if k in (0, 1):
            return [r.choice(ATOMS)]
        if k == 2:
            return [r.choice(LICENSES)]
        if k == 3:
            return [r.choice(RESTRICTS)]
        if k == 4:
            u = r.choice(URIS)
            return [u, "->", r.choice(["a2.tgz", "n.tar", "p"])] if r.random() < 0.4 else [u]
        return [r.choice(RU)]

    def items(self, depth, n=None):
        r = self.rng
        n = n if n is not None else r.choice([1, 1, 2, 2, 3])
        out = []
        for _ in range(n):
            p = r.random()
            if depth >= self.maxdepth or p < 0.5:
                out += self.leaf()
            elif p < 0.75 and (self.ops or r.random() < 0.3):
                op = r.choice(self.ops or ["("])
                out += (["("] if op == "(" else [op, "("]) + self.items(depth + 1) + [")"]
            else:
                f = r.choice(FLAGS)
                out += [("!" if r.random() < 0.35 else "") + f + "?", "("] + self.items(depth + 1) + [")"]
        return out


CORRUPT_TOKENS = ["(", ")", "||", "x?", "!y?", "->", "^^", "??", "|", "a|b", "?", "!?", "( )"]


def corrupt(rng, toks, kind):
    toks = list(toks)
    for _ in range(rng.choice([1, 1, 1, 2])):
        how = rng.choice(["drop", "dup", "insert", "insert", "badleaf"])
        pos = rng.randrange(len(toks) + 1)
        structural = [i for i, t in enumerate(toks) if t in ("(", ")", "||", "->", "^^", "??") or t.endswith("?")]
        if how == "drop" and toks:
            i = rng.choice(structural) if structural and rng.random() < 0.8 else rng.randrange(len(toks))
            del toks[i]
        elif how == "dup" and toks:
            i = rng.choice(structural) if structural and rng.random() < 0.8 else rng.randrange(len(toks))
            toks.insert(i, toks[i])
        elif how == "badleaf" and kind in (0, 1):
            toks.insert(pos, rng.choice(BAD_ATOMS))
        else:
            toks[pos:pos] = rng.choice(CORRUPT_TOKENS).split(" ")
    return toks


def render(rng, toks):
    """join with mostly single spaces, sometimes other whitespace runs / leading / trailing"""
    if rng.random() < 0.8:
        return " ".join(toks)
    seps = [" ", "  ", "\t", "\n", " \n "]
    s = "".join(t + rng.choice(seps) for t in toks)
    return rng.choice(["", " ", "\n"]) + s


# ----------------------------------------------------------------------------- independent oracles
def py_flagged(kind, toks):
    """unbalanced parentheses / dangling operator or conditional / empty group (kinds without renames)"""
    ops = {0: {"||"}, 1: {"||"}, 2: {"||"}, 3: set(), 4: set(), 5: {"||", "^^", "??"}, 6: {"||", "^^", "??"}}[kind]
    if kind == 4:
        # structural positions only: "uri -> name" counts as the element "uri"
        sk, i = [], 0
        while i < len(toks):
            t = toks[i]
            sk.append(t)
            plain = t not in ("(", ")") and not t.endswith("?") and "|" not in t
            i += 3 if (plain and i + 2 < len(toks) and toks[i + 1] == "->") else 1
        toks = sk
    depth = 0
    for i, t in enumerate(toks):
        if t == ")":
            depth -= 1
            if depth < 0:
                return "unmatched )"
            if i and toks[i - 1] == "(":
                return "empty group"
        elif t == "(":
            depth += 1
        elif t.endswith("?") or t in ops:
            if i + 1 >= len(toks) or toks[i + 1] != "(":
                return "dangling operator"
    return "unmatched (" if depth else None


class _Malformed(Exception):
    pass


class _NoReading(Exception):
    pass


def ref_read(kind, toks, leafinfo):
    """The reading of the TEXT itself, by recursive descent from PMS 8.2, independent of DepSet.parse and of
    the Coq model: `( .. )` is an all-of group in EVERY attribute kind, `|| ^^ ??` where the attribute has
    them, `flag? ( .. )` / `!flag? ( .. )` use-conditional groups, SRC_URI `uri -> name`; nothing is collapsed.
    Returns a canonical tree, None when this reader declines to judge (tokens outside the kind's grammar)."""
    ops = {0: {"||"}, 1: {"||"}, 2: {"||"}, 3: set(), 4: set(), 5: {"||", "^^", "??"}, 6: {"||", "^^"}}[kind]
    pos = 0

    def group(depth):
        nonlocal pos
        if pos >= len(toks) or toks[pos] != "(":
            raise _Malformed()
        pos += 1
        ch = items(depth + 1)
        if pos >= len(toks) or toks[pos] != ")" or not ch:
            raise _Malformed()
        pos += 1
        return ch

    def items(depth):
        nonlocal pos
        out = []
        while pos < len(toks):
            t = toks[pos]
            if t == ")":
                if depth == 0:
                    raise _Malformed()
                return out
            if t == "(":
                out.append([1, "", group(depth)])
            elif t in ops:
                pos += 1
                out.append([1, t, group(depth)])
            elif t in ("||", "^^", "??") and (kind >= 5 or t == "||") or ("|" in t and not t.endswith("?")):
                raise _NoReading()
            elif t.endswith("?"):
                pos += 1
                neg = t.startswith("!")
                out.append([2, neg, t[1:-1] if neg else t[:-1], group(depth)])
            else:
                pos += 1
                if kind == 4 and pos < len(toks) and toks[pos] == "->":
                    if pos + 1 >= len(toks):
                        raise _Malformed()
                    out.append([0, t, toks[pos + 1]])
                    pos += 2
                elif kind <= 1:
                    rec = leafinfo.get(t)
                    if rec is None:
                        raise _NoReading()
                    out.append([0, rec[0], None])
                else:
                    out.append([0, t, None])
        return out

    try:
        return items(0)
    except (_Malformed, _NoReading):
        return None


def use_variable(u):
    return u[-1] in "?="


def py_expand(s, base, uses, use):
    """PMS 8.3.4 read under `use`: the plain atom a[...] the use-dep atom stands for"""
    flags = [u for u in uses if not use_variable(u)]
    for u in uses:
        if not use_variable(u):
            continue
        neg = u[0] == "!"
        body = u[1:-1] if neg else u[:-1]
        raw = body[:-3] if body.endswith(")") else body
        on = raw in use
        if u[-1] == "?":
            if not neg and on:
                flags.append(body)
            elif neg and not on:
                flags.append("-" + body)
        else:
            flags.append(body if (on != neg) else "-" + body)
    flags = sorted(flags)
    return base + ("[" + ",".join(flags) + "]" if flags else "")


class Sem:
    """the reading of a canonical tree under a USE set (members / void), independent of Coq"""

    def __init__(self, use, sat_tokens, leafinfo):
        self.use, self.S, self.leafinfo = set(use), sat_tokens, leafinfo

    def void(self, n):
        if n[0] == 0:
            return False
        if n[0] == 1:
            return all(self.void(c) for c in n[2])
        return ((n[2] in self.use) == n[1]) or all(self.void(c) for c in n[3])

    def leaf_token(self, n):
        info = self.leafinfo.get(n[1])
        if info is None or not any(use_variable(u) for u in info[2]):
            return n[1]
        return py_expand(*info, self.use)

    def sat(self, n):
        if n[0] == 0:
            return self.leaf_token(n) in self.S
        if n[0] == 2:
            if (n[2] in self.use) == n[1]:
                return True
            return all(self.sat(c) for c in n[3] if not self.void(c))
        ms = [self.sat(c) for c in n[2] if not self.void(c)]
        k = n[1]
        if k == "||":
            return not ms or any(ms)
        if k == "^^":
            return not ms or ms.count(True) == 1
        if k == "??":
            return ms.count(True) <= 1
        return all(ms)

    def flat(self, n):
        if n[0] == 0:
            info = self.leafinfo.get(n[1])
            return info is None or not any(use_variable(u) for u in info[2])
        return n[0] == 1 and bool(n[2]) and all(self.flat(c) for c in n[2])

    def tokens(self, nodes, acc):
        for n in nodes:
            if n[0] == 0:
                acc.add(self.leaf_token(n))
            else:
                self.tokens(n[-1], acc)
        return acc


def has_ru_group(toks):
    return any(t in ("^^", "??") for t in toks)


# ----------------------------------------------------------------------------- Coq terms
class Pool:
    """coqc spends its time parsing numerals: every distinct token / leaf record is defined once in the
    preamble of the cases file and referred to by name"""

    def __init__(self):
        self.words, self.leaves, self.defs = {}, {}, []

    def word(self, w):
        if w == "":
            return "(@nil N)"
        if w not in self.words:
            self.words[w] = f"w{len(self.words)}"
            self.defs.append(f"Definition {self.words[w]} : str := {cstr(w)}.")
        return self.words[w]

    def text(self, s):
        import re
        parts = re.findall(r"\S+|\s+", s)
        if not parts:
            return "(@nil N)"
        if len(parts) == 1:
            return self.word(parts[0])
        return "(" + " ++ ".join(self.word(p) for p in parts) + ")"

    def leaf(self, rec):
        key = (rec[0], rec[1], tuple(rec[2]))
        if key not in self.leaves:
            self.leaves[key] = f"lf{len(self.leaves)}"
            body = "{| lstr := %s; lbase := %s; luse := %s; lren := None |}" % (
                self.word(rec[0]), self.word(rec[1]), clist([self.word(u) for u in rec[2]], "str"))
            self.defs.append(f"Definition {self.leaves[key]} : leaf := {body}.")
        return self.leaves[key]

    def val(self, x):
        if isinstance(x, Err):
            return f"(VErr {cstr(x.kind)})"
        if x is None:
            return "VNone"
        if isinstance(x, bool):
            return f"(VB {cbool(x)})"
        if isinstance(x, int):
            return f"(VZ {x}%Z)"
        if isinstance(x, str):
            return f"(VS {self.text(x)})"
        return "(VL " + clist([self.val(i) for i in x], "val") + ")"

    def input(self, kind, s, table, use):
        return cpair(cN(kind), self.text(s),
                     clist([cpair(self.word(k), self.leaf(v)) for k, v in table], "str * leaf"),
                     clist([self.word(f) for f in use], "str"))

    def preamble(self):
        return "\n".join(self.defs)


# ----------------------------------------------------------------------------- main
def main(chk: Check):
    impl = Impl()
    rng = chk.rng
    pool = Pool()
    chk.rule("grammar-generated strings for 7 attribute kinds (DEPEND with/without transitive use atoms, "
             "LICENSE, RESTRICT, SRC_URI with -> renames, REQUIRED_USE for EAPI>=5 and EAPI 4), nesting <= 4, "
             "18 atoms incl. use-dep atoms, 4 flags; a separate stream of token-level corruptions "
             "(drop/duplicate/insert of ( ) || ^^ ?? x? -> | and malformed atoms); evaluation against every "
             "subset of the referenced flags; non-trivial = the string has a group or conditional or a "
             "use-dep atom, or is a rejected corruption of one")
    ok = chk.build(["C09/Prop_C09.vo"])
    if ok:
        chk.check_assumptions("C09/Prop_C09.v")
    chk.lint(["C09"])
    chk.check_fingerprint(ANCHORS)

    # ---- leaf premises (external element parser)
    leafinfo = {}
    for k in ATOMS + BAD_ATOMS:
        rec = impl.leaf(k)
        if rec is None:
            if k in ATOMS:
                chk.violation("property", {"what": "pool atom no longer parses", "input": k})
            continue
        leafinfo[k] = rec
        rec2 = impl.leaf(rec[0])
        leafinfo[rec[0]] = rec2 if rec2 is not None else rec
        a = impl.atom(k)
        if rec2 != rec or impl.atom(str(a)) != a:
            chk.violation("property", {"what": "atom(str(atom(k))) != atom(k): the leaf round-trip premise fails",
                                       "input": k})
        for u in rec[2]:
            if use_variable(u) and use_variable(u.lstrip("!")[:-1] or "x"):
                chk.violation("property", {"what": "variable use dep names a variable flag", "input": k})
    chk.count("leaf", len(ATOMS) + len(BAD_ATOMS))

    # ---- generate strings
    n_valid, n_bad = chk.n(260, 2000), chk.n(150, 1000)
    maxdepth = 4
    strings = []  # (kind, toks, s, origin)
    kinds_cycle = [0, 0, 0, 5, 5, 2, 4, 3, 1, 6]
    from .common import VERIF
    import json
    for p in sorted((VERIF / "corpus" / "C09").glob("*.json")):
        try:
            c = json.loads(p.read_text())
            strings.append((int(c["kind"]), c["s"].split(), c["s"], "corpus"))
        except Exception:  # noqa: BLE001
            pass
    fixed = [(5, "^^ ( a b )"), (5, "?? ( a b )"), (5, "?? ( a )"), (5, "?? ( a x? ( b ) )"), (6, "?? ( a )"),
             (6, "?? ( a b )"), (5, "x? ( ^^ ( a b !d ) )"), (0, "|| ( || ( x? ( a/b ) ) c/d )"),
             (0, "|| ( x? ( y? ( a/b ) ) c/d )"), (0, "a/b[x?]"), (1, "a/b[x?]"), (1, "a/b[x?] y? ( c/d )"),
             (3, "( mirror )"), (3, "|| ( mirror test )"), (3, "mirror ( test fetch ) strip"),
             (3, "x? ( ( test fetch ) strip )"), (4, "http://h/a.tgz ( c.patch mirror://m/b.tar -> n.tar )"),
             (4, "!y? ( ( c.patch ) )"), (3, "? ( test )"), (3, "!? ( test )"), (0, "( a/b c/d ) !x? ( ( a/b ) )"),
             (2, "MIT ( BSD GPL-2 )"), (4, "http://h/a.tgz -> a b"), (4, "-> -> a"),
             (4, "a ->"), (4, "a -> )"), (0, ""), (0, "( )"), (0, "x? ( )"), (0, ")"), (0, "( a/b"),
             (2, "|| ( MIT )"), (2, "|| ( ( MIT BSD ) GPL-2 )"), (0, "( ( a/b c/d ) ( a/b ( c/d a/b:2 ) ) )"),
             (5, "|| ( a ^^ ( b c ) ?? ( x !y ) )"), (0, "!x? ( a/b[!x?] )"), (0, "?? ( a/b )"), (0, "a/b |"),
             (5, "?? ( c a x? ( a ) )"), (5, "^^ ( a x? ( a ) )"), (5, "^^ ( a !y? ( a b ) x? ( b ) )"),
             (5, "?? ( a || ( a b ) x? ( b ) )"), (5, "x? ( a ) a ?? ( a x? ( y? ( a ) ) )"),
             (0, "!g/h x? ( !!g/h )"), (0, "!!g/h ( !g/h a/b ) y? ( !g/h )"), (0, "a/b[x?] x? ( a/b[x] )"),
             (0, "|| ( a/b x? ( a/b c/d ) )"), (2, "|| ( MIT x? ( MIT ) ( MIT BSD ) )"),
             (5, "^^ ( a x? ( b c ) )"), (5, "?? ( x? ( a ) y? ( b ) c )"), (0, "a/b ||"), (0, "x?"), (0, "!? ( a/b )")]
    for k, s in fixed:
        strings.append((k, s.split(), s, "fixed"))
    for i in range(n_valid):
        kind = kinds_cycle[i % len(kinds_cycle)]
        g = Gen(rng, kind, rng.choice([1, 2, 3, maxdepth]))
        toks = g.items(0, rng.choice([1, 2, 3, 4]))
        strings.append((kind, toks, render(rng, toks), "valid"))
    valid_pool = [x for x in strings if x[3] == "valid"]
    for i in range(n_bad):
        kind, toks, _, _ = rng.choice(valid_pool)
        t2 = corrupt(rng, toks, kind)
        strings.append((kind, t2, render(rng, t2), "corrupt"))

    # ---- parse stream
    parse_cases, parse_meta, eval_cases, eval_meta = [], [], [], []
    prop_fail = []  # (class, detail)
    eval_budget = chk.n(600, 7000)
    premise_unmet = 0
    n_ref = 0
    parse_meaning_bad = set()
    for kind, toks, s, origin in strings:
        def do_parse():
            d = impl.parse(kind, s)
            return d, [bool(d.has_conditionals), impl.tree(d.restrictions), str(d)]
        r = impl_call(do_parse, kinds=KINDS)
        if isinstance(r, Err):
            d, res = None, r
        else:
            d, res = r
        table = []
        if kind <= 1:
            seen = set()
            for t in s.split():
                rec = leafinfo.get(t) if t in leafinfo else impl.leaf(t)
                if rec is not None and t not in seen:
                    seen.add(t)
                    table.append((t, rec))
                    if rec[0] not in seen:
                        seen.add(rec[0])
                        table.append((rec[0], leafinfo.get(rec[0]) or impl.leaf(rec[0]) or rec))
                    leafinfo.setdefault(t, rec)
        parse_cases.append((pool.input(kind, s, table, ()), res))
        parse_meta.append((kind, s, origin))
        stoks = s.split()
        interesting = any(t in ("(", ")", "||", "^^", "??", "->") or t.endswith("?") or "[" in t for t in stoks)
        if interesting:
            chk.nontrivial((kind, " ".join(stoks)))
        # (B) rejection oracle
        if True:
            why = py_flagged(kind, stoks)
            if why and d is not None:
                prop_fail.append(("accepted-malformed", {"what": f"{why}, yet the string is accepted",
                                                         "kind": KIND_NAMES[kind], "input": s, "parsed": res}))
        if d is None:
            continue
        # (B) round trip directly on the implementation
        s2 = res[2]
        r2 = impl_call(lambda: impl.parse(kind, s2), kinds=KINDS)
        if (isinstance(r2, Err) or impl.tree(r2.restrictions) != res[1]
                or tuple(r2.restrictions) != tuple(d.restrictions)):
            prop_fail.append(("roundtrip", {"what": "str(parse(s)) does not parse back to an equal structure",
                                            "kind": KIND_NAMES[kind], "input": s, "rendered": s2,
                                            "reparsed": repr(r2) if isinstance(r2, Err) else impl.tree(r2.restrictions),
                                            "tokens": stoks}))
        elif not (r2 == d):
            prop_fail.append(("depset-eq", {"what": "parse(str(d)) has the same nodes in the same order as d, yet "
                                                    "DepSet.__eq__ says they differ",
                                            "kind": KIND_NAMES[kind], "input": s, "rendered": s2, "tokens": stoks,
                                            "noncanonical_atoms": [t for t in stoks if t in leafinfo
                                                                   and leafinfo[t][0] != t]}))
        # ---- eval stream
        if len(eval_cases) >= eval_budget:
            continue
        flags = sorted({t.lstrip("!")[:-1] for t in stoks if t.endswith("?") and not (kind >= 5 and t == "??")} |
                       {f for t in stoks if "[" in t for f in FLAGS if f in t.split("[", 1)[1]})
        flags = flags[:4]
        subsets = [c for n in range(len(flags) + 1) for c in itertools.combinations(flags, n)]
        if origin != "fixed" and len(subsets) > 4 and not chk.thorough:
            subsets = [subsets[0], subsets[-1]] + rng.sample(subsets[1:-1], 4)
        ref = ref_read(kind, stoks, leafinfo)
        if ref is not None:
            n_ref += 1
        for use in subsets:
            def do_eval():
                e = d.evaluate_depset(use)
                return [impl.tree(e.restrictions), str(e)]
            er = impl_call(do_eval, kinds=KINDS)
            eval_cases.append((pool.input(kind, s, table, use), er))
            eval_meta.append((kind, s, use))
            if isinstance(er, Err):
                prop_fail.append(("eval-raises", {"what": f"evaluate_depset raised {er.kind}", "kind": KIND_NAMES[kind],
                                                  "input": s, "use": list(use)}))
                continue
            # (B) meaning, directly on the implementation's two trees
            sem0 = Sem(use, set(), leafinfo)
            # (B) the parsed structure means what the TEXT means (independent reader of the string)
            if ref is not None and (kind, s) not in parse_meaning_bad:
                runiv = sorted(sem0.tokens(res[1], set()) | sem0.tokens(ref, set()))
                if len(runiv) <= 6:
                    rsets = [set(c) for n in range(len(runiv) + 1) for c in itertools.combinations(runiv, n)]
                else:
                    rsets = [set(), set(runiv)] + [set(t for t in runiv if rng.random() < 0.5) for _ in range(40)]
                for S in rsets:
                    a = all(Sem(use, S, leafinfo).sat(n) for n in res[1])
                    b = all(Sem(use, S, leafinfo).sat(n) for n in ref)
                    if a != b:
                        parse_meaning_bad.add((kind, s))
                        prop_fail.append(("parse-meaning", {
                            "what": "the structure DepSet.parse built does not mean what the text means (PMS reading of "
                                    "the string: ( .. ) all-of, || any-of, flag? ( .. ) conditional)",
                            "kind": KIND_NAMES[kind], "input": s, "use": list(use), "token_set": sorted(S),
                            "text_satisfied": b, "parsed_satisfied": a, "parsed": res[1], "rendered": res[2],
                            "origin": origin}))
                        break
            if not res[0] and not all(sem0.flat(n) for n in res[1]):
                # parsed without transitive_use_atoms: use-dep atoms are left alone by design
                # (premise of evaluate_preserves_meaning: tua, or no use-dep atom that depends on a flag)
                premise_unmet += 1
                continue
            univ = sorted(sem0.tokens(res[1], set()) | sem0.tokens(er[0], set()))
            if len(univ) <= 6:
                tsets = [set(c) for n in range(len(univ) + 1) for c in itertools.combinations(univ, n)]
            else:
                tsets = [set(), set(univ)] + [set(t for t in univ if rng.random() < 0.5) for _ in range(40)]
            needs_flat = res[0]
            bad = None
            if needs_flat and not all(sem0.flat(n) for n in er[0]):
                bad = {"what": "evaluate_depset result is not conditional-free"}
            else:
                for S in tsets:
                    a = all(Sem(use, S, leafinfo).sat(n) for n in res[1])
                    b = all(Sem((), S, leafinfo).sat(n) for n in er[0])
                    if a != b:
                        bad = {"what": "evaluated structure and original (read under the flags) are satisfied by "
                                       "different token sets", "token_set": sorted(S), "original_satisfied": a,
                               "evaluated_satisfied": b}
                        break
            if bad:
                bad.update({"kind": KIND_NAMES[kind], "input": s, "use": list(use), "evaluated": er[1],
                            "origin": origin})
                prop_fail.append(("eval-meaning", bad))
    chk.count("parse", len(parse_cases))
    chk.cov["eval_premise_unmet"] = premise_unmet
    chk.cov["strings_judged_against_text_reading"] = n_ref
    chk.count("eval", len(eval_cases))
    hist = {}
    for (kind, s, origin), (_, res) in zip(parse_meta, parse_cases):
        key = f"{KIND_NAMES[kind]}/{origin}/{'rejected' if isinstance(res, Err) else 'accepted'}"
        hist[key] = hist.get(key, 0) + 1
    chk.cov["distribution"] = dict(sorted(hist.items()))
    for i in (len(fixed) + 3, len(fixed) + 17, len(strings) - 5):
        if 0 <= i < len(parse_cases):
            chk.sample({"stream": "parse", "kind": KIND_NAMES[parse_meta[i][0]], "input": parse_meta[i][1],
                        "impl": parse_cases[i][1]})
    for i in (7, len(eval_cases) // 2):
        if i < len(eval_cases):
            chk.sample({"stream": "eval", "kind": KIND_NAMES[eval_meta[i][0]], "input": eval_meta[i][1],
                        "use": list(eval_meta[i][2]), "impl": eval_cases[i][1]})

    import time as _t
    chk.note(f"generation+implementation+python oracles: {_t.time() - chk.t0:.1f}s")
    # ---- evaluate model and spec inside Coq
    a_bad = []
    spec_bad = []
    if ok:
        r = chk.coq_eval("parse", IMPORTS, "input", [(i, Raw(pool.val(v))) for i, v in parse_cases],
                         ["mismatches run_parse cases", "where_ (fun i r => negb (spec_rt_ok i r)) cases",
                          "where_ (fun i r => negb (spec_shape_ok i r)) cases"],
                         shard=1500, preamble=pool.preamble())
        if r is not None:
            a_bad += [("parse", parse_meta[i], parse_cases[i][1]) for i in r[0]]
            for i in r[1]:
                kind, s, _ = parse_meta[i]
                spec_bad.append(("roundtrip", {"what": "Spec_C09.spec_rt_ok: the implementation's str(parse(s)) does "
                                                       "not parse back to the same tree",
                                               "kind": KIND_NAMES[kind], "input": s, "implementation": parse_cases[i][1],
                                               "tokens": s.split()}))
            for i in r[2]:
                kind, s, _ = parse_meta[i]
                spec_bad.append(("accepted-malformed", {"what": "Spec_C09.spec_shape_ok: an accepted string has unbalanced "
                                                                "parentheses, a dangling operator/conditional or an empty "
                                                                "group on its structural positions",
                                                        "kind": KIND_NAMES[kind], "input": s,
                                                        "implementation": parse_cases[i][1]}))
        r = chk.coq_eval("eval", IMPORTS, "input", [(i, Raw(pool.val(v))) for i, v in eval_cases],
                         ["mismatches run_eval cases", "where_ (fun i r => negb (spec_eval_ok i r)) cases"],
                         shard=1500, preamble=pool.preamble())
        if r is not None:
            a_bad += [("eval", eval_meta[i], eval_cases[i][1]) for i in r[0]]
            for i in r[1]:
                kind, s, use = eval_meta[i]
                spec_bad.append(("eval-meaning", {"what": "Spec_C09.spec_eval_ok rejects the implementation's "
                                                          "evaluate_depset result",
                                                  "kind": KIND_NAMES[kind], "input": s, "use": list(use),
                                                  "implementation": eval_cases[i][1]}))

    # ---- report property failures (B): classify, shrink a little
    seen_py = {(c, d.get("input"), tuple(d.get("use", ()))) for c, d in prop_fail}
    for c, d in spec_bad:
        if (c, d.get("input"), tuple(d.get("use", ()))) not in seen_py:
            prop_fail.append((c, d))
    reported = 0
    for cls, detail in prop_fail:
        kf = classify_known(cls, detail)
        if kf and chk.known_finding(kf, detail):
            continue
        if reported < 6:
            chk.violation("property", detail)
        reported += 1
    if reported:
        by_origin = {}
        for cls, detail in prop_fail:
            k = f"{cls}/{detail.get('origin', '-')}"
            by_origin[k] = by_origin.get(k, 0) + 1
        chk.note(f"{reported} property failures in total: {by_origin}")
    for stream, meta, res in a_bad[:4]:
        chk.violation("correspondence",
                      {"what": f"implementation and Model_C09 disagree on stream '{stream}' "
                               "(the theorems of Prop_C09 no longer speak about this code)",
                       "kind": KIND_NAMES[meta[0]], "input": meta[1], "use": list(meta[2]) if stream == "eval" else None,
                       "implementation": res},
                      no_input=not reported)


def is_depset_eq_atom_hash(detail):
    """DepSet.__eq__ compares set(restrictions); atom.__hash__ hashes the ORIGINAL text (finding of C02), so a
    DepSet holding an atom whose text is not its canonical str() is unequal to its own re-parse"""
    return bool(detail.get("noncanonical_atoms"))


def classify_known(cls, detail):
    """membership predicates of the classes in known_findings/C09.json (none are listed once the
    two repairs in fixes/ are applied)"""
    if cls == "depset-eq" and is_depset_eq_atom_hash(detail):
        return "depset-eq-atom-hash"
    if cls == "roundtrip" and is_required_use_group_render(detail):
        return "required-use-render"
    if cls == "eval-meaning" and is_at_most_one_single(detail):
        return "at-most-one-single-member"
    return None


def is_required_use_group_render(detail):
    """REQUIRED_USE string containing ^^ or ?? whose rendering contains exactly-one-of / at-most-one-of"""
    return (detail.get("kind", "").startswith("REQUIRED_USE") and has_ru_group(detail.get("tokens", detail.get("input", "").split()))
            and ("-one-of" in str(detail.get("rendered", detail.get("implementation", "")))))


def is_at_most_one_single(detail):
    return detail.get("kind", "").startswith("REQUIRED_USE") and "??" in detail.get("input", "").split()


def replay(chk, data):
    impl = Impl()
    d = data.get("detail", {})
    s, kindname = d.get("input"), d.get("kind")
    kind = {v: k for k, v in KIND_NAMES.items()}.get(kindname, 0)
    if not isinstance(s, str):
        print("no input recorded")
        return
    r = impl_call(lambda: impl.parse(kind, s), kinds=KINDS)
    if isinstance(r, Err):
        print("implementation: parse ->", r)
        return
    print("implementation: parse ->", impl.tree(r.restrictions), "| str:", repr(str(r)))
    r2 = impl_call(lambda: impl.parse(kind, str(r)), kinds=KINDS)
    print("implementation: parse(str(.)) ->", r2 if isinstance(r2, Err) else impl.tree(r2.restrictions))
    if d.get("use") is not None:
        e = r.evaluate_depset(tuple(d["use"]))
        print("implementation: evaluate_depset(%r) ->" % (d["use"],), impl.tree(e.restrictions), "| str:", repr(str(e)))
    print("model/spec: re-run `./check C09` (the model is evaluated inside Coq on generated case files)")
