"""C33 — install helpers create exactly the requested image entries (DESIGN §6 C33).

Streams
  path    posixpath functions (normpath, dirname, basename, splitext, join, relpath,
          get_relative_dosym_target) on random strings            impl vs C33/Path.v          (A)
  dosymr  random absolute (target, link name) pairs incl. '..', '//', trailing '/':
          get_relative_dosym_target + lexical resolution          impl vs Model (A), Spec (B),
          + the real Dosym -r in a scratch image, link resolved by os.path.realpath (B, python)
  gate    (helper, EAPI): banned wrapper on the EAPI's helper PATH, option gates
                                                                   impl vs Tables/Model (A), PMS (B)
  wrap    the bash wrapper's OPTIONS (--dest/--insoptions/--diroptions), expanded by real bash
                                                                   impl vs Model.wrapper_opts (A)
  insopts random install option strings (-m incl. set-id/sticky, -o/-g/--owner/--group, -p, and
          spellings that fall back to install(1)) through _parse_install_options
                                                                   impl vs Model.install_full (A)
  helper  random source trees + helper invocations through the real IPC classes (all helpers
          instantiated in the ebd's order, fake op / fake ebd, image in a scratch dir):
          image snapshot (paths, types, modes, content ids, link counts, symlink targets)
                                                                   impl vs Model.run_helper (A)
                                                                   impl vs Spec.spec_helper_ok (B)
"""

import ast
import logging
import os
import re
import shutil
import stat
import subprocess
import sys

from . import tables
from .common import REPO, SRC, Check, Err, cN, cbool, clist, cpair, cstr, impl_call
from .tables import TableError

# ================================================================== source-derived tables
# Source-derived tables of C33 (DESIGN §3.1), fail closed.
# 
#   * ebuild/eapi.py: per-EAPI option gates the install helpers consult (dodoc_allow_recursive,
#     doman_language_detect, doman_language_override, dosym_relative, has_desttree,
#     unpack_case_insensitive) and the per-EAPI archive extension sets, resolved by `ast` through
#     the `_combine_dicts(eapiN.options, {...})` / `eapiN.archive_exts | frozenset([...])` chain.
#   * data/lib/pkgcore/ebd/helpers/0/src_install/<helper>: the OPTIONS=( ... ) templates of the
#     bash wrappers (where --dest / --insoptions / --diroptions come from) as token lists.
#   * helpers/<N>/src_install/<helper>: which helpers are replaced by the `banned` script from
#     which EAPI on.
GATES = ("dodoc_allow_recursive", "doman_language_detect", "doman_language_override",
         "dosym_relative", "has_desttree", "unpack_case_insensitive")
HELPERS_DIR = REPO / "data" / "lib" / "pkgcore" / "ebd" / "helpers"
WRAPPED = ("doins", "dodoc", "doexe", "dobin", "dosbin", "dolib", "dolib.so", "dolib.a", "doman", "domo",
           "dohtml", "doinfo", "dodir", "keepdir", "dosym", "dohard")

DOLIB_BLOCK = ('if [[ ${HELPER_NAME} == "dolib.so" ]]; then\n\tLIBOPTIONS="-m0755"\n'
               'elif [[ ${HELPER_NAME} == "dolib.a" ]]; then\n\tLIBOPTIONS="-m0644"\nfi\n')
DOINS_BLOCK = ('if [[ -n ${PKGCORE_INSDESTTREE} && -z ${PKGCORE_INSDESTTREE%${ED}*} ]]; then\n'
               '\t__helper_exit 2 "do not give \\${D} or \\${ED} as part of the path arguments to doins"\nfi\n')


# ------------------------------------------------------------------ eapi.py
def _const_bool(node, what):
    if isinstance(node, ast.Constant) and isinstance(node.value, bool):
        return node.value
    raise TableError(f"{what}: expected a True/False constant")


def _dict_gates(node, what, require_all):
    if not isinstance(node, ast.Dict):
        raise TableError(f"{what}: expected a dict literal")
    out = {}
    for k, v in zip(node.keys, node.values):
        if not (isinstance(k, ast.Constant) and isinstance(k.value, str)):
            raise TableError(f"{what}: non-literal key")
        if k.value in GATES:
            if k.value in out:
                raise TableError(f"{what}: duplicate key {k.value}")
            out[k.value] = _const_bool(v, f"{what}[{k.value}]")
    if require_all and set(out) != set(GATES):
        raise TableError(f"{what}: missing gates {sorted(set(GATES) - set(out))}")
    return out


def _str_seq(node, what):
    v = tables.literal(node)
    if not (isinstance(v, (tuple, list, frozenset, set)) and all(isinstance(x, str) for x in v)):
        raise TableError(f"{what}: expected a sequence of strings")
    return set(v)


def eapi_rows():
    tree = tables.parse("ebuild/eapi.py")
    # the defaults: eapi_optionals = ImmutableDict({...})
    call = tables.find_assign(tree, "eapi_optionals")
    if not (isinstance(call, ast.Call) and isinstance(call.func, ast.Name) and call.func.id == "ImmutableDict"
            and len(call.args) == 1):
        raise TableError("eapi_optionals: expected ImmutableDict({...})")
    defaults = _dict_gates(call.args[0], "eapi_optionals", True)
    common_exts = _str_seq(tables.find_assign(tree, "common_archive_exts"), "common_archive_exts")
    # _combine_dicts must be the plain later-wins merge
    cd = tables.find_func(tree, "_combine_dicts")
    want = ast.parse("def _combine_dicts(*mappings):\n    return {k: v for d in mappings for k, v in d.items()}").body[0]
    if ast.dump(cd) != ast.dump(want):
        raise TableError("_combine_dicts is no longer the later-wins merge")

    rows = {}   # var name -> dict(magic, parent, gates, exts)

    def exts_of(node, what):
        if isinstance(node, ast.Name) and node.id == "common_archive_exts":
            return set(common_exts)
        if (isinstance(node, ast.Attribute) and node.attr == "archive_exts" and isinstance(node.value, ast.Name)
                and node.value.id in rows):
            return set(rows[node.value.id]["exts"])
        if isinstance(node, ast.BinOp) and isinstance(node.op, (ast.BitOr, ast.Sub)):
            left = exts_of(node.left, what)
            right = _str_seq(node.right, what)
            return left | right if isinstance(node.op, ast.BitOr) else left - right
        raise TableError(f"{what}: unrecognised archive_exts expression")

    def gates_of(node, what):
        if isinstance(node, ast.Name) and node.id == "eapi_optionals":
            return dict(defaults)
        if (isinstance(node, ast.Call) and isinstance(node.func, ast.Name) and node.func.id == "_combine_dicts"
                and len(node.args) == 2 and not node.keywords):
            base, upd = node.args
            if not (isinstance(base, ast.Attribute) and base.attr == "options" and isinstance(base.value, ast.Name)
                    and base.value.id in rows):
                raise TableError(f"{what}: unrecognised base of _combine_dicts")
            g = dict(rows[base.value.id]["gates"])
            g.update(_dict_gates(upd, what, False))
            return g
        raise TableError(f"{what}: unrecognised optionals expression")

    for n in tree.body:
        if not (isinstance(n, ast.Assign) and len(n.targets) == 1 and isinstance(n.targets[0], ast.Name)
                and isinstance(n.value, ast.Call) and isinstance(n.value.func, ast.Attribute)
                and n.value.func.attr == "register" and isinstance(n.value.func.value, ast.Name)
                and n.value.func.value.id == "EAPI"):
            continue
        var = n.targets[0].id
        kw = {k.arg: k.value for k in n.value.keywords}
        if n.value.args or not {"magic", "parent", "archive_exts", "optionals"} <= set(kw):
            raise TableError(f"{var}: unexpected EAPI.register() call shape")
        magic = tables.literal(kw["magic"])
        if not (isinstance(magic, str) and magic.isdigit()):
            continue   # only the numbered PMS EAPIs are tabulated
        p = kw["parent"]
        if isinstance(p, ast.Constant) and p.value is None:
            parent = None
        elif isinstance(p, ast.Name) and p.id in rows:
            parent = rows[p.id]["magic"]
        else:
            raise TableError(f"{var}: unrecognised parent")
        rows[var] = {"magic": magic, "parent": parent, "gates": gates_of(kw["optionals"], var + ".optionals"),
                     "exts": exts_of(kw["archive_exts"], var + ".archive_exts")}
    if not rows:
        raise TableError("no EAPI.register() calls found")
    return list(rows.values())


# ------------------------------------------------------------------ bash wrappers
def _tokens(text, what):
    """template text -> tokens; accepts literal text, ${NAME}, ${NAME:-default}, $(__get_libdir lib)."""
    out, i = [], 0
    while i < len(text):
        m = re.compile(r"\$\{([A-Z_]+)\}").match(text, i)
        if m:
            out.append(("var", m.group(1)))
            i = m.end()
            continue
        m = re.compile(r"\$\{([A-Z_]+):-([A-Za-z0-9_./-]*)\}").match(text, i)
        if m:
            out.append(("vardef", m.group(1), m.group(2)))
            i = m.end()
            continue
        m = re.compile(r"\$\(__get_libdir lib\)").match(text, i)
        if m:
            out.append(("libdir",))
            i = m.end()
            continue
        m = re.compile(r"[A-Za-z0-9_./-]+").match(text, i)
        if m:
            out.append(("lit", m.group(0)))
            i = m.end()
            continue
        raise TableError(f"{what}: unrecognised template text at {text[i:i + 20]!r}")
    return out


def _options_array(body, what):
    """the elements of OPTIONS=( ... ) -> [(option name, tokens)]"""
    elems = re.findall(r'"((?:[^"\\]|\\.)*)"', body)
    if re.sub(r'"((?:[^"\\]|\\.)*)"', "", body).strip():
        raise TableError(f"{what}: unquoted material in OPTIONS")
    out = []
    for e in elems:
        m = re.fullmatch(r'--(dest|insoptions|diroptions)=(?:\\"(.*)\\"|([^"\\]*))', e)
        if not m:
            raise TableError(f"{what}: unrecognised OPTIONS element {e!r}")
        out.append((m.group(1), _tokens(m.group(2) if m.group(2) is not None else m.group(3), what)))
    return out


def wrapper(name):
    """-> list of alternatives (guard variable or None, [(option, tokens)]) of helpers/0/src_install/<name>"""
    p = HELPERS_DIR / "0" / "src_install" / name
    try:
        text = p.read_text()
    except OSError as e:
        raise TableError(f"cannot read {p}: {e}") from e
    what = f"helpers/0/src_install/{name}"
    if not text.startswith("#!/usr/bin/env pkgcore-ipc-helper\n"):
        raise TableError(f"{what}: not an ipc helper wrapper")
    rest = text.split("\n", 1)[1]
    if name.startswith("dolib"):
        if DOLIB_BLOCK not in rest:
            raise TableError(f"{what}: LIBOPTIONS block changed")
        rest = rest.replace(DOLIB_BLOCK, "")
    if name == "doins":
        if DOINS_BLOCK not in rest:
            raise TableError(f"{what}: ED check block changed")
        rest = rest.replace(DOINS_BLOCK, "")
    rest = rest.strip()
    if not rest:
        return [(None, [])]
    m = re.fullmatch(r"OPTIONS=\((.*)\)", rest, flags=re.S)
    if m:
        return [(None, _options_array(m.group(1), what))]
    m = re.fullmatch(r"if \$\{([A-Z_]+)\}; then\n\tOPTIONS=\((.*)\)\nelse\n\tOPTIONS=\((.*)\)\nfi", rest, flags=re.S)
    if m:
        return [(m.group(1), _options_array(m.group(2), what)), (None, _options_array(m.group(3), what))]
    raise TableError(f"{what}: unrecognised wrapper body")


def banned():
    """[(helper, eapi number)] for every helpers/<N>/src_install/<helper> that is the `banned` script"""
    ref = (HELPERS_DIR / "internals" / "banned").read_text()
    out = []
    for d in sorted(HELPERS_DIR.iterdir()):
        if not d.name.isdigit() or not (d / "src_install").is_dir():
            continue
        for f in sorted((d / "src_install").iterdir()):
            if f.name in WRAPPED and f.read_text() == ref:
                out.append((f.name, int(d.name)))
    return out


# ------------------------------------------------------------------ rendering
def _ctok(t):
    if t[0] == "lit":
        return f"TLit {cstr(t[1])}"
    if t[0] == "var":
        return f"TVar {cstr(t[1])}"
    if t[0] == "vardef":
        return f"TVarDefault {cstr(t[1])} {cstr(t[2])}"
    return "TLibdir"


def _gen_tables_impl():
    rows = eapi_rows()
    txt = tables.header("ebuild/eapi.py (option gates, archive_exts) and data/lib/pkgcore/ebd/helpers/*/src_install/*")
    txt += """
Inductive tok := TLit (s : str) | TVar (name : str) | TVarDefault (name : str) (d : str) | TLibdir.
Record eapi_row := { g_parent : option str; g_dodoc_r : bool; g_doman_detect : bool; g_doman_override : bool;
                     g_dosym_rel : bool; g_has_desttree : bool; g_case_insens : bool; g_archive_exts : list str }.
"""
    ents = []
    for r in rows:
        g = r["gates"]
        ents.append("(%s, {| g_parent := %s; g_dodoc_r := %s; g_doman_detect := %s; g_doman_override := %s;\n"
                    "      g_dosym_rel := %s; g_has_desttree := %s; g_case_insens := %s;\n      g_archive_exts := %s |})"
                    % (cstr(r["magic"]), "None" if r["parent"] is None else f"Some {cstr(r['parent'])}",
                       cbool(g["dodoc_allow_recursive"]), cbool(g["doman_language_detect"]),
                       cbool(g["doman_language_override"]), cbool(g["dosym_relative"]), cbool(g["has_desttree"]),
                       cbool(g["unpack_case_insensitive"]),
                       clist([cstr(x) for x in sorted(r["exts"])], "str")))
    txt += "\n(* eapi.py: EAPI.register(...) calls, in source order *)\n"
    txt += "Definition eapi_table : list (str * eapi_row) :=\n  %s.\n" % clist(ents, "str * eapi_row").replace("; (", ";\n   (")
    went = []
    for name in WRAPPED:
        alts = wrapper(name)
        went.append("(%s, %s)" % (cstr(name), clist(
            ["(%s, %s)" % ("None" if g is None else f"Some {cstr(g)}",
                           clist(["(%s, %s)" % (cstr(o), clist([_ctok(t) for t in toks], "tok")) for o, toks in opts],
                                 "str * list tok"))
             for g, opts in alts], "option str * list (str * list tok)")))
    txt += "\n(* the OPTIONS=( ... ) of each bash wrapper: alternatives (guard variable, [(option, template)]) *)\n"
    txt += "Definition wrapper_table : list (str * list (option str * list (str * list tok))) :=\n  %s.\n" % clist(
        went, "str * list (option str * list (str * list tok))").replace("; (", ";\n   (")
    txt += "\n(* helpers/<N>/src_install/<helper> that are the `banned` script *)\n"
    txt += "Definition banned_table : list (str * N) :=\n  %s.\n" % clist(
        ["(%s, %d%%N)" % (cstr(h), n) for h, n in banned()], "str * N")
    return {"Tables_C33.v": txt}

c33_tables = sys.modules[__name__]

# ================================================================== the check
IMPORTS = ("From Coq Require Import List NArith ZArith Bool.\n"
           "From Verif Require Import Base.Val C33.Path gen.Tables_C33 C33.Model_C33 C33.Spec_C33.")
ANCHORS = ["ebuild/ebd_ipc.py::IpcCommand", "ebuild/ebd_ipc.py::_InstallWrapper", "ebuild/ebd_ipc.py::Doins",
           "ebuild/ebd_ipc.py::Dodoc", "ebuild/ebd_ipc.py::Dodir", "ebuild/ebd_ipc.py::Keepdir",
           "ebuild/ebd_ipc.py::Dobin", "ebuild/ebd_ipc.py::_Symlink", "ebuild/ebd_ipc.py::Dosym",
           "ebuild/ebd_ipc.py::Dohard", "ebuild/ebd_ipc.py::Doman", "ebuild/ebd_ipc.py::Domo",
           "ebuild/ebd_ipc.py::Dohtml", "ebuild/misc.py::get_relative_dosym_target", "ebuild/eapi.py"]
HELPERS = c33_tables.WRAPPED
EAPIS = [str(i) for i in range(9)]
CLASS_OF = {"doins": "Doins", "dodoc": "Dodoc", "dohtml": "Dohtml", "doinfo": "Doinfo", "dodir": "Dodir",
            "doexe": "Doexe", "dobin": "Dobin", "dosbin": "Dosbin", "dolib": "Dolib", "dolib.so": "Dolib_so",
            "dolib.a": "Dolib_a", "doman": "Doman", "domo": "Domo", "dosym": "Dosym", "dohard": "Dohard",
            "keepdir": "Keepdir"}


def gen_tables():
    return _gen_tables_impl()


# ------------------------------------------------------------------ fakes
class Obs:
    def __init__(self):
        self.msgs = []

    def warn(self, m):
        self.msgs.append(("warn", m))

    def write(self, m, **kw):
        self.msgs.append(("write", m))

    def info(self, m):
        self.msgs.append(("info", m))

    def flush(self):
        pass


class Op:
    def __init__(self, pkg, ED):
        self.pkg = pkg
        self.ED = ED
        self.observer = Obs()
        self.env = {}
        self.userpriv = False


class Ebd:
    def __init__(self, lines):
        self.lines = list(lines)
        self.out = []

    def read(self):
        return self.lines.pop(0) + "\n"

    def write(self, d):
        self.out.append(d)


def ebd_helper_order():
    """class names of the helpers in the order ebd.py instantiates them (the shared class-level
    parser keeps the defaults of the last one)."""
    tree = ast.parse((SRC / "ebuild" / "ebd.py").read_text())
    for n in ast.walk(tree):
        if (isinstance(n, ast.Assign) and any(isinstance(t, ast.Attribute) and t.attr == "_ipc_helpers" for t in n.targets)
                and isinstance(n.value, ast.Dict)):
            out = []
            for v in n.value.values:
                if (isinstance(v, ast.Call) and isinstance(v.func, ast.Attribute) and isinstance(v.func.value, ast.Name)
                        and v.func.value.id == "ebd_ipc"):
                    out.append(v.func.attr)
            return out
    return list(CLASS_OF.values())


ERR_PATTERNS = [
    (r"nonexistent path", "nonexistent"), (r"the following arguments are required", "missing"),
    (r"unknown arguments", "unknown"), (r"unknown options", "unknownopt"),
    (r"is a directory", "isdir"), (r"invalid man page", "badman"), (r"missing filename target", "nolinkname"),
    (r"-r not permitted", "gate"), (r"-r is only meaningful", "relabs"), (r"cannot stat", "stat"),
    (r"^failed ", "oserr"), (r"are identical", "identical"),
    (r"expected one argument|ignored explicit argument|expected at least one argument", "argparse"),
]


def err_kind(msg):
    for pat, kind in ERR_PATTERNS:
        if re.search(pat, msg):
            return kind
    return "other:" + msg[:40]


def snapshot(root):
    """sorted [(comps, kind, ...)] of everything below root"""
    out = []
    for dp, dn, fn in os.walk(root):
        for n in dn + fn:
            p = os.path.join(dp, n)
            st = os.lstat(p)
            comps = tuple(os.path.relpath(p, root).split("/"))
            if stat.S_ISLNK(st.st_mode):
                out.append((comps, 2, os.readlink(p)))
            elif stat.S_ISDIR(st.st_mode):
                out.append((comps, 0, st.st_mode & 0o7777))
            else:
                with open(p) as f:
                    txt = f.read().strip()
                out.append((comps, 1, st.st_mode & 0o7777, int(txt) if txt.isdigit() else 0, st.st_nlink, st.st_ino,
                            st.st_uid, st.st_gid))
    out.sort(key=lambda e: e[0])
    return out


def snap_val(snap):
    out = []
    for e in snap:
        path = "/".join(e[0])
        if e[1] == 0:
            out.append([path, 0, e[2]])
        elif e[1] == 1:
            out.append([path, 1, e[2], e[3], e[4]])
        else:
            out.append([path, 2, e[2]])
    return out


# ------------------------------------------------------------------ Coq terms
def c_strs(l):
    return clist([cstr(x) for x in l], "str")


def c_fkind(f):
    return f"FReg {cN(f[1])}" if f[0] == "reg" else f"FLink {cstr(f[1])} {'true' if f[2] else 'false'}"


def c_skind(k):
    if k[0] == "missing":
        return "SMissing"
    if k[0] == "file":
        return f"(SFile ({c_fkind(k[1])}))"
    return "(SDir %s %s)" % ("None" if k[2] is None else f"(Some {cstr(k[2])})", clist(
        ["{| w_rel := %s; w_dlinks := %s; w_files := %s |}" % (
            c_strs(w[0]), clist([cpair(cstr(n), cstr(t)) for n, t in w[1]], "str * str"),
            clist([cpair(cstr(n), c_fkind(f)) for n, f in w[2]], "str * fkind")) for w in k[1]], "wentry"))


def c_shvars(v):
    return ("{| v_desttree := %s; v_insdesttree := %s; v_exedesttree := %s; v_docdesttree := %s; v_pf := %s; "
            "v_libdir := %s; v_insoptions := %s; v_exeoptions := %s; v_liboptions := %s; v_diroptions := %s |}"
            % tuple(cstr(v[k]) for k in ("desttree", "insdesttree", "exedesttree", "docdesttree", "pf", "libdir",
                                         "insoptions", "exeoptions", "liboptions", "diroptions")))


def c_image(snap):
    ents = []
    inos = {}
    for e in snap:
        if e[1] == 0:
            n = f"NDir {cN(e[2])}"
        elif e[1] == 1:
            ino = inos.setdefault(e[5], len(inos))
            n = f"NFile {cN(e[2])} {cN(e[3])} {cN(ino)}"
        else:
            n = f"NLink {cstr(e[2])}"
        ents.append(cpair(c_strs(e[0]), n))
    return clist(ents, "list str * node")


def c_inv(c):
    return ("{| helper := %s; eapi := %s; sh := %s; args := %s; cat := %s; pn := %s; slot := %s; umask := %s; pre := %s |}"
            % (cstr(c["helper"]), cstr(c["eapi"]), c_shvars(c["sh"]),
               clist([cpair(cstr(a), c_skind(k)) for a, k in c["args"]], "str * skind"),
               cstr(c["cat"]), cstr(c["pn"]), cstr(c["slot"]), cN(c["umask"]), c_image(c["pre"])))


# ------------------------------------------------------------------ source trees
FILE_POOL = ["a.txt", "b.1", "c.de.1", "p.pt_BR.1", "q.ptBR.1", "git-x.de.1", "x.html", "y.css", "de.mo", "fr.mo",
             "foo.3.gz", "n.n", "README", "lib.so", "z.8", "bar.5", "w.fr.3", "img.png", "nosuffix", "m.1.bz2",
             "t.zz.1", "A.HTML", "u.js"]


def make_tree(rng, root, serial):
    """a random source tree; every regular file contains its content id"""
    cid = [serial * 1000]

    def reg(p):
        cid[0] += 1
        with open(p, "w") as f:
            f.write(str(cid[0]))

    os.makedirs(root)
    for n in rng.sample(FILE_POOL, rng.randint(8, len(FILE_POOL))):
        reg(os.path.join(root, n))
    for d in rng.sample(["d", "e.dir", "docs"], rng.randint(1, 3)):
        dp = os.path.join(root, d)
        os.makedirs(dp)
        for n in rng.sample(FILE_POOL, rng.randint(0, 4)):
            reg(os.path.join(dp, n))
        if rng.random() < 0.7:
            sp = os.path.join(dp, "sub")
            os.makedirs(sp)
            for n in rng.sample(FILE_POOL, rng.randint(0, 3)):
                reg(os.path.join(sp, n))
            if rng.random() < 0.4:
                os.makedirs(os.path.join(sp, "deep"))
                reg(os.path.join(sp, "deep", "k.html"))
            if rng.random() < 0.5:
                os.symlink("sub", os.path.join(dp, "dlnk"))
        files = [n for n in os.listdir(dp) if os.path.isfile(os.path.join(dp, n))]
        if files and rng.random() < 0.5:
            os.symlink(files[0], os.path.join(dp, "flnk"))
    # top-level symlinks: to a file, to a directory, dangling (a few trees only)
    names = sorted(os.listdir(root))
    files = [n for n in names if os.path.isfile(os.path.join(root, n))]
    dirs = [n for n in names if os.path.isdir(os.path.join(root, n))]
    if rng.random() < 0.7:
        os.symlink(files[0], os.path.join(root, "lnk.1"))
    if rng.random() < 0.5:
        os.symlink(dirs[0], os.path.join(root, "dirlnk"))
    if serial % 3 == 2:
        os.symlink("/nonexistent/c33/target", os.path.join(root, dirs[0], "dangling"))
        os.symlink("nowhere", os.path.join(root, "dangle.1"))
    if rng.random() < 0.5:
        reg(os.path.join(root, "-z"))


def make_corpus_tree(root):
    """a fixed tree for the fixed cases that are run first on every check"""
    os.makedirs(os.path.join(root, "hd", "sub"))
    os.makedirs(os.path.join(root, "dd"))
    for k, n in enumerate(["a.txt", "x.html", "de.mo", "b.1", "p.pt_BR.1", "git-x.de.1", "c.fr.3", "hd/k.html", "hd/e.txt",
                           "hd/sub/z.txt", "hd/sub/i.png", "dd/f.txt"]):
        with open(os.path.join(root, n), "w") as f:
            f.write(str(900 + k))
    os.symlink("/nonexistent/c33/abs", os.path.join(root, "dd", "dangling"))
    os.makedirs(os.path.join(root, "ld", "sub"))
    for k, n in enumerate(["ld/sub/f.txt", "ld/e.txt"]):
        with open(os.path.join(root, n), "w") as f:
            f.write(str(950 + k))
    os.symlink("sub", os.path.join(root, "ld", "slnk"))


CORPUS = [
    # (helper, eapi, args, shvars overrides, umask, pre_spec)
    ("domo", "7", ["de.mo"], {"desttree": "/opt/foo"}, 0o022, []),
    ("domo", "6", ["de.mo"], {"desttree": "/opt/foo"}, 0o022, []),
    ("dohtml", "6", ["-r", "x.html", "hd"], {"docdesttree": ""}, 0o022, []),
    ("dohtml", "6", ["-r", "-x", "sub", "hd"], {"docdesttree": ""}, 0o022, []),
    ("dohtml", "6", ["x.html", "a.txt"], {"docdesttree": ""}, 0o022, []),
    ("doman", "7", ["-i18n=fr", "b.1"], {}, 0o022, []),
    ("doman", "7", ["p.pt_BR.1", "git-x.de.1", "c.fr.3"], {}, 0o022, []),
    ("doman", "1", ["c.fr.3"], {}, 0o022, []),
    ("doman", "7", ["a"], {}, 0o022, []),
    ("doins", "7", ["-r", "dd"], {"insdesttree": "/usr/share/foo", "insoptions": "-m0644", "diroptions": "-m0755"}, 0o022, []),
    # spellings of directory arguments: "dir/." = the contents, directly into <dest>
    ("doins", "7", ["-r", "hd/."], {"insdesttree": "/usr/share/foo", "insoptions": "-m0644", "diroptions": "-m0755"}, 0o022, []),
    ("doins", "7", ["-r", "./hd/./"], {"insdesttree": "/usr/share/foo"}, 0o022, []),
    ("doins", "7", ["-r", "hd//", "hd/sub/."], {"insdesttree": "/usr/share/foo"}, 0o022, []),
    ("dodoc", "7", ["-r", "hd/sub/."], {"docdesttree": ""}, 0o022, []),
    # one destination reached as a directory (the walked symlink argument) and as a symlink (inside "ld/."):
    # refused by the code, by cp -r and by every implementation; no prescribed outcome
    ("doins", "7", ["-r", "ld/slnk", "ld/."], {"insdesttree": "/usr/share/foo"}, 0o022, []),
    ("doins", "7", ["-r", "ld", "ld"], {"insdesttree": "/usr/share/foo"}, 0o022, []),
    ("doins", "7", ["-r", "ld"], {"insdesttree": "/usr/share/foo"}, 0o022, []),
    ("dohtml", "6", ["-r", "hd/."], {"docdesttree": ""}, 0o022, []),
    ("dodoc", "7", ["a.txt"], {"docdesttree": ""}, 0o027, []),
    ("dodoc", "3", ["-r", "hd"], {"docdesttree": ""}, 0o022, []),
    ("dosym", "7", ["foo", "/var/tmp"], {}, 0o022, []),
    ("dosym", "7", ["foo", "/usr/bin/"], {}, 0o022, []),
    ("dosym", "8", ["-r", "/usr/lib/foo", "/usr/bin/foo"], {}, 0o022, []),
    ("dosym", "7", ["-r", "/usr/lib/foo", "/usr/bin/foo"], {}, 0o022, []),
    ("dosym", "7", ["foo"], {}, 0o022, []),
    ("dohard", "3", ["/usr/bin/foo", "/usr/bin/hl"], {}, 0o022,
     [(("usr",), "d", 0o755), (("usr", "bin"), "d", 0o755), (("usr", "bin", "foo"), "f", 0o644, 77)]),
    ("dohard", "4", ["usr/bin/foo", "/usr/bin/hl"], {}, 0o022, []),
    ("keepdir", "7", ["/var/lib/x"], {"diroptions": "-m0750"}, 0o022, []),
    ("dobin", "7", ["a.txt"], {"desttree": "/usr"}, 0o022, []),
    # set-id modes together with owner/group options: the mode must survive the chown
    ("doexe", "7", ["a.txt"], {"exedesttree": "/opt/x", "exeoptions": "-m4711 -o %(uid)s -g %(gid)s"}, 0o022, []),
    ("doins", "7", ["a.txt", "x.html"], {"insdesttree": "/usr/share/foo", "insoptions": "-g %(gid)s -m2755"}, 0o022, []),
    ("dolib", "6", ["a.txt"], {"liboptions": "--owner=%(uid)s -m 6755"}, 0o022, []),
    ("doexe", "7", ["a.txt"], {"exedesttree": "/opt/x", "exeoptions": "-m4755"}, 0o022, []),
]


def fkind_of(p):
    if os.path.islink(p):
        return ("link", os.readlink(p), os.path.exists(p))
    with open(p) as f:
        txt = f.read().strip()
    return ("reg", int(txt) if txt.isdigit() else 0)


def describe(cwd, arg):
    """what is at `arg` (relative to cwd), in the shape the helpers observe it"""
    p = os.path.join(cwd, arg)
    if not os.path.lexists(p):
        return ("missing",)
    if os.path.isdir(p):
        walk = []
        for dp, dn, fn in os.walk(p):
            rel = os.path.relpath(dp, p)
            walk.append((tuple() if rel == "." else tuple(rel.split("/")),
                         [(n, os.readlink(os.path.join(dp, n))) for n in dn if os.path.islink(os.path.join(dp, n))],
                         [(n, fkind_of(os.path.join(dp, n))) for n in fn]))
        return ("dir", walk, os.readlink(p) if os.path.islink(p) else None)
    return ("file", fkind_of(p))


# ------------------------------------------------------------------ the implementation side
class Impl:
    def __init__(self, chk):
        logging.disable(logging.CRITICAL)
        from pkgcore.ebuild import ebd_ipc
        from pkgcore.ebuild.eapi import get_eapi
        from pkgcore.test.misc import FakePkg

        self.ebd_ipc, self.get_eapi, self.FakePkg = ebd_ipc, get_eapi, FakePkg
        self.order = ebd_helper_order()
        self.scratch = chk.scratch / "c33"
        self.scratch.mkdir(exist_ok=True)
        self.n = 0
        self.banned_ref = (c33_tables.HELPERS_DIR / "internals" / "banned").read_text()
        self.depr_ref = (c33_tables.HELPERS_DIR / "internals" / "deprecated").read_text()

    def wrapper_path(self, helper, eapi):
        """the script the helper name resolves to on the EAPI's src_install helper PATH:
        ('banned', None) / ('ok', path) / ('missing', None)"""
        e = self.get_eapi(eapi)
        for d in e.helpers.get("src_install", ()):
            p = os.path.join(d, helper)
            if os.path.exists(p):
                txt = open(p).read()
                if txt == self.banned_ref:
                    return ("banned", None)
                if txt == self.depr_ref:
                    continue
                return ("ok", p)
        return ("missing", None)

    def _wrapper_options_chunk(self, reqs, tag=0):
        """reqs: [(helper, eapi, shvars)] -> [options string | Err]; the real wrapper files are sourced
        by ONE real bash process (a subshell per request)."""
        out = [None] * len(reqs)
        script = ['__helper_exit() { printf "HELPER_EXIT"; exit 0; }', '__get_libdir() { echo "${C33_LIBDIR}"; }']
        idx = []
        q = lambda s: "'" + s.replace("'", "'\\''") + "'"
        for k, (helper, eapi, sh) in enumerate(reqs):
            kind, path = self.wrapper_path(helper, eapi)
            if kind != "ok":
                out[k] = Err(kind if kind == "banned" else "nohelper")
                continue
            e = self.get_eapi(eapi)
            env = {"C33_LIBDIR": sh["libdir"], "PF": sh["pf"],
                   "PKGCORE_DESTTREE": sh["desttree"], "PKGCORE_INSDESTTREE": sh["insdesttree"],
                   "PKGCORE_EXEDESTTREE": sh["exedesttree"], "PKGCORE_DOCDESTTREE": sh["docdesttree"],
                   "INSOPTIONS": sh["insoptions"], "EXEOPTIONS": sh["exeoptions"], "LIBOPTIONS": sh["liboptions"],
                   "DIROPTIONS": sh["diroptions"], "ED": "/c33-no-such-image/", "HELPER_NAME": helper}
            env.update({k2: v for k2, v in e.ebd_env.items() if k2.startswith("PKGCORE_")})
            assigns = "; ".join(f"export {k2}={q(v)}" for k2, v in env.items())
            script.append(f"( {assigns}; unset OPTIONS; source {q(path)}; printf '%s' \"${{OPTIONS[*]}}\" ); printf '\\0'")
            idx.append(k)
        if idx:
            sf = self.scratch / f"wrap{tag}.sh"
            sf.write_text("\n".join(script) + "\n")
            r = subprocess.run(["bash", str(sf)], env={"PATH": os.environ.get("PATH", "/usr/bin:/bin")},
                               capture_output=True, text=True, timeout=3000)
            parts = r.stdout.split("\0")
            if r.returncode != 0 or len(parts) != len(idx) + 1:
                raise RuntimeError(f"bash wrapper evaluation failed: rc={r.returncode} {r.stderr[-500:]}")
            for k, txt in zip(idx, parts):
                out[k] = Err("wrapper") if txt == "HELPER_EXIT" else txt
        return out

    def wrapper_options_batch(self, reqs):
        """deduplicated, in chunks of 300 requests evaluated by parallel bash processes"""
        import concurrent.futures as cf
        keyf = lambda r: (r[0], r[1], tuple(sorted(r[2].items())))
        uniq = {}
        for r in reqs:
            uniq.setdefault(keyf(r), r)
        ulist = list(uniq.values())
        chunks = [ulist[i:i + 300] for i in range(0, len(ulist), 300)]
        with cf.ThreadPoolExecutor(max_workers=6) as ex:
            outs = list(ex.map(lambda kc: self._wrapper_options_chunk(kc[1], kc[0]), enumerate(chunks)))
        res = {}
        for ch, out in zip(chunks, outs):
            for r, o in zip(ch, out):
                res[keyf(r)] = o
        return [res[keyf(r)] for r in reqs]

    def wrapper_options(self, helper, eapi, sh):
        return self.wrapper_options_batch([(helper, eapi, sh)])[0]

    def run(self, case, tree_dir, nonfatal=True):
        """one helper invocation; returns (canonical result, post snapshot or None)"""
        self.n += 1
        opts = case["opts"] if "opts" in case else self.wrapper_options(case["helper"], case["eapi"], case["sh"])
        if isinstance(opts, Err):
            return opts, None
        e = self.get_eapi(case["eapi"])
        ED = str(self.scratch / f"img{self.n}") + "/image" + e.options.trailing_slash
        os.makedirs(ED)
        try:
            for comps, kind, *rest in case["pre_spec"]:
                p = os.path.join(ED, *comps)
                if kind == "d":
                    os.makedirs(p, exist_ok=True)
                    os.chmod(p, rest[0])
                elif kind == "f":
                    with open(p, "w") as f:
                        f.write(str(rest[1]))
                    os.chmod(p, rest[0])
                else:
                    os.symlink(rest[0], p)
            case["pre"] = snapshot(ED)
            pkg = self.FakePkg(f"{case['cat']}/{case['pn']}-1.0", eapi=case["eapi"], slot=case["slot"])
            op = Op(pkg, ED)
            objs = {}
            for cls in self.order:
                klass = getattr(self.ebd_ipc, cls, None)
                if klass is not None and issubclass(klass, self.ebd_ipc._InstallWrapper):
                    objs[cls] = klass(op)
            cmd = objs[CLASS_OF[case["helper"]]]
            ebd = Ebd(["true" if nonfatal else "false", tree_dir, "install", opts, "\0".join(a for a, _ in case["args"])])
            old = os.umask(case["umask"])
            try:
                try:
                    cmd(ebd)
                    ret = ebd.out[-1] if ebd.out else None
                    if ret == 0:
                        res = None
                    else:
                        code, _, msg = str(ret).partition("\x07")
                        res = Err(err_kind(msg)) if code != "0" else Err("status0:" + msg[:30])
                except self.ebd_ipc.IpcInternalError:
                    res = Err("internal")
                except self.ebd_ipc.IpcCommandError as ex:
                    res = Err(err_kind(ex.msg))
            finally:
                os.umask(old)
                os.chdir("/")
            snap = snapshot(ED)
            if res is None:
                res = snap_val(snap)
            return res, snap
        finally:
            shutil.rmtree(os.path.dirname(ED.rstrip("/")), ignore_errors=True)


# ------------------------------------------------------------------ known-finding classes (decidable on the input)
LANG_FIXED = re.compile(r"^(.+)\.([a-z]{2}(_[A-Z]{2})?)\.(\w+)$")
LANG_BUGGY = re.compile(r"^(\w+)\.([a-z]{2}([A-Z]{2})?)\.(\w+)$")


def _has_dangling(case, top_only=False):
    for _, k in case["args"]:
        if k[0] == "file" and k[1][0] == "link" and not k[1][2]:
            return True
        if k[0] == "dir" and not top_only:
            for w in k[1]:
                if any(f[0] == "link" and not f[2] for _, f in w[2]):
                    return True
    return False


def in_dohard_host_source(case):
    pos = [a for a, _ in case["args"]]
    return case["helper"] == "dohard" and len(pos) == 2 and pos[0].startswith("/")


def in_doman_i18n_option(case):
    return case["helper"] == "doman" and any(a.startswith("-i18n") for a, _ in case["args"])


def in_doman_lang_regex(case):
    if case["helper"] != "doman":
        return False
    for a, _ in case["args"]:
        b = os.path.basename(a)
        m1, m2 = LANG_FIXED.match(b), LANG_BUGGY.match(b)
        if bool(m1) != bool(m2) or (m1 and m2 and m1.groups()[1] != m2.groups()[1]):
            return True
    return False


def in_dosym_dir_check_host(case):
    if case["helper"] != "dosym":
        return False
    pos = [a for a, _ in case["args"] if a != "-r"]
    if len(pos) != 2:
        return False
    t = pos[1]
    host = os.path.isdir(os.path.join(case["tree_dir"], t)) and not os.path.islink(os.path.join(case["tree_dir"], t))
    key = tuple(c for c in t.split("/") if c and c != ".")
    img = any(e[0] == key and e[1] == 0 for e in case["pre"])
    return host != img


def in_install_dangling_symlink(case):
    return case["helper"] not in ("dodir", "keepdir", "dosym", "dohard") and _has_dangling(case)


def in_shared_parser_defaults(case):
    return case["umask"] != 0o022 and case["helper"] in ("dodoc", "doinfo", "doman", "domo", "dohtml", "dosym", "dohard")


def in_dohtml_recursive_unfiltered(case):
    return (case["helper"] == "dohtml" and any(a == "-r" for a, _ in case["args"])
            and any(k[0] == "dir" for _, k in case["args"]))


def in_domo_desttree_guard(case):
    return case["helper"] == "domo" and int(case["eapi"]) >= 7 and case["sh"]["desttree"] != "/usr"


def in_install_fallback_status(case):
    return False   # reproduced by a dedicated probe only


CLASSES = [("dohard-host-source", in_dohard_host_source), ("doman-i18n-option", in_doman_i18n_option),
           ("doman-lang-regex", in_doman_lang_regex), ("dosym-dir-check-host", in_dosym_dir_check_host),
           ("install-dangling-symlink", in_install_dangling_symlink),
           ("shared-parser-defaults", in_shared_parser_defaults),
           ("dohtml-recursive-unfiltered", in_dohtml_recursive_unfiltered),
           ("domo-desttree-guard", in_domo_desttree_guard)]


def _is_err(res, *kinds):
    return isinstance(res, Err) and (not kinds or res.kind in kinds)


# what the defect looks like in the implementation's result (keeps a class from absorbing other failures)
SIGNATURE = {
    "dohard-host-source": lambda res: _is_err(res, "oserr") or not _is_err(res),
    "doman-i18n-option": lambda res: _is_err(res, "internal", "argparse"),
    "doman-lang-regex": lambda res: not _is_err(res),
    "dosym-dir-check-host": lambda res: _is_err(res, "nolinkname", "oserr") or not _is_err(res),
    "install-dangling-symlink": lambda res: _is_err(res, "stat"),
    "shared-parser-defaults": lambda res: not _is_err(res),
    "dohtml-recursive-unfiltered": lambda res: not _is_err(res),
    "domo-desttree-guard": lambda res: not _is_err(res),
}


def classes_of(case, res=None):
    return [cid for cid, pred in CLASSES if pred(case) and (res is None or SIGNATURE[cid](res))]


# ------------------------------------------------------------------ generators
def owner_words(rng):
    """-o/-g options naming ids the process may chown to: anything as root, else its own ids"""
    if os.geteuid() == 0:
        uid, gid = rng.choice(["0", "root", "1"]), rng.choice(["0", "root", "2"])
    else:
        uid, gid = str(os.getuid()), str(os.getgid())
    out = []
    if rng.random() < 0.8:
        out.append(rng.choice(["-o " + uid, "-o" + uid, "--owner=" + uid, "--owner " + uid]))
    if rng.random() < 0.8 or not out:
        out.append(rng.choice(["-g " + gid, "-g" + gid, "--group=" + gid, "--group " + gid]))
    rng.shuffle(out)
    return out


def setid_options(rng):
    """an option string combining a set-id / sticky mode with owner/group options, in random order"""
    words = [rng.choice(["-m4711", "-m2755", "-m 4755", "-m6755", "-m1777", "--mode=2711", "-m4750", "-m0644"])] + owner_words(rng)
    rng.shuffle(words)
    return " ".join(words)


def expected_owner(opts):
    """(uid, gid) an option string asks for; None = unchanged"""
    toks, uid, gid, i = opts.split(), None, None, 0
    ident = lambda v: 0 if v == "root" else int(v)
    while i < len(toks):
        t = toks[i]
        if t in ("-o", "--owner"):
            uid = ident(toks[i + 1]); i += 1
        elif t in ("-g", "--group"):
            gid = ident(toks[i + 1]); i += 1
        elif t.startswith("--owner="):
            uid = ident(t[8:])
        elif t.startswith("--group="):
            gid = ident(t[8:])
        elif t.startswith("-o"):
            uid = ident(t[2:])
        elif t.startswith("-g"):
            gid = ident(t[2:])
        i += 1
    return uid, gid


def gen_shvars(rng):
    pick = rng.choice
    sid = lambda: setid_options(rng)
    return {"desttree": pick(["/usr", "/usr", "/usr", "/opt/foo", "", "/usr/local"]),
            "insdesttree": pick(["", "/usr/share/foo", "/etc", "/usr/share//x/", "opt/rel", "/usr/share/./bar"]),
            "exedesttree": pick(["", "/usr/libexec/foo", "/opt/x", "/etc/init.d"]),
            "docdesttree": pick(["", "", "html", "examples/a", "/abs"]),
            "pf": "pn-1.0", "libdir": pick(["lib", "lib64"]),
            "insoptions": pick(["-m0644", "-m0644", "-m0600", "-m 0640", "--mode=0444", "--mode 0604", sid(), sid()]),
            "exeoptions": pick(["-m0755", "-m0755", "-m0700", "-m 0750", "-m4755", sid(), sid()]),
            "liboptions": pick(["-m0644", "-m0755", "-m0640", sid()]),
            "diroptions": pick(["-m0755", "-m0755", "-m0750", "-m 0700", "--mode 0711"])}


def tree_names(tree_dir):
    names = sorted(os.listdir(tree_dir))
    files = [n for n in names if not os.path.isdir(os.path.join(tree_dir, n))]
    dirs = [n for n in names if os.path.isdir(os.path.join(tree_dir, n))]
    return files, dirs


def gen_install_args(rng, helper, tree_dir, malformed):
    files, dirs = tree_names(tree_dir)
    sub = []
    for d in dirs:
        for n in sorted(os.listdir(os.path.join(tree_dir, d))):
            sub.append(f"{d}/{n}")
    args = []
    man = [f for f in files if re.search(r"\.(\d|n)(\.(gz|bz2))?$", f)]
    mo = [f for f in files if f.endswith(".mo")]
    pool = files + sub
    if helper == "doman":
        pool = man + (["nosuffix"] if "nosuffix" in files and rng.random() < 0.1 else [])
    elif helper == "domo":
        pool = mo or files
    pool = [p for p in pool if not p.startswith("-")] or files
    for _ in range(rng.randint(1, 4)):
        args.append(rng.choice(pool))
    if helper in ("doins", "dodoc", "dohtml") and rng.random() < 0.55:
        d = rng.choice(dirs + [x for x in sub if os.path.isdir(os.path.join(tree_dir, x))] + ["."])
        # spellings of a directory argument: the name below <dest> is the last component after dropping
        # trailing slashes; a final "." component means "the contents"
        d = rng.choice([d, d, d + "/", "./" + d, d + "/.", d + "/.", "./" + d + "/.", d + "//", d + "/./"]) if d != "." else d
        args.insert(rng.randint(0, len(args)), d)
    elif rng.random() < 0.05:
        args.append(rng.choice(dirs))
    opts = []
    if helper in ("doins", "dodoc", "dohtml") and rng.random() < 0.6:
        opts.append("-r")
    if helper == "doman" and rng.random() < 0.3:
        opts.append("-i18n=" + rng.choice(["fr", "de", "", "pt_BR"]))
    if helper == "dohtml":
        if rng.random() < 0.3:
            opts += ["-A", rng.choice(["txt", "txt,1", "mo"])]
        if rng.random() < 0.2:
            opts += ["-a", rng.choice(["html", "css,png", "txt"])]
        if rng.random() < 0.2:
            opts += ["-f", rng.choice(["README", "a.txt,README", "n.n"])]
        if rng.random() < 0.25:
            opts += ["-x", rng.choice(["sub", "d", "docs,e.dir", "d/sub"])]
        if rng.random() < 0.2:
            opts += ["-p", rng.choice(["pre", "a/b", "/abs"])]
        if rng.random() < 0.1:
            opts.append("-V")
    if malformed:
        m = rng.choice(["none", "missing", "dash", "onlyopt", "dd", "optlast"])
        if m == "none":
            args, opts = [], []
        elif m == "missing":
            args.insert(rng.randint(0, len(args)), rng.choice(["nonexist", "d/nonexist", "no.1"]))
        elif m == "dash":
            args.insert(0, "-z")
        elif m == "onlyopt":
            args = []
        elif m == "dd":
            return opts + ["--"] + args
        elif m == "optlast":
            return args + opts
    return opts + args


PRE_DIRS = [("usr",), ("usr", "bin"), ("usr", "lib"), ("etc",), ("var",), ("var", "lib")]


def gen_pre(rng):
    """a small pre-existing image: directories, files, symlinks (never a symlinked directory)"""
    spec, have = [], set()
    for d in rng.sample(PRE_DIRS, rng.randint(0, 4)):
        for i in range(1, len(d) + 1):
            if d[:i] not in have:
                have.add(d[:i])
                spec.append((d[:i], "d", 0o755))
    cid = 500
    for d in sorted(have):
        if rng.random() < 0.6:
            cid += 1
            spec.append((d + (rng.choice(["foo", "bar"]),), "f", rng.choice([0o644, 0o755]), cid))
        if rng.random() < 0.3:
            spec.append((d + ("L1",), "l", rng.choice(["foo", "../x"])))
    seen, out = set(), []
    for s in spec:
        if s[0] not in seen:
            seen.add(s[0])
            out.append(s)
    return out


def gen_link_args(rng, helper, pre_spec, malformed):
    files = ["/".join(s[0]) for s in pre_spec if s[1] == "f"]
    dirs = ["/".join(s[0]) for s in pre_spec if s[1] == "d"]
    links = ["/".join(s[0]) for s in pre_spec if s[1] == "l"]
    tgt_dir = rng.choice(dirs + ["usr/share/x", "opt", "a/b/c", ""])
    name = rng.choice(["new", "foo", "L1", "l.so"])
    target = (tgt_dir + "/" if tgt_dir else "") + name
    target = rng.choice(["/" + target, "/" + target, target, "/" + target.replace("/", "//", 1)])
    if helper == "dohard":
        src = rng.choice(files + files + ["usr/bin/none"]) if files else "usr/bin/none"
        src = rng.choice(["/" + src, src])
        args = [src, target]
    else:
        r = rng.random() < 0.45
        if r:
            src = rng.choice(["/usr/lib/foo", "/usr//lib/../x/", "/", "/a/b/../../c", "//net/x", "/usr/bin/" + name,
                              "rel/x", "/" + tgt_dir])
        else:
            src = rng.choice(["../lib/foo", "foo", "/usr/lib/foo", "a/../b", "/abs//x/"])
        args = (["-r"] if r else []) + [src, target]
        if rng.random() < 0.08:
            args = [src, target, "-r"] if r else args
        if rng.random() < 0.1 and dirs:
            args[-1 if args[-1] != "-r" else -2] = "/" + rng.choice(dirs)       # link name is a directory of the image
        if rng.random() < 0.08:
            args[-1 if args[-1] != "-r" else -2] += "/"                          # trailing slash
        if rng.random() < 0.06:
            args[-1 if args[-1] != "-r" else -2] = rng.choice(["/var/tmp", "/usr/bin", "/tmp"])   # a host directory
        if rng.random() < 0.1 and links:
            args[-1 if args[-1] != "-r" else -2] = "/" + rng.choice(links)      # overwrite an existing link
    if malformed:
        m = rng.choice(["one", "none", "three"])
        args = {"one": args[:1], "none": [], "three": args + ["extra"]}[m]
    return args


def gen_dir_args(rng, pre_spec, malformed):
    dirs = ["/".join(s[0]) for s in pre_spec if s[1] == "d"]
    pool = ["/var/lib/x", "etc/y/", "/usr/share//foo", "/a/./c", "/opt", "//srv/z", "/"] + ["/" + d for d in dirs]
    args = [rng.choice(pool) for _ in range(rng.randint(1, 3))]
    if malformed:
        args = []
    return args


# ------------------------------------------------------------------ the path streams
def gen_path_string(rng):
    parts = []
    for _ in range(rng.randint(0, 6)):
        parts.append(rng.choice(["a", "b", "usr", "..", ".", "", "lib64", "x.y", "...", "..a", "c.tar.gz", ".hid"]))
    s = "/".join(parts)
    r = rng.random()
    if r < 0.45:
        s = "/" + s
    elif r < 0.55:
        s = "//" + s
    elif r < 0.6:
        s = "///" + s
    if rng.random() < 0.2:
        s += "/"
    return s


def gen_abs(rng):
    n = rng.randint(0, 5)
    parts = [rng.choice(["usr", "lib", "bin", "x", "..", ".", "", "a", "b", "share"]) for _ in range(n)]
    s = rng.choice(["/", "/", "/", "//", "///"]) + "/".join(parts)
    if rng.random() < 0.2:
        s += "/"
    return s


# ------------------------------------------------------------------ main
def report(chk, stream, cases, meta, a_bad, b_bad, what_b):
    """classify (A) and (B) disagreements of one stream"""
    found_property = False
    for i in b_bad:
        cls = classes_of(meta[i], cases[i][1]) if meta and meta[i] else []
        listed = [c for c in cls if chk.known_finding(c, {"stream": stream, "input": meta[i].get("show") if meta[i] else cases[i][0],
                                                          "implementation": cases[i][1]})]
        if listed:
            continue
        found_property = True
        chk.violation("property", {"what": what_b, "stream": stream,
                                   "input": (meta[i].get("show") if meta and meta[i] else cases[i][0]),
                                   "implementation": cases[i][1], "classes_not_listed": cls})
    shown = 0
    for i in a_bad:
        cls = classes_of(meta[i], cases[i][1]) if meta and meta[i] else []
        listed = [c for c in cls if chk.known_finding(c, {"stream": stream, "input": meta[i].get("show") if meta[i] else cases[i][0],
                                                          "implementation": cases[i][1]})]
        if listed:
            continue
        if shown < 3:
            shown += 1
            chk.violation("correspondence",
                          {"what": f"implementation and Model_C33 disagree on stream '{stream}' "
                                   "(the theorems of Prop_C33 no longer speak about this code)",
                           "input": (meta[i].get("show") if meta and meta[i] else cases[i][0]),
                           "coq_input": cases[i][0][:1500], "implementation": cases[i][1], "classes_not_listed": cls},
                          no_input=not (found_property or i in b_bad))


def main(chk: Check):
    scale = float(os.environ.get("C33_SCALE", "1"))
    _n = chk.n
    chk_n = lambda q, t: max(5, int(_n(q, t) * scale))
    chk.rule("helper: random source trees (regular files with man/html/mo/compressed names, nested directories, "
             "symlinks to files/directories, dangling links) x helper x EAPI 0-8 x into/insinto/exeinto/docinto and "
             "option strings (incl. set-id/sticky modes combined with -o/-g) x pre-populated image, through the real IPC classes; non-trivial = the invocation "
             "creates at least one image entry or is refused for a PMS reason; dosymr: non-trivial = target and "
             "link directory differ after normalisation")
    try:
        tables.regenerate(sys.modules[__name__])
    except TableError as e:
        chk.violation("table", {"what": "source-derived table of C33 cannot be regenerated (fail closed)",
                                "error": str(e)}, no_input=True)
    ok = chk.build(["C33/Prop_C33.vo"])
    if ok:
        chk.check_assumptions("C33/Prop_C33.v")
    # a broken theorem does not stop the search for a concrete failing input: model and spec still evaluate
    can_eval = ok or chk.build(["C33/Spec_C33.vo"], what="model and spec")
    chk.lint(["C33"])
    chk.check_fingerprint(ANCHORS)
    rng = chk.rng
    impl = Impl(chk)
    import time
    t0 = [time.time()]
    timing = chk.cov.setdefault("timing_s", {})

    def lap(label):
        timing[label] = round(time.time() - t0[0], 1)
        t0[0] = time.time()
    import posixpath
    from pkgcore.ebuild.misc import get_relative_dosym_target

    # ---- path stream
    path_cases = []
    fns = [posixpath.normpath, posixpath.dirname, posixpath.basename, lambda a: list(posixpath.splitext(a)),
           None, None, None]
    for _ in range(chk_n(300, 4000)):
        f = rng.randrange(7)
        a, b = gen_path_string(rng), gen_path_string(rng)
        if f == 4:
            res = impl_call(posixpath.join, a, b)
        elif f == 5:
            if not b.startswith("/"):
                b = "/" + b
            if a and not a.startswith("/"):
                a = "/" + a
            res = impl_call(posixpath.relpath, a, b)
        elif f == 6:
            if not a.startswith("/"):
                a = "/" + a
            res = impl_call(get_relative_dosym_target, a, b)
        else:
            res = impl_call(fns[f], a)
            b = ""
        path_cases.append((cpair(cN(f), cstr(a), cstr(b)), res))
        chk.nontrivial(("path", f, a, b))
    chk.count("path", len(path_cases))
    chk.sample({"stream": "path", "input": path_cases[0][0], "impl": path_cases[0][1]})

    lap("path")
    # ---- dosymr stream (+ the real helper, resolved on the real filesystem)
    ds_cases, ds_py_bad = [], []
    n_real = chk_n(40, 400)
    dosym_opts = impl.wrapper_options("dosym", "8", gen_shvars(rng))
    for k in range(chk_n(300, 4000)):
        t, l = gen_abs(rng), gen_abs(rng)
        if rng.random() < 0.3:
            l = l.lstrip("/") or "x"
        rel = impl_call(get_relative_dosym_target, t, l)
        if isinstance(rel, Err):
            ds_cases.append((cpair(cstr(t), cstr(l)), rel))
            continue
        d = posixpath.join("/", posixpath.dirname(l))
        resolved = [c for c in posixpath.normpath(posixpath.join(d, rel)).split("/") if c]
        ds_cases.append((cpair(cstr(t), cstr(l)), [rel, resolved]))
        if posixpath.normpath(t).lstrip("/") != posixpath.normpath(d).lstrip("/"):
            chk.nontrivial(("dosymr", t, l))
        want = [c for c in posixpath.normpath(t).split("/") if c]
        if resolved != want or rel.startswith("/"):
            ds_py_bad.append({"target": t, "link": l, "relative": rel, "resolves_to": resolved, "wanted": want})
        if k < n_real and not l.endswith("/") and posixpath.basename(l) not in ("", ".", "..") and ".." not in l.split("/"):
            case = {"helper": "dosym", "eapi": "8", "sh": gen_shvars(rng), "args": [("-r", ("missing",)), (t, ("missing",)), (l, ("missing",))],
                    "cat": "cat", "pn": "pn", "slot": "0", "umask": 0o022, "pre_spec": [], "opts": dosym_opts}
            res, snap = impl.run(case, "/")
            if isinstance(res, Err):
                if res.kind != "nolinkname":     # the host-directory check (known class) may refuse it
                    ds_py_bad.append({"target": t, "link": l, "dosym -r": repr(res)})
                continue
            lk = [e for e in snap if e[1] == 2]
            key = tuple(c for c in posixpath.normpath("/" + l).split("/") if c)
            if len(lk) != 1 or lk[0][0] != key or lk[0][2] != rel:
                ds_py_bad.append({"target": t, "link": l, "created": [list(map(str, e[:3])) for e in lk], "wanted_link": rel})
                continue
            # resolve on a real filesystem
            root = str(impl.scratch / "rfs")
            shutil.rmtree(root, ignore_errors=True)
            os.makedirs(os.path.join(root, *key[:-1]), exist_ok=True)
            os.symlink(rel, os.path.join(root, *key))
            real = os.path.realpath(os.path.join(root, *key))
            if real != os.path.realpath(root) + "".join("/" + c for c in want):
                ds_py_bad.append({"target": t, "link": l, "relative": rel, "realpath": real, "wanted": want})
            shutil.rmtree(root, ignore_errors=True)
    chk.count("dosymr", len(ds_cases))
    chk.sample({"stream": "dosymr", "input": ds_cases[1][0], "impl": ds_cases[1][1]})

    lap("dosymr")
    # ---- gate stream
    gate_cases = []
    for h in HELPERS:
        for e in EAPIS:
            def g(h=h, e=e):
                ea = impl.get_eapi(e)
                o = ea.options
                return [impl.wrapper_path(h, e)[0] == "banned", bool(o.dodoc_allow_recursive), bool(o.doman_language_detect),
                        bool(o.doman_language_override), bool(o.dosym_relative), bool(o.has_desttree)]
            gate_cases.append((cpair(cstr(h), cstr(e)), impl_call(g)))
    chk.count("gate", len(gate_cases))

    # ---- wrap stream
    wrap_cases, wrap_meta = [], []
    import shlex
    wreqs = [(rng.choice(HELPERS), rng.choice(EAPIS), gen_shvars(rng)) for _ in range(chk_n(120, 400))]
    for (h, e, sh), res in zip(wreqs, impl.wrapper_options_batch(wreqs)):
        if not isinstance(res, Err):
            got = {"dest": None, "insoptions": None, "diroptions": None}
            for w in shlex.split(res):
                m = re.fullmatch(r"--(dest|insoptions|diroptions)=(.*)", w, flags=re.S)
                if m:
                    got[m.group(1)] = m.group(2)
            res = [got["dest"], got["insoptions"], got["diroptions"]]
        wrap_cases.append((cpair(cstr(h), cstr(e), c_shvars(sh)), res))
        wrap_meta.append({"helper": h, "eapi": e, "sh": sh, "args": [], "umask": 0o022, "pre": [],
                          "show": {"helper": h, "eapi": e, "sh": sh}})
    chk.count("wrap", len(wrap_cases))

    lap("gate+wrap")
    # ---- insopts stream: the option-string parser itself
    io_cases = []
    from snakeoil.cli import arghparse as _ah
    io_obj = impl.ebd_ipc.Doins(Op(impl.FakePkg("cat/pn-1.0", eapi="7", slot="0"), "/c33-no-such-image/"))

    def parse_opts(sopt):
        ns = _ah.Namespace()
        if not io_obj._parse_install_options(shlex.split(sopt), ns):
            return Err("fallback")
        return [ns.mode, ns.owner, ns.group, bool(ns.preserve_timestamps)]
    for _ in range(chk_n(120, 1200)):
        r0 = rng.random()
        if r0 < 0.7:
            sopt = setid_options(rng) + (" -p" if rng.random() < 0.2 else "")
        elif r0 < 0.85:
            sopt = rng.choice(["-m0644", "-m 755", "--mode=0444", "--mode 1777", "-p", "-m0644 -p", "-m4755 -m0711"])
        else:
            sopt = rng.choice(["-m u+x", "-s", "-D -m0644", "-m0644 -v", "--strip", "-m 0x1"])
        io_cases.append((cstr(sopt), impl_call(parse_opts, sopt, kinds={"*": "error"})))
        chk.nontrivial(("insopts", sopt))
    chk.count("insopts", len(io_cases))
    chk.sample({"stream": "insopts", "input": "-m4711 -o 0 -g 0", "impl": impl_call(parse_opts, "-m4711 -o 0 -g 0")})
    # ---- helper stream
    trees = []
    for t in range(chk_n(6, 24)):
        td = str(impl.scratch / f"tree{t}")
        make_tree(rng, td, t + 1)
        trees.append(td)
    hcases, hmeta = [], []
    ctd = str(impl.scratch / "corpus_tree")
    make_corpus_tree(ctd)
    for h, e, a, shu, um, pre_spec in CORPUS:
        sh = dict(desttree="/usr", insdesttree="", exedesttree="", docdesttree="", pf="pn-1.0", libdir="lib",
                  insoptions="-m0644", exeoptions="-m0755", liboptions="-m0644", diroptions="-m0755")
        ids = {"uid": os.geteuid(), "gid": os.getegid()}
        sh.update({k: (v % ids if "%(" in v else v) for k, v in shu.items()})
        case = {"helper": h, "eapi": e, "sh": sh, "cat": "cat", "pn": "pn", "slot": "0", "umask": um, "tree_dir": ctd,
                "pre_spec": list(pre_spec), "nonfatal": True}
        if h in ("dosym", "dohard", "dodir", "keepdir"):
            case["args"] = [(x, ("missing",)) for x in a]
        else:
            case["args"] = [(x, describe(ctd, x)) for x in a]
        hmeta.append(case)
    weights = {"doins": 5, "dodoc": 4, "doman": 5, "dohtml": 4, "domo": 2, "dosym": 6, "dohard": 3, "dodir": 2,
               "keepdir": 3, "doexe": 2, "dobin": 2, "dosbin": 1, "dolib": 1, "dolib.so": 1, "dolib.a": 1, "doinfo": 1}
    hpool = [h for h, w in weights.items() for _ in range(w)]
    for k in range(chk_n(400, 3200)):
        h = rng.choice(hpool)
        malformed = rng.random() < 0.12
        td = rng.choice(trees)
        e = rng.choice(EAPIS)
        if h in ("dohard",) and rng.random() < 0.8:
            e = rng.choice(["0", "1", "2", "3"])
        if h == "dohtml" and rng.random() < 0.8:
            e = rng.choice(["0", "2", "4", "5", "6"])
        if h == "dosym" and rng.random() < 0.5:
            e = "8"
        case = {"helper": h, "eapi": e, "sh": gen_shvars(rng), "cat": rng.choice(["cat", "dev-libs"]),
                "pn": rng.choice(["pn", "foo-bar"]), "slot": rng.choice(["0", "2", "1.2"]),
                "umask": 0o027 if rng.random() < 0.12 else 0o022, "tree_dir": td}
        if h in ("dosym", "dohard"):
            case["pre_spec"] = gen_pre(rng)
            raw = gen_link_args(rng, h, case["pre_spec"], malformed)
            case["args"] = [(a, ("missing",)) for a in raw]
        elif h in ("dodir", "keepdir"):
            case["pre_spec"] = gen_pre(rng) if rng.random() < 0.5 else []
            case["args"] = [(a, ("missing",)) for a in gen_dir_args(rng, case["pre_spec"], malformed)]
        else:
            case["pre_spec"] = []
            raw = gen_install_args(rng, h, td, malformed)
            case["args"] = [(a, describe(td, a)) for a in raw]
        case["nonfatal"] = rng.random() < 0.8
        hmeta.append(case)
    for case, o in zip(hmeta, impl.wrapper_options_batch([(c["helper"], c["eapi"], c["sh"]) for c in hmeta])):
        case["opts"] = o
    for case in hmeta:
        h, e, td = case["helper"], case["eapi"], case["tree_dir"]
        res, snap = impl.run(case, td, nonfatal=case["nonfatal"])
        if snap is None:
            case["pre"] = []
        case["show"] = {"helper": h, "eapi": e, "args": [a for a, _ in case["args"]], "sh": case["sh"],
                        "umask": oct(case["umask"]), "pre": [["/".join(s[0])] + list(map(str, s[1:])) for s in case["pre_spec"]],
                        "cat/pn:slot": f"{case['cat']}/{case['pn']}:{case['slot']}"}
        hcases.append((c_inv(case), res))
        if isinstance(res, Err):
            if res.kind in ("isdir", "badman", "nolinkname", "gate", "relabs", "missing", "nonexistent", "banned"):
                chk.nontrivial(("helper", h, e, tuple(a for a, _ in case["args"]), res.kind))
        elif snap is not None and len(snap) > len(case["pre"]):
            chk.nontrivial(("helper", h, e, tuple(a for a, _ in case["args"]), case["sh"]["desttree"], case["sh"]["insdesttree"]))
        # ownership asked for with -o/-g in insopts/exeopts/libopts (compared here; the image model has no owners)
        optvar = {"doins": "insoptions", "doexe": "exeoptions", "dolib": "liboptions"}.get(h)
        if optvar and snap is not None and not isinstance(res, Err):
            wu, wg = expected_owner(case["sh"][optvar])
            wu = os.geteuid() if wu is None else wu
            wg = os.getegid() if wg is None else wg
            for en in snap:
                if en[1] == 1 and (en[6], en[7]) != (wu, wg):
                    chk.violation("property", {"what": f"{h}: file {'/'.join(en[0])} owned by {en[6]}:{en[7]}, "
                                                       f"options ask for {wu}:{wg}", "input": case["show"]})
                    break
        # ownership of dobin/dosbin files (compared here, not modelled)
        if h in ("dobin", "dosbin") and snap is not None and not isinstance(res, Err) and os.geteuid() == 0:
            for en in snap:
                if en[1] == 1 and (en[6], en[7]) != (0, 0):
                    chk.violation("property", {"what": f"{h} did not give the file to the superuser", "input": case["show"]})
    chk.count("helper", len(hcases))
    for i in (0, len(hcases) // 3, 2 * len(hcases) // 3):
        chk.sample({"stream": "helper", "input": hmeta[i]["show"], "impl": hcases[i][1]})
    dist = {}
    for c, (_, r) in zip(hmeta, hcases):
        key = c["helper"] + ":" + (r.kind if isinstance(r, Err) else "ok")
        dist[key] = dist.get(key, 0) + 1
    chk.cov["distribution"] = dict(sorted(dist.items()))

    lap("helper")
    # ---- probe: fallback to install(1) for option strings the native path does not handle
    probe_tree = trees[0]
    files, _ = tree_names(probe_tree)
    pf = [f for f in files if not f.startswith("-") and not os.path.islink(os.path.join(probe_tree, f))][0]
    sh = gen_shvars(rng)
    sh.update(exedesttree="/opt/x", exeoptions="-m u=rwx,go=rx")
    case = {"helper": "doexe", "eapi": "7", "sh": sh, "cat": "cat", "pn": "pn", "slot": "0", "umask": 0o022,
            "pre_spec": [], "args": [(pf, describe(probe_tree, pf))]}
    res, snap = impl.run(case, probe_tree, nonfatal=False)
    chk.count("probe", 1)
    installed = snap is not None and any(e[0] == ("opt", "x", pf) and e[1] == 1 and e[2] == 0o755 for e in snap)
    if isinstance(res, Err) and installed:
        ex = {"helper": "doexe", "exeopts": "-m u=rwx,go=rx", "file": pf, "result": repr(res),
              "image_has_file_with_mode_0755": True}
        if not chk.known_finding("install-fallback-status", ex):
            chk.violation("property", {"what": "doexe with a symbolic mode installs the file through install(1) and "
                                               "then reports failure", "input": ex})
    elif isinstance(res, Err) or not installed:
        chk.violation("property", {"what": "doexe with a symbolic mode (install(1) fallback) did not install the file "
                                           "with the requested mode", "input": {"result": repr(res), "snapshot": str(snap)[:400]}})

    lap("probe")
    # ---- evaluate model and spec inside Coq
    if not can_eval:
        return
    import concurrent.futures as cf
    ex = cf.ThreadPoolExecutor(max_workers=6)
    futs = {
        "path": ex.submit(chk.coq_eval, "path", IMPORTS, "N * str * str", path_cases, ["mismatches run_path cases"]),
        "dosymr": ex.submit(chk.coq_eval, "dosymr", IMPORTS, "str * str", ds_cases,
                            ["mismatches run_dosymr cases", "where_ (fun i r => negb (spec_dosymr_ok i r)) cases"]),
        "gate": ex.submit(chk.coq_eval, "gate", IMPORTS, "str * str", gate_cases,
                          ["mismatches run_gate cases", "where_ (fun i r => negb (spec_gate_ok i r)) cases"]),
        "wrap": ex.submit(chk.coq_eval, "wrap", IMPORTS, "str * str * shvars", wrap_cases, ["mismatches run_wrap cases"]),
        "insopts": ex.submit(chk.coq_eval, "insopts", IMPORTS, "str", io_cases, ["mismatches run_insopts cases"]),
        "helper": ex.submit(chk.coq_eval, "helper", IMPORTS, "inv", hcases,
                            ["where_ (fun i r => negb (val_eqb (run_helper i) r) && negb (is_unmodelled (run_helper i))) cases",
                             "where_ (fun i r => negb (spec_helper_ok i r)) cases",
                             "where_ (fun i r => is_unmodelled (run_helper i)) cases"], 100),
    }
    r = futs["path"].result()
    if r is not None:
        report(chk, "path", path_cases, None, r[0], [], "")
    r = futs["dosymr"].result()
    for b in ds_py_bad[:3]:
        chk.violation("property", {"what": "dosym -r: the relative link does not resolve to the requested target", "input": b})
    if r is not None:
        for i in r[1][:3]:
            if not ds_py_bad:
                chk.violation("property", {"what": "Spec_C33.spec_dosymr_ok rejects the relative link",
                                           "input": ds_cases[i][0], "implementation": ds_cases[i][1]})
        report(chk, "dosymr", ds_cases, None, r[0], [], "")
    r = futs["gate"].result()
    if r is not None:
        report(chk, "gate", gate_cases, None, r[0], r[1], "EAPI gate / banned helper differs from PMS")
    r = futs["insopts"].result()
    if r is not None:
        report(chk, "insopts", io_cases, None, r[0], [], "")
    r = futs["wrap"].result()
    if r is not None:
        report(chk, "wrap", wrap_cases, wrap_meta, r[0], [], "")
    lap("coq_small")
    r = futs["helper"].result()
    if r is not None:
        report(chk, "helper", hcases, hmeta, r[0], r[1],
               "the image after the helper is not what PMS prescribes (Spec_C33.spec_helper_ok)")
        # an image symlink used as a directory component (the real filesystem follows it, the lexical image
        # model does not): not compared against the model; the reference has no prescription there either
        chk.cov["unmodelled_symlink_component_cases"] = len(r[2])
    lap("coq_helper")
