(* Spec_C06.v — the property's statement.

   [prop_eval] is the propositional formula a restriction tree denotes, written from the node
   names and not from the `match` loops: all-of = every child, any-of = some child,
   exactly-one-of = the number of true children is 1 (an exactly-one-of node WITHOUT children
   denotes "true": JustOneRestriction's documented contract "Exactly one must match, or there
   must be no restrictions", PMS empty-group rule), at-most-one-of = that number is <= 1; the
   node's `negate` flag and restriction.Negate are logical negation; a leaf is its proposition
   xor its own negate flag.  An any-of node without children denotes "false" (textbook empty
   disjunction) — which is what `match` computes and what the normal forms contradict, see
   [dnf_class]/[cnf_class].

   A clause list denotes OR-of-AND (dnf) / AND-of-OR (cnf) of its literals. *)
From Coq Require Import List NArith ZArith Bool Arith.
Import ListNotations.
From Verif Require Import Base.Val C06.Restr C06.Model_C06.

Fixpoint count_true (bs : list bool) : nat :=
  match bs with
  | [] => O
  | b :: r => (if b then 1 else 0) + count_true r
  end.
Definition is_nil {A} (l : list A) : bool := match l with [] => true | _ => false end.

Definition node_sem (k : kind) (neg : bool) (bs : list bool) : bool :=
  xorb neg
    (match k with
     | KAnd | KAtom => forallb (fun b => b) bs
     | KOr => existsb (fun b => b) bs
     | KJustOne => is_nil bs || Nat.eqb (count_true bs) 1
     | KAtMostOne => Nat.leb (count_true bs) 1
     end).

Fixpoint prop_eval (e : env) (r : restr) : bool :=
  match r with
  | Leaf n i => xorb (e i) n
  | Always b => b
  | Neg r' => negb (prop_eval e r')
  | Node k n cs => node_sem k n (map (prop_eval e) cs)
  end.

Definition sem_dnf (e : env) (s : list clause) : bool := existsb (forallb (prop_eval e)) s.
Definition sem_cnf (e : env) (s : list clause) : bool := forallb (existsb (prop_eval e)) s.

(* ---- known classes: where the normal forms of the (repaired) code do NOT denote the tree.
   The expansion reaches an any-of without alternatives — an OrRestriction node with no children,
   or the empty OrRestriction that the negate branch of an EMPTY AndRestriction builds — whose
   normal form is "true" ([[]] / []) while it matches nothing.  Only nodes the expansion actually
   opens count (children of negated nodes and of JustOne/AtMostOne are kept as literals). *)
Fixpoint dnf_class (fse : bool) (r : restr) : bool :=
  match r with
  | Node k n cs =>
      let and_c := if n then is_nil cs else existsb (dnf_class fse) cs in
      match k with
      | KAnd => and_c
      | KAtom => if fse then and_c else false
      | KOr => if n then false else is_nil cs || existsb (dnf_class fse) cs
      | _ => false
      end
  | _ => false
  end.
Fixpoint cnf_class (fse : bool) (r : restr) : bool :=
  match r with
  | Node k n cs =>
      let and_c := if n then false else existsb (cnf_class fse) cs in
      match k with
      | KAnd => and_c
      | KAtom => if fse then and_c else false
      | KOr => if n then false else is_nil cs || existsb (dnf_class fse) cs
      | _ => false
      end
  | _ => false
  end.

(* ---- executable acceptors run on the IMPLEMENTATION's results (comparison B, inside Coq) *)
(* every assignment of the listed leaf ids, as masks *)
Fixpoint spread (ids : list N) : list N :=
  match ids with
  | [] => [0%N]
  | i :: r => let s := spread r in s ++ map (fun m => N.lor m (N.shiftl 1 i)) s
  end.
Definition masks_of (m : list N * list N) : list N := spread (fst m) ++ snd m.

(* the recorded `match` results are the truth table of the propositional formula *)
Definition spec_match_ok (i : restr * list N) (res : val) : bool :=
  val_eqb res (VZ (Z.of_N (pack_bits 0 (map (fun m => prop_eval (env_of_mask m) (fst i)) (snd i))))).

(* the implementation's clause lists (when it produced some) denote the tree under every
   assignment of the listed masks *)
Definition spec_nf_ok (sem : env -> list clause -> bool) (r : restr) (ms : list N) (impl : option nf) : bool :=
  match impl with
  | Some (inl s) => forallb (fun m => Bool.eqb (sem (env_of_mask m) s) (prop_eval (env_of_mask m) r)) ms
  | _ => true
  end.

(* one case of the correspondence run: full-solution-expansion flag, tree, the universe's masks,
   the assignments to try (all assignments of some leaf ids + extra masks), extra literal table,
   the implementation's dnf_solutions / cnf_solutions (literals coded, see Model_C06.decode_lit);
   the recorded value is the implementation's match results over the universe (packed).
   Result: the codes of the checks that fail
     0  (A) match  differs from Restr.eval          1  (B) match differs from prop_eval
     2  (A) dnf_solutions differs from Model.dnf     3  (A) cnf_solutions differs from Model.cnf
     4  the tree is in dnf_class (informational)     5  the tree is in cnf_class (informational)
     6  (B) the implementation's dnf does not denote the tree
     7  (B) the implementation's cnf does not denote the tree *)
Definition all_input : Type :=
  (bool * restr * list N * (list N * list N) * list restr * (option nfc * option nfc))%type.
Definition check_all (i : all_input) (res : val) : list nat :=
  let '(fse, r, U, ms, extra, (d0, c0)) := i in
  let tbl := subterms r ++ extra in
  let d := decode_nf tbl d0 in
  let c := decode_nf tbl c0 in
  (if val_eqb (run_match (r, U)) res then [] else [0%nat]) ++
  (if spec_match_ok (r, U) res then [] else [1%nat]) ++
  (if has_nf r then
     (if nf_same (dnf fse r) d then [] else [2%nat]) ++
     (if nf_same (cnf fse r) c then [] else [3%nat]) ++
     (if dnf_class fse r then [4%nat] else []) ++
     (if cnf_class fse r then [5%nat] else []) ++
     (if spec_nf_ok sem_dnf r (masks_of ms) d then [] else [6%nat]) ++
     (if spec_nf_ok sem_cnf r (masks_of ms) c then [] else [7%nat])
   else []).
Fixpoint codes_from (i : nat) (cs : list (all_input * val)) : list nat :=
  match cs with
  | [] => []
  | (x, r) :: cs' => map (fun c => (i * 8 + c)%nat) (check_all x r) ++ codes_from (S i) cs'
  end.
Definition check_cases (cs : list (all_input * val)) : list nat := codes_from 0 cs.
