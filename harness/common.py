"""Shared machinery of every property check (see /verif/DESIGN.md §2 and /verif/HARNESS.md).

A check is `./check Cxx [--tier quick|thorough] [--replay FILE]`.  It
  1. regenerates source-derived tables and (re)builds the property's Coq closure,
  2. verifies `Print Assumptions` of every property theorem,
  3. fingerprints the anchored source,
  4. runs the correspondence: implementation (from $VERIF_REPO, default /repo) vs the
     Gallina model and vs the Gallina spec, evaluated INSIDE Coq by vm_compute in generated
     cases files, plus the property's direct oracle on the implementation,
  5. classifies disagreements against /verif/known_findings/Cxx.json,
  6. writes evidence/Cxx.json, prints KNOWN-FINDING / VIOLATION lines, exits 0/1.
"""

from __future__ import annotations

import ast
import concurrent.futures as cf
import hashlib
import json
import os
import random
import re
import shutil
import subprocess
import sys
import tempfile
import time
import traceback
from pathlib import Path

VERIF = Path(__file__).resolve().parent.parent
COQ = VERIF / "coq"
REPO = Path(os.environ.get("VERIF_REPO", "/repo"))
SRC = REPO / "src" / "pkgcore"

COQC_TIMEOUT = int(os.environ.get("VERIF_COQC_TIMEOUT", "900"))
MAKE_TIMEOUT = int(os.environ.get("VERIF_MAKE_TIMEOUT", "2400"))

KERNEL_TB = [
    "Coq 8.16.1 kernel incl. vm_compute (no native_compute)",
    "coqc parsing of the numeric/list literals in generated cases_*.v",
    "harness/common.py + the property's harness module (generator, implementation driver, canonicaliser)",
    "hand-written Gallina model tied to the code only by the correspondence run of this check",
]


# --------------------------------------------------------------------------- Coq literals
class Err:
    """An exception raised by the implementation, mapped to a small enum."""

    def __init__(self, kind: str):
        self.kind = kind

    def __repr__(self):
        return f"Err({self.kind!r})"

    def __eq__(self, o):
        return isinstance(o, Err) and o.kind == self.kind

    def __hash__(self):
        return hash(("Err", self.kind))


def cN(n: int) -> str:
    return f"{int(n)}%N"


def cZ(n: int) -> str:
    n = int(n)
    return f"({n})%Z" if n < 0 else f"{n}%Z"


def cnat(n: int) -> str:
    assert 0 <= n < 5000, "never write a large nat literal"
    return f"{int(n)}%nat"


def cbool(b) -> str:
    return "true" if b else "false"


def cstr(s) -> str:
    """Python str (code points) or bytes -> Coq `list N` literal."""
    if isinstance(s, str):
        cps = [ord(c) for c in s]
    else:
        cps = list(s)
    if not cps:
        return "(@nil N)"
    return "[" + ";".join(str(c) for c in cps) + "]%N"


def clist(items, ty: str | None = None) -> str:
    """list of already-rendered Coq terms -> list literal; `ty` is needed when it may be empty."""
    items = list(items)
    if not items:
        return f"(@nil ({ty}))" if ty else "[]"
    return "[" + "; ".join(items) + "]"


def copt(x, render=lambda t: t, ty: str | None = None) -> str:
    if x is None:
        return f"(@None ({ty}))" if ty else "None"
    return f"(Some {render(x)})"


def cpair(*xs) -> str:
    return "(" + ", ".join(xs) + ")"


def cval(x) -> str:
    """Python value -> Coq term of type Base.Val.val (the canonical result type)."""
    if isinstance(x, Err):
        return f"(VErr {cstr(x.kind)})"
    if x is None:
        return "VNone"
    if isinstance(x, bool):
        return f"(VB {cbool(x)})"
    if isinstance(x, int):
        return f"(VZ {cZ(x)})"
    if isinstance(x, (str, bytes)):
        return f"(VS {cstr(x)})"
    if isinstance(x, (list, tuple)):
        return "(VL " + clist([cval(i) for i in x], "val") + ")"
    raise TypeError(f"cannot canonicalise {type(x)} into val: {x!r}")


def jsonable(x):
    if isinstance(x, Err):
        return {"error": x.kind}
    if isinstance(x, bytes):
        return {"bytes": x.hex()}
    if isinstance(x, (list, tuple)):
        return [jsonable(i) for i in x]
    if isinstance(x, dict):
        return {str(k): jsonable(v) for k, v in x.items()}
    if isinstance(x, (set, frozenset)):
        return sorted((jsonable(i) for i in x), key=repr)
    if isinstance(x, (str, int, float, bool)) or x is None:
        return x
    return repr(x)


def impl_call(f, *a, kinds=None, **kw):
    """Run implementation code; exceptions become Err(kind).  `kinds` optionally maps
    exception class names to the enum the model uses (default: the class name)."""
    try:
        return f(*a, **kw)
    except Exception as e:  # noqa: BLE001 - the point is to canonicalise every failure
        name = type(e).__name__
        if kinds is not None:
            name = kinds.get(name, kinds.get("*", name))
        return Err(name)


# --------------------------------------------------------------------------- source fingerprint
def _norm_ast_dump(node) -> str:
    return ast.dump(node, annotate_fields=False, include_attributes=False)


def fingerprint(specs) -> dict:
    """specs: list of 'relative/file.py' or 'relative/file.py::Class.method' / '::func'
    (relative to $VERIF_REPO/src/pkgcore) or bash files.  Returns {spec: sha256}."""
    out = {}
    for spec in specs:
        path, _, qual = spec.partition("::")
        p = SRC / path
        try:
            text = p.read_text()
        except OSError:
            out[spec] = "missing"
            continue
        if not qual or not path.endswith(".py"):
            out[spec] = hashlib.sha256(text.encode()).hexdigest()[:16]
            continue
        try:
            tree = ast.parse(text)
        except SyntaxError:
            out[spec] = "syntax-error"
            continue
        node = tree
        found = True
        for part in qual.split("."):
            nxt = None
            for ch in ast.iter_child_nodes(node):
                if isinstance(ch, (ast.FunctionDef, ast.AsyncFunctionDef, ast.ClassDef)) and ch.name == part:
                    nxt = ch
                    break
                if isinstance(ch, ast.Assign) and any(
                    isinstance(t, ast.Name) and t.id == part for t in ch.targets
                ):
                    nxt = ch
                    break
                if isinstance(ch, ast.AnnAssign) and isinstance(ch.target, ast.Name) and ch.target.id == part:
                    nxt = ch
                    break
            if nxt is None:
                found = False
                break
            node = nxt
        out[spec] = (
            hashlib.sha256(_norm_ast_dump(node).encode()).hexdigest()[:16] if found else "missing"
        )
    return out


# --------------------------------------------------------------------------- the check object
class Check:
    def __init__(self, pid: str, tier: str | None = None, replay: str | None = None):
        self.pid = pid
        self.tier = tier or os.environ.get("VERIF_TIER") or "quick"
        if self.tier not in ("quick", "thorough"):
            self.tier = "quick"
        try:
            self.seed = int(os.environ.get("VERIF_SEED", "0"))
        except ValueError:
            self.seed = 0
        self.rng = random.Random(f"{pid}/{self.seed}")
        self.replay_file = replay
        self.t0 = time.time()
        self.scratch = Path(tempfile.mkdtemp(prefix=f"verif_{pid}_"))
        self.violations: list[dict] = []
        self.known_seen: dict[str, object] = {}
        self.obligations: list[dict] = []  # {name, ok, axioms}
        self.cov: dict = {
            "evaluations": 0,
            "distinct_nontrivial": 0,
            "rule": "",
            "samples": [],
            "streams": {},
        }
        self._nontrivial: set = set()
        self.assumptions_txt: list[str] = []
        self.notes: list[str] = []
        self.fingerprint_changed = False
        self.known = self._load_known()

    # ---- tiers
    @property
    def thorough(self) -> bool:
        return self.tier == "thorough"

    def n(self, quick: int, thorough: int) -> int:
        """Case budget; a changed fingerprint escalates quick to thorough (DESIGN §2 step 3)."""
        if self.thorough:
            return thorough
        if self.fingerprint_changed:
            # changed anchored code: spend more on the correspondence, but stay within a
            # quick-tier time frame (3x the quick budget, never above the thorough one)
            return min(thorough, quick * 3)
        return quick

    # ---- known findings
    def _load_known(self) -> dict:
        p = VERIF / "known_findings" / f"{self.pid}.json"
        if not p.exists():
            return {}
        data = json.loads(p.read_text())
        return {f["class_id"]: f for f in data.get("findings", [])}

    def known_finding(self, class_id: str, example) -> bool:
        """Report that a property failure falling in a *listed* known class was reproduced.
        Returns False (and the caller must report a violation) when the class is not listed."""
        if class_id in self.known:
            self.known_seen.setdefault(class_id, jsonable(example))
            return True
        return False

    # ---- coverage bookkeeping
    def count(self, stream: str, n: int = 1):
        self.cov["evaluations"] += n
        self.cov["streams"][stream] = self.cov["streams"].get(stream, 0) + n

    def nontrivial(self, key):
        """Register one DISTINCT non-trivial case (by the property's stated rule)."""
        self._nontrivial.add(key if isinstance(key, (str, int, tuple)) else repr(key))

    def sample(self, x, limit: int = 6):
        if len(self.cov["samples"]) < limit:
            self.cov["samples"].append(jsonable(x))

    def rule(self, text: str):
        self.cov["rule"] = text

    def note(self, text: str):
        self.notes.append(text)

    # ---- violations
    def violation(self, kind: str, detail: dict, no_input: bool = False):
        """kind: 'property' (a concrete failing input/history is in detail['input']),
        'correspondence' / 'proof' / 'table' (tie broken, no failing input found)."""
        self.violations.append({"kind": kind, "detail": jsonable(detail), "no_input": bool(no_input)})

    # ---- fingerprint
    def check_fingerprint(self, specs):
        cur = fingerprint(specs)
        p = VERIF / "fingerprints" / f"{self.pid}.json"
        ref = json.loads(p.read_text()) if p.exists() else None
        if ref is not None and ref != cur:
            self.fingerprint_changed = True
            self.note("anchored source changed since the fingerprint was recorded: "
                      + ", ".join(k for k in cur if ref.get(k) != cur[k]))
        self.cov["fingerprint"] = cur
        self.cov["fingerprint_changed"] = self.fingerprint_changed
        if os.environ.get("VERIF_RECORD_FINGERPRINT") == "1":
            p.parent.mkdir(exist_ok=True)
            p.write_text(json.dumps(cur, indent=1, sort_keys=True) + "\n")
        return cur

    # ---- Coq build
    def build(self, targets, what="property closure") -> bool:
        """(Re)build .vo targets (paths relative to coq/) under a lock; a failure is a broken
        proof obligation and is recorded as such (the caller goes on to search for an input)."""
        targets = list(targets)
        mk = COQ / "Makefile"
        if not mk.exists() or _project_stale():
            r = subprocess.run(["flock", str(COQ / ".build.lock"), str(VERIF / "tools" / "mkproject.sh")],
                               capture_output=True, text=True)
            if r.returncode != 0:
                self.violation("proof", {"what": "cannot regenerate coq Makefile", "stderr": r.stderr[-2000:]}, True)
                return False
        cmd = ["flock", str(COQ / ".build.lock"), "timeout", str(MAKE_TIMEOUT),
               "make", "-C", str(COQ), "-j8", "--no-print-directory"] + targets
        r = subprocess.run(cmd, capture_output=True, text=True)
        if r.returncode != 0:
            m = re.search(r'File "([^"]+)", line (\d+)', r.stderr)
            self.violation(
                "proof",
                {"what": f"Coq build of {what} failed: a proof obligation no longer checks",
                 "file": m.group(1) if m else None, "line": int(m.group(2)) if m else None,
                 "targets": targets, "stderr": r.stderr[-3000:]},
                True,
            )
            return False
        return True

    def check_assumptions(self, prop_v: str, allowed=()) -> bool:
        """Re-run coqc on Cxx/Prop_Cxx.v and check every `Print Assumptions` answer."""
        src = (COQ / prop_v).read_text()
        names = re.findall(r"Print Assumptions\s+([A-Za-z0-9_.']+)\s*\.", src)
        tmp = self.scratch / "prop" / Path(prop_v).name
        tmp.parent.mkdir(exist_ok=True)
        tmp.write_text(src)
        r = subprocess.run(
            ["timeout", str(COQC_TIMEOUT), "coqc", "-R", str(COQ), "Verif", str(tmp)],
            capture_output=True, text=True, cwd=tmp.parent)
        if r.returncode != 0:
            self.violation("proof", {"what": f"{prop_v} no longer compiles", "stderr": r.stderr[-3000:]}, True)
            for nme in names:
                self.obligations.append({"name": nme, "ok": False, "axioms": None})
            return False
        out = r.stdout
        blocks = re.split(r"(?=Closed under the global context|Axioms:)", out)
        blocks = [b for b in blocks if b.startswith(("Closed under", "Axioms:"))]
        ok_all = True
        if len(blocks) != len(names) or not names:
            self.violation("proof", {"what": f"{prop_v}: {len(names)} Print Assumptions but {len(blocks)} answers"}, True)
            return False
        for nme, b in zip(names, blocks):
            if b.startswith("Closed under"):
                self.obligations.append({"name": nme, "ok": True, "axioms": []})
            else:
                axs = re.findall(r"^([A-Za-z0-9_.']+)\s*:", b, flags=re.M)
                bad = [a for a in axs if a not in allowed and a.split(".")[-1] not in allowed]
                self.obligations.append({"name": nme, "ok": not bad, "axioms": axs})
                if bad:
                    ok_all = False
                    self.violation("proof", {"what": f"theorem {nme} depends on unlisted axioms", "axioms": bad}, True)
        self.assumptions_txt.append(out.strip()[-4000:])
        return ok_all

    def lint(self, subdirs) -> bool:
        r = subprocess.run([sys.executable, str(VERIF / "tools" / "lint.py")] + [str(COQ / d) for d in subdirs],
                           capture_output=True, text=True)
        if r.returncode != 0:
            self.violation("proof", {"what": "lint: forbidden vernacular in the development", "out": r.stdout[-2000:]}, True)
            return False
        return True

    # ---- evaluating the model / spec inside Coq
    def coq_eval(self, name: str, imports: str, ty: str, cases, evals, shard: int = 400, preamble: str = ""):
        """cases: list of (input_term:str, recorded_result:python value or pre-rendered 'val' term str
        wrapped in Raw).  evals: list of Coq expressions of type `list nat` mentioning `cases`
        (e.g. 'mismatches run_case cases').  Returns one list of global indices per eval.
        On a Coq failure returns None after recording a violation."""
        cases = list(cases)
        shards = [cases[i:i + shard] for i in range(0, len(cases), shard)] or [[]]
        files = []
        for k, sh in enumerate(shards):
            body = [imports, "Import ListNotations.", preamble,
                    f"Definition cases : list (({ty}) * val) := "]
            rows = []
            for inp, res in sh:
                rows.append(f"  ({inp},\n   {res.term if isinstance(res, Raw) else cval(res)})")
            body.append("[\n" + ";\n".join(rows) + "\n]." if rows else f"(@nil (({ty}) * val)).")
            for e in evals:
                body.append(f"Eval vm_compute in ({e}).")
            f = self.scratch / f"cases_{name}_{k}.v"
            f.write_text("\n".join(body) + "\n")
            files.append(f)

        def run(f):
            r = subprocess.run(
                ["timeout", str(COQC_TIMEOUT), "coqc", "-R", str(COQ), "Verif", "-Q", str(self.scratch), "Cases", str(f)],
                capture_output=True, text=True, cwd=self.scratch)
            return r

        res = [[] for _ in evals]
        with cf.ThreadPoolExecutor(max_workers=min(12, len(files))) as ex:
            outs = list(ex.map(run, files))
        for k, (f, r) in enumerate(zip(files, outs)):
            if r.returncode != 0:
                keep = VERIF / "replay" / f"{self.pid}-{self.seed}-cases_{name}_{k}.v"
                keep.parent.mkdir(exist_ok=True)
                shutil.copy(f, keep)
                self.violation("correspondence",
                               {"what": f"cases file for stream '{name}' does not evaluate in Coq",
                                "file": str(keep), "stderr": r.stderr[-3000:]}, True)
                return None
            parts = re.findall(r"=\s*(.*?)\s*:\s*list nat", r.stdout, flags=re.S)
            if len(parts) != len(evals):
                self.violation("correspondence", {"what": "unexpected coqc output", "stdout": r.stdout[-2000:]}, True)
                return None
            for j, ptxt in enumerate(parts):
                res[j].extend(k * shard + int(x) for x in re.findall(r"\d+", ptxt.replace("%nat", "")))
        self.cov["coq_case_files"] = self.cov.get("coq_case_files", 0) + len(files)
        return res

    # ---- finishing
    def finish(self) -> int:
        wall = time.time() - self.t0
        self.cov["distinct_nontrivial"] = len(self._nontrivial)
        n_obl = len(self.obligations)
        n_ok = sum(1 for o in self.obligations if o["ok"])
        self.cov["obligations"] = n_obl
        self.cov["discharged"] = n_ok
        self.cov["theorems"] = self.obligations
        self.cov.setdefault("checker_cmd", f"make -C coq (coqc 8.16.1, full .vo) + coqc {self.pid}/Prop_{self.pid}.v (Print Assumptions)")
        self.cov.setdefault("trusted_base", KERNEL_TB)
        self.cov["known_findings_seen"] = sorted(self.known_seen)
        self.cov["notes"] = self.notes
        lines = []
        rc = 0
        for cid, ex in sorted(self.known_seen.items()):
            lines.append(f"KNOWN-FINDING: property={self.pid} {cid}: {self.known[cid]['what']}")
        if self.violations:
            rc = 1
            rp = VERIF / "replay"
            rp.mkdir(exist_ok=True)
            self.violations.sort(key=lambda v: (v["kind"] != "property", v["no_input"]))
            for i, v in enumerate(self.violations[:20]):
                path = rp / f"{self.pid}-{self.seed}-{i}.json"
                path.write_text(json.dumps(
                    {"property": self.pid, "seed": self.seed, "tier": self.tier, **v}, indent=1) + "\n")
                tail = " no-failing-input-found" if v["no_input"] else ""
                lines.append(f"VIOLATION property={self.pid} replay={path}{tail}")
        ev = {
            "property_id": self.pid,
            "tier": self.tier,
            "seed": self.seed,
            "level": "proof",
            "coverage": self.cov,
            "assumptions": [
                "the Gallina model mirrors the anchored code only as far as this run's correspondence exercised it",
                "implementation driven from " + str(REPO) + " with PYTHONHASHSEED=0",
            ] + self.notes,
            "wall_s": round(wall, 2),
            "violations": len(self.violations),
        }
        (VERIF / "evidence").mkdir(exist_ok=True)
        (VERIF / "evidence" / f"{self.pid}.json").write_text(json.dumps(ev, indent=1) + "\n")
        for ln in lines:
            print(ln)
        print(f"[{self.pid}] tier={self.tier} seed={self.seed} obligations={n_ok}/{n_obl} "
              f"evaluations={self.cov['evaluations']} nontrivial={self.cov['distinct_nontrivial']} "
              f"known={len(self.known_seen)} violations={len(self.violations)} wall={wall:.1f}s")
        shutil.rmtree(self.scratch, ignore_errors=True)
        return rc


class Raw:
    """A pre-rendered Coq term of type val."""

    def __init__(self, term: str):
        self.term = term


def _project_stale() -> bool:
    proj = COQ / "_CoqProject"
    if not proj.exists():
        return True
    listed = {l.strip() for l in proj.read_text().splitlines() if l.strip().endswith(".v")}
    actual = {str(p.relative_to(COQ)) for p in COQ.rglob("*.v") if "cases" not in p.parts}
    return listed != actual


def shrink_list(xs, fails, min_len=0):
    """ddmin-lite: remove chunks / single elements of xs while `fails(xs)` stays true."""
    xs = list(xs)
    n = 2
    while len(xs) > min_len and n <= max(2, len(xs)):
        chunk = max(1, len(xs) // n)
        reduced = False
        for i in range(0, len(xs), chunk):
            cand = xs[:i] + xs[i + chunk:]
            if len(cand) >= min_len and fails(cand):
                xs = cand
                n = max(n - 1, 2)
                reduced = True
                break
        if not reduced:
            if chunk == 1:
                break
            n = min(len(xs), n * 2)
    return xs


def main_entry(pid: str, argv):
    import argparse
    import importlib

    ap = argparse.ArgumentParser()
    ap.add_argument("--tier", default=None)
    ap.add_argument("--replay", default=None)
    a = ap.parse_args(argv)
    chk = Check(pid, a.tier, a.replay)
    try:
        mod = importlib.import_module(f"harness.{pid.lower()}")
        if a.replay:
            data = json.loads(Path(a.replay).read_text())
            print(json.dumps(data, indent=1))
            if hasattr(mod, "replay"):
                mod.replay(chk, data)
            shutil.rmtree(chk.scratch, ignore_errors=True)
            return 0
        mod.main(chk)
    except Exception:  # noqa: BLE001
        chk.violation("harness-exception",
                      {"what": "the check itself raised; on the unchanged tree this does not happen, so the "
                               "tie between model and code no longer checks",
                       "traceback": traceback.format_exc()[-4000:]}, True)
    return chk.finish()
