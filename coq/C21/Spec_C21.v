(* C21 — the statement, written without looking at the triggers' algorithm.

   Vocabulary: a tree / contents set is a path-keyed map (Model_C21.pmap); [prot] and [ign] are the
   CONFIG_PROTECT∖CONFIG_PROTECT_MASK and COLLISION_IGNORE predicates on offset-relative locations
   (arbitrary in the theorems; the model's instances are protect_filter / ignore_filter).        *)
From Coq Require Import List NArith ZArith Bool.
Import ListNotations.
From Verif Require Import Base.Val C22.Model_C22 C21.Model_C21.

(* P is a live regular file with content d, under CONFIG_PROTECT, not masked, not ignored *)
Definition protected_file (prot ign : str -> bool) (off : str) (fs : pmap) (P : str) (d : fdata) : Prop :=
  pm_get P fs = Some (File d) /\ prot (strip_off off P) = true /\ ign (strip_off off P) = false.

(* the incoming entry for P differs from the live file (a non-file always differs) *)
Definition incoming_differs (inst : pmap) (P : str) (d : fdata) (n : node) : Prop :=
  In (P, n) inst /\ same_content n (File d) = false.

(* the package recorded P with a content other than the live one *)
Definition differs_from_recorded (recorded : pmap) (P : str) (d : fdata) : Prop :=
  exists r, pm_get P recorded = Some r /\ same_content r (File d) = false.

(* x = "._cfgNNNN_<fname>" (NNNN four decimal digits = c) is a regular file of directory dir *)
Definition pending_update (fs : pmap) (dir fname : str) (c : Z) (x : str) (content : node) : Prop :=
  In x (cfg_listing fs dir) /\ parse_cfg x = Some (c, fname) /\ content = live_at fs (pjoin dir x).

(* the numbering rule of the statement for the number c given to the incoming entry n *)
Definition numbering_rule (fs : pmap) (dir fname : str) (n : node) (c : Z) : Prop :=
  (exists x content, pending_update fs dir fname c x content /\ same_content content n = true)
  \/ ((0 <= c)%Z /\
      forall c' x content, pending_update fs dir fname c' x content ->
                           same_content content n = false /\ (c' < c)%Z).

(* a well-formed incoming package: one entry per location, none of them named ._cfg… *)
Definition pkg_ok (inst : pmap) : Prop :=
  NoDup (map fst inst) /\ forall e, In e inst -> starts_with cfgp (basename (fst e)) = false.

(* a location splits into directory and name and joins back: true of every normalised path that does
   not end in a slash ("/etc/foo", "/foo", "/o/etc/x/a.conf") *)
Definition wf_locb (p : str) : bool :=
  nonempty (basename p) && str_eqb (pjoin (dirname p) (basename p)) p.
Definition locs_wf (inst : pmap) : bool := forallb (fun e => wf_locb (fst e)) inst.

(* ---------------------------------------------------------------- the filters, declaratively *)
(* p lies strictly below the directory entry x: normpath x without trailing slashes, a "/", anything *)

Definition below_dir (x p : str) : Prop := exists rest, p = rstrip_sl (normpath x) ++ SL :: rest.
Definition protect_entries (e : list envfile) (xp : list str) : list str := collapsed true k_cp e ++ xp ++ [etc].
Definition mask_entries (e : list envfile) (xm : list str) : list str := collapsed true k_cpm e ++ xm.
Definition env_word (e : list envfile) (k w : str) : Prop :=
  exists f v, In f (envd_files e) /\ assoc k (snd f) = Some v /\
              In w ((if declared k_colon k e then split_colon else split_ws) v).
(* shell-pattern matching of a whole string (fnmatch): * any run of characters (slashes included),
   ? any one character, [..] / [!..] one character in / not in the ranges *)
Inductive glob : list pitem -> str -> Prop :=
| g_nil : glob [] []
| g_star_skip r s : glob r s -> glob (PStar :: r) s
| g_star_eat r c s : glob (PStar :: r) s -> glob (PStar :: r) (c :: s)
| g_item it r c s : it <> PStar -> item_ok it c = true -> glob r s -> glob (it :: r) (c :: s).
Definition glob_pat (pat s : str) : Prop := glob (parse_pat (S (length pat)) pat) s.
Definition plain (c : N) : bool := negb (N.eqb c 42) && negb (N.eqb c 63) && negb (N.eqb c 91).
(* x as gen_collision_ignore_filter rewrites it: a directory of the live tree becomes "dir/*" *)
Definition ignore_entry_pat (off : str) (fs : pmap) (x : str) : str :=
  if negb (ends_with slash_star x) && is_dir fs (pjoin off (lstrip_sl x)) then rstrip_sl x ++ slash_star else x.
Definition ignore_entries (e : list envfile) (xi : list str) : list str :=
  collapsed false k_ci e ++ xi ++ [keep1; keep2].
