(* Dnf_C08.v — lemmas about the normal form C06.Model_C06.dnf used by the candidate search. *)
From Coq Require Import List NArith ZArith Bool Sorting.Sorted Sorting.Permutation.
Import ListNotations.
From Verif Require Import Base.Val C06.Restr C06.RestrInd C06.Model_C06 C06.Proofs_C06
  C08.Ord_C08 C08.Model_C08 C08.Spec_C08.

Lemma mem_str_In s l : mem_str s l = true <-> In s l.
Proof.
  unfold mem_str. rewrite existsb_exists. split.
  - intros [x [Hin He]]. apply str_eqb_eq in He. now subst.
  - intros H. exists s. split; [assumption|apply str_eqb_refl].
Qed.
Lemma dedup_In s l : In s (dedup l) <-> In s l.
Proof.
  induction l as [|x l IH]; cbn; [tauto|].
  destruct (mem_str x l) eqn:E.
  - rewrite IH. apply mem_str_In in E. split; [auto|]. intros [<-|H]; auto.
  - cbn. rewrite IH. tauto.
Qed.
Lemma dedup_NoDup_proof l : NoDup (dedup l).
Proof.
  induction l as [|x l IH]; cbn; [constructor|].
  destruct (mem_str x l) eqn:E; [assumption|].
  constructor; [|assumption]. rewrite dedup_In. intros H. apply mem_str_In in H. congruence.
Qed.

(* ================================================================== 1. facts about C06's dnf *)
(* 1a. the normal form is implied by the tree (for EVERY tree, including the two classes on which
   C06 shows it is not equivalent: there it only over-approximates) *)
Section DnfVal.
  Variable e : env.
  Definition cvalb (cd : restr * nf) : bool :=
    if has_nf (fst cd) then match snd cd with inl s => eval_dnf e s | inr _ => false end
    else eval e (fst cd).

  Lemma and_dnf_loop_val l : forall hard opts s, and_dnf_loop hard opts l = inl s ->
    eval_dnf e s = forallb (eval e) hard && forallb (eval_dnf e) opts && forallb cvalb l.
  Proof.
    induction l as [|[c d] l IH]; intros hard opts s Hs; cbn [and_dnf_loop] in Hs.
    - injection Hs as <-. rewrite eval_dnf_product, eval_dnf_single. cbn. now rewrite andb_true_r.
    - cbn [forallb]. unfold cvalb at 1. cbn [fst snd]. destruct (has_nf c) eqn:Hn.
      + destruct d as [[|cl [|cl2 s2]]|err]; try discriminate.
        * rewrite (IH _ _ _ Hs), forallb_app, eval_dnf_single.
          repeat rewrite <- andb_assoc. f_equal.
          rewrite andb_comm. repeat rewrite <- andb_assoc. f_equal. apply andb_comm.
        * rewrite (IH _ _ _ Hs), forallb_app. cbn [forallb]. rewrite andb_true_r.
          repeat rewrite <- andb_assoc. reflexivity.
      + rewrite (IH _ _ _ Hs), forallb_app. cbn [forallb]. rewrite andb_true_r.
        repeat rewrite <- andb_assoc. f_equal.
        rewrite andb_comm. repeat rewrite <- andb_assoc. f_equal. apply andb_comm.
  Qed.

  Lemma concat_nf_val l : forall s, concat_nf l = inl s -> eval_dnf e s = existsb cvalb l.
  Proof.
    induction l as [|[c d] l IH]; intros s Hs; cbn [concat_nf] in Hs.
    - injection Hs as <-. reflexivity.
    - cbn [existsb]. unfold cvalb at 1. cbn [fst snd]. destruct (has_nf c) eqn:Hn.
      + destruct d as [s1|]; [|discriminate]. destruct (concat_nf l) as [s'|]; [|discriminate].
        injection Hs as <-. rewrite eval_dnf_app, (IH _ eq_refl). reflexivity.
      + destruct (concat_nf l) as [s'|]; [|discriminate].
        injection Hs as <-. cbn [app].
        change (eval_dnf e ([c] :: s')) with (forallb (eval e) [c] || eval_dnf e s').
        rewrite (IH _ eq_refl). cbn. now rewrite andb_true_r.
  Qed.

  Definition dnfc_P (r : restr) : Prop :=
    forall s, dnf true r = inl s -> eval e r = true -> eval_dnf e s = true.

  Lemma cvalb_children cs : Forall dnfc_P cs ->
    forall c, In c cs -> eval e c = true -> cvalb (c, dnf true c) = true.
  Proof.
    intros IH c Hin Hev. unfold cvalb. cbn [fst snd]. destruct (has_nf c); [|assumption].
    destruct (dnf_never_refuses_proof true c) as [sc [Hsc _]]. rewrite Hsc.
    rewrite Forall_forall in IH. exact (IH c Hin sc Hsc Hev).
  Qed.

  Lemma and_dnf_complete n cs : Forall dnfc_P cs ->
    forall s, and_dnf n cs (map (fun c => (c, dnf true c)) cs) = inl s ->
    and_loop n (map (eval e) cs) = true -> eval_dnf e s = true.
  Proof.
    intros IH s Hs Hev. rewrite eval_and in Hev. unfold and_dnf in Hs. destruct n.
    - destruct cs as [|c cs]; [injection Hs as <-; reflexivity|]. injection Hs as <-.
      change (eval_dnf e (map (fun c0 => [Neg c0]) (c :: cs)) = true).
      unfold eval_dnf. rewrite existsb_map'.
      rewrite (existsb_ext' _ (fun x => negb (eval e x))).
      + rewrite existsb_negb. exact Hev.
      + intros x. cbn. now rewrite andb_true_r.
    - destruct cs as [|c cs]; [injection Hs as <-; reflexivity|].
      rewrite (and_dnf_loop_val _ _ _ _ Hs). cbn [forallb andb].
      rewrite xorb_false_l in Hev. rewrite forallb_forall in *.
      intros [c' d'] Hin. apply in_map_iff in Hin as [c0 [Heq Hin]]. injection Heq as <- <-.
      apply (cvalb_children _ IH c0 Hin). exact (Hev c0 Hin).
  Qed.

  Theorem dnf_complete_proof : forall r s, dnf true r = inl s -> eval e r = true -> eval_dnf e s = true.
  Proof.
    intros r. apply (restr_ind' dnfc_P); unfold dnfc_P.
    - intros n i s Hs Hev. injection Hs as <-. rewrite eval_dnf_single. cbn [forallb]. now rewrite Hev.
    - intros b s Hs Hev. injection Hs as <-. rewrite eval_dnf_single. cbn [forallb]. now rewrite Hev.
    - intros r' _ s Hs Hev. injection Hs as <-. rewrite eval_dnf_single. cbn [forallb]. now rewrite Hev.
    - intros k n cs IH s Hs Hev.
      assert (Hself : forall s, (inl [[Node k n cs]] : nf) = inl s -> eval_dnf e s = true).
      { intros s0 H0. injection H0 as <-. rewrite eval_dnf_single. cbn [forallb]. now rewrite Hev. }
      cbn [dnf] in Hs. cbn [eval node_match] in Hev. destruct k.
      + exact (and_dnf_complete n cs IH s Hs Hev).
      + rewrite eval_or in Hev. unfold or_dnf in Hs. destruct n.
        * injection Hs as <-. rewrite eval_dnf_single, forallb_map'.
          rewrite (forallb_ext' _ (fun x => negb (eval e x))); [|reflexivity].
          rewrite forallb_negb. exact Hev.
        * destruct cs as [|c cs]; [discriminate|]. rewrite xorb_false_l in Hev.
          rewrite (concat_nf_val _ _ Hs). apply existsb_exists in Hev as [c0 [Hin Hc0]].
          apply existsb_exists. exists (c0, dnf true c0). split.
          -- apply in_map_iff. exists c0. auto.
          -- exact (cvalb_children _ IH c0 Hin Hc0).
      + now apply Hself.
      + now apply Hself.
      + exact (and_dnf_complete n cs IH s Hs Hev).
  Qed.
End DnfVal.

(* 1b. which literals occur in the clauses of dnf true r *)
Fixpoint tree_lits (r : restr) : list restr :=
  match r with
  | Node (KAnd | KOr | KAtom) n cs => if n then map Neg cs else flat_map tree_lits cs
  | _ => [r]
  end.

Lemma cross_lits a b x : a <> [] -> b <> [] ->
  (In x (concat (cross a b)) <-> In x (concat a) \/ In x (concat b)).
Proof.
  intros Ha Hb. unfold cross. rewrite in_concat. split.
  - intros [cl [Hcl Hx]]. apply in_flat_map in Hcl as [n [Hn Hcl]].
    apply in_map_iff in Hcl as [n2 [<- Hn2]]. apply in_app_iff in Hx as [Hx|Hx].
    + left. apply in_concat. eauto.
    + right. apply in_concat. eauto.
  - intros [H|H]; apply in_concat in H as [cl [Hcl Hx]].
    + destruct b as [|n2 b]; [congruence|]. exists (cl ++ n2). split.
      * apply in_flat_map. exists cl. split; [assumption|]. apply in_map_iff. exists n2. split; [reflexivity|now left].
      * apply in_app_iff. now left.
    + destruct a as [|n a]; [congruence|]. exists (n ++ cl). split.
      * apply in_flat_map. exists n. split; [now left|]. apply in_map_iff. exists cl. auto.
      * apply in_app_iff. now right.
Qed.

Lemma product_lits others : forall a x, a <> [] -> Forall (fun o => o <> []) others ->
  (In x (concat (product a others)) <-> In x (concat a) \/ In x (concat (concat others))).
Proof.
  induction others as [|o os IH]; intros a x Ha Ho; cbn [product].
  - cbn. tauto.
  - inversion Ho as [|? ? Hne Hos]; subst.
    rewrite cross_lits; [|assumption|apply product_nonempty; assumption].
    rewrite (IH o x Hne Hos). cbn [concat]. rewrite concat_app, in_app_iff. tauto.
Qed.

Definition clits (cd : restr * nf) : list restr :=
  if has_nf (fst cd) then match snd cd with inl s => concat s | inr _ => [] end else [fst cd].

Lemma and_dnf_loop_lits l : Forall child_total l -> forall hard opts s,
  Forall (fun o => o <> []) opts -> and_dnf_loop hard opts l = inl s ->
  forall x, In x (concat s) <-> In x hard \/ In x (concat (concat opts)) \/ In x (flat_map clits l).
Proof.
  induction 1 as [|[c d] l Hc Hl IH]; intros hard opts s Ho Hs x; cbn [and_dnf_loop] in Hs.
  - injection Hs as <-. rewrite product_lits; [|congruence|assumption]. cbn. rewrite app_nil_r. tauto.
  - cbn [flat_map]. rewrite in_app_iff. unfold clits at 1. cbn [fst snd].
    destruct Hc as [s2 [Hd Hne]]; cbn [snd] in Hd; subst d. destruct (has_nf c) eqn:Hn.
    + destruct s2 as [|cl [|cl2 s2]]; [congruence| |].
      * rewrite (IH _ _ _ Ho Hs x), in_app_iff. cbn. rewrite app_nil_r. tauto.
      * assert (Ho' : Forall (fun o => o <> []) (opts ++ [cl :: cl2 :: s2])).
        { apply Forall_app; split; [assumption|]. constructor; [congruence|constructor]. }
        rewrite (IH _ _ _ Ho' Hs x). rewrite !concat_app, in_app_iff. cbn [concat]. rewrite !app_nil_r. tauto.
    + rewrite (IH _ _ _ Ho Hs x), in_app_iff. cbn. tauto.
Qed.

Lemma concat_nf_lits l : forall s, concat_nf l = inl s ->
  forall x, In x (concat s) <-> In x (flat_map clits l).
Proof.
  induction l as [|[c d] l IH]; intros s Hs x; cbn [concat_nf] in Hs.
  - injection Hs as <-. cbn. tauto.
  - cbn [flat_map]. rewrite in_app_iff. unfold clits at 1. cbn [fst snd]. destruct (has_nf c).
    + destruct d as [s1|]; [|discriminate]. destruct (concat_nf l) as [s'|]; [|discriminate].
      injection Hs as <-. rewrite concat_app, in_app_iff, (IH _ eq_refl x). tauto.
    + destruct (concat_nf l) as [s'|]; [|discriminate]. injection Hs as <-.
      cbn [app concat In]. rewrite (IH _ eq_refl x). tauto.
Qed.

Definition lits_P (r : restr) : Prop :=
  forall s, dnf true r = inl s -> forall x, In x (concat s) <-> In x (tree_lits r).

Lemma clits_children cs : Forall lits_P cs ->
  forall x, In x (flat_map clits (map (fun c => (c, dnf true c)) cs)) <-> In x (flat_map tree_lits cs).
Proof.
  intros IH x. induction IH as [|c cs Hc _ IH2]; cbn [map flat_map]; [tauto|].
  rewrite !in_app_iff, IH2. unfold clits. cbn [fst snd].
  destruct (dnf_never_refuses_proof true c) as [sc [Hsc _]]. rewrite Hsc.
  destruct c as [n i|b|r'|k n cs']; cbn [has_nf]; try (cbn; tauto).
  rewrite (Hc sc Hsc x). tauto.
Qed.

Lemma children_total cs : Forall child_total (map (fun c => (c, dnf true c)) cs).
Proof. apply Forall_map. apply Forall_forall. intros c _. exact (dnf_never_refuses_proof true c). Qed.

Lemma and_dnf_lits n cs : Forall lits_P cs ->
  forall s, and_dnf n cs (map (fun c => (c, dnf true c)) cs) = inl s ->
  forall x, In x (concat s) <-> In x (if n then map Neg cs else flat_map tree_lits cs).
Proof.
  intros IH s Hs x. unfold and_dnf in Hs. destruct n.
  - destruct cs as [|c cs]; injection Hs as <-; [cbn; tauto|].
    change (In x (concat (map (fun c0 => [Neg c0]) (c :: cs))) <-> In x (map Neg (c :: cs))).
    generalize (c :: cs). intros l. induction l as [|a l IHl]; cbn; [tauto|]. cbn in IHl. rewrite IHl. tauto.
  - destruct cs as [|c cs]; [injection Hs as <-; cbn; tauto|].
    rewrite (and_dnf_loop_lits _ (children_total _) _ _ _ (Forall_nil _) Hs x).
    rewrite (clits_children _ IH x). cbn [In concat]. tauto.
Qed.

Theorem dnf_lits_proof : forall r s, dnf true r = inl s -> forall x, In x (concat s) <-> In x (tree_lits r).
Proof.
  intros r. apply (restr_ind' lits_P); unfold lits_P.
  - intros n i s Hs x. injection Hs as <-. cbn. tauto.
  - intros b s Hs x. injection Hs as <-. cbn. tauto.
  - intros r' _ s Hs x. injection Hs as <-. cbn. tauto.
  - intros k n cs IH s Hs x. cbn [dnf] in Hs. cbn [tree_lits]. destruct k.
    + exact (and_dnf_lits n cs IH s Hs x).
    + unfold or_dnf in Hs. destruct n.
      * injection Hs as <-. cbn. rewrite app_nil_r. tauto.
      * destruct cs as [|c cs]; [injection Hs as <-; cbn; tauto|].
        rewrite (concat_nf_lits _ _ Hs x). apply (clits_children _ IH x).
    + injection Hs as <-. cbn. tauto.
    + injection Hs as <-. cbn. tauto.
    + exact (and_dnf_lits n cs IH s Hs x).
Qed.

(* 1c. literals are never AND/OR/atom groupings, and the prunable leaves of the clauses are those
   of the tree *)
Definition is_lit (r : restr) : bool :=
  match r with Node (KAnd | KOr | KAtom) _ _ => false | _ => true end.

Lemma tree_lits_shape r : forall x, In x (tree_lits r) -> is_lit x = true.
Proof.
  apply (restr_ind' (fun r => forall x, In x (tree_lits r) -> is_lit x = true)).
  - intros n i x [<-|[]]. reflexivity.
  - intros b x [<-|[]]. reflexivity.
  - intros r' _ x [<-|[]]. reflexivity.
  - intros k n cs IH x Hx. rewrite Forall_forall in IH.
    assert (Hgrp : In x (if n then map Neg cs else flat_map tree_lits cs) -> is_lit x = true).
    { destruct n.
      - intros H. apply in_map_iff in H as [c [<- _]]. reflexivity.
      - intros H. apply in_flat_map in H as [c [Hc Hx']]. exact (IH c Hc x Hx'). }
    destruct k; cbn [tree_lits] in Hx; try (apply Hgrp; exact Hx);
      destruct Hx as [<-|[]]; reflexivity.
Qed.

Lemma pl_negs cs : flat_map (pl true) (map Neg cs) = [].
Proof. induction cs; cbn; auto. Qed.

Lemma pl_tree_lits r : forall y, In y (flat_map (pl true) (tree_lits r)) <-> In y (pl true r).
Proof.
  apply (restr_ind' (fun r => forall y, In y (flat_map (pl true) (tree_lits r)) <-> In y (pl true r))).
  - intros n i y. cbn [tree_lits flat_map]. rewrite app_nil_r. tauto.
  - intros b y. cbn. tauto.
  - intros r' _ y. cbn. tauto.
  - intros k n cs IH y. rewrite Forall_forall in IH.
    assert (Hgrp : In y (flat_map (pl true) (if n then map Neg cs else flat_map tree_lits cs))
                   <-> In y (if n then [] else flat_map (pl true) cs)).
    { destruct n; [rewrite pl_negs; tauto|]. rewrite !in_flat_map. split.
      - intros [lit [Hl Hy]]. apply in_flat_map in Hl as [c [Hc Hl]]. exists c. split; [assumption|].
        apply IH; [assumption|]. apply in_flat_map. eauto.
      - intros [c [Hc Hy]]. apply IH in Hy; [|assumption]. apply in_flat_map in Hy as [lit [Hl Hy]].
        exists lit. split; [|assumption]. apply in_flat_map. eauto. }
    destruct k; cbn [tree_lits pl]; try (destruct n; exact Hgrp); cbn; tauto.
Qed.
