(* C32 — PROOFS, part 3: the image post-conditions lifted through the bodies of the install family
   (option parsing, makedirs, Doins/Dodoc directory handling), and the simple helpers. *)
From Coq Require Import List NArith ZArith Bool Lia String.
From Verif Require Import Base.Val C32.Model_C32 C32.Spec_C32 C32.Proofs_C32.
Import ListNotations.
Local Open Scope N_scope.

(* ------------------------------------------------------------------ paths *)
Lemma split_on_app sep a b : split_on sep (a ++ sep :: b) = split_on sep a ++ split_on sep b.
Proof.
  induction a as [|c a IH]; cbn.
  - now rewrite N.eqb_refl.
  - destruct (N.eqb_spec c sep) as [->|Hne]; [now rewrite IH|].
    rewrite IH. destruct (split_on_no_sep sep a) as [_ Hn].
    destruct (split_on sep a); [contradiction|reflexivity].
Qed.

Lemma nonempty_app l1 l2 : nonempty (l1 ++ l2) = nonempty l1 ++ nonempty l2.
Proof. unfold nonempty. apply filter_app. Qed.

Lemma comps_under dest t : ~ In 47 t -> comps (pjoin dest t) = comps dest ++ nonempty [t].
Proof.
  intro Ht. unfold pjoin.
  assert (Hs : startswith [47] t = false).
  { destruct t as [|c t]; [reflexivity|]. unfold startswith. cbn.
    destruct (N.eqb_spec c 47) as [->|_]; [exfalso; apply Ht; now left|reflexivity]. }
  rewrite Hs. unfold comps.
  destruct (is_nil dest || (last dest 0 =? 47)) eqn:E.
  - destruct dest as [|c0 d0].
    + cbn [app]. rewrite (split_on_none 47 t Ht). reflexivity.
    + cbn [is_nil orb] in E. apply N.eqb_eq in E.
      destruct (@exists_last _ (c0 :: d0)) as [a' [x Ea]]; [discriminate|].
      rewrite Ea in *. rewrite last_last in E. subst x.
      rewrite <- app_assoc. cbn [app]. rewrite !split_on_app, !nonempty_app.
      rewrite (split_on_none 47 t Ht). cbn. now rewrite app_nil_r.
  - rewrite split_on_app, nonempty_app. now rewrite (split_on_none 47 t Ht).
Qed.

Lemma under_inj dest t1 t2 :
  ~ In 47 t1 -> ~ In 47 t2 -> comps (pjoin dest t1) = comps (pjoin dest t2) -> t1 = t2.
Proof.
  intros H1 H2. rewrite !comps_under by assumption. intro E. apply app_inv_head in E.
  destruct t1, t2; cbn in E; congruence.
Qed.

Lemma no_slash_targets targets t :
  existsb (fun t => mem_N 47 t) targets = false -> In t targets -> ~ In 47 t.
Proof.
  intros H Hin Hc. assert (existsb (fun t => mem_N 47 t) targets = true); [|congruence].
  apply existsb_exists. exists t. split; [assumption|now apply mem_N_In].
Qed.

(* ------------------------------------------------------------------ worlds *)
Lemma makedirs_src w d w1 : makedirs w d = inl w1 -> w_src w1 = w_src w /\ w_faults w1 = w_faults w.
Proof.
  unfold makedirs. destruct (fault_of _ _ _); [discriminate|].
  destruct (mk_prefixes _ _ _); [|discriminate]. intro H; injection H as <-. now split.
Qed.
Lemma chmod_dir_src w d m w1 : chmod_dir w d m = inl w1 -> w_src w1 = w_src w /\ w_faults w1 = w_faults w.
Proof. unfold chmod_dir. destruct (fault_of _ _ _); [discriminate|]. intro H; injection H as <-. now split. Qed.

Section Lift.
  Variable ed : str.
  Variable ext_effect : list str -> image -> image.

  Lemma install_dirs_int_src rels dm : forall w r w',
    install_dirs_int ed rels dm w = (r, w') -> w_src w' = w_src w /\ w_faults w' = w_faults w.
  Proof.
    induction rels as [|d rels IH]; intros w r w'; cbn [install_dirs_int].
    - intro H; inversion H; auto.
    - destruct (makedirs w d) as [w1|e] eqn:Em; [|intro H; inversion H; auto].
      destruct (makedirs_src _ _ _ Em) as [Hs Hf].
      destruct dm; try (intro H; apply IH in H; rewrite Hs, Hf in H; exact H).
      destruct (chmod_dir w1 d mode) as [w2|e] eqn:Ec; [|intro H; inversion H; subst; auto].
      destruct (chmod_dir_src _ _ _ _ Ec) as [Hs2 Hf2].
      intro H; apply IH in H. rewrite Hs2, Hf2, Hs, Hf in H. exact H.
  Qed.

  (* the directories of a recursive install, internal mode *)
  Lemma install_tree_src dest im dm d w r w' :
    (forall ws, im <> IFallback ws) -> (forall ws, dm <> IFallback ws) ->
    install_tree ed ext_effect dest im dm d w = (r, w') ->
    w_src w' = w_src w /\ w_faults w' = w_faults w.
  Proof.
    intros Him Hdm. unfold install_tree.
    destruct (install_dirs ed ext_effect [pjoin dest d] dm w) as [r1 w1] eqn:E.
    assert (Hi : install_dirs_int ed [pjoin dest d] dm w = (r1, w1)).
    { destruct dm; cbn [install_dirs] in E; try exact E. exfalso. eapply Hdm. reflexivity. }
    apply install_dirs_int_src in Hi. destruct Hi as [Hi1 Hi2].
    destruct r1 as [e|]; cbn [then_]; [intro H; inversion H; subst; auto|].
    destruct (kids_of w1 d) as [|k ks]; [intro H; inversion H; subst; auto|].
    intro H.
    assert (Hint : install_int ed (map (fun f => (pjoin d f, pjoin (pjoin dest d) f)) (k :: ks)) im w1 = (r, w')).
    { destruct im; cbn [install_files] in H; try exact H. exfalso. eapply Him. reflexivity. }
    apply install_int_src in Hint. destruct Hint as [-> ->]. auto.
  Qed.
  Lemma fold_dirs_src dest im dm : forall (l : list str) a r w',
    (forall ws, im <> IFallback ws) -> (forall ws, dm <> IFallback ws) ->
    fold_left (fun acc d => then_ acc (install_tree ed ext_effect dest im dm d)) l a = (r, w') ->
    w_src w' = w_src (snd a) /\ w_faults w' = w_faults (snd a).
  Proof.
    intros l a r w' Him Hdm. revert a. induction l as [|x l IH]; intros a; cbn [fold_left].
    - intros ->. auto.
    - intro H. apply IH in H. destruct a as [[e|] wa]; cbn [then_ snd] in *; [exact H|].
      destruct (install_tree ed ext_effect dest im dm x wa) as [r1 w1] eqn:E.
      cbn [snd] in H.
      destruct (install_tree_src _ _ _ _ _ _ _ Him Hdm E) as [Hi1 Hi2]. rewrite Hi1, Hi2 in H. exact H.
  Qed.

  (* a step never ends with "Some <normal result>": only None (go on) or an IpcCommandError *)
  Definition errlike (r : option hres) : Prop :=
    match r with None | Some (HCmdErr _ _) => True | Some _ => False end.
  Lemma install_dirs_int_err rels dm : forall w, errlike (fst (install_dirs_int ed rels dm w)).
  Proof.
    induction rels as [|d r IH]; intro w; cbn; [exact I|].
    destruct (makedirs w d); [|exact I].
    destruct dm; try apply IH.
    destruct (chmod_dir w0 d mode); [apply IH|exact I].
  Qed.
  Lemma install_dirs_err rels dm w : errlike (fst (install_dirs ed ext_effect rels dm w)).
  Proof.
    destruct dm; cbn [install_dirs]; try apply install_dirs_int_err.
    unfold install_dirs_ext. destruct (ask w) as [[st out] w1].
    destruct (Z.eqb st 0); exact I.
  Qed.
  Lemma install_int_err fs im : forall w, errlike (fst (install_int ed fs im w)).
  Proof.
    induction fs as [|[s d] r IH]; intro w; cbn [install_int]; [exact I|].
    destruct (fault_of K_STAT (basename s) (w_faults w)); [exact I|].
    destruct (assoc s (w_src w)) as [k|]; [|exact I].
    destruct (match fault_of K_UNLINK (basename d) (w_faults w) with
              | Some e => Some e
              | None => match img_get (comps d) (w_img w) with Some (NDir _) => Some 21 | _ => None end
              end); [exact I|].
    destruct (match fault_of K_COPY (basename d) (w_faults w) with
              | Some e => inr e
              | None => match k with SFile cid => inl cid | SDir _ => inr 21 end
              end) as [cid|e]; [|exact I].
    destruct im; try apply IH.
    destruct (fault_of K_CHMOD (basename d) (w_faults w)); [exact I|apply IH].
  Qed.
  Lemma install_ext_groups_err gs ws : forall w, errlike (fst (install_ext_groups ed ext_effect gs ws w)).
  Proof.
    induction gs as [|[d ss] r IH]; intro w; cbn [install_ext_groups]; [exact I|].
    destruct (ask w) as [[st out] w1]. destruct (Z.eqb st 0); [apply IH|exact I].
  Qed.
  Lemma install_files_err fs im w : errlike (fst (install_files ed ext_effect fs im w)).
  Proof. destruct im; cbn [install_files]; try apply install_int_err. apply install_ext_groups_err. Qed.
  Lemma then_err a k : errlike (fst a) -> (forall w, errlike (fst (k w))) -> errlike (fst (then_ a k)).
  Proof. destruct a as [[e|] w]; cbn; auto. Qed.
  Lemma install_tree_err dest im dm d w : errlike (fst (install_tree ed ext_effect dest im dm d w)).
  Proof.
    unfold install_tree. apply then_err; [apply install_dirs_err|].
    intro w1. destruct (kids_of w1 d); [exact I|apply install_files_err].
  Qed.
  Lemma fold_dirs_err dest im dm : forall (l : list str) a,
    errlike (fst a) ->
    errlike (fst (fold_left (fun acc d => then_ acc (install_tree ed ext_effect dest im dm d)) l a)).
  Proof.
    induction l as [|x l IH]; intros a Ha; cbn [fold_left]; [assumption|].
    apply IH. apply then_err; [assumption|intro; apply install_tree_err].
  Qed.

  (* TRUTHFUL ON DISK, internal copy path: when a request to doins/doexe/dodoc/doinfo/dolib* is
     answered with success (the body returned None), every regular file named on the command line
     is in the image at <dest>/<name> with the source's content - through option parsing, makedirs
     and the Doins/Dodoc directory handling *)
  Theorem install_truthful_internal_proof has_r de dflt options args w w' :
    let o := parse_options options {| o_dest := [47]; o_ins := None; o_dir := None; o_unknown := [] |} in
    (forall ws, install_mode (o_ins o) dflt <> IFallback ws) ->
    (forall ws, install_mode (o_dir o) [] <> IFallback ws) ->
    body_install ed ext_effect has_r de dflt options args w = (HNone, w') ->
    forall t cid, In t (snd (fst (split_targets has_r args))) -> assoc t (w_src w) = Some (SFile cid) ->
                  exists m, img_get (comps (pjoin (lstrip_sl (o_dest o)) t)) (w_img w') = Some (NFile cid m).
  Proof.
    intros o Him Hdm. unfold body_install. fold o.
    destruct (is_nil (o_unknown o)); cbn [negb]; [|discriminate].
    destruct (split_targets has_r args) as [[recursive targets] extras]. cbn [fst snd].
    destruct (is_nil targets); [discriminate|].
    destruct (find _ targets); [discriminate|].
    destruct (is_nil extras); cbn [negb]; [|discriminate].
    assert (Hrun : forall im dm, (forall ws, im <> IFallback ws) -> (forall ws, dm <> IFallback ws) ->
              install_run ed ext_effect has_r de recursive targets (lstrip_sl (o_dest o)) im dm w = (HNone, w') ->
              forall t cid, In t targets -> assoc t (w_src w) = Some (SFile cid) ->
                exists m, img_get (comps (pjoin (lstrip_sl (o_dest o)) t)) (w_img w') = Some (NFile cid m)).
    { clear Him Hdm. intros im dm Him Hdm. unfold install_run.
      destruct (existsb (fun t => mem_N 47 t) targets) eqn:Esl; [discriminate|].
      set (dest := lstrip_sl (o_dest o)).
      destruct (makedirs w dest) as [w1|e] eqn:Em; [|discriminate].
      destruct (makedirs_src _ _ _ Em) as [Hs1 Hf1].
      match goal with |- context [if ?b then _ else _] => destruct b end; [discriminate|].
      set (dirs := if has_r then filter (is_dir_src w1) targets else []).
      set (files := if has_r then filter (fun t => negb (is_dir_src w1 t)) targets else targets).
      destruct (if recursive
                then fold_left (fun acc d => then_ acc (install_tree ed ext_effect dest im dm d)) dirs (None, w1)
                else (None, w1)) as [r2 w2] eqn:Ed.
      assert (Hs2 : w_src w2 = w_src w).
      { destruct recursive.
        - apply (fold_dirs_src dest im dm) in Ed; [|assumption|assumption]. cbn in Ed. destruct Ed as [-> _]. exact Hs1.
        - injection Ed as _ <-. exact Hs1. }
      assert (He2 : errlike r2).
      { change r2 with (fst (r2, w2)). rewrite <- Ed. destruct recursive; [|exact I].
        apply fold_dirs_err. exact I. }
      destruct r2 as [e2|]; cbn [then_ finish].
      { intro H; injection H as -> _. destruct He2. }
      pose proof (install_files_err (map (fun f => (f, pjoin dest f)) files) im w2) as He3.
      destruct (install_files ed ext_effect (map (fun f => (f, pjoin dest f)) files) im w2) as [r3 w3] eqn:Ef.
      cbn [fst] in He3.
      destruct r3 as [e3|]; cbn [finish]; [intro H; injection H as -> _; destruct He3|intro H; injection H as <-].
      intros t cid Hin Hc.
      assert (Hint : install_int ed (map (fun f => (f, pjoin dest f)) files) im w2 = (None, w3)).
      { destruct im; cbn [install_files] in Ef; try exact Ef. exfalso. eapply Him. reflexivity. }
      assert (Hfile : In t files).
      { unfold files. destruct has_r; [|assumption]. apply filter_In. split; [assumption|].
        unfold is_dir_src. rewrite Hs1, Hc. now destruct (fault_of K_STAT t (w_faults w1)). }
      assert (Hpost := install_int_post_proof ed (map (fun f => (f, pjoin dest f)) files) im w2 w3).
      destruct (install_int_src ed _ _ _ _ _ Hint) as [Hs3 _].
      assert (Hfa : file_at w3 t (pjoin dest t)).
      { apply Hpost; [|exact Hint|].
        - intros s1 d1 s2 d2 H1 H2 Hcq. apply in_map_iff in H1 as [f1 [E1 F1]]. apply in_map_iff in H2 as [f2 [E2 F2]].
          injection E1 as <- <-. injection E2 as <- <-.
          assert (T1 : In f1 targets) by (unfold files in F1; destruct has_r; [now apply filter_In in F1|assumption]).
          assert (T2 : In f2 targets) by (unfold files in F2; destruct has_r; [now apply filter_In in F2|assumption]).
          eapply under_inj; [| |exact Hcq]; eapply no_slash_targets; eassumption.
        - apply in_map_iff. exists t. split; [reflexivity|assumption]. }
      apply Hfa. now rewrite Hs3, Hs2. }
    destruct (install_mode (o_ins o) dflt) eqn:Ei; destruct (install_mode (o_dir o) []) eqn:Ed2;
      try discriminate; try (exfalso; eapply Him; reflexivity); try (exfalso; eapply Hdm; reflexivity);
      apply Hrun; intros ws; discriminate.
  Qed.

  (* the install family's body ends with None, an IpcCommandError, or outside the model - never a value *)
  Definition shape (r : hres) : Prop := match r with HNone | HCmdErr _ _ | HUnmodelled => True | _ => False end.
  Lemma finish_shape a : errlike (fst a) -> shape (fst (finish a)).
  Proof. destruct a as [[e|] w]; cbn; [destruct e; cbn; tauto|tauto]. Qed.
  Lemma install_run_shape has_r de recursive targets dest im dm w :
    shape (fst (install_run ed ext_effect has_r de recursive targets dest im dm w)).
  Proof.
    unfold install_run.
    destruct (existsb _ targets); [exact I|].
    destruct (makedirs w dest) as [w1|e]; [|exact I].
    match goal with |- context [if ?b then _ else _] => destruct b end; [exact I|].
    apply finish_shape. apply then_err.
    - destruct recursive; [|exact I]. apply fold_dirs_err. exact I.
    - intro. apply install_files_err.
  Qed.
  Lemma body_install_shape has_r de dflt options args w :
    shape (fst (body_install ed ext_effect has_r de dflt options args w)).
  Proof.
    unfold body_install.
    set (o := parse_options options _).
    destruct (is_nil (o_unknown o)); cbn [negb]; [|exact I].
    destruct (split_targets has_r args) as [[recursive targets] extras].
    destruct (is_nil targets); [exact I|].
    destruct (find _ targets); [exact I|].
    destruct (is_nil extras); cbn [negb]; [|exact I].
    destruct (install_mode (o_ins o) dflt); destruct (install_mode (o_dir o) []);
      try exact I; apply install_run_shape.
  Qed.

  (* TRUTHFUL, on disk: a reply with status "0" to an install-family request (internal copy path)
     means that every regular file named in the request is in the image at <dest>/<name> *)
  Theorem install_reply_truthful_on_disk_proof has_r de dflt cwd_ok l1 l2 l3 l4 l5 tail w options d :
    ~ In NL l1 -> ~ In NL l2 -> ~ In NL l3 -> ~ In NL l4 -> ~ In NL l5 ->
    shlex_split (strip l4) = Some options -> cwd_ok (strip l2) = true ->
    let o := parse_options options {| o_dest := [47]; o_ins := None; o_dir := None; o_unknown := [] |} in
    (forall ws, install_mode (o_ins o) dflt <> IFallback ws) ->
    (forall ws, install_mode (o_dir o) [] <> IFallback ws) ->
    let r := ipc_call world (body_install ed ext_effect has_r de dflt) cwd_ok (framed l1 l2 l3 l4 l5 tail) w in
    wire_of (fst (fst r)) = d ++ [NL] -> says_success d ->
    forall t cid, In t (snd (fst (split_targets has_r (split_args l5)))) -> assoc t (w_src w) = Some (SFile cid) ->
                  exists m, img_get (comps (pjoin (lstrip_sl (o_dest o)) t)) (w_img (snd r)) = Some (NFile cid m).
  Proof.
    intros H1 H2 H3 H4 H5 Hs Hc o Him Hdm r Hw Hok t cid Hin Hsrc.
    destruct (body_install ed ext_effect has_r de dflt options (split_args l5) w) as [res w1] eqn:Eb.
    assert (Hcompl : completed res).
    { apply (truthful_proof world (body_install ed ext_effect has_r de dflt) cwd_ok
               l1 l2 l3 l4 l5 tail w options res w1 d); try assumption.
      intros code msg ->. pose proof (install_codes_nonzero_proof ed ext_effect has_r de dflt options (split_args l5) w) as Hn.
      rewrite Eb in Hn. exact Hn. }
    assert (Hres : res = HNone).
    { pose proof (body_install_shape has_r de dflt options (split_args l5) w) as Hsh. rewrite Eb in Hsh.
      destruct res; cbn in *; try contradiction; reflexivity. }
    subst res.
    assert (Hr : snd r = w1).
    { unfold r. rewrite ipc_call_framed by assumption. rewrite Hs, Hc, Eb. reflexivity. }
    rewrite Hr. eapply install_truthful_internal_proof; eassumption.
  Qed.
End Lift.

(* ------------------------------------------------------------------ dodir: status 0 <=> the directories exist *)
(* "the directory p exists": p and every prefix of it are directories of the image *)
Definition is_dir (i : image) (q : path) : Prop := exists m, img_get q i = Some (NDir m).
Definition dir_path (i : image) (p : path) : Prop := forall q r, p = q ++ r -> q <> [] -> is_dir i q.

Lemma is_dir_set i k m q : is_dir i q -> is_dir (img_set k (NDir m) i) q.
Proof.
  intros [m0 H]. destruct (list_eq_dec str_eq_dec q k) as [->|Hne].
  - exists m. apply img_get_set_same.
  - exists m0. rewrite img_get_set_other by assumption. exact H.
Qed.

Lemma mk_prefixes_ok rest : forall pre i i',
  mk_prefixes pre rest i = inl i' ->
  (forall q, is_dir i q -> is_dir i' q)
  /\ (forall a b, rest = a ++ b -> a <> [] -> is_dir i' (pre ++ a)).
Proof.
  induction rest as [|c r IH]; intros pre i i'; cbn [mk_prefixes].
  - intro H; injection H as <-. split; [auto|]. intros a b E. destruct a; [contradiction|discriminate].
  - destruct (img_get (pre ++ [c]) i) as [[m|cid m]|] eqn:E; [| discriminate |].
    + intro H. destruct (IH _ _ _ H) as [Hk Hn]. split; [exact Hk|].
      intros a b Eab Ha. destruct a as [|x a]; [contradiction|]. injection Eab as <- Er.
      destruct a as [|y a].
      * apply Hk. exists m. exact E.
      * replace (pre ++ c :: y :: a) with ((pre ++ [c]) ++ y :: a) by (now rewrite <- app_assoc).
        apply (Hn (y :: a) b Er). discriminate.
    + intro H. destruct (IH _ _ _ H) as [Hk Hn]. split.
      * intros q Hq. apply Hk. now apply is_dir_set.
      * intros a b Eab Ha. destruct a as [|x a]; [contradiction|]. injection Eab as <- Er.
        destruct a as [|y a].
        -- apply Hk. exists 493. apply img_get_set_same.
        -- replace (pre ++ c :: y :: a) with ((pre ++ [c]) ++ y :: a) by (now rewrite <- app_assoc).
           apply (Hn (y :: a) b Er). discriminate.
Qed.

Lemma mk_prefixes_fail rest : forall pre i e,
  mk_prefixes pre rest i = inr e ->
  exists a b cid m, rest = a ++ b /\ a <> [] /\ img_get (pre ++ a) i = Some (NFile cid m).
Proof.
  induction rest as [|c r IH]; intros pre i e; cbn [mk_prefixes]; [discriminate|].
  destruct (img_get (pre ++ [c]) i) as [[m|cid m]|] eqn:E.
  - intro H. destruct (IH _ _ _ H) as [a [b [cid [m' [Er [Ha Hg]]]]]].
    exists (c :: a), b, cid, m'. rewrite <- app_assoc in Hg. cbn [app] in Hg. repeat split; [now rewrite Er|discriminate|exact Hg].
  - intros _. exists [c], r, cid, m. repeat split; [discriminate|exact E].
  - intro H. destruct (IH _ _ _ H) as [a [b [cid [m' [Er [Ha Hg]]]]]].
    exists (c :: a), b, cid, m'. rewrite <- app_assoc in Hg. cbn [app] in Hg. repeat split; [now rewrite Er|discriminate|].
    destruct (list_eq_dec str_eq_dec (pre ++ c :: a) (pre ++ [c])) as [Eq|Hne].
    + rewrite Eq, img_get_set_same in Hg. discriminate.
    + now rewrite img_get_set_other in Hg.
Qed.

Section Dodir.
  Variable ed : str.

  Lemma install_dirs_int_keeps rels dm : forall w r w' q,
    install_dirs_int ed rels dm w = (r, w') -> is_dir (w_img w) q -> is_dir (w_img w') q.
  Proof.
    induction rels as [|d rels IH]; intros w r w' q; cbn [install_dirs_int].
    - intro H; inversion H; auto.
    - unfold makedirs. destruct (fault_of K_MAKEDIRS (basename d) (w_faults w)); [intro H; inversion H; subst; auto|].
      destruct (mk_prefixes [] (comps d) (w_img w)) as [i1|e] eqn:Em; [|intro H; inversion H; subst; auto].
      destruct (mk_prefixes_ok _ _ _ _ Em) as [Hk _].
      destruct dm; try (intros H Hq; eapply IH; [exact H|cbn; auto]).
      unfold chmod_dir. cbn [w_faults set_img w_img].
      destruct (fault_of K_CHMOD (basename d) (w_faults w)); [intros H Hq; inversion H; subst; cbn; auto|].
      intros H Hq. eapply IH; [exact H|]. cbn. apply is_dir_set. auto.
  Qed.

  (* DODIR TRUTHFUL ON DISK: without injected faults, the directory loop reports success exactly when
     every requested directory (with all its parents) exists in the image afterwards; when it fails,
     a regular file sits on the path of one of them *)
  Theorem dodir_truthful_proof rels dm : forall w r w',
    w_faults w = [] -> (forall ws, dm <> IFallback ws) ->
    install_dirs_int ed rels dm w = (r, w') ->
    (r = None <-> forall d, In d rels -> dir_path (w_img w') (comps d)).
  Proof.
    induction rels as [|d rels IH]; intros w r w' Hf Hdm; cbn [install_dirs_int].
    - intro H; inversion H. split; [intros _ d []|reflexivity].
    - unfold makedirs. rewrite Hf. cbn [fault_of].
      destruct (mk_prefixes [] (comps d) (w_img w)) as [i1|e] eqn:Em.
      + destruct (mk_prefixes_ok _ _ _ _ Em) as [Hk Hn].
        assert (Hstep : forall w1, w_faults w1 = [] -> (forall q, is_dir i1 q -> is_dir (w_img w1) q) ->
                  install_dirs_int ed rels dm w1 = (r, w') ->
                  (r = None <-> forall d0, In d0 (d :: rels) -> dir_path (w_img w') (comps d0))).
        { intros w1 Hf1 Hmono Hrun. destruct (IH w1 r w' Hf1 Hdm Hrun) as [I1 I2]. split.
          - intros Hr d0 [<-|Hin]; [|now apply I1].
            intros q r0 Eq Hq. eapply install_dirs_int_keeps; [exact Hrun|]. apply Hmono.
            apply (Hn q r0 Eq Hq).
          - intro Hall. apply I2. intros d0 Hin. apply Hall. now right. }
        destruct dm.
        * apply Hstep; [exact Hf|cbn; auto].
        * unfold chmod_dir. cbn [w_faults set_img w_img]. rewrite Hf. cbn [fault_of].
          apply Hstep; [exact Hf|]. cbn. intros q Hq. now apply is_dir_set.
        * exfalso. eapply Hdm. reflexivity.
        * apply Hstep; [exact Hf|cbn; auto].
      + intro H; inversion H; subst. split; [discriminate|].
        intro Hall. exfalso.
        destruct (mk_prefixes_fail _ _ _ _ Em) as [a [b [cid [m [Ec [Ha Hg]]]]]].
        destruct (Hall d (or_introl eq_refl) a b Ec Ha) as [m' Hd]. cbn [app] in Hg. congruence.
  Qed.
End Dodir.

Section DodirBody.
  Variable ed : str.
  Variable ext_effect : list str -> image -> image.

  (* the same through Dodir's option and argument handling: for a well-formed dodir request served by
     the internal path, the body completes exactly when the requested directories exist afterwards *)
  Theorem dodir_body_truthful_proof options args w res w' :
    let o := parse_options options {| o_dest := [47]; o_ins := None; o_dir := None; o_unknown := [] |} in
    o_unknown o = [] -> args <> [] -> w_faults w = [] ->
    install_mode (o_ins o) [] <> IBad ->
    install_mode (o_dir o) (E "-m0755") <> IBad ->
    (forall ws, install_mode (o_dir o) (E "-m0755") <> IFallback ws) ->
    body_dodir ed ext_effect options args w = (res, w') ->
    (res = HNone <->
     forall d, In d args -> dir_path (w_img w') (comps (pjoin (lstrip_sl (o_dest o)) (lstrip_sl d)))).
  Proof.
    intros o Hu Ha Hf Hi Hd Hfb. unfold body_dodir. fold o. rewrite Hu. cbn [is_nil negb].
    destruct args as [|a0 args0] eqn:Eargs; [contradiction|]. cbn [is_nil]. rewrite <- Eargs in *.
    set (rels := map (fun d => pjoin (lstrip_sl (o_dest o)) (lstrip_sl d)) args).
    assert (Hmain : forall dm, (forall ws, dm <> IFallback ws) ->
              finish (install_dirs ed ext_effect rels dm w) = (res, w') ->
              (res = HNone <-> forall d, In d args -> dir_path (w_img w') (comps (pjoin (lstrip_sl (o_dest o)) (lstrip_sl d))))).
    { intros dm Hdm.
      assert (Ei : install_dirs ed ext_effect rels dm w = install_dirs_int ed rels dm w).
      { destruct dm; try reflexivity. exfalso. eapply Hdm. reflexivity. }
      rewrite Ei. pose proof (install_dirs_int_err ed rels dm w) as He.
      destruct (install_dirs_int ed rels dm w) as [r w1] eqn:Er. cbn [fst] in He.
      pose proof (dodir_truthful_proof ed rels dm w r w1 Hf Hdm Er) as [T1 T2].
      assert (Hin : (forall d, In d rels -> dir_path (w_img w1) (comps d)) <->
                    (forall d, In d args -> dir_path (w_img w1) (comps (pjoin (lstrip_sl (o_dest o)) (lstrip_sl d))))).
      { unfold rels. split.
        - intros H d Hd'. apply H. apply in_map_iff. now exists d.
        - intros H d Hd'. apply in_map_iff in Hd' as [x [<- Hx]]. now apply H. }
      destruct Hin as [Hin1 Hin2].
      destruct r as [e|]; cbn [finish]; intro H; injection H as <- <-.
      - destruct e; try contradiction. split; [discriminate|]. intro Hall. pose proof (T2 (Hin2 Hall)) as Hx. discriminate.
      - split; [intros _; exact (Hin1 (T1 eq_refl))|reflexivity]. }
    destruct (install_mode (o_ins o) []) eqn:E1; destruct (install_mode (o_dir o) (E "-m0755")) eqn:E2;
      try contradiction; try (exfalso; eapply Hfb; reflexivity);
      apply Hmain; intros ws; discriminate.
  Qed.
End DodirBody.
