(* GENERATED from ebuild/processor.py, ebuild/ebd.py, ebd/ebuild-daemon.bash, ebd/ebuild-daemon-lib.bash, ebd/exit-handling.bash, ebd/ebuild.bash (harness/c35_tables.py) by harness/tables.py on every run — do not edit. *)
From Coq Require Import List ZArith NArith Bool.
Import ListNotations.
From Verif Require Import Base.Val.

From Coq Require Import String.
Open Scope string_scope.

(* bash: ((is_prefix_pattern, text), literals the arm writes) in source order; the default arm dies *)
Definition sh_main_arms : list ((bool * string) * list string) :=
  [((true, "process_ebuild"), ["phases succeeded"; "phases failed ebd::"]); ((false, "shutdown_daemon"), (@nil (string))); ((true, "preload_eclass "), ["preload_eclass succeeded"; "preload_eclass failed"]); ((false, "clear_preloaded_eclasses"), ["clear_preloaded_eclasses succeeded"]); ((true, "set_metadata_path "), ["metadata_path_received"]); ((true, "gen_metadata "), ["phases succeeded"; "phases failed "]); ((true, "gen_ebuild_env "), ["phases succeeded"; "phases failed "]); ((false, "alive"), ["yep!"])].
Definition sh_phase_arms : list ((bool * string) * list string) :=
  [((true, "start_receiving_env"), ["env_receiving_failed"; "env_received"]); ((true, "logging"), ["logging_ack"]); ((true, "set_sandbox_state"), (@nil (string))); ((false, "start_processing"), (@nil (string))); ((false, "shutdown_daemon"), (@nil (string))); ((false, "alive"), ["yep!"])].
Definition sh_sandbox_arms : list ((bool * string) * list string) :=
  [((false, "sandbox_log?"), ["$"]); ((false, "no_sandbox"), (@nil (string)))].
(* bash: per function, the literals written to the channel / compared with a line read *)
Definition sh_fn_writes : list (string * list string) :=
  [("__dump_metadata_keys", ["key DEFINED_PHASES="; "key "]); ("__ebd_exec_main", ["ebd!"; "failed sourcing exit handling functionality"; "failed sourcing isolated-functions.bash"; "failed"; "$"; "$"]); ("__ebd_ipc_cmd", ["$"; "$"; "$"; "$"; "$"]); ("__ebd_main_loop", ["phases succeeded"; "phases failed ebd::"; "preload_eclass "; "clear_preloaded_eclasses succeeded"; "metadata_path_received"; "phases succeeded"; "phases failed "; "yep!"]); ("__ebd_process_ebuild_phases", ["env_receiving_failed"; "env_received"; "logging_ack"; "yep!"]); ("__ebd_sigint_handler", ["SIGINT"]); ("__ebd_sigterm_handler", ["SIGTERM"]); ("__ebd_write_array", [""]); ("__execute_phases", ["receive_env "; "receive_env "]); ("__internal_inherit", ["request_inherit "]); ("__request_sandbox_summary", ["request_sandbox_summary "]); ("__source_bashrcs", ["request_bashrcs"; "failed"; "next"]); ("die", ["dying "; "dead"])].
Definition sh_fn_reads : list (string * list string) :=
  [("__ebd_exec_main", ["ebd?"]); ("__ebd_process_ebuild_phases", ["end_receiving_env"]); ("__internal_inherit", ["path"; "transfer"]); ("__request_sandbox_summary", ["end_sandbox_summary"]); ("__source_bashrcs", ["end_request"; "path"; "transfer"])].
(* python: per function, the literals passed to write() (first line, up to the first formatted
   field; "$" = dynamic) and to expect() *)
Definition py_fn_writes : list (string * list string) :=
  [("__init__", ["ebd?"; "sandbox_log?"; "no_sandbox"]); ("_ensure_metadata_paths", ["set_metadata_path "]); ("_preload_eclass", ["preload_eclass "]); ("_run_depend_like_phase", ["$"]); ("clear_preloaded_eclasses", ["clear_preloaded_eclasses"]); ("ebd._request_bashrcs", ["path"; "end_request"]); ("ebd.run_generic_phase", ["$"]); ("inherit_handler", ["path"; "$"; "transfer"; "$"]); ("is_responsive", ["alive"]); ("run_phase", ["process_ebuild "; "set_sandbox_state "; "start_processing"]); ("sandbox_summary", ["end_sandbox_summary"; "end_sandbox_summary"; "$"; "$"; "$"; "$"; "end_sandbox_summary"]); ("send_env", ["start_receiving_env file "; "start_receiving_env bytes "]); ("set_logfile", ["logging "]); ("shutdown_processor", ["shutdown_daemon"])].
Definition py_fn_expects : list (string * list string) :=
  [("__init__", ["ebd!"]); ("_ensure_metadata_paths", ["metadata_path_received"]); ("_preload_eclass", ["preload_eclass succeeded"]); ("clear_preloaded_eclasses", ["clear_preloaded_eclasses succeeded"]); ("ebd._request_bashrcs", ["next"]); ("is_responsive", ["yep!"]); ("send_env", ["env_received"]); ("set_logfile", ["logging_ack"])].
Definition py_handlers : list string := ["request_sandbox_summary"; "prob"; "env_receiving_failed"; "failed"; "SIGINT"; "SIGTERM"; "dying"; "phases"].
Definition py_intercepts : list string := ["SIGINT"; "SIGTERM"; "dying"].
Definition py_dead : string := "dead".
Definition py_stop_ok : string := "succeeded".
Definition py_extra_handlers : list (string * list string) :=
  [("_run_depend_like_phase", ["request_inherit"]); ("ebd._generic_phase", ["request_bashrcs"]); ("ebd.ipc", ["doins"; "dodoc"; "dohtml"; "doinfo"; "dodir"; "doexe"; "dobin"; "dosbin"; "dolib"; "dolib.so"; "dolib.a"; "doman"; "domo"; "dosym"; "dohard"; "keepdir"; "has_version"; "best_version"; "unpack"; "eapply"; "eapply_user"; "docompress"; "dostrip"; "filter_env"]); ("ebd.setup", ["request_inherit"]); ("get_ebuild_environment", ["receive_env"]); ("get_ebuild_environment:command", ["gen_ebuild_env"]); ("get_keys", ["key"]); ("get_keys:command", ["gen_metadata"])].
