import os, sys, random, shutil, json
sys.path.insert(0, "/verif")
from harness import c32
from harness.common import Check, Raw
N=int(sys.argv[1]) if len(sys.argv)>1 else 40
seed=sys.argv[2] if len(sys.argv)>2 else "0"
chk=Check("C32x")
rng=random.Random(seed)
cases=[]; metas=[]
for i in range(N):
    w,down,meta=c32.gen_session(rng,str(chk.scratch),i)
    res=w.run(down)
    wire,consumed,end,snap,left=res
    cases.append((w.case_term(down), Raw(c32.rval([wire,consumed,end,";".join(snap),left]))))
    metas.append((meta,res,down))
    shutil.rmtree(w.top)
IMPORTS="From Coq Require Import List NArith ZArith Bool.\nFrom Verif Require Import Base.Val C32.Model_C32."
r=chk.coq_eval("sess",IMPORTS,"bstr",cases,["mismatches run_session cases"])
print("violations", chk.violations[:1])
if r:
    print("mismatches:", r[0])
    for i in r[0][:6]:
        meta,res,down=metas[i]
        print("----",i, meta); print("impl:",res); print("down:",down)
        # ask coq what the model says
        f=chk.scratch/"one.v"
        f.write_text(IMPORTS+"\nImport ListNotations.\nEval vm_compute in (run_session %s).\n" % cases[i][0])
        import subprocess
        out=subprocess.run(["coqc","-R","/verif/coq","Verif",str(f)],capture_output=True,text=True,cwd=chk.scratch).stdout
        import re
        def dec(m): 
            nums=[int(x) for x in re.findall(r"\d+",m.group(1))]
            return "VS "+repr(bytes(nums).decode("latin-1"))
        out=re.sub(r"VS\s*\[([^\]]*)\]", dec, out.replace("%N",""))
        print("model:", out[:1500])
shutil.rmtree(chk.scratch, ignore_errors=True)
