(* Proofs_C44.v — lemmas and proofs for C44 (query strings select exactly the packages they
   describe).  Sections: strip/blockers · shell patterns vs the compiled regex · evaluating
   restriction lists · the head (::repo, :slot/subslot) · the dropped category · the main theorem
   query_selects · substrings, plain atoms · pinned tree vs repaired · witnesses and examples. *)
From Coq Require Import List NArith ZArith Bool Arith Lia.
Import ListNotations.
From Verif Require Import Base.Val C01.Model_C01 C04.Model_C04.
From Verif Require Import C44.Model_C44 C44.Spec_C44.
From Verif Require C03.Model_C03.
Local Open Scope N_scope.

(* ------------------------------------------------------------------ strip keeps a blocker mark *)
Lemma mem_app c a b : mem c (a ++ b) = mem c a || mem c b.
Proof. unfold mem. apply existsb_app. Qed.

Lemma mem_rev c s : mem c (List.rev s) = mem c s.
Proof.
  induction s as [|x s IH]; [reflexivity|].
  cbn [List.rev]. rewrite mem_app, IH. unfold mem. cbn [existsb]. rewrite orb_false_r. apply orb_comm.
Qed.

Lemma mem_lstrip c s : is_space c = false -> mem c (lstrip s) = mem c s.
Proof.
  intros Hc. induction s as [|x s IH]; [reflexivity|].
  cbn [lstrip]. destruct (is_space x) eqn:E; [|reflexivity].
  rewrite IH. unfold mem. cbn [existsb]. destruct (c =? x) eqn:Ex; [|reflexivity].
  apply N.eqb_eq in Ex. subst. congruence.
Qed.

Lemma mem_strip c s : is_space c = false -> mem c (strip s) = mem c s.
Proof.
  intros Hc. unfold strip. rewrite mem_rev, (mem_lstrip _ _ Hc), mem_rev. apply mem_lstrip, Hc.
Qed.

Lemma blocker_rejected_proof : forall fix_ t, mem c_bang t = true -> parse_match_gen fix_ t = EParse.
Proof.
  intros fix_ t H. unfold parse_match_gen. cbn [parse_match_fuel]. unfold parse_head.
  rewrite mem_strip by reflexivity. rewrite H. reflexivity.
Qed.

(* ------------------------------------------------------------------ shell patterns *)
Lemma glob_star_unfold p s :
  glob_match (c_star :: p) s
  = glob_match p s || match s with _ :: s' => glob_match (c_star :: p) s' | [] => false end.
Proof. destruct s; reflexivity. Qed.

Lemma glob_lit_unfold c p s : (c =? c_star) = false ->
  glob_match (c :: p) s = match s with x :: s' => (x =? c) && glob_match p s' | [] => false end.
Proof. intros H. cbn [glob_match]. rewrite H. reflexivity. Qed.

Lemma rx_star_unfold r s :
  rx_match (RAny :: r) s
  = rx_match r s || match s with x :: s' => negb (x =? c_nl) && rx_match (RAny :: r) s' | [] => false end.
Proof. destruct s; reflexivity. Qed.

Lemma glob_star_app p s1 s2 : glob_match p s2 = true -> glob_match (c_star :: p) (s1 ++ s2) = true.
Proof.
  intros H. induction s1 as [|x s1 IH]; rewrite glob_star_unfold.
  - cbn [app]. rewrite H. reflexivity.
  - cbn [app]. rewrite IH. apply orb_true_r.
Qed.

Lemma glob_sound p : forall s, glob_match p s = true -> shell_match p s.
Proof.
  induction p as [|c p IH]; intros s H.
  - destruct s; [constructor|discriminate].
  - destruct (c =? c_star) eqn:E.
    + apply N.eqb_eq in E. subst c.
      induction s as [|x s IHs].
      * rewrite glob_star_unfold, orb_false_r in H. apply (sm_star p [] []). apply IH, H.
      * rewrite glob_star_unfold in H. apply orb_true_iff in H as [H|H].
        -- apply (sm_star p [] (x :: s)). apply IH, H.
        -- specialize (IHs H). inversion IHs; subst.
           ++ exfalso. match goal with h : c_star <> c_star |- _ => apply h; reflexivity end.
           ++ match goal with h : shell_match p ?s2 |- _ => apply (sm_star p (x :: s1) s2 h) end.
    + rewrite (glob_lit_unfold _ _ _ E) in H. destruct s as [|x s]; [discriminate|].
      apply andb_true_iff in H as [H1 H2]. apply N.eqb_eq in H1. subst x.
      constructor; [intro Hc; subst; discriminate | apply IH, H2].
Qed.

Lemma glob_complete p s : shell_match p s -> glob_match p s = true.
Proof.
  induction 1.
  - reflexivity.
  - rewrite glob_lit_unfold by (apply N.eqb_neq; assumption). rewrite N.eqb_refl. assumption.
  - apply glob_star_app. assumption.
Qed.

Lemma glob_match_is_shell_proof : forall p s, glob_match p s = true <-> shell_match p s.
Proof. intros; split; [apply glob_sound | apply glob_complete]. Qed.

(* the compiled regular expression decides the same language on newline-free values *)
Lemma no_nl_cons x s : no_nl (x :: s) = true -> (x =? c_nl) = false /\ no_nl s = true.
Proof.
  unfold no_nl, mem. cbn [existsb]. rewrite negb_orb. intros H. apply andb_true_iff in H as [H1 H2].
  split; [|assumption]. rewrite N.eqb_sym. apply negb_true_iff, H1.
Qed.

Lemma regex_is_glob_proof : forall p s, no_nl s = true -> rx_match (glob_items p) s = glob_match p s.
Proof.
  induction p as [|c p IH]; intros s Hs.
  - destruct s as [|x [|y s]]; try reflexivity.
    apply no_nl_cons in Hs as [Hx _]. cbn. exact Hx.
  - cbn [glob_items map]. destruct (c =? c_star) eqn:E.
    + apply N.eqb_eq in E. subst c. fold (glob_items p).
      induction s as [|x s IHs].
      * rewrite rx_star_unfold, glob_star_unfold. rewrite IH by assumption. reflexivity.
      * rewrite rx_star_unfold, glob_star_unfold. rewrite IH by assumption.
        apply no_nl_cons in Hs as [Hx Hs]. rewrite Hx, IHs by assumption. reflexivity.
    + fold (glob_items p). rewrite (glob_lit_unfold _ _ _ E). cbn [rx_match].
      destruct s as [|x s]; [reflexivity|]. apply no_nl_cons in Hs as [_ Hs]. rewrite IH by assumption. reflexivity.
Qed.

Lemma glob_nostar p : forall s, mem c_star p = false -> glob_match p s = str_eqb p s.
Proof.
  induction p as [|c p IH]; intros s H.
  - destruct s; reflexivity.
  - unfold mem in H. cbn [existsb] in H. apply orb_false_iff in H as [H1 H2].
    rewrite N.eqb_sym in H1. rewrite (glob_lit_unfold _ _ _ H1).
    destruct s as [|x s]; [reflexivity|]. cbn [str_eqb]. rewrite IH by exact H2. rewrite (N.eqb_sym x c). reflexivity.
Qed.

Lemma glob_lone_star s : glob_match [c_star] s = true.
Proof.
  induction s as [|x s IH]; rewrite glob_star_unfold; [reflexivity|]. rewrite IH. apply orb_true_r.
Qed.

(* ------------------------------------------------------------------ evaluating restriction lists *)
Definition evall (rs : list qr) (p : package) : bool := forallb (fun q => eval q p) rs.

Lemma eval_and l p : eval (QAnd l) p = evall l p.
Proof.
  induction l as [|q l IH]; [reflexivity|].
  change (eval (QAnd (q :: l)) p) with (eval q p && eval (QAnd l) p). rewrite IH. reflexivity.
Qed.

Lemma evall_cons q l p : evall (q :: l) p = eval q p && evall l p.
Proof. reflexivity. Qed.

Lemma evall_app a b p : evall (a ++ b) p = evall a p && evall b p.
Proof. apply forallb_app. Qed.

Lemma eval_finish rs r p : finish rs = Ok r -> eval r p = evall rs p.
Proof.
  destruct rs as [|q [|q' rs]]; cbn [finish]; intros H; injection H as <-.
  - reflexivity.
  - cbn [evall forallb]. rewrite andb_true_r. reflexivity.
  - apply eval_and.
Qed.

Lemma str_eqb_sym a : forall b, str_eqb a b = str_eqb b a.
Proof.
  induction a as [|x a IH]; intros [|y b]; try reflexivity. cbn. rewrite IH, N.eqb_sym. reflexivity.
Qed.

(* one converted glob token against one attribute *)
Definition piece (attr : N) (exact : str -> restr) (g : cg) : list qr :=
  match g with
  | CGNone => []
  | CGExact t => [QR (exact t)]
  | CGRegex t => [QGlob attr t]
  | CGErr => []
  end.

Lemma piece_ok attr exact tok p :
  (forall s, eval_restr ver_cmp p (exact s) = str_eqb s (pkg_field attr p)) ->
  no_nl (pkg_field attr p) = true ->
  convert_glob tok <> CGErr ->
  evall (piece attr exact (convert_glob tok)) p = field_ok tok (pkg_field attr p).
Proof.
  intros Hex Hnl. unfold convert_glob, field_ok.
  destruct (is_nil tok) eqn:En; [reflexivity|]. cbn [orb].
  destruct (str_eqb tok [c_star]) eqn:Es.
  - intros _. apply str_eqb_eq in Es. subst tok. cbn [piece evall forallb]. symmetry. apply glob_lone_star.
  - destruct (mem c_star tok) eqn:Em; cbn [negb].
    + destruct (valid_glob tok); [|congruence]. intros _.
      cbn [piece evall forallb eval]. rewrite andb_true_r. apply regex_is_glob_proof, Hnl.
    + intros _. cbn [piece evall forallb eval]. rewrite andb_true_r, Hex. symmetry. apply glob_nostar, Em.
Qed.

Definition wf_fields p : wf_pkg p = true ->
  no_nl (p_cat p) = true /\ no_nl (p_pkg p) = true /\ no_nl (p_slot p) = true /\ no_nl (p_subslot p) = true.
Proof.
  unfold wf_pkg. intros H. repeat (apply andb_true_iff in H as [H ?]). auto.
Qed.

Lemma slot_part_ok attr exact tok l p :
  (forall s, eval_restr ver_cmp p (exact s) = str_eqb s (pkg_field attr p)) ->
  no_nl (pkg_field attr p) = true ->
  slot_part attr exact tok = Some l ->
  evall l p = field_ok tok (pkg_field attr p).
Proof.
  intros Hex Hnl. unfold slot_part.
  destruct (is_nil tok) eqn:En.
  - intros H; injection H as <-. unfold field_ok. rewrite En. reflexivity.
  - destruct (mem c_star tok) eqn:Em.
    + pose proof (piece_ok attr exact tok p Hex Hnl) as HP.
      destruct (convert_glob tok) eqn:Ec; intros H; try discriminate; injection H as <-;
        (rewrite <- HP by discriminate); reflexivity.
    + intros H; injection H as <-. cbn [evall forallb eval]. rewrite andb_true_r, Hex.
      unfold field_ok. rewrite En. cbn [orb]. symmetry. apply glob_nostar, Em.
Qed.

(* ------------------------------------------------------------------ the head: strip, ::repo, :slot/subslot *)
Lemma head_ok t orig text rs p :
  wf_pkg p = true -> parse_head t = HOk orig text rs ->
  q_orig (split_query t) = orig /\ q_body (split_query t) = text
  /\ evall rs p = extras_ok (extras_of (split_query t)) p.
Proof.
  intros Hwf. apply wf_fields in Hwf as (_ & _ & Hs & Hss).
  unfold parse_head, split_query.
  destruct (mem c_bang (strip t)); [discriminate|].
  assert (Hrepo : forall r, evall [QR (RRepo r)] p = str_eqb r (p_repo p)).
  { intros r. cbn. apply andb_true_r. }
  assert (Hsl : forall tok l, slot_part 2 RSlot tok = Some l -> evall l p = field_ok tok (p_slot p)).
  { intros tok l. apply (slot_part_ok 2 RSlot tok l p (fun s => eq_refl) Hs). }
  assert (Hsu : forall tok l, slot_part 3 RSubSlot tok = Some l -> evall l p = field_ok tok (p_subslot p)).
  { intros tok l. apply (slot_part_ok 3 RSubSlot tok l p (fun s => eq_refl) Hss). }
  destruct (rsplit_dcolon (strip t)) as [[a r]|];
    (destruct (Model_C03.split_last c_colon _) as [[b sl]|];
     [ destruct (Model_C03.split_first c_slash sl) as [[x y]|];
       [ destruct (slot_part 2 RSlot x) as [lx|] eqn:Ex; [|discriminate];
         destruct (slot_part 3 RSubSlot y) as [ly|] eqn:Ey; [|discriminate]
       | destruct (slot_part 2 RSlot sl) as [lx|] eqn:Ex; [|discriminate];
         destruct (slot_part 3 RSubSlot []) as [ly|] eqn:Ey; [|discriminate] ]
     | ]);
    intros H; injection H as <- <- <-; (split; [reflexivity|]); (split; [reflexivity|]);
    unfold extras_ok, extras_of; cbn [e_repo e_slot e_sub q_repo q_slot q_sub];
    cbn [app]; rewrite ?evall_cons, ?evall_app, ?(Hsl _ _ Ex), ?(Hsu _ _ Ey);
    cbn [evall forallb field_ok is_nil orb andb eval eval_restr]; rewrite ?andb_true_r, ?andb_assoc; try reflexivity.
Qed.

(* ------------------------------------------------------------------ the category dropped *)
Definition cat_is (c : str) (r : restr) : Prop := match r with RCategory c' => c' = c | _ => True end.

Lemma nocat_list vc c p l : Forall (cat_is c) l ->
  forallb (eval_restr vc p) (filter not_category l) = forallb (eval_restr vc (with_cat p c)) l.
Proof.
  induction 1 as [|r l Hr _ IH]; [reflexivity|].
  cbn [filter forallb]. destruct r; cbn [not_category forallb]; rewrite IH; try reflexivity.
  cbn in Hr. subst s. cbn [eval_restr with_cat p_cat]. rewrite str_eqb_refl. reflexivity.
Qed.

Lemma use_restrictions_nocat c toks : Forall (cat_is c) (use_restrictions toks).
Proof.
  unfold use_restrictions.
  repeat (apply Forall_app; split); match goal with |- Forall _ (if ?b then _ else _) => destruct b end;
    repeat constructor.
Qed.

Lemma atom_restrictions_cat a : Forall (cat_is (a_cat a)) (atom_restrictions a).
Proof.
  unfold atom_restrictions.
  repeat (apply Forall_app; split).
  - destruct (a_repo a); repeat constructor.
  - repeat constructor.
  - destruct (a_fullver a); [destruct (a_op a =? 6)|]; repeat constructor.
  - destruct (a_slot a); [destruct (a_subslot a)|]; repeat constructor.
  - destruct (a_use a); [apply use_restrictions_nocat|constructor].
Qed.

Lemma nocat_ok a p :
  forallb (eval_restr ver_cmp p) (filter not_category (atom_restrictions a))
  = atom_match ver_cmp a (with_cat p (a_cat a)).
Proof. unfold atom_match. apply nocat_list, atom_restrictions_cat. Qed.

Lemma evall_map_QR l p : evall (map QR l) p = forallb (eval_restr ver_cmp p) l.
Proof. induction l as [|r l IH]; [reflexivity|]. cbn [map evall forallb eval]. f_equal. exact IH. Qed.

Lemma nocat_result rs l r p :
  match rs, l with [], [r0] => Ok (QR r0) | _, _ => Ok (QAnd (rs ++ map QR l)) end = Ok r ->
  eval r p = evall rs p && forallb (eval_restr ver_cmp p) l.
Proof.
  destruct rs as [|q rs].
  - destruct l as [|r0 [|r1 l]]; intros H; injection H as <-.
    + reflexivity.
    + cbn. rewrite andb_true_r. reflexivity.
    + rewrite eval_and. exact (evall_map_QR (r0 :: r1 :: l) p).
  - intros H. assert (H' : Ok (QAnd ((q :: rs) ++ map QR l)) = Ok r) by (destruct l as [|r0 [|r1 l]]; exact H).
    injection H' as <-. rewrite eval_and.
    etransitivity; [apply (evall_app (q :: rs) (map QR l) p)|]. rewrite evall_map_QR. reflexivity.
Qed.

Lemma query_selects_fuel : forall f t r p,
  wf_pkg p = true -> parse_match_fuel true f t = Ok r ->
  exists m, meaning_fuel f t = Some m /\ eval r p = means m p.
Proof.
  induction f as [|f IH]; intros t r p Hwf H; [discriminate|].
  cbn [parse_match_fuel] in H. cbn [meaning_fuel]. cbv zeta.
  destruct (parse_head t) as [| |orig text rs] eqn:Eh; try discriminate.
  destruct (head_ok _ _ _ _ p Hwf Eh) as (Ho & Hb & He). rewrite Ho, Hb.
  pose proof (wf_fields p Hwf) as (Hc & Hn & _ & _).
  destruct (Model_C03.split_last c_slash text) as [[c n]|].
  - (* two chunks *)
    destruct (starts_op text || negb (mem c_star text)).
    + unfold atom_text.
      destruct (Model_C03.parse_atom None false orig) as [a| |] eqn:Ea.
      * destruct (Model_C03.a_transitive a); [discriminate|]. injection H as <-.
        eexists; split; reflexivity.
      * destruct (negb (mem c_star text)); [discriminate|].
        destruct (longest_op text) as [[op rest]|]; [|discriminate].
        destruct (Model_C03.split_last c_dash rest) as [[c0 vt]|]; [|discriminate].
        destruct (Model_C03.m_version vt); [|discriminate].
        destruct (parse_match_fuel true f c0) as [sub| |] eqn:Es; try discriminate.
        injection H as <-. destruct (IH c0 sub p Hwf Es) as (m & Hm & Hev). rewrite Hm.
        eexists; split; [reflexivity|].
        rewrite eval_and, evall_app, He. cbn [evall forallb eval eval_restr means].
        rewrite Hev, andb_true_r, andb_assoc. reflexivity.
      * destruct (negb (mem c_star text)); [discriminate|].
        destruct (longest_op text) as [[op rest]|]; [|discriminate].
        destruct (Model_C03.split_last c_dash rest) as [[c0 vt]|]; [|discriminate].
        destruct (Model_C03.m_version vt); [|discriminate].
        destruct (parse_match_fuel true f c0) as [sub| |] eqn:Es; try discriminate.
        injection H as <-. destruct (IH c0 sub p Hwf Es) as (m & Hm & Hev). rewrite Hm.
        eexists; split; [reflexivity|].
        rewrite eval_and, evall_app, He. cbn [evall forallb eval eval_restr means].
        rewrite Hev, andb_true_r, andb_assoc. reflexivity.
    + unfold glob_pair in H.
      pose proof (piece_ok 0 RCategory c p (fun s => eq_refl) Hc) as HPc.
      pose proof (piece_ok 1 RPackage n p (fun s => eq_refl) Hn) as HPn.
      cbn [pkg_field] in HPc, HPn.
      destruct (convert_glob c) eqn:Ec; destruct (convert_glob n) eqn:En; try discriminate;
        apply (eval_finish _ _ p) in H; rewrite H;
        (eexists; split; [reflexivity|]); cbn [means];
        rewrite <- HPc, <- HPn by discriminate; rewrite ?evall_app, He;
        cbn [piece evall forallb eval andb pkg_field]; rewrite ?andb_true_r, ?andb_assoc; reflexivity.
  - (* one chunk *)
    unfold one_chunk in H. destruct (collect_ops text) as [ops name].
    destruct (is_nil ops && mem c_star name).
    + pose proof (piece_ok 1 RPackage name p (fun s => eq_refl) Hn) as HP. cbn [pkg_field] in HP.
      destruct (convert_glob name) eqn:Ec; try discriminate;
        apply (eval_finish _ _ p) in H; rewrite H;
        (eexists; split; [reflexivity|]); cbn [means];
        rewrite <- HP by discriminate; rewrite ?evall_app, He;
        cbn [piece evall forallb eval andb pkg_field field_ok is_nil orb]; rewrite ?andb_true_r; reflexivity.
    + destruct (negb (is_nil ops) && starts_star name); [discriminate|].
      unfold atom_text.
      destruct (Model_C03.parse_atom None false (ops ++ fake_category ++ c_slash :: name)) as [a| |];
        try discriminate.
      destruct (Model_C03.a_transitive a); [discriminate|].
      apply (nocat_result _ _ _ p) in H. rewrite H, nocat_ok, He.
      eexists; split; reflexivity.
Qed.

Lemma query_selects_proof : forall t r p,
  wf_pkg p = true -> parse_match t = Ok r -> eval r p = describes t p.
Proof.
  intros t r p Hwf H. unfold describes, meaning_of.
  destruct (query_selects_fuel _ _ _ p Hwf H) as (m & Hm & Hev). rewrite Hm. exact Hev.
Qed.

(* ------------------------------------------------------------------ pieces of a text are substrings *)
Lemma rsplit_dcolon_app s : forall a r, rsplit_dcolon s = Some (a, r) -> s = a ++ c_colon :: c_colon :: r.
Proof.
  induction s as [|x s IH]; intros a r H; [discriminate|].
  cbn [rsplit_dcolon] in H. destruct (rsplit_dcolon s) as [[p q]|].
  - injection H as <- <-. cbn [app]. f_equal. apply IH. reflexivity.
  - destruct s as [|y s']; [discriminate|].
    destruct ((x =? c_colon) && (y =? c_colon)) eqn:E; [|discriminate].
    injection H as <- <-. apply andb_true_iff in E as [E1 E2].
    apply N.eqb_eq in E1, E2. subst. reflexivity.
Qed.

Lemma split_last_app c s : forall a b, Model_C03.split_last c s = Some (a, b) -> s = a ++ c :: b.
Proof.
  induction s as [|x s IH]; intros a b H; [discriminate|].
  cbn [Model_C03.split_last] in H. destruct (Model_C03.split_last c s) as [[p q]|].
  - injection H as <- <-. cbn [app]. f_equal. apply IH. reflexivity.
  - destruct (x =? c) eqn:E; [|discriminate]. injection H as <- <-. apply N.eqb_eq in E. subst. reflexivity.
Qed.

Lemma split_first_app c s : forall a b, Model_C03.split_first c s = Some (a, b) -> s = a ++ c :: b.
Proof.
  induction s as [|x s IH]; intros a b H; [discriminate|].
  cbn [Model_C03.split_first] in H. destruct (x =? c) eqn:E.
  - injection H as <- <-. apply N.eqb_eq in E. subst. reflexivity.
  - destruct (Model_C03.split_first c s) as [[p q]|]; [|discriminate].
    injection H as <- <-. cbn [app]. f_equal. apply IH. reflexivity.
Qed.

Lemma split_last_some c s : mem c s = true -> exists a b, Model_C03.split_last c s = Some (a, b).
Proof.
  induction s as [|x s IH]; [discriminate|]. unfold mem. cbn [existsb Model_C03.split_last]. intros H.
  destruct (Model_C03.split_last c s) as [[p q]|] eqn:E; [eauto|].
  apply orb_true_iff in H as [H|H].
  - rewrite N.eqb_sym, H. eauto.
  - destruct (IH H) as (a & b & Hab). discriminate.
Qed.

Lemma mem_app_false c a b : mem c (a ++ b) = false -> mem c a = false /\ mem c b = false.
Proof. rewrite mem_app. apply orb_false_iff. Qed.

Lemma mem_cons_false c x b : mem c (x :: b) = false -> mem c b = false.
Proof. unfold mem. cbn [existsb]. intros H. apply orb_false_iff in H. apply H. Qed.

Lemma longest_op_suffix s op rest : longest_op s = Some (op, rest) -> exists pre, s = pre ++ rest.
Proof.
  unfold longest_op. intros H.
  repeat match type of H with
         | match ?x with _ => _ end = _ => destruct x eqn:?; try discriminate
         end;
    injection H as <- <-; subst;
    first [ now (eexists [_; _]) | now (eexists [_]) ].
Qed.

Lemma slot_part_nostar attr exact tok : mem c_star tok = false -> exists l, slot_part attr exact tok = Some l.
Proof. intros H. unfold slot_part. rewrite H. destruct (is_nil tok); eauto. Qed.

(* the head of a text without "*" and "!" never fails, and its pieces contain no "*" *)
Lemma head_nostar t : mem c_star t = false -> mem c_bang t = false ->
  exists text rs, parse_head t = HOk (strip t) text rs /\ mem c_star text = false
                  /\ q_body (split_query t) = text.
Proof.
  intros Hs Hb. unfold parse_head, split_query.
  rewrite (mem_strip c_bang t eq_refl), Hb.
  assert (Ho : mem c_star (strip t) = false) by (rewrite (mem_strip c_star t eq_refl); exact Hs).
  assert (Ht1 : forall a r, rsplit_dcolon (strip t) = Some (a, r) -> mem c_star a = false).
  { intros a r E. apply rsplit_dcolon_app in E. rewrite E in Ho. apply mem_app_false in Ho. apply Ho. }
  assert (G : forall t1 rs1, mem c_star t1 = false ->
            exists text rs,
              match Model_C03.split_last c_colon t1 with
              | Some (a, sl) =>
                  let '(slot, sub) := match Model_C03.split_first c_slash sl with
                                      | Some (x, y) => (x, y) | None => (sl, []) end in
                  match slot_part 2 RSlot slot, slot_part 3 RSubSlot sub with
                  | Some x, Some y => HOk (strip t) a (rs1 ++ x ++ y)
                  | _, _ => HBadGlob
                  end
              | None => HOk (strip t) t1 rs1
              end = HOk (strip t) text rs /\ mem c_star text = false
              /\ q_body (let '(body, sl) := match Model_C03.split_last c_colon t1 with
                                            | Some (a, s) => (a, s) | None => (t1, []) end in
                         let '(slot, sub) := match Model_C03.split_first c_slash sl with
                                             | Some (x, y) => (x, y) | None => (sl, []) end in
                         {| q_orig := strip t; q_repo := None; q_slot := slot; q_sub := sub; q_body := body |})
                 = text).
  { intros t1 rs1 H1. destruct (Model_C03.split_last c_colon t1) as [[a sl]|] eqn:E.
    - apply split_last_app in E. rewrite E in H1. apply mem_app_false in H1 as [Ha Hsl].
      apply mem_cons_false in Hsl.
      destruct (Model_C03.split_first c_slash sl) as [[x y]|] eqn:E2.
      + apply split_first_app in E2. rewrite E2 in Hsl. apply mem_app_false in Hsl as [Hx Hy].
        apply mem_cons_false in Hy.
        destruct (slot_part_nostar 2 RSlot x Hx) as [lx ->].
        destruct (slot_part_nostar 3 RSubSlot y Hy) as [ly ->]. eauto.
      + destruct (slot_part_nostar 2 RSlot sl Hsl) as [lx ->].
        destruct (slot_part_nostar 3 RSubSlot [] eq_refl) as [ly ->]. eauto.
    - eauto. }
  destruct (rsplit_dcolon (strip t)) as [[a r]|] eqn:E.
  - destruct (G a [QR (RRepo r)] (Ht1 _ _ eq_refl)) as (text & rs & H1 & H2 & H3).
    exists text, rs. split; [exact H1|]. split; [exact H2|].
    revert H3. destruct (Model_C03.split_last c_colon a) as [[? ?]|];
      [destruct (Model_C03.split_first c_slash _) as [[? ?]|]|]; intros H3; exact H3.
  - destruct (G (strip t) [] Ho) as (text & rs & H1 & H2 & H3).
    exists text, rs. split; [exact H1|]. split; [exact H2|].
    revert H3. destruct (Model_C03.split_last c_colon (strip t)) as [[? ?]|];
      [destruct (Model_C03.split_first c_slash _) as [[? ?]|]|]; intros H3; exact H3.
Qed.

(* a plain atom string (category/package, no glob, no blocker) selects what the atom matches *)
Definition atom_result (t : str) : res :=
  match Model_C03.parse_atom None false (strip t) with
  | Model_C03.Ok a => if Model_C03.a_transitive a then EUnmodelled else Ok (QAtom a)
  | _ => EParse
  end.

Lemma plain_atom_same_as_atom_proof : forall fix_ t,
  mem c_star t = false -> mem c_bang t = false -> mem c_slash (q_body (split_query t)) = true ->
  parse_match_gen fix_ t = atom_result t
  /\ forall a p, atom_result t = Ok (QAtom a) -> eval (QAtom a) p = atom_match ver_cmp (bridge a) p.
Proof.
  intros fix_ t Hs Hb Hsl. split; [|reflexivity].
  destruct (head_nostar t Hs Hb) as (text & rs & Hh & Hst & Hq). rewrite Hq in Hsl.
  unfold parse_match_gen, atom_result. cbn [parse_match_fuel]. rewrite Hh.
  destruct (split_last_some _ _ Hsl) as (c & n & ->).
  rewrite Hst. cbn [negb]. rewrite orb_true_r.
  destruct (Model_C03.parse_atom None false (strip t)); reflexivity.
Qed.

(* ------------------------------------------------------------------ the atom clause, precisely *)
Lemma slot_part_cases attr exact tok :
  (bad_tok tok = true /\ slot_part attr exact tok = None)
  \/ (bad_tok tok = false /\ exists l, slot_part attr exact tok = Some l).
Proof.
  unfold bad_tok, slot_part, convert_glob.
  destruct (is_nil tok) eqn:En.
  - right. destruct tok; [|discriminate]. split; [reflexivity|eauto].
  - destruct (mem c_star tok) eqn:Em; cbn [andb negb orb]; [|right; split; [reflexivity|eauto]].
    destruct (str_eqb tok [c_star]); cbn [negb andb]; [right; split; [reflexivity|eauto]|].
    destruct (valid_glob tok); cbn [negb]; [right; split; [reflexivity|eauto]|left; split; reflexivity].
Qed.

Lemma head_cases t : mem c_bang t = false ->
  (head_rejects t = true /\ parse_head t = HBadGlob)
  \/ (head_rejects t = false /\ exists rs, parse_head t = HOk (strip t) (q_body (split_query t)) rs).
Proof.
  intros Hb. unfold parse_head, head_rejects, split_query. rewrite (mem_strip c_bang t eq_refl), Hb.
  destruct (rsplit_dcolon (strip t)) as [[a r]|];
    (destruct (Model_C03.split_last c_colon _) as [[b sl]|];
     [ destruct (Model_C03.split_first c_slash sl) as [[x y]|]; cbn [q_slot q_sub q_body];
       [ destruct (slot_part_cases 2 RSlot x) as [[-> ->]|[-> [lx ->]]];
         [left; split; reflexivity|];
         destruct (slot_part_cases 3 RSubSlot y) as [[-> ->]|[-> [ly ->]]];
         [left; split; reflexivity|right; split; [reflexivity|eauto]]
       | destruct (slot_part_cases 2 RSlot sl) as [[-> ->]|[-> [lx ->]]];
         [left; split; reflexivity|right; split; [reflexivity|cbn; eauto]] ]
     | right; cbn [q_slot q_sub q_body]; split; [reflexivity|eauto] ]).
Qed.

(* the class is exactly where the head of parse_match rejects *)
Lemma head_rejects_iff_proof : forall t, mem c_bang t = false ->
  (parse_head t = HBadGlob <-> head_rejects t = true).
Proof.
  intros t Hb. destruct (head_cases t Hb) as [[H1 H2]|[H1 [rs H2]]]; rewrite H1, H2; split; congruence.
Qed.

Lemma class_rejected_proof : forall fix_ t, mem c_bang t = false -> head_rejects t = true ->
  parse_match_gen fix_ t = EParse.
Proof.
  intros fix_ t Hb Hr. destruct (head_cases t Hb) as [[_ H2]|[H1 _]]; [|congruence].
  unfold parse_match_gen. cbn [parse_match_fuel]. rewrite H2. reflexivity.
Qed.

(* outside the class, a text that is a valid atom and reads as one is accepted as that atom *)
Lemma atom_accepted_partial_proof : forall fix_ t a,
  mem c_bang t = false -> head_rejects t = false -> atom_shaped t = true ->
  Model_C03.parse_atom None false (strip t) = Model_C03.Ok a ->
  parse_match_gen fix_ t = atom_result t
  /\ (Model_C03.a_transitive a = false -> parse_match_gen fix_ t = Ok (QAtom a)).
Proof.
  intros fix_ t a Hb Hr Hs Ha.
  destruct (head_cases t Hb) as [[H1 _]|[_ [rs Hh]]]; [congruence|].
  unfold atom_shaped in Hs. apply andb_true_iff in Hs as [Hsl Hop].
  unfold parse_match_gen, atom_result. cbn [parse_match_fuel]. rewrite Hh.
  destruct (split_last_some _ _ Hsl) as (c & n & ->). rewrite Hop, Ha.
  split; [reflexivity|]. intros ->. reflexivity.
Qed.

(* ------------------------------------------------------------------ pinned tree vs repaired *)
(* the two behaviours differ only on texts that contain both a ":" and a "*" *)
Lemma head_nocolon t : mem c_colon t = false ->
  parse_head t = HBlocker \/ parse_head t = HOk (strip t) (strip t) [].
Proof.
  intros H. unfold parse_head. destruct (mem c_bang (strip t)); [left; reflexivity|right].
  assert (Ho : mem c_colon (strip t) = false) by (rewrite (mem_strip c_colon t eq_refl); exact H).
  destruct (rsplit_dcolon (strip t)) as [[a r]|] eqn:E.
  - apply rsplit_dcolon_app in E. rewrite E, mem_app in Ho. apply orb_false_iff in Ho as [_ Ho].
    unfold mem in Ho. cbn in Ho. discriminate.
  - destruct (Model_C03.split_last c_colon (strip t)) as [[a sl]|] eqn:E2; [|reflexivity].
    apply split_last_app in E2. rewrite E2, mem_app in Ho. apply orb_false_iff in Ho as [_ Ho].
    unfold mem in Ho. cbn in Ho. discriminate.
Qed.

Lemma nocolon_same : forall f t, mem c_colon t = false ->
  parse_match_fuel false f t = parse_match_fuel true f t.
Proof.
  induction f as [|f IH]; intros t H; [reflexivity|].
  cbn [parse_match_fuel]. destruct (head_nocolon t H) as [-> | ->]; [reflexivity|].
  assert (Ho : mem c_colon (strip t) = false) by (rewrite (mem_strip c_colon t eq_refl); exact H).
  destruct (Model_C03.split_last c_slash (strip t)) as [[c n]|]; [|reflexivity].
  destruct (starts_op (strip t) || negb (mem c_star (strip t))); [|reflexivity].
  destruct (Model_C03.parse_atom None false (strip t)); try reflexivity;
    (destruct (negb (mem c_star (strip t))); [reflexivity|];
     destruct (longest_op (strip t)) as [[op rest]|] eqn:El; [|reflexivity];
     destruct (Model_C03.split_last c_dash rest) as [[c0 vt]|] eqn:Ed; [|reflexivity];
     destruct (Model_C03.m_version vt); [|reflexivity];
     rewrite IH; [reflexivity|];
     apply longest_op_suffix in El as [pre El]; rewrite El in Ho; apply mem_app_false in Ho as [_ Ho];
     apply split_last_app in Ed; rewrite Ed in Ho; apply mem_app_false in Ho; apply Ho).
Qed.

Lemma nostar_same : forall t, mem c_star t = false -> parse_match_orig t = parse_match t.
Proof.
  intros t Hs. unfold parse_match_orig, parse_match, parse_match_gen. cbn [parse_match_fuel].
  destruct (mem c_bang t) eqn:Hb.
  - unfold parse_head. rewrite (mem_strip c_bang t eq_refl), Hb. reflexivity.
  - destruct (head_nostar t Hs Hb) as (text & rs & -> & Hst & _).
    destruct (Model_C03.split_last c_slash text) as [[c n]|]; [|reflexivity].
    rewrite Hst. cbn [negb]. rewrite orb_true_r.
    destruct (Model_C03.parse_atom None false (strip t)); reflexivity.
Qed.

Definition known_class (t : str) : bool := mem c_colon t && mem c_star t.

Lemma orig_is_fixed_partial_proof : forall t, known_class t = false -> parse_match_orig t = parse_match t.
Proof.
  intros t H. apply andb_false_iff in H as [H|H].
  - apply nocolon_same, H.
  - apply nostar_same, H.
Qed.

(* ------------------------------------------------------------------ witnesses *)
Definition mkpkg (c n v sl ss r : bstr) : package :=
  {| p_cat := s2l c; p_pkg := s2l n; p_ver := s2l v; p_rev := None; p_fullver := s2l v;
     p_slot := s2l sl; p_subslot := s2l ss; p_repo := s2l r; p_use := []; p_iuse := [] |}.
Arguments mkpkg (c n v sl ss r)%bs_scope.
Definition alsa_lib_0 := mkpkg "media-libs" "alsa-lib" "1.2" "0" "0" "gentoo".
Definition alsa_lib_5 := mkpkg "media-libs" "alsa-lib" "1.2" "5" "5" "other".
Definition alsa_old := mkpkg "media-libs" "alsa-lib" "1.0" "0" "0" "gentoo".
Definition qtcore_5 := mkpkg "dev-qt" "qtcore" "5.15" "5" "5.15" "gentoo".

Definition unres (r : res) : qr := match r with Ok q => q | _ => QTrue end.
Definition t_globver : str := s2l ">=*/alsa-*-1.1.7:0"%bs.
Definition r_globver_orig : qr := Eval vm_compute in unres (parse_match_orig t_globver).
Definition r_globver : qr := Eval vm_compute in unres (parse_match t_globver).

(* the full statement for the pinned tree, and its refutation *)
Definition C44_orig_full_statement : Prop :=
  forall t r p, wf_pkg p = true -> parse_match_orig t = Ok r -> eval r p = describes t p.

Lemma query_selects_orig_refuted_proof : ~ C44_orig_full_statement.
Proof.
  intros H.
  assert (Er : parse_match_orig t_globver = Ok r_globver_orig) by (vm_compute; reflexivity).
  specialize (H t_globver r_globver_orig alsa_lib_5 eq_refl Er).
  assert (E1 : eval r_globver_orig alsa_lib_5 = true) by (vm_compute; reflexivity).
  assert (E2 : describes t_globver alsa_lib_5 = false) by (vm_compute; reflexivity).
  congruence.
Qed.

(* "every (non-blocker, non-transitive) atom text is accepted and selects what the atom matches":
   false for the slot operator * followed by a USE block *)
Definition C44_atom_full_statement : Prop :=
  forall t a, mem c_bang t = false ->
    Model_C03.parse_atom None false (strip t) = Model_C03.Ok a -> Model_C03.a_transitive a = false ->
    parse_match t = Ok (QAtom a).

Definition t_slotstar : str := s2l "a/b:*[x]"%bs.
Definition a_slotstar : Model_C03.atom_rec :=
  Eval vm_compute in
    match Model_C03.parse_atom None false (strip t_slotstar) with
    | Model_C03.Ok a => a
    | _ => Model_C03.Build_atom_rec [] [] [] None None [] false false None None None None None false false
    end.

Lemma atom_accepted_refuted_proof : ~ C44_atom_full_statement.
Proof.
  intros H.
  assert (Ea : Model_C03.parse_atom None false (strip t_slotstar) = Model_C03.Ok a_slotstar)
    by (vm_compute; reflexivity).
  specialize (H t_slotstar a_slotstar eq_refl Ea eq_refl).
  assert (E : parse_match t_slotstar = EParse) by (vm_compute; reflexivity).
  congruence.
Qed.

Example ex_atom_class :
  atom_class t_slotstar = true /\ head_rejects t_slotstar = true
  /\ atom_class (s2l "a/b:*"%bs) = false /\ atom_shaped (s2l "=a/b-1*:*::r[x]"%bs) = true
  /\ head_rejects (s2l "=a/b-1*:*::r[x]"%bs) = false.
Proof. repeat split; vm_compute; reflexivity. Qed.

(* ------------------------------------------------------------------ non-vacuity *)
Definition t_pair : str := s2l " dev-*/qt*:5*/*15::gentoo "%bs.
Definition r_pair : qr := Eval vm_compute in unres (parse_match t_pair).
Example ex_glob_pair :
  parse_match t_pair = Ok r_pair
  /\ eval r_pair qtcore_5 = true /\ eval r_pair alsa_lib_5 = false /\ describes t_pair qtcore_5 = true.
Proof. repeat split; vm_compute; reflexivity. Qed.

Example ex_globver_fixed :
  parse_match t_globver = Ok r_globver
  /\ eval r_globver alsa_lib_0 = true /\ eval r_globver alsa_lib_5 = false /\ eval r_globver alsa_old = false.
Proof. repeat split; vm_compute; reflexivity. Qed.

Definition t_nocat : str := s2l ">=alsa-lib-1.1:0"%bs.
Definition r_nocat : qr := Eval vm_compute in unres (parse_match t_nocat).
Example ex_nocat :
  parse_match t_nocat = Ok r_nocat
  /\ eval r_nocat alsa_lib_0 = true /\ eval r_nocat alsa_old = false /\ eval r_nocat alsa_lib_5 = false.
Proof. repeat split; vm_compute; reflexivity. Qed.

Definition t_atom : str := s2l "media-libs/alsa-lib:0"%bs.
Example ex_plain_atom :
  mem c_star t_atom = false /\ mem c_bang t_atom = false /\ mem c_slash (q_body (split_query t_atom)) = true
  /\ parse_match t_atom = atom_result t_atom /\ atom_result t_atom <> EParse.
Proof. repeat split; try (vm_compute; reflexivity). vm_compute. discriminate. Qed.

Example ex_shell : shell_match (s2l "a*b*"%bs) (s2l "aXbbY"%bs).
Proof. apply glob_match_is_shell_proof. vm_compute. reflexivity. Qed.

Example ex_known_class : known_class t_globver = true.
Proof. reflexivity. Qed.

Example ex_rejected :
  parse_match (s2l "a**"%bs) = EParse /\ parse_match (s2l "dev-qt/qtcore:5*"%bs) = EParse
  /\ parse_match (s2l "=*/foo-1*"%bs) = EParse /\ parse_match (s2l ">*a-1"%bs) = EParse.
Proof. repeat split; vm_compute; reflexivity. Qed.
