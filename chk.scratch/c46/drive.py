import os, sys, io, tempfile, shutil, time
from copy import copy
from snakeoil.cli import arghparse
from snakeoil.formatters import PlainTextFormatter
from snakeoil import klass
from pkgcore.config import basics, central
from pkgcore.config.hint import ConfigHint
from pkgcore.repository import prototype, util
from pkgcore.test.misc import FakePkgBase
from pkgcore.ebuild.ebuild_built import package as built_package
from pkgcore.scripts import pclean

class MemRepo(prototype.tree):
    def __init__(self, pkgs, repo_id, location="/nonexistent/c46repo"):
        # pkgs: {cpvstr: data}
        self.repo_id = repo_id
        self.location = location
        self._pk = pkgs
        d = {}
        from pkgcore.ebuild.cpv import CPV
        for c in pkgs:
            cpv = CPV(c, versioned=True)
            d.setdefault(cpv.category, {}).setdefault(cpv.package, []).append(cpv.fullver)
        self.cpv_dict = d
        super().__init__(frozen=True)
    def package_class(self, cat, pkg, ver):
        c = f"{cat}/{pkg}-{ver}"
        return SrcPkg(c, data=dict(self._pk[c]), repo=self)
    def _get_categories(self): return tuple(self.cpv_dict)
    def _get_packages(self, category): return tuple(self.cpv_dict[category])
    def _get_versions(self, k): return tuple(self.cpv_dict[k[0]][k[1]])

from pkgcore.ebuild.eapi import get_eapi
class SrcPkg(FakePkgBase):
    def __init__(self, *a, **k):
        super().__init__(*a, **k)
        object.__setattr__(self, "eapi", get_eapi(self.data.get("EAPI", "8"), False))

class InstPkg(SrcPkg):
    @property
    def distfiles(self):
        return tuple(self.data.get("DISTFILES", "").split())

class VdbRepo(MemRepo):
    def package_class(self, cat, pkg, ver):
        c = f"{cat}/{pkg}-{ver}"
        return InstPkg(c, data=dict(self._pk[c]), repo=self)

class Dom:
    pkgcore_config_type = ConfigHint(typename="domain")
    def __init__(self, distdir, src, vdb):
        self.distdir = distdir
        self.source_repos = util.RepositoryGroup(src)
        self.source_repos_raw = self.source_repos
        self.installed_repos = util.RepositoryGroup(vdb)
    all_source_repos_raw = klass.alias_attr("source_repos_raw.combined")
    all_installed_repos = klass.alias_attr("installed_repos.combined")

class Tty(io.StringIO):
    def isatty(self): return True

def run(argv, distdir, src, vdb, tty=True):
    dom = Dom(distdir, src, vdb)
    sec = basics.HardCodedConfigSection({"class": lambda: dom, "default": True})
    sec2 = basics.HardCodedConfigSection({"class": Dom, "default": True})
    def mk(): return dom
    mk.pkgcore_config_type = ConfigHint(typename="domain")
    sec = basics.HardCodedConfigSection({"class": mk, "default": True})
    ns = arghparse.Namespace()
    ns.config = central.CompatConfigManager(central.ConfigManager([{"domain": sec}], debug=True))
    parser = copy(pclean.argparser)
    ns = parser.parse_args(argv, namespace=ns)
    out = PlainTextFormatter(io.BytesIO()); err = PlainTextFormatter(io.BytesIO())
    old = sys.stdout
    sys.stdout = Tty() if tty else io.StringIO()
    try:
        ret = ns.main_func(ns, out, err)
    finally:
        sys.stdout = old
    return ret, out.stream.getvalue(), err.stream.getvalue()

if __name__ == "__main__":
    d = tempfile.mkdtemp()
    os.chdir(d)
    dist = os.path.join(d, "dist"); os.mkdir(dist)
    for f in ["foo-1.0.tar.gz", "foo-0.9.tar.gz", "foo-bar-1.0.tar.gz", "baz-2.tar.gz", "other.txt"]:
        open(os.path.join(dist, f), "w").write("x")
    src = [MemRepo({"cat/foo-1.0": {"SRC_URI": "http://x/foo-1.0.tar.gz"},
                    "cat/foo-bar-1.0": {"SRC_URI": "http://x/foo-bar-1.0.tar.gz"},
                    "cat/baz-2": {"SRC_URI": "http://x/baz-2.tar.gz", "RESTRICT": "fetch"}}, "r1")]
    vdb = [VdbRepo({"cat/foo-0.9": {"DISTFILES": "foo-0.9.tar.gz"}}, "vdb")]
    print(run(sys.argv[1:], dist, src, vdb))
    print(sorted(os.listdir(dist)))
    shutil.rmtree(d)
