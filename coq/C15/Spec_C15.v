(* Spec_C15.v — the statement of C15 on one exported resolution, written with quantifiers over
   the final state and not as a program.

   "Whenever the resolver reports success for a set of targets, the plan together with the
    installed packages it keeps contains a package matching each target, satisfies at least one
    alternative of every DEPEND/BDEPEND/RDEPEND/IDEPEND/PDEPEND clause of every package it
    merges, holds at most one package per name and slot, and contains no package matched by a
    blocker of another planned package."

   Reading fixed here:
   * final state = installed packages, transformed by the ops in order (add / remove / replace);
     the op list must be a meaningful transformation (OpsOk): every op names a known package, an
     "add" of an installed package is a keep (it is still there), a remove/replace acts on a
     package that is there, a replace stays inside one (key, slot);
   * merged package = a source-repository package added by an op and present at the end;
     planned package = any package added (or kept) by an op and present at the end;
   * an alternative that is a plain atom is satisfied when some package of the final state
     matches it; an alternative that is a blocker is satisfied when no *other* package of the
     final state matches it;
   * the blocker clause concerns unconditional blockers (a clause that is one blocker atom) of
     every planned package, installed ones included; for an installed package that is a *built*
     package the harness exports DEPEND and BDEPEND as empty: the build-time dependencies recorded
     for an already built package bind nothing (merge_plan skips them unless process_built_depends). *)
From Coq Require Import List NArith ZArith Bool.
Import ListNotations.
From Verif Require Import Base.Val C15.Model_C15.

Definition Matches (c : case) (a p : N) : Prop := In p (nth (N.to_nat a) (cmatch c) []).
Definition SameSlot (a b : pkg) : Prop := pkey a = pkey b /\ pslot a = pslot b.

Definition OpOk (c : case) (st : list N) (o : op) : Prop :=
  (ocode o = 0%N /\ exists pk, getp c (opkg o) = Some pk /\ (plivefs pk = true -> In (opkg o) st))
  \/ (ocode o = 1%N /\ (exists pk, getp c (opkg o) = Some pk) /\ In (opkg o) st)
  \/ (ocode o = 2%N /\ exists pk ok, getp c (opkg o) = Some pk /\ getp c (oold o) = Some ok
                               /\ In (oold o) st /\ SameSlot pk ok).
Inductive OpsOk (c : case) : list N -> list op -> Prop :=
| OpsOk_nil : forall st, OpsOk c st []
| OpsOk_cons : forall st o os, OpOk c st o -> OpsOk c (step st o) os -> OpsOk c st (o :: os).

Definition Final (c : case) (p : N) : Prop := In p (final_state c).
Definition Planned (c : case) (p : N) : Prop :=
  Final c p /\ exists o, In o (cops c) /\ (ocode o = 0%N \/ ocode o = 2%N) /\ opkg o = p.
Definition Merged (c : case) (p : N) : Prop :=
  Planned c p /\ exists pk, getp c p = Some pk /\ plivefs pk = false.

Definition AltSat (c : case) (p alt : N) : Prop :=
  if alt_blocks alt
  then forall q, Final c q -> Matches c (alt_atom alt) q -> q = p
  else exists q, Final c q /\ Matches c (alt_atom alt) q.

Definition TargetsMet (c : case) : Prop :=
  forall t, In t (ctargets c) -> exists p, Final c p /\ Matches c t p.
Definition DepsClosed (c : case) : Prop :=
  forall p pk cls clause, Merged c p -> getp c p = Some pk -> In cls (pdeps pk) -> In clause cls ->
    exists alt, In alt clause /\ AltSat c p alt.
Definition SlotsUnique (c : case) : Prop :=
  forall p q pk qk, Final c p -> Final c q -> getp c p = Some pk -> getp c q = Some qk ->
    SameSlot pk qk -> p = q.
Definition NoBlocked (c : case) : Prop :=
  forall p pk cls b q, Planned c p -> getp c p = Some pk -> In cls (pdeps pk) -> In [b] cls ->
    alt_blocks b = true -> Final c q -> Matches c (alt_atom b) q -> q = p.

Definition ValidPlan (c : case) : Prop :=
  OpsOk c (installed c) (cops c) /\ TargetsMet c /\ DepsClosed c /\ SlotsUnique c /\ NoBlocked c.

(* comparison (B) on the implementation's recorded plan is [check_plan] itself (Model_C15), which
   Proofs_C15 shows equivalent to ValidPlan. *)
