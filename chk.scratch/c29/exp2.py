import os, sys, bz2, tempfile, shutil, contextlib
sys.path.insert(0, "/verif")
from harness import fsx
from pkgcore.vdb import ondisk
from pkgcore.binpkg import repository as binrepo

@contextlib.contextmanager
def dirfd_adapter():
    cur_unlink, cur_rmdir = os.unlink, os.rmdir
    def conv(fn):
        def w(path, *, dir_fd=None):
            if dir_fd is not None:
                path = os.path.join(os.readlink(f"/proc/self/fd/{dir_fd}"), os.fsdecode(path))
            return fn(path)
        return w
    os.unlink, os.rmdir = conv(cur_unlink), conv(cur_rmdir)
    try: yield
    finally: os.unlink, os.rmdir = cur_unlink, cur_rmdir

def mkpkg(root, cat, pf, meta, contents=""):
    d = os.path.join(root, cat, pf)
    os.makedirs(d)
    for k, v in meta.items():
        with open(os.path.join(d, k), "w") as f: f.write(v + "\n" if v else v)
    with open(os.path.join(d, "CONTENTS"), "w") as f: f.write(contents)
    with open(os.path.join(d, "environment.bz2"), "wb") as f: f.write(bz2.compress(b"FOO=bar\n"))
    with open(os.path.join(d, pf + ".ebuild"), "w") as f: f.write("# ebuild\n")

top = tempfile.mkdtemp(prefix="c29x_")
src = os.path.join(top, "src"); tgt = os.path.join(top, "vdb"); os.makedirs(tgt)
meta = dict(EAPI="8", SLOT="0", DESCRIPTION="d", KEYWORDS="amd64", RDEPEND="dev-libs/x", USE="a b", IUSE="a b c", repository="gentoo")
mkpkg(src, "app-misc", "foo-1.1", meta)
mkpkg(tgt, "app-misc", "foo-1.0", dict(meta, DESCRIPTION="old"))
os.mkdir(os.path.join(tgt, "app-misc", "foo-1.0", "sub")); open(os.path.join(tgt, "app-misc", "foo-1.0", "sub", "x"), "w").close()
new = list(ondisk.tree(src, disable_cache=True))[0]
class Dom: pm_tmpdir = os.path.join(top, "tmp")
t = ondisk.tree(tgt, disable_cache=True)
old = list(t)[0]
def go():
    with dirfd_adapter():
        op = t.operations.replace(old, new)
        op.add_data(Dom())
        op.finish()
run = fsx.record(go, top)
print(run.exc)
for c in run.trace:
    if c.kind not in ("create", "write"): print(c)
print(os.listdir(os.path.join(tgt, "app-misc")))
# binpkg
b = os.path.join(top, "bin"); os.makedirs(b)
bt = binrepo.tree(b)
def go2():
    with dirfd_adapter():
        op = bt.operations.install(new)
        op.finish()
run = fsx.record(go2, top)
print(run.exc)
for c in run.trace: print(c)
print(os.listdir(b), os.listdir(os.path.join(b, "app-misc")))
bt2 = binrepo.tree(b)
p = list(bt2)
print(p, p[0].description, p[0].environment.bytes_fileobj().read())
def go3():
    op = bt2.operations.replace(p[0], new); op.finish()
run = fsx.record(go3, top)
print(run.exc)
for c in run.trace: print(c)
bt3 = binrepo.tree(b); p = list(bt3)
def go4():
    op = bt3.operations.uninstall(p[0]); op.finish()
run = fsx.record(go4, top)
print(run.exc)
for c in run.trace: print(c)
print(os.listdir(b))
shutil.rmtree(top)
