"""C49 — generated metadata accumulates eclass values as PMS requires (DESIGN §6 C49).

Every case is one ebuild (EAPI 0..8) plus the eclasses it inherits, written into ONE scratch
repository (profiles/repo_name, metadata/layout.conf with `cache-formats =`, eclass/, cat/pN/).
A case is a program over the metadata-relevant bash subset
    VAR="t .."   VAR+=" t .."   unset VAR   f() { :; } / EXPORT_FUNCTIONS f   inherit e ..
with every token unique inside the case (so duplicated / lost values are visible).

Streams
  daemon   metadata regenerated through REAL EbuildProcessor daemons (pkg._fetch_metadata ->
           package_factory._update_metadata -> EbuildProcessor.get_keys -> ebuild-daemon.bash ->
           __execute_phases depend), caching disabled; pkg.inherited / pkg.inherit / pkg.defined_phases
  direct   the same ebuilds (and many more) run through the real bash FUNCTIONS
           (__execute_phases depend: __load_eapi_libs, __load_ebuild, inherit, __internal_inherit,
           __qa_invoke, __dump_metadata_keys sourced from $VERIF_REPO/data/lib/pkgcore/ebd) in one
           plain bash process whose only stubs are the two IPC transport functions; the emitted
           `key K=V` lines go through the real EbuildProcessor.get_keys line parser shape and the
           real package_factory._update_metadata.  High volume, no daemon round trips.
  missing  (daemon) inherit of an eclass that does not exist -> MetadataException

Compared per case, as sorted token lists per key
  (A) implementation vs Model_C49.run_meta (in Coq)
  (B) implementation vs Spec_C49.spec_meta (in Coq; the statement's oracle) and the same oracle in
      Python, used to name the disagreeing keys and classify known findings.
"""

from __future__ import annotations

import ast
import concurrent.futures as cf
import os
import re
import shutil
import signal
import subprocess
import sys
import tempfile
from pathlib import Path

from . import tables
from .common import REPO, Check, Err, cN, cbool, clist, cpair, cstr, impl_call
from .tables import TableError

IMPORTS = ("From Coq Require Import List NArith ZArith Bool.\n"
           "From Verif Require Import Base.Val gen.Tables_C49 C49.Model_C49 C49.Spec_C49.")
ANCHORS = ["../../data/lib/pkgcore/ebd/ebuild-default-functions.bash", "../../data/lib/pkgcore/ebd/ebuild.bash",
           "../../data/lib/pkgcore/ebd/ebuild-daemon-lib.bash",
           "ebuild/ebuild_src.py::package_factory._update_metadata", "ebuild/processor.py::EbuildProcessor.get_keys",
           "ebuild/processor.py::inherit_handler", "ebuild/eapi.py"]  # bash files: whole-file hashes

VARS = ["IUSE", "REQUIRED_USE", "DEPEND", "RDEPEND", "PDEPEND", "BDEPEND", "IDEPEND", "PROPERTIES", "RESTRICT",
        "DESCRIPTION", "HOMEPAGE", "KEYWORDS", "LICENSE", "SLOT", "SRC_URI"]
VID = {k: i for i, k in enumerate(VARS)}
DEPV = (2, 3, 4, 5, 6)
SPECIAL = ("DEFINED_PHASES", "INHERIT", "INHERITED", "EAPI")
EBD = REPO / "data" / "lib" / "pkgcore" / "ebd"
FUNCS = ["pkg_pretend", "pkg_setup", "src_unpack", "src_prepare", "src_configure", "src_compile", "src_test",
         "src_install", "pkg_preinst", "pkg_postinst", "pkg_prerm", "pkg_postrm", "pkg_config", "pkg_info",
         "pkg_nofetch", "src_foo", "pkg_bar", "compile", "helper_fn"]

# =========================================================================== regenerated tables
HELPERS = {
    "_shorten_phase_name": 'def _shorten_phase_name(func_name):\n    if func_name.startswith(("src_", "pkg_")):\n'
                           "        return func_name[4:]\n    return func_name\n",
    "_mk_phase_func_map": "def _mk_phase_func_map(*sequence):\n    return {_shorten_phase_name(x): x for x in sequence}\n",
    "_combine_dicts": "def _combine_dicts(*mappings):\n    return {k: v for d in mappings for k, v in d.items()}\n",
}


def _short(f):
    return f[4:] if f.startswith(("src_", "pkg_")) else f


class _Ev:
    """evaluator for the handful of expression shapes used by the eapiN = EAPI.register(...) chain"""

    def __init__(self, tree):
        self.tree = tree
        self.eapis = {}

    def name(self, n):
        if n == "eapi_optionals":
            v = tables.find_assign(self.tree, n)
            if not (isinstance(v, ast.Call) and isinstance(v.func, ast.Name) and v.func.id == "ImmutableDict"
                    and len(v.args) == 1):
                raise TableError("eapi_optionals is no longer ImmutableDict({...})")
            return self.ev(v.args[0])
        return self.ev(tables.find_assign(self.tree, n))

    def ev(self, e):
        if isinstance(e, ast.Constant):
            return e.value
        if isinstance(e, (ast.Tuple, ast.List)):
            return tuple(self.ev(x) for x in e.elts)
        if isinstance(e, ast.Dict):
            out = {}
            for k, v in zip(e.keys, e.values):
                if not (isinstance(k, ast.Constant) and isinstance(k.value, str)):
                    raise TableError("non-literal dict key in eapi.py")
                try:
                    out[k.value] = self.ev(v)
                except TableError:
                    out[k.value] = NotImplemented  # e.g. re.compile(...): option values the model ignores
            return out
        if isinstance(e, ast.Name):
            return self.name(e.id)
        if isinstance(e, ast.Attribute) and isinstance(e.value, ast.Name) and e.value.id in self.eapis:
            d = self.eapis[e.value.id]
            if e.attr not in d:
                raise TableError(f"unknown EAPI attribute .{e.attr}")
            return d[e.attr]
        if isinstance(e, ast.BinOp) and isinstance(e.op, (ast.BitOr, ast.Sub)):
            a, b = self.ev(e.left), self.ev(e.right)
            if not (isinstance(a, frozenset) and isinstance(b, frozenset)):
                raise TableError("| or - on non-frozensets")
            return a | b if isinstance(e.op, ast.BitOr) else a - b
        if isinstance(e, ast.Call) and isinstance(e.func, ast.Name) and not e.keywords:
            f = e.func.id
            if f == "frozenset" and len(e.args) <= 1:
                return frozenset(self.ev(e.args[0])) if e.args else frozenset()
            if f == "_mk_phase_func_map":
                seq = []
                for a in e.args:
                    if isinstance(a, ast.Starred):
                        seq.extend(self.ev(a.value))
                    else:
                        seq.append(self.ev(a))
                if not all(isinstance(x, str) for x in seq):
                    raise TableError("_mk_phase_func_map of non-strings")
                return {_short(x): x for x in seq}
            if f == "_combine_dicts":
                out = {}
                for a in e.args:
                    d = self.ev(a)
                    if not isinstance(d, dict):
                        raise TableError("_combine_dicts of a non-dict")
                    out.update(d)
                return out
        raise TableError(f"eapi.py: expression shape not understood: {ast.dump(e)[:160]}")


def _eapi_rows():
    tree = tables.parse("ebuild/eapi.py")
    for fn, src in HELPERS.items():
        if ast.dump(tables.find_func(tree, fn)) != ast.dump(ast.parse(src).body[0]):
            raise TableError(f"eapi.py helper {fn} changed; the table extractor no longer knows what it computes")
    init = ast.unparse(tables.find_func(tree, "EAPI.__init__"))
    for needle in ("self.mandatory_keys | self.dep_keys | frozenset(metadata_keys)",
                   "ImmutableDict(((v, k) for k, v in self.phases.items()))", "ImmutableDict(phases)"):
        if needle not in init:
            raise TableError(f"EAPI.__init__ no longer contains `{needle}`")
    ev = _Ev(tree)
    rows, n = [], 0
    while True:
        nm = f"eapi{n}"
        try:
            call = tables.find_assign(tree, nm)
        except TableError:
            break
        if not (isinstance(call, ast.Call) and isinstance(call.func, ast.Attribute) and call.func.attr == "register"
                and isinstance(call.func.value, ast.Name) and call.func.value.id == "EAPI" and not call.args):
            raise TableError(f"{nm} is not EAPI.register(...)")
        kw = {k.arg: k.value for k in call.keywords}
        if not (isinstance(kw.get("magic"), ast.Constant) and kw["magic"].value == str(n)):
            raise TableError(f"{nm}: magic is not {str(n)!r}")
        d = {}
        for a in ("phases", "dep_keys", "metadata_keys", "mandatory_keys", "optionals"):
            if a not in kw:
                raise TableError(f"{nm}: no {a}= keyword")
        for a in ("phases", "dep_keys", "metadata_keys", "mandatory_keys"):
            d[a] = ev.ev(kw[a])
        d["options"] = ev.ev(kw["optionals"])
        if not isinstance(d["phases"], dict):
            raise TableError(f"{nm}: phases is not a mapping")
        for a in ("dep_keys", "metadata_keys", "mandatory_keys"):
            d[a] = frozenset(d[a])
        d["metadata_keys"] = d["mandatory_keys"] | d["dep_keys"] | d["metadata_keys"]  # as EAPI.__init__ does
        if not isinstance(d["options"], dict) or not isinstance(d["options"].get("accumulate_properties_restrict"), bool):
            raise TableError(f"{nm}: accumulate_properties_restrict is not a boolean literal")
        ev.eapis[nm] = d
        rows.append((n, d))
        n += 1
    if n < 9:
        raise TableError(f"only {n} consecutive eapiN registrations found")
    return rows


def _rdepend_default_eapis():
    """the EAPI list of `if __safe_has "${EAPI}" 0 1 2 3; then` guarding `export RDEPEND=${DEPEND}`"""
    try:
        txt = (EBD / "ebuild.bash").read_text()
    except OSError as e:
        raise TableError(f"cannot read ebuild.bash: {e}") from e
    m = re.search(r'if __safe_has "\$\{EAPI\}"((?: \d+)+); then\s*\n\s*if \[\[ \$\{RDEPEND-unset\} == "unset" \]\]; then\s*\n'
                  r'\s*export RDEPEND=\$\{DEPEND\}\s*\n\s*fi\s*\n\s*fi', txt)
    if not m:
        raise TableError("ebuild.bash: the RDEPEND=DEPEND default block has an unknown shape")
    return [int(x) for x in m.group(1).split()]


def gen_tables() -> dict:
    rows = _eapi_rows()
    rd = _rdepend_default_eapis()
    ptree = tables.parse("ebuild/processor.py")
    gk = ast.unparse(tables.find_func(ptree, "EbuildProcessor.get_keys"))
    for needle in ("tuple(package_inst.eapi.phases.values())", "tuple(package_inst.eapi.metadata_keys)"):
        if needle not in gk:
            raise TableError(f"EbuildProcessor.get_keys no longer passes `{needle}`")
    t = [tables.header("ebuild/eapi.py (EAPI.register chain: phases, dep/metadata keys, accumulate_properties_restrict) "
                       "and ebd/ebuild.bash (RDEPEND default EAPI list)")]
    t.append("(* variable ids: " + ", ".join(f"{i} {k}" for i, k in enumerate(VARS)) + " *)")
    t.append("Definition accum_pr_table : list (N * bool) := "
             + clist([cpair(cN(n), cbool(d["options"]["accumulate_properties_restrict"])) for n, d in rows]) + ".")
    mk = []
    for n, d in rows:
        for s in SPECIAL:
            if s not in d["metadata_keys"]:
                raise TableError(f"EAPI {n}: {s} is not a metadata key any more")
        unknown = sorted(d["metadata_keys"] - set(VARS) - set(SPECIAL))
        if unknown:
            raise TableError(f"EAPI {n}: metadata keys the model does not know: {unknown}")
        mk.append(cpair(cN(n), "[" + ";".join(str(VID[k]) for k in VARS if k in d["metadata_keys"]) + "]%N"))
    t.append("Definition metadata_keys_table : list (N * list N) := " + clist(mk) + ".")
    ph = []
    for n, d in rows:
        items = sorted(d["phases"].items())
        for s, f in items:
            if not (isinstance(s, str) and isinstance(f, str) and s.isascii() and f.isascii()):
                raise TableError("non-ascii phase name")
        if len({f for _, f in items}) != len(items):
            raise TableError(f"EAPI {n}: two phases share a function name")
        ph.append(cpair(cN(n), clist([cpair(cstr(s), cstr(f)) for s, f in items], "str * str")))
    t.append("(* per EAPI: (short phase name, shell function name), sorted by short name *)")
    t.append("Definition phases_table : list (N * list (str * str)) := " + clist(ph) + ".")
    t.append("Definition rdepend_default_eapis : list N := "
             + ("[" + ";".join(map(str, rd)) + "]%N" if rd else "(@nil N)") + ".")
    return {"Tables_C49.v": "\n".join(t) + "\n"}


# =========================================================================== cases
# op: ("A", v, toks) | ("P", v, toks) | ("U", v) | ("F", fname, export:bool) | ("I", [eclass ids])
# case: {"eapi": n, "ebuild": [op..], "ecl": {id: [op..]}}
def pms_localised(eapi, v):
    """the statement: IUSE, REQUIRED_USE, every dependency class, and from EAPI 8 PROPERTIES/RESTRICT"""
    return v < 7 or (eapi >= 8 and v in (7, 8))


class Gen:
    def __init__(self, rng):
        self.rng = rng

    def toks(self, st):
        r = self.rng.random()
        n = 0 if r < 0.1 else 1 if r < 0.55 else 2 if r < 0.9 else 3
        out = list(range(st["t"], st["t"] + n))
        st["t"] += n
        return out

    def var(self, eapi):
        r = self.rng.random()
        if r < 0.62:
            return self.rng.choice((0, 1, 2, 3, 3, 4, 5, 6, 2))
        if r < 0.80:
            return self.rng.choice((7, 8))
        return self.rng.choice((9, 10, 11, 12, 13, 14))

    def ops(self, st, eapi, n, avail, in_eclass, unset_acc):
        out = []
        for _ in range(n):
            r = self.rng.random()
            if r < 0.34:
                out.append(("A", self.var(eapi), self.toks(st)))
            elif r < 0.56:
                out.append(("P", self.var(eapi), self.toks(st)))
            elif r < 0.66:
                v = self.var(eapi)
                if in_eclass and not unset_acc and (v < 7 or v in (7, 8)):
                    v = self.rng.choice((9, 10, 11, 12, 13, 14))
                out.append(("U", v))
            elif r < 0.80:
                out.append(("F", self.rng.choice(FUNCS), in_eclass and self.rng.random() < 0.3))
            elif avail:
                k = 1 if self.rng.random() < 0.6 else 2
                out.append(("I", [self.rng.choice(avail) for _ in range(k)]))
            else:
                out.append(("A", self.var(eapi), self.toks(st)))
        return out

    def solo_case(self):
        """>= 2 eclasses (flat inherit line, nested chain, or both) set exactly ONE accumulated variable and no
        other variable is touched anywhere: a separator / emptiness test that looks at a neighbouring variable
        or accumulator glues or drops tokens here"""
        rng = self.rng
        eapi = 8 if rng.random() < 0.5 else rng.randrange(9)
        v = rng.choice([x for x in range(9) if not (x == 1 and eapi < 4) and not (x == 5 and eapi < 7)
                        and not (x == 6 and eapi < 8)])
        st = {"t": 1}

        def val(k=None):
            n = k or rng.choice((1, 1, 2))
            out = list(range(st["t"], st["t"] + n))
            st["t"] += n
            return out
        necl = rng.choice((2, 2, 3, 4))
        shape = rng.choice(("flat", "chain", "mixed"))
        ecl = {}
        for j in range(1, necl + 1):
            ops = [(rng.choice(("A", "A", "P")), v, val())]
            if rng.random() < 0.3:
                ops.append(("P", v, val()))
            if rng.random() < 0.2:
                ops.append(("F", rng.choice(FUNCS), rng.random() < 0.3))
            ecl[j] = ops
        if shape == "flat":
            inh = [("I", list(range(1, necl + 1)))] if rng.random() < 0.6 else [("I", [j]) for j in range(1, necl + 1)]
        elif shape == "chain":
            for j in range(1, necl):
                ecl[j].insert(rng.randint(0, len(ecl[j])), ("I", [j + 1]))
            inh = [("I", [1])]
        else:
            ecl[1].insert(rng.randint(0, len(ecl[1])), ("I", [necl]))
            inh = [("I", list(range(1, necl)))]
        eb = list(inh)
        r = rng.random()
        if r < 0.4:
            eb.insert(0, ("A", v, val()))
        elif r < 0.7:
            eb.append((rng.choice(("A", "P")), v, val()))
        if rng.random() < 0.3:
            eb.append(("P", v, val()))
        return {"eapi": eapi, "ebuild": eb, "ecl": ecl}

    def case(self, unset_acc=False, eapi=None):
        rng = self.rng
        st = {"t": 1}
        eapi = rng.randrange(9) if eapi is None else eapi
        while True:
            necl = rng.choice((0, 1, 2, 2, 3, 3, 4))
            ecl = {}
            for j in range(necl, 0, -1):
                avail = list(range(j + 1, necl + 1))
                ecl[j] = self.ops(st, eapi, rng.randint(1, 6), avail if rng.random() < 0.6 else [], True, unset_acc)
            eb = self.ops(st, eapi, rng.randint(3, 10), list(range(1, necl + 1)), False, unset_acc)
            c = {"eapi": eapi, "ebuild": eb, "ecl": ecl}
            if tree_size(c) <= 14:
                r = rng.random()
                if r < 0.08:    # a value that starts with something echo would take as an option
                    sp = rng.choice((9001, 9002, 9003, 9004, 9005))
                    for o in eb:
                        if o[0] == "A" and o[1] == 0:
                            o[2].insert(0, sp)
                            break
                    else:
                        eb.insert(0, ("A", 0, [sp, st["t"]]))
                elif r < 0.12:  # a whole value that is the word `unset`
                    eb.append(("A", rng.choice((9, 10, 11, 12, 13, 14)), [9006]))
                return c
            st = {"t": 1}


def tree_size(c):
    def ops(os_):
        return sum(1 + sum(1 + ops(c["ecl"][e]) for e in o[1]) if o[0] == "I" else 1 for o in os_)
    return ops(c["ebuild"])


# tokens that the emission code must not treat specially: echo options (IUSE="-e foo" is a legal IUSE with
# a default-off flag named e) and the word the emptiness test of __dump_metadata_keys used as its sentinel
SPECIAL_TOK = {9001: "-n", 9002: "-e", 9003: "-E", 9004: "-ne", 9005: "-x", 9006: "unset"}
SPECIAL_REV = {v: k for k, v in SPECIAL_TOK.items()}


def tok_text(v, t):
    if t in SPECIAL_TOK:
        return SPECIAL_TOK[t]
    return f"cat/t{t}" if v in DEPV else f"t{t}"


def render_ops(ops, cid, in_eclass):
    lines = []
    for o in ops:
        if o[0] == "A":
            lines.append('%s="%s"' % (VARS[o[1]], " ".join(tok_text(o[1], t) for t in o[2])))
        elif o[0] == "P":
            lines.append('%s+="%s"' % (VARS[o[1]], "".join(" " + tok_text(o[1], t) for t in o[2])))
        elif o[0] == "U":
            lines.append("unset %s" % VARS[o[1]])
        elif o[0] == "F":
            if o[2] and in_eclass:
                lines.append("${ECLASS}_%s() { :; }\nEXPORT_FUNCTIONS %s" % (o[1], o[1]))
            else:
                lines.append("%s() { :; }" % o[1])
        elif o[0] == "I":
            lines.append("inherit " + " ".join(f"c{cid}e{e}" for e in o[1]))
    return "\n".join(lines) + "\n"


def coq_ops(c, ops):
    out = []
    for o in ops:
        if o[0] == "A":
            out.append("A %d %s" % (o[1], ntl(o[2])))
        elif o[0] == "P":
            out.append("P %d %s" % (o[1], ntl(o[2])))
        elif o[0] == "U":
            out.append("U %d" % o[1])
        elif o[0] == "F":
            out.append("F %s" % cstr(o[1]))
        else:
            out.append("I (mkecls %s)" % clist(["(%d, %s)" % (e, coq_ops(c, c["ecl"][e])) for e in o[1]], "N * prog"))
    return "(mkprog %s)" % clist(out, "op")


def ntl(l):
    return "[" + ";".join(map(str, l)) + "]" if l else "[]"


def coq_case(c):
    return "(%d, %s)" % (c["eapi"], coq_ops(c, c["ebuild"]))


# ---- the statement's oracle, in Python (used to name disagreeing keys / classify)
def replay_ops(v, ops, cur=None):
    for o in ops:
        if o[0] == "A" and o[1] == v:
            cur = list(o[2])
        elif o[0] == "P" and o[1] == v:
            cur = (cur or []) + list(o[2])
        elif o[0] == "U" and o[1] == v:
            cur = None
    return cur


def sourcings(c, ops):
    out = []
    for o in ops:
        if o[0] == "I":
            for e in o[1]:
                out.extend(sourcings(c, c["ecl"][e]))
                out.append(e)
    return out


def flatten(c, ops):
    out = []
    for o in ops:
        if o[0] == "I":
            for e in o[1]:
                out.extend(flatten(c, c["ecl"][e]))
        else:
            out.append(o)
    return out


def spec_py(c, phases_of):
    eapi = c["eapi"]
    keys = {}
    src = sourcings(c, c["ebuild"])
    for v in range(len(VARS)):
        if pms_localised(eapi, v):
            own = replay_ops(v, c["ebuild"])
            if v == 3 and eapi <= 3 and own is None:
                own = replay_ops(2, c["ebuild"]) or []
            val = list(own or [])
            for e in src:
                val += replay_ops(v, c["ecl"][e]) or []
        else:
            val = replay_ops(v, flatten(c, c["ebuild"])) or []
        keys[v] = sorted(val)
    fs = {o[1] for o in flatten(c, c["ebuild"]) if o[0] == "F"}
    ph = sorted(s for s, f in phases_of(eapi).items() if f in fs)
    return keys, sorted(set(src)), ph or ["-"]


def known_class_keys(c):
    """keys of which the known-finding class 'eclass-unsets-accumulated-var' may disturb the value"""
    eapi = c["eapi"]
    used = set(sourcings(c, c["ebuild"]))  # only eclasses that are actually sourced count
    un = {o[1] for e in used for o in c["ecl"][e] if o[0] == "U"}
    ks = {v for v in un if v < 7 or v in (7, 8)}
    if 2 in ks and eapi <= 3:
        ks.add(3)  # RDEPEND defaults to the (now disturbed) ebuild-level DEPEND
    return ks


# =========================================================================== implementation drivers
def canon(md, inherited, inherit, phases, eapi_obj):
    """metadata mapping + attributes -> the plain value compared with run_meta"""
    if isinstance(md, Err):
        return md
    keys = []
    for i, k in enumerate(VARS):
        val = md.get(k)
        if val is None:
            continue
        toks = []
        for t in val.split():
            m = re.fullmatch(r"(?:cat/)?t(\d+)", t)
            toks.append(int(m.group(1)) if m else SPECIAL_REV.get(t, 10 ** 6))
        if toks:
            keys.append([i, sorted(toks)])
    extra = sorted(k for k in md if k not in VARS and k not in ("DEFINED_PHASES", "INHERIT", "EAPI", "_eclasses_", "_chf_"))
    if extra:
        keys.append([99, [0]])  # a key that must not be there (e.g. INHERITED left in place)

    def ids(names):
        out = []
        for n in names:
            m = re.fullmatch(r"c\d+e(\d+)", n)
            out.append(int(m.group(1)) if m else 10 ** 6)
        return sorted(out)
    raw = sorted(md.get("DEFINED_PHASES", "").split())
    if set(phases) != set(raw) - {"-"}:
        raw.append("attribute-disagrees")
    return [keys, ids(inherited), ids(inherit), raw]


DRIVER = r'''
export PKGCORE_EBD_PATH="$1"; ECLDIR="$2"; LIST="$3"; OUT="$4"
exec 2>>"$OUT/stderr.log"
__timed_call() { "$@"; }   # as ebuild-daemon.bash defines it when PKGCORE_PERF_DEBUG is off
source "${PKGCORE_EBD_PATH}"/ebuild-daemon-lib.bash || exit 70
source "${PKGCORE_EBD_PATH}"/exit-handling.bash || exit 71
source "${PKGCORE_EBD_PATH}"/isolated-functions.bash || exit 72
source "${PKGCORE_EBD_PATH}"/ebuild.bash || exit 73
source "${PKGCORE_EBD_PATH}"/eapi/depend.bash || exit 74
# the ONLY stubs: the two transport functions of the python<->bash channel.  A request_inherit
# is answered the way processor.inherit_handler answers it: "path" then the eclass path.
__ebd_write_line() {
	if [[ $1 == "request_inherit "* ]]; then __c49_req=${1#request_inherit }; __c49_n=0
	else echo "$*" >&${PKGCORE_EBD_WRITE_FD}; fi
}
__ebd_read_line() {
	if [[ ${__c49_n} == 0 ]]; then printf -v "$1" '%s' path; __c49_n=1
	else printf -v "$1" '%s' "${ECLDIR}/${__c49_req}.eclass"; __c49_n=2; fi
}
while IFS=$'\t' read -r idx eapi acc fg compat ebuild keys phases; do
	(
		exec {PKGCORE_EBD_WRITE_FD}>"$OUT/$idx.out"
		export EAPI=$eapi PKGCORE_ACCUMULATE_PROPERTIES_RESTRICT=$acc PKGCORE_GLOBAL_FAILGLOB=$fg PKGCORE_BASH_COMPAT=$compat
		PKGCORE_METADATA_KEYS=( $keys ); PKGCORE_EBUILD_PHASES=( $phases )
		CATEGORY=cat PF=p$idx-1 P=p$idx-1 PN=p$idx PV=1 PVR=1 PR=r0 EBUILD=$ebuild WORKDIR=/nonexistent T=/nonexistent
		PKGCORE_QA_SUPPRESSED=false
		command_not_found_handle() { die "external commands disallowed during metadata regen: '${*}'"; }
		PATH=/dev/null
		__execute_phases depend && echo ok >"$OUT/$idx.rc"
	)
done <"$LIST"
'''


class Impl:
    def __init__(self, chk, root):
        from pkgcore.ebuild import processor as P, repository
        from pkgcore.ebuild.eapi import get_eapi
        self.P, self.chk, self.root = P, chk, root
        self.get_eapi = get_eapi
        for d in ("profiles", "metadata", "eclass", "cat"):
            os.makedirs(f"{root}/{d}")
        Path(f"{root}/profiles/repo_name").write_text("c49\n")
        Path(f"{root}/metadata/layout.conf").write_text("masters =\ncache-formats =\n")
        self.repository = repository
        self.repo = None
        self.devnull = open(os.devnull, "w")
        self.ebps = []

    def phases_of(self, eapi):
        return dict(self.get_eapi(str(eapi)).phases)

    def write_case(self, i, c):
        for e, ops in c["ecl"].items():
            Path(f"{self.root}/eclass/c{i}e{e}.eclass").write_text(render_ops(ops, i, True))
        os.makedirs(f"{self.root}/cat/p{i}", exist_ok=True)
        Path(f"{self.root}/cat/p{i}/p{i}-1.ebuild").write_text(f"EAPI={c['eapi']}\n" + render_ops(c["ebuild"], i, False))

    def open_repo(self):
        self.repo = self.repository.UnconfiguredTree(self.root)

    def pkg(self, i):
        return self.repo.package_class("cat", f"p{i}", "1")

    # ---- real daemon
    def new_ebp(self):
        ebp = self.P.EbuildProcessor(False, False, fd_pipes={1: self.devnull.fileno(), 2: self.devnull.fileno()})
        self.ebps.append(ebp)
        return ebp

    def daemon_meta(self, ebp, i):
        pkg = self.pkg(i)
        md = dict(pkg._fetch_metadata(ebp=ebp))
        object.__setattr__(pkg, "data", dict(md))
        return canon(md, list(pkg.inherited), list(pkg.inherit), list(pkg.defined_phases), pkg.eapi)

    def close(self):
        for ebp in self.ebps:
            try:
                ebp.shutdown_processor(force=True)
            except Exception:  # noqa: BLE001
                pass
        self.devnull.close()

    # ---- direct bash
    def direct_start(self, idxs, cases, nsh):
        """start the real bash functions on the listed case indices (background processes)"""
        out = Path(self.root) / "direct_out"
        out.mkdir(exist_ok=True)
        drv = Path(self.root) / "driver.bash"
        drv.write_text(DRIVER)
        rows = []
        for i in idxs:
            e = self.get_eapi(str(cases[i]["eapi"]))
            env = e.ebd_env
            rows.append("\t".join([str(i), str(cases[i]["eapi"]), env["PKGCORE_ACCUMULATE_PROPERTIES_RESTRICT"],
                                   env["PKGCORE_GLOBAL_FAILGLOB"], env["PKGCORE_BASH_COMPAT"],
                                   f"{self.root}/cat/p{i}/p{i}-1.ebuild",
                                   " ".join(tuple(e.metadata_keys)), " ".join(tuple(e.phases.values()))]))
        nsh = max(1, min(nsh, len(rows) // 8))
        procs = []
        for k in range(nsh):
            lst = Path(self.root) / f"direct_{k}.tsv"
            lst.write_text("".join(r + "\n" for r in rows[k::nsh]))
            procs.append(subprocess.Popen(["bash", str(drv), str(EBD), f"{self.root}/eclass", str(lst), str(out)],
                                          stdin=subprocess.DEVNULL, stdout=subprocess.DEVNULL, stderr=subprocess.DEVNULL,
                                          env={"PATH": os.environ.get("PATH", "/usr/bin:/bin"), "LC_ALL": "C"}))
        return procs, out

    def direct_finish(self, started, idxs):
        procs, out = started
        for p in procs:
            try:
                p.wait(timeout=1500)
            except subprocess.TimeoutExpired:
                p.kill()
        res = {}
        fac = self.repo.package_class
        for i in idxs:
            f = out / f"{i}.out"
            if not (out / f"{i}.rc").exists() or not f.exists():
                res[i] = Err("bash-failed")
                continue
            lines = f.read_text().splitlines()
            res[i] = impl_call(self._post, fac, i, lines)
        return res

    def _post(self, fac, i, lines):
        keys = {}
        for ln in lines:  # EbuildProcessor.generic_handler + get_keys.receive_key
            if not ln.startswith("key "):
                continue
            kv = ln[4:].split("=", 1)
            if len(kv) != 2:
                raise ValueError("bad key line")
            keys[kv[0]] = kv[1]

        class FakeProc:
            def get_keys(self, package_inst, eclass_cache):
                return keys
        pkg = self.pkg(i)
        md = dict(fac._update_metadata(pkg, ebp=FakeProc()))
        object.__setattr__(pkg, "data", dict(md))
        return canon(md, list(pkg.inherited), list(pkg.inherit), list(pkg.defined_phases), pkg.eapi)


class _Alarm(Exception):
    pass


def _guard(secs, f, *a):
    def h(*_):
        raise _Alarm()
    old = signal.signal(signal.SIGALRM, h)
    signal.alarm(secs)
    try:
        return f(*a)
    finally:
        signal.alarm(0)
        signal.signal(signal.SIGALRM, old)


# =========================================================================== corpus of fixed shapes
def fixed_cases():
    A, Pp, U, F, I = "A", "P", "U", "F", "I"
    out = []
    for eapi in range(9):
        # everything once: own value, nested eclasses, phase functions, PROPERTIES/RESTRICT, RDEPEND default
        out.append({"eapi": eapi, "ecl": {
            1: [(A, 0, [10]), (A, 2, [11]), (I, [2]), (Pp, 0, [12]), (A, 8, [13]), (F, "src_compile", False), (A, 7, [14]),
                (A, 1, [15]), (A, 5, [16]), (A, 6, [17])],
            2: [(A, 0, [20]), (A, 3, [21]), (A, 8, [22]), (F, "pkg_setup", True), (A, 4, [23]), (A, 13, [24]),
                (F, "pkg_pretend", False), (F, "src_prepare", False)]},
            "ebuild": [(A, 0, [1]), (A, 2, [2]), (A, 8, [3]), (I, [1]), (A, 13, [4]), (Pp, 2, [5]), (A, 7, [6]), (A, 9, [7]),
                       (A, 1, [8]), (A, 5, [9]), (A, 6, [30]), (A, 4, [31])]})
    # one case per accumulated variable (indices 9..17): ONLY that variable is ever set - by the ebuild, by two
    # eclasses of one inherit line and by a nested pair - so nothing else can lend it a separator
    for v in range(9):
        out.append({"eapi": 8, "ecl": {1: [(A, v, [10])], 2: [(A, v, [11, 12])], 3: [(A, v, [13]), (I, [4]), (Pp, v, [14])],
                                       4: [(A, v, [15])]},
                    "ebuild": [(A, v, [1]), (I, [1, 2]), (I, [3]), (Pp, v, [2])]})
    # RDEPEND default boundary: unset / empty / set after inherit
    for eapi in (3, 4):
        out.append({"eapi": eapi, "ecl": {1: [(A, 2, [5]), (A, 3, [6])]}, "ebuild": [(A, 2, [1, 2]), (I, [1])]})
        out.append({"eapi": eapi, "ecl": {1: [(A, 2, [5])]}, "ebuild": [(A, 2, [1]), (A, 3, []), (I, [1])]})
        out.append({"eapi": eapi, "ecl": {1: [(A, 3, [5])]}, "ebuild": [(A, 3, [1]), (I, [1]), (U, 3), (A, 2, [2])]})
    # two eclasses on one inherit line: the first sets every accumulated variable, the second none / some
    for eapi in (5, 8):
        out.append({"eapi": eapi, "ecl": {1: [(A, v, [10 + v]) for v in range(9)], 2: [(A, 13, [30])],
                                          3: [(Pp, v, [40 + v]) for v in (0, 3, 6, 8)]},
                    "ebuild": [(I, [1, 2]), (I, [1, 3])] + [(A, v, [50 + v]) for v in (1, 4, 7)]})
    # the same eclass twice, diamond, no phases at all
    out.append({"eapi": 7, "ecl": {1: [(I, [3]), (A, 0, [1])], 2: [(I, [3]), (A, 0, [2])], 3: [(A, 0, [3]), (A, 2, [4])]},
                "ebuild": [(I, [1, 2]), (I, [3])]})
    out.append({"eapi": 5, "ecl": {}, "ebuild": [(A, 13, [1]), (F, "helper_fn", False), (F, "src_configure", False)]})
    out.append({"eapi": 1, "ecl": {}, "ebuild": [(A, 13, [1]), (F, "src_configure", False), (F, "pkg_pretend", False)]})
    # values the emission must pass through untouched (echo options, the word `unset`)
    out.append({"eapi": 7, "ecl": {1: [(A, 0, [5])]}, "ebuild": [(A, 0, [9002, 1]), (I, [1]), (A, 13, [2])]})
    out.append({"eapi": 5, "ecl": {}, "ebuild": [(A, 0, [9001, 1]), (A, 9, [9006]), (A, 13, [2]), (A, 11, [3])]})
    # known finding shapes
    out.append({"eapi": 7, "ecl": {1: [(A, 2, [5]), (I, [2])], 2: [(U, 2)]}, "ebuild": [(A, 2, [1]), (I, [1])]})
    out.append({"eapi": 0, "ecl": {1: [(U, 2)], 2: [(A, 0, [9])]}, "ebuild": [(A, 2, [1]), (I, [1, 2])]})
    return out


# =========================================================================== main
def main(chk: Check):
    chk.rule("random ebuilds (EAPI 0-8, 3-10 statements) with 0-4 eclasses forming an inherit DAG (<=14 sourced "
             "nodes), statements VAR=, VAR+=, unset, phase/non-phase function definitions (incl. EXPORT_FUNCTIONS), "
             "inherit of 1-2 eclasses, every token unique; non-trivial = the ebuild inherits at least one eclass and "
             "some accumulated variable is set both by the ebuild and by an eclass, or an eclass inherits another")
    try:
        tables.regenerate(sys.modules[__name__])
    except TableError as e:
        chk.violation("table", {"what": f"cannot regenerate Tables_C49.v from the source: {e}"}, no_input=True)
    chk.check_fingerprint(ANCHORS)   # first: it decides the budgets

    def build_and_check():
        # runs in the main thread while the daemons and the bash drivers are already working
        ok = chk.build(["C49/Prop_C49.vo"])
        if ok:
            chk.check_assumptions("C49/Prop_C49.v")
        chk.lint(["C49"])
        return ok

    env_n = os.environ.get("VERIF_C49_CASES")
    n_daemon = chk.n(3, 120)      # random cases also run through the real daemon (after the fixed ones)
    n_direct = chk.n(60, 1200)    # random cases run through the directly driven bash functions
    if env_n:
        n_daemon, n_direct = (int(x) for x in env_n.split(","))
    g = Gen(chk.rng)
    cases = fixed_cases()
    nfixed = len(cases)
    for k in range(n_direct):
        cases.append(g.solo_case() if k % 4 == 1 else g.case(unset_acc=(k % 8 == 7)))
    # quick: the nine per-EAPI "everything once" cases + the two known-finding shapes + a few random ones go
    # through the real daemon (a daemon round trip costs seconds on a loaded machine); thorough: all fixed + 120
    fixed_d = list(range(nfixed)) if ((chk.thorough or chk.fingerprint_changed) and not env_n) else list(range(9)) + [9 + 6, 9 + chk.seed % 6] + [nfixed - 4, nfixed - 3, nfixed - 2, nfixed - 1]
    daemon_idx = fixed_d + list(range(nfixed, min(len(cases), nfixed + n_daemon)))
    if env_n and n_daemon == 0:
        daemon_idx = []

    root = tempfile.mkdtemp(prefix="verif_C49_repo_")
    impl = None
    try:
        impl = Impl(chk, root)
        for i, c in enumerate(cases):
            impl.write_case(i, c)
        impl.open_repo()
        run(chk, impl, cases, daemon_idx, build_and_check)
    finally:
        if impl is not None:
            impl.close()
        shutil.rmtree(root, ignore_errors=True)


def nontrivial_key(c):
    src = sourcings(c, c["ebuild"])
    if not src:
        return None
    nested = any(o[0] == "I" for e in set(src) for o in c["ecl"][e])
    both = False
    for v in range(9):
        if pms_localised(c["eapi"], v) and replay_ops(v, c["ebuild"]) and any(replay_ops(v, c["ecl"][e]) for e in src):
            both = True
    if nested or both:
        return repr((c["eapi"], c["ebuild"], sorted(c["ecl"].items())))
    return None


def run(chk, impl, cases, daemon_idx, build_and_check):
    import time as _t
    all_idx = list(range(len(cases)))
    # ---- missing-eclass cases (malformed stream): run last on two of the daemons (the daemon is shut down by
    #      processor.inherit_handler, so they must be the last thing a daemon does)
    miss = []
    for eapi in (0, 8):
        c = {"eapi": eapi, "ecl": {}, "ebuild": [("A", 0, [1]), ("I", [7])]}
        i = len(cases) + len(miss)
        impl.write_case(i, c)
        miss.append((i, c))
    impl.open_repo()
    # ---- direct stream (all cases), in background bash processes
    chk.note("t_setup=%.1f" % (_t.time() - chk.t0))
    started = impl.direct_start(all_idx, cases, 8 if len(all_idx) < 400 else 12)
    chk.count("direct", len(all_idx))
    # ---- daemon stream
    nthreads = (8 if len(daemon_idx) < 40 else 6) if daemon_idx else 0

    def worker(k):
        t0 = _t.time()
        ebp = impl.new_ebp()
        out = {("t_init", k): round(_t.time() - t0, 1)}
        for i in daemon_idx[k::nthreads]:
            out[i] = impl_call(impl.daemon_meta, ebp, i, kinds={"*": "MetadataException"})
        if k < len(miss):
            i = miss[k][0]
            out[("miss", k)] = impl_call(lambda: dict(impl.pkg(i)._fetch_metadata(ebp=ebp)))
        return out
    daemon = {}
    if nthreads:
        with cf.ThreadPoolExecutor(max_workers=nthreads) as ex:
            futs = [ex.submit(worker, k) for k in range(nthreads)]
            ok = build_and_check()
            chk.note("t_after_build=%.1f" % (_t.time() - chk.t0))
            for f in futs:
                daemon.update(f.result())
    else:
        ok = build_and_check()
    chk.count("daemon", len(daemon_idx))
    chk.note("daemon start-up times: %s" % [daemon.get(("t_init", k)) for k in range(nthreads)])
    chk.note("t_after_daemon=%.1f" % (_t.time() - chk.t0))
    direct = impl.direct_finish(started, all_idx)
    chk.note("t_after_direct=%.1f" % (_t.time() - chk.t0))
    for i in all_idx:
        k = nontrivial_key(cases[i])
        if k:
            chk.nontrivial(k)
    for i in (daemon_idx[:2] + daemon_idx[-2:] if daemon_idx else all_idx[:2]):
        chk.sample({"stream": "daemon" if daemon_idx else "direct", **describe(cases[i], i),
                    "impl": daemon[i] if daemon_idx else direct[i]})
    if nthreads:
        for k, (i, c) in enumerate(miss):
            chk.count("missing", 1)
            r = daemon.get(("miss", k))
            if r != Err("MetadataException"):
                chk.violation("property", {"what": "inherit of a nonexistent eclass did not fail metadata generation",
                                           "input": {**describe(c, i), "got": r}})

    # ---- daemon vs direct must agree (two ways of driving the same code)
    n_dis = 0
    for i in daemon_idx:
        if daemon[i] != direct[i]:
            n_dis += 1
            if n_dis <= 2:
                chk.violation("correspondence",
                              {"what": "the real daemon and the directly driven bash functions disagree on the same ebuild",
                               "input": describe(cases[i], i), "daemon": daemon[i], "direct": direct[i]}, no_input=True)

    # ---- Coq: model (A) and spec (B), one cases stream: daemon results first, then direct results
    evals = ["mismatches run_meta cases", "mismatches spec_meta cases"]
    rows = [("daemon", i, daemon[i]) for i in daemon_idx] + [("direct", i, direct[i]) for i in all_idx]
    shard = 18 if len(rows) <= 200 else 120
    r = None
    if ok:
        r = chk.coq_eval("meta", IMPORTS, "N * prog", [(coq_case(cases[i]), res) for _, i, res in rows], evals,
                         shard=shard, preamble="Open Scope N_scope.")
    chk.note("t_after_coq=%.1f" % (_t.time() - chk.t0))
    a_bad, b_bad = [], []
    if r is not None:
        a_bad = [rows[j] for j in r[0]]
        b_bad = [rows[j] for j in r[1]]
    # the statement's oracle again, in Python (also works when the Coq development no longer builds)
    coq_b = {(st, i) for st, i, _ in b_bad}
    for st, i, res in rows:
        if (st, i) not in coq_b and bad_keys(cases[i], res, impl):
            b_bad.append((st, i, res))
            if r is not None:
                chk.note(f"python oracle rejects case {i} ({st}) that Spec_C49.spec_meta accepts")

    # ---- property failures (B)
    new_failures = 0
    n_known = 0
    reported = set()
    for stream, i, res in b_bad:
        c = cases[i]
        bad = bad_keys(c, res, impl)
        kk = known_class_keys(c)
        if bad and all(isinstance(b, int) and b in kk for b in bad):
            if chk.known_finding("eclass-unsets-accumulated-var",
                                 {"stream": stream, **describe(c, i), "implementation": res,
                                  "expected": spec_view(c, impl), "disagreeing_keys": [VARS[b] for b in bad]}):
                n_known += 1
                continue
        if i in reported:
            continue
        reported.add(i)
        new_failures += 1
        if new_failures <= 3:
            chk.violation("property",
                          {"what": "generated metadata is not the statement's combination of ebuild and eclass values "
                                   "(disagreeing: %s)" % ", ".join(VARS[b] if isinstance(b, int) else str(b) for b in bad),
                           "input": describe(c, i), "stream": stream, "implementation": res,
                           "expected": spec_view(c, impl)})
    # ---- model disagreements (A)
    seen = set()
    for stream, i, res in a_bad:
        if i in seen or len(seen) >= 3:
            continue
        seen.add(i)
        chk.violation("correspondence",
                      {"what": f"implementation and Model_C49.run_meta disagree (stream {stream}); the theorems of "
                               "Prop_C49 no longer speak about this code",
                       "input": describe(cases[i], i), "coq_input": coq_case(cases[i]), "implementation": res},
                      no_input=(new_failures == 0))
    chk.note(f"cases in which the known finding showed: {n_known}")


def describe(c, i):
    return {"case": {"eapi": c["eapi"], "ebuild": c["ebuild"], "ecl": {str(k): v for k, v in c["ecl"].items()}},
            "eapi": c["eapi"], "ebuild": f"EAPI={c['eapi']}\n" + render_ops(c["ebuild"], i, False),
            "eclasses": {f"c{i}e{e}": render_ops(o, i, True) for e, o in sorted(c["ecl"].items())}}


def spec_view(c, impl):
    keys, inh, ph = spec_py(c, impl.phases_of)
    mk = set(impl.get_eapi(str(c["eapi"])).metadata_keys)
    return {"keys": {VARS[v]: t for v, t in keys.items() if t and VARS[v] in mk}, "inherited": inh, "phases": ph}


def bad_keys(c, res, impl):
    """which parts of the implementation's result differ from the statement's oracle"""
    if isinstance(res, Err):
        return ["error:" + res.kind]
    keys, inh, ph = spec_py(c, impl.phases_of)
    mk = set(impl.get_eapi(str(c["eapi"])).metadata_keys)
    got = {k: t for k, t in res[0]}
    bad = []
    for v in range(len(VARS)):
        exp = keys[v] if VARS[v] in mk else []
        if got.get(v, []) != exp:
            bad.append(v)
    if 99 in got:
        bad.append("unexpected-key")
    if res[1] != inh:
        bad.append("INHERITED")
    if res[2] != sorted(set(e for o in c["ebuild"] if o[0] == "I" for e in o[1])):
        bad.append("INHERIT")
    if res[3] != ph:
        bad.append("DEFINED_PHASES")
    return bad


def replay(chk, data):
    """re-run one recorded case: real daemon, directly driven bash, the statement's oracle, model and spec in Coq"""
    inp = (data.get("detail") or {}).get("input") or {}
    raw = inp.get("case")
    if not raw:
        print("replay: no structured case recorded in this file (see detail)")
        return
    def op(o):
        return tuple(list(o[:2]) + [list(o[2])]) if o[0] in ("A", "P") else tuple(o)
    c = {"eapi": raw["eapi"], "ebuild": [op(o) for o in raw["ebuild"]],
         "ecl": {int(k): [op(o) for o in v] for k, v in raw["ecl"].items()}}
    root = tempfile.mkdtemp(prefix="verif_C49_replay_")
    impl = None
    try:
        impl = Impl(chk, root)
        impl.write_case(0, c)
        impl.open_repo()
        st = impl.direct_start([0], [c], 1)
        d = impl_call(impl.daemon_meta, impl.new_ebp(), 0, kinds={"*": "MetadataException"})
        x = impl.direct_finish(st, [0])[0]
        print("ebuild:\n" + describe(c, 0)["ebuild"])
        for k, v in describe(c, 0)["eclasses"].items():
            print(f"{k}.eclass:\n{v}")
        print("implementation (daemon):", d)
        print("implementation (direct):", x)
        print("statement's oracle      :", spec_view(c, impl))
        print("disagreeing keys        :", [VARS[b] if isinstance(b, int) else b for b in bad_keys(c, d, impl)])
        if chk.build(["C49/Spec_C49.vo"]):
            r = chk.coq_eval("replay", IMPORTS, "N * prog", [(coq_case(c), d)],
                             ["mismatches run_meta cases", "mismatches spec_meta cases"], preamble="Open Scope N_scope.")
            if r is not None:
                print("Model_C49.run_meta agrees with the implementation:", not r[0])
                print("Spec_C49.spec_meta accepts the implementation's result:", not r[1])
    finally:
        if impl is not None:
            impl.close()
        shutil.rmtree(root, ignore_errors=True)
