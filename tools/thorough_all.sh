#!/bin/sh
# thorough_all.sh [-P n] [ids…] — run every check's thorough tier (for background runs via `vp run`); summary on stdout
P=3; if [ "$1" = "-P" ]; then P=$2; shift 2; fi
cd "$(dirname "$0")/.."
[ -f coq/Makefile ] || ./setup.sh >/dev/null 2>&1
mkdir -p /tmp/thorough_$$
{ if [ $# -gt 0 ]; then printf '%s\n' "$@"; else ls manifest.d | grep '^C' | sed 's/.json//'; fi; } | xargs -P $P -I{} sh -c 's=$(date +%s); timeout 5400 ./check {} --tier thorough > /tmp/thorough_'$$'/{}.log 2>&1; rc=$?; e=$(date +%s); echo "{} rc=$rc wall=$((e-s))s $(grep -c "^VIOLATION" /tmp/thorough_'$$'/{}.log) violations; $(grep "^\[{}\]" /tmp/thorough_'$$'/{}.log)"; [ $rc -ne 0 ] && grep "^VIOLATION" /tmp/thorough_'$$'/{}.log | head -3'
rm -rf /tmp/thorough_$$
